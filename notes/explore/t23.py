from gen import *
from Bio.Restriction import BpiI
V, M = mk_classes(BpiI)
v = V(CircularRecord(Seq("CCATGCTTGTCTTCCACAGAAGACTTCGTAGG"), "vector"))
ph = str(v.placeholder_sequence().seq); tg = str(v.target_sequence().seq)
w = str(v.record.seq)
print(v.overhang_start(), v.overhang_end(), ph, tg, len(ph)+len(tg)==len(w), ph in w+w, canon(ph+tg)==canon(w))
