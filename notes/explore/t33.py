from gen import *
import collections
from Bio.Restriction import BsaI, BbsI
rng = random.Random(21)
def parts(loc): return [(int(p.start), int(p.end), p.strand) for p in loc.parts]
def rand_feature(n, i):
    st = rng.choice([1,-1,None])
    r = rng.random()
    if r < 0.55:
        s = rng.randrange(0, n); e = min(n, s + rng.randint(1, max(1, n//3)))
        loc = FeatureLocation(s,e,st)
    elif r < 0.75:
        a = rng.randrange(max(1,n-6), n); b = rng.randint(1, 6)
        loc = CompoundLocation([FeatureLocation(a,n,st), FeatureLocation(0,min(b,a),st)])
    else:
        ps = []
        s = rng.randrange(0, n-4)
        for _ in range(rng.randint(2,3)):
            e = min(n, s + rng.randint(1,4)); ps.append((s,e)); s = e + rng.randint(0,3)
            if s >= n: break
        if len(ps) < 2: loc = FeatureLocation(ps[0][0], ps[0][1], st)
        else: loc = CompoundLocation([FeatureLocation(a,b,st) for a,b in ps])
    return SeqFeature(loc, type=rng.choice(["CDS","misc_feature","promoter"]), qualifiers={"label":["f%d"%i], "note":[str(rng.random())]})
bad = collections.Counter(); stats = collections.Counter()
for enz in (BsaI, BbsI):
  V, M = mk_classes(enz)
  for it in range(400):
    nm = rng.randint(1,3)
    (vec, vd), mods, exp = gen_assembly(rng, enz, nm)
    recs = []
    # canonical (unrotated) strings and fragment starts
    site = enz.site; off = enz.fst5 - len(site); k = abs(enz.ovhg)
    inputs = []
    for i,(m,d) in enumerate(mods):
        fs = len(site)+off; L = k + len(d["t"])
        inputs.append(("m%d"%i, m, fs, L))
    # vector canonical: o3 + b + o5 + y + rc(s) + p + s + x ; fragment = o3+b starting at 0, L = k+len(b)
    inputs.append(("v", vec, 0, k+len(vd["b"])))
    ents = []; meta = []
    for name, w, fs, L in inputs:
        n = len(w)
        rec = CircularRecord(Seq(w), name, annotations={"topology":"circular","molecule_type":"DNA"})
        for j in range(rng.randint(0,5)): rec.features.append(rand_feature(n, j))
        for j in range(rng.randint(0,4)):
            a = rng.randrange(-min(n,7)+1, n); b = rng.randint(max(a, 0)+1, max(max(a,0)+1, a+min(n, 8)))
            rec.features.append(SeqFeature(FeatureLocation(a, b, rng.choice([1,-1,None])), type="wf", qualifiers={"label":["wf%d"%j]}))
        # boundary-touching features
        if rng.random()<0.5: rec.features.append(SeqFeature(FeatureLocation(fs, min(n,fs+L), 1), type="exact", qualifiers={"label":["exact"]})) if fs+L<=n else None
        if rng.random()<0.5 and fs+L+1<=n: rec.features.append(SeqFeature(FeatureLocation(fs, fs+L+1, 1), type="over", qualifiers={"label":["over"]}))
        if rng.random()<0.5 and fs>=1: rec.features.append(SeqFeature(FeatureLocation(fs-1, fs+2, -1), type="under", qualifiers={"label":["under"]}))
        kk = rng.randrange(n)
        rrec = rec >> kk
        if rng.random() < 0.3: rrec = (rrec >> rng.randrange(n))  # double rotation -> over-the-end coords
        meta.append((name, rec, fs, L, n))
        ents.append(rrec)
    v = V(ents[-1]); ms = [M(e) for e in ents[:-1]]
    try: p = v.assemble(*ms)
    except Exception as e:
        bad["exc:"+type(e).__name__] += 1; continue
    if canon(str(p.seq)) != canon(exp): bad["seq"] += 1; continue
    # expected features: product layout = m0 frag, m1 frag, ..., v frag
    offset = 0; expected = []
    for name, rec, fs, L, n in meta:
        frag = set((fs + t) % n for t in range(L))
        for f in rec.features:
            ps = parts(f.location)
            pos = [ [t % n for t in range(s,e)] for s,e,_ in ps]
            if all(set(q) <= frag for q in pos):
                mapped = tuple(sorted((tuple(sorted(offset + ((t - fs) % n) for t in q)), st) for q,(s,e,st) in zip(pos, ps)))
                expected.append((f.type, repr(sorted(f.qualifiers.items())), mapped)); stats["kept"] += 1
            else: stats["dropped"] += 1
        offset += L
    got = []
    N = len(p)
    for f in p.features:
        if f.type == "source" and "plasmid" in f.qualifiers: continue
        ps = parts(f.location)
        got.append((f.type, repr(sorted(f.qualifiers.items())), tuple(sorted((tuple(sorted(t % N for t in range(s,e))), st) for s,e,st in ps))))
    if sorted(expected) != sorted(got):
        bad["features"] += 1
        if bad["features"] <= 3:
            print("EXP", sorted(set(expected)-set(got))); print("GOT", sorted(set(got)-set(expected)))
print(bad, stats)
