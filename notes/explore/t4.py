from boot import *
from Bio.Restriction import BpiI
from Bio.SeqFeature import Reference
import copy
class MV(AbstractVector): cutter = BpiI
class MM(AbstractModule): cutter = BpiI
seqv = Seq("CCATGCTTGTCTTCCACAGAAGACTTCGTAGG")
seqm1 = Seq("GAAGACTTATGCTATACGTATTGTCTTC")  # wait CGTA..ATGC? check
v = MV(CircularRecord(seqv, "vector"))
m = MM(CircularRecord(seqm1, "mod1"))
print(v.overhang_start(), v.overhang_end(), m.overhang_start(), m.overhang_end())
seqm = Seq("GAAGACTTATGCCACACGTATTGTCTTC")
ref = Reference(); ref.title="T1"; ref.authors="A"
ref2 = Reference(); ref2.title="T2"
rec = CircularRecord(seqm, "mod1", annotations={"references":[ref, ref2], "molecule_type":"DNA"})
rec.features.append(SeqFeature(FeatureLocation(13,16,1), type="misc_feature", qualifiers={"citation":["[2]"], "label":["x"]}))
m = MM(rec)
print(m.is_valid(), m.overhang_start(), m.overhang_end(), m.target_sequence().seq)
try:
    p = v.assemble(m)
    print(p.seq, p.annotations, [ (f.type,f.location,f.qualifiers) for f in p.features])
except Exception as e:
    import traceback; traceback.print_exc()
print("input after:", rec.features[0].qualifiers, rec.annotations)
print("vector after:", v.record.annotations)
