from boot import *
from Bio import Restriction
from Bio.Restriction import AllEnzymes
import collections
res = collections.Counter(); ex = {}
for e in sorted(AllEnzymes, key=str):
    try:
        class M(AbstractModule): cutter = e
        class V(AbstractVector): cutter = e
    except Exception as x:
        res["classdef:"+type(x).__name__]+=1; continue
    for C in (M, V):
        try:
            ent = C(CircularRecord(Seq("ACGTACGTAGCTAGCTAGCATCGATCGATCGACTAGCTAGCTAGCTACGATCGATCGTAGCTAG"), "x"))
        except Exception as x:
            res["new:"+type(x).__name__]+=1; ex.setdefault("new:"+type(x).__name__, (str(e), str(x))); continue
        try:
            ent.is_valid(); res["ok"]+=1
        except Exception as x:
            k="is_valid:"+type(x).__name__; res[k]+=1; ex.setdefault(k, (str(e), e.elucidate(), C.structure() if True else None, str(x)[:80]))
print(res); 
for k,v in ex.items(): print(k, v)
