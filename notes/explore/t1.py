from boot import *
# C16: group straddling origin
dr = DNARegex("AA(NN)")
m = dr.search(Seq("GCATGCAGCATAA"[0:0]+"TGCAGCATAAG"), linear=False)
s = Seq("GTGCAGCATAA")  # AA at end, group (NN) -> "GT" wraps fully
m = dr.search(s, linear=False); print(m.span(0), m.span(1), m.group(0), m.group(1))
s = Seq("TGCAGCATAAG")  # AA at 8,9 ; NN = G + T straddles
m = dr.search(s, linear=False); print(m.span(0), m.span(1), m.group(0), m.group(1))
