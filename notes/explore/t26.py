from boot import *
from Bio.Restriction import BpiI
from Bio.SeqFeature import Reference
class MV(AbstractVector): cutter = BpiI
class MM(AbstractModule): cutter = BpiI
v = MV(CircularRecord(Seq("CCATGCTTGTCTTCCACAGAAGACTTCGTAGG"), "vector"))
def R(t):
    r = Reference(); r.title=t; return r
rec = CircularRecord(Seq("GAAGACTTATGCCACACGTATTGTCTTC"), "mod1", annotations={"references":[R("T1"), R("T2"), R("T2"), R("T3")], "molecule_type":"DNA"})
rec.features.append(SeqFeature(FeatureLocation(13,16,1), type="misc_feature", qualifiers={"citation":["[3]","[4]"], "label":["x"]}))
m = MM(rec)
p = v.assemble(m)
print("input after:", rec.features[0].qualifiers["citation"], "product:", [f.qualifiers.get("citation") for f in p.features], [r.title for r in p.annotations["references"]])
