from gen import *
from moclo.kits import ytk, cidar, ecoflex, moclo as mk, plant
from moclo._utils import isabstract
import inspect, collections, os, pickle, re
classes = []
for mod in (ytk, cidar, ecoflex, mk, plant):
    for name, cls in sorted(vars(mod).items()):
        if inspect.isclass(cls) and cls.__module__ == mod.__name__ and issubclass(cls, (AbstractModule, AbstractVector, AbstractPart)) and not isabstract(cls):
            classes.append(cls)
rng = random.Random(5)
def inst(pat):
    out=[]
    for t in re.findall(r"N\*\??|[A-Z]|\(|\)", pat):
        if t in "()": continue
        out.append(rnd(rng, rng.randint(2,8)) if t.startswith("N*") else (rng.choice("ACGT") if t=="N" else t))
    return "".join(out)
recs = [CircularRecord(Seq(inst(c.structure())+rnd(rng,5)), "r%d"%i) for i,c in enumerate(classes)]
def answers():
    out = {}
    for b in classes:
        for j in range(0, len(recs), 1):
            e = b(recs[j]); v = e.is_valid()
            out[(b.__name__, j)] = (v, str(e.overhang_start()) if v else None, str(e.overhang_end()) if v else None)
    return out
def in_child(fn):
    r, w = os.pipe(); pid = os.fork()
    if pid == 0:
        os.close(r); data = pickle.dumps(fn()); os.write(w, len(data).to_bytes(8,"big")+data); os._exit(0)
    os.close(w); f = os.fdopen(r, "rb"); n = int.from_bytes(f.read(8),"big"); data = f.read(n); os.waitpid(pid,0); return pickle.loads(data)
# baseline: each class queried alone in a fresh child
base = {}
for b in classes:
    def fn(b=b):
        out={}
        for j in range(len(recs)):
            e=b(recs[j]); v=e.is_valid(); out[(b.__name__,j)]=(v, str(e.overhang_start()) if v else None, str(e.overhang_end()) if v else None)
        return out
    base.update(in_child(fn))
bad = 0
for a in classes:
    def fn(a=a):
        a(recs[0]).is_valid()
        return answers()
    got = in_child(fn)
    d = [k for k in got if got[k] != base[k]]
    if d:
        bad += len(d)
        if bad < 30: print("prime", a.__name__, "changes", d[:3])
print("pairs", len(classes)**2, "differences", bad, "accepted in baseline", sum(1 for v in base.values() if v[0]))
