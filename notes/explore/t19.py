from gen import *
r = CircularRecord(Seq("AACCGGTT"), "x")
r.features.append(SeqFeature(CompoundLocation([FeatureLocation(0,2,1), FeatureLocation(5,8,1)]), type="source"))
r.features.append(SeqFeature(CompoundLocation([FeatureLocation(0,2,1), FeatureLocation(5,8,1)]), type="misc"))
r2 = r >> 1
print(r2.seq, [(f.type, str(f.location), str(f.extract(r2.seq))) for f in r2.features], [str(f.extract(r.seq)) for f in r.features])
# C15 checks
print("" in r, "AAC" in r, "TAAC" in r, "TTAACCGGT" in r, "AACCGGTT" in r, "TTAACCGG" in r)
for op in (lambda: r + "A", lambda: "A" + r, lambda: r + r, lambda: Seq("A") + r, lambda: SeqRecord(Seq("A")) + r, lambda: r + SeqRecord(Seq("A"))):
    try: op(); print("no error!")
    except TypeError as e: print("TypeError", e)
s = r[1:5]; print(type(s).__name__, s.seq, s.annotations)
r.annotations["topology"]="circular"; s = r[1:5]; print(type(s).__name__, s.seq, s.annotations, type(r[::2]).__name__, r[::2].seq, r[-3:].seq, r[5:2].seq)
try: CircularRecord(SeqRecord(Seq("A"), annotations={"topology":"linear"})); print("no error")
except ValueError as e: print("ValueError", e)
try: CircularRecord(SeqRecord(Seq("A"), annotations={"topology":"Linear"})); print("no error")
except ValueError as e: print("ValueError", e)
src = SeqRecord(Seq("ACGT"), id="s", annotations={"k":[1]}, features=[SeqFeature(FeatureLocation(0,2), type="x", qualifiers={"q":["1"]})], dbxrefs=["a"], letter_annotations={"q":[1,2,3,4]})
c = CircularRecord(src); c.annotations["k"].append(2); c.features[0].qualifiers["q"].append("2"); c.dbxrefs.append("b"); c.letter_annotations["q"][0]=9; c.features.append(1)
print(src.annotations, src.features[0].qualifiers, src.dbxrefs, src.letter_annotations, len(src.features))
