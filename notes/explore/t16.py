from boot import *
import random, subprocess, time
rng = random.Random(2)
PL = "ACGTN" + "RYSWKMBDHV"
def rand_pat():
    toks = []; depth = 0; ng = 0
    for _ in range(rng.randint(1, 10)):
        r = rng.random()
        if r < 0.15 and depth == 0: toks.append("("); depth += 1
        elif r < 0.3 and depth > 0: toks.append(")"); depth -= 1
        elif r < 0.5: toks.append(rng.choice("NNNACGTRYB") + rng.choice(["*", "*?"]))
        else: toks.append(rng.choice(PL if rng.random()<0.3 else "ACGTN"))
    toks += [")"] * depth
    return "".join(toks)
cases = []
for _ in range(20000):
    p = rand_pat()
    w = "".join(rng.choice("ACGT" if rng.random()<0.8 else "ACGTacgtNnRY") for _ in range(rng.randint(1, 14)))
    c = rng.randrange(2)
    cases.append((p, w, c))
t=time.time()
exp = []
for p, w, c in cases:
    m = DNARegex(p).search(Seq(w), linear=not c)
    if m is None: exp.append("none")
    else:
        spans = [m.span(i) for i in range(m.match.re.groups + 1)]
        exp.append(spans)
print("py", time.time()-t)
inp = "\n".join("%s %s %d" % c for c in cases) + "\n"
t=time.time()
out = subprocess.run(["/tmp/leanprobe/probe/.lake/build/bin/driver"], input=inp, capture_output=True, text=True).stdout.splitlines()
print("lean", time.time()-t, len(out))
bad = 0
for (p,w,c), e, o in zip(cases, exp, out):
    if e == "none":
        ok = o == "none"
    else:
        if o == "none": ok = False
        else:
            l = eval(o); 
            # l = [start, boundaries in textual order..., end]; derive spans by replaying parens
            st = l[0]; en = l[-1]; bs = l[1:-1]
            # map boundaries to groups
            spans = [(st,en)]; stack=[]; gi=0; k=0; opened={}
            order=[]
            for ch in p:
                if ch=="(":
                    gi+=1; stack.append(gi); opened[gi]=bs[k]; k+=1; spans.append(None)
                elif ch==")":
                    g=stack.pop(); spans[g]=(opened[g], bs[k]); k+=1
            ok = spans == e
    if not ok:
        bad += 1
        if bad < 10: print("DIFF", p, w, c, e, o)
print("bad", bad, "matched", sum(1 for e in exp if e!="none"))
