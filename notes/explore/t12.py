from gen import *
from moclo.kits import ytk, cidar, ecoflex, moclo as mk, plant
from moclo._utils import isabstract
import inspect, collections
classes = []
for mod in (ytk, cidar, ecoflex, mk, plant):
    for name, cls in sorted(vars(mod).items()):
        if inspect.isclass(cls) and cls.__module__ == mod.__name__ and issubclass(cls, (AbstractModule, AbstractVector, AbstractPart)) and not isabstract(cls):
            classes.append(cls)
rng = random.Random(11)
ALPH = "ACGTRYSWKMBDHVN"
ALPH2 = ALPH + ALPH.lower()
def inst(pat, rng):
    # instantiate a structure pattern to a concrete string
    out = []; i = 0
    toks = re.findall(r"N\*\??|[A-Z]|\(|\)", pat)
    for t in toks:
        if t in "()": continue
        if t.startswith("N*"): out.append(rnd(rng, rng.randint(0, 8)))
        elif t == "N": out.append(rng.choice("ACGT"))
        else: out.append(t)
    return "".join(out)
errs = collections.Counter(); valid = collections.Counter()
for it in range(300):
    mode = rng.randrange(4)
    cls0 = rng.choice(classes)
    if mode == 0:
        s = "".join(rng.choice(ALPH2) for _ in range(rng.randint(1, 60)))
    elif mode == 1:
        s = "".join(rng.choice("ACGT") for _ in range(rng.randint(1, 80)))
    else:
        s = inst(cls0.structure(), rng) + rnd(rng, rng.randint(0, 6))
        if mode == 3:
            j = rng.randrange(len(s)); s = s[:j] + rng.choice(ALPH2) + s[j+1:]
        s = rot(s, rng.randrange(len(s)))
    rec = CircularRecord(Seq(s), "r")
    for cls in classes:
        e = cls(rec)
        try:
            ok = e.is_valid()
            valid[ok] += 1
        except Exception as ex:
            errs[(cls.__name__, type(ex).__name__, str(ex)[:60])] += 1
            if errs[(cls.__name__, type(ex).__name__, str(ex)[:60])] == 1: print("is_valid EXC", cls.__name__, s, repr(ex))
            continue
        for meth in ("overhang_start", "overhang_end", "target_sequence") + (("placeholder_sequence",) if issubclass(cls, AbstractVector) else ()):
            try:
                getattr(e, meth)()
                if not ok: errs[("noexc", meth)] += 1
            except errors.InvalidSequence:
                if ok: errs[("invalid-on-valid", cls.__name__, meth)] += 1
            except Exception as ex:
                k = (cls.__name__, meth, type(ex).__name__, str(ex)[:60]); errs[k] += 1
                if errs[k] == 1: print("EXC", k, s)
print(valid, errs)
