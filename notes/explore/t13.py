from gen import *
from moclo.kits import ytk, cidar, ecoflex, moclo as mk
import collections
rng = random.Random(13)
TRIPLES = [
 (cidar.CIDAREntryVector, cidar.CIDARProduct, cidar.CIDAREntry),
 (cidar.CIDARCassetteVector, cidar.CIDAREntry, cidar.CIDARCassette),
 (cidar.CIDARDeviceVector, cidar.CIDARCassette, cidar.CIDARDevice),
 (ecoflex.EcoFlexCassetteVector, ecoflex.EcoFlexEntry, ecoflex.EcoFlexCassette),
 (ecoflex.EcoFlexDeviceVector, ecoflex.EcoFlexCassette, ecoflex.EcoFlexDevice),
 (mk.MoCloEntryVector, mk.MoCloProduct, mk.MoCloEntry),
 (mk.MoCloCassetteVector, mk.MoCloEntry, mk.MoCloCassette),
 (ytk.YTKEntryVector, ytk.YTKProduct, ytk.YTKEntry),
]
def toks(pat): return re.findall(r"N\*\??|[A-Z]|\(|\)", pat)
def inst_groups(pat, rng, g1=None, g3=None, starlen=None, forbid=()):
    """instantiate; returns string and group strings"""
    for _ in range(1000):
        out = []; groups = {}; stack=[]; gi = 0
        for t in toks(pat):
            if t == "(":
                gi += 1; stack.append((gi, len("".join(out))))
            elif t == ")":
                g, st = stack.pop(); groups[g] = (st, len("".join(out)))
            elif t.startswith("N*"):
                out.append(rnd(rng, starlen if starlen is not None else rng.randint(0, 10)))
            elif t == "N": out.append(rng.choice("ACGT"))
            else: out.append(t)
        s = "".join(out)
        def setg(s, g, val):
            if val is None: return s
            a,b = groups[g]; assert b-a == len(val); return s[:a]+val+s[b:]
        s = setg(setg(s, 1, g1), 3, g3)
        yield s, {g: s[a:b] for g,(a,b) in groups.items()}
SITES = {"BsaI":"GGTCTC","BsmBI":"CGTCTC","BbsI":"GAAGAC","BpiI":"GAAGAC"}
def sites_count(w, enz):
    s = SITES[str(enz)]
    return circ_count(w, s) + circ_count(w, rc(s))
res = collections.Counter()
for V, M, Nx in TRIPLES[-1:]:
    for trial in range(60):
        nmods = rng.randint(1, 3)
        ovs = []
        while len(ovs) < nmods + 1:
            o = rnd(rng, 4)
            if V is ytk.YTKEntryVector: 
                # product overhangs NNGG ... GACC fixed forms: only 1 module
                nmods = 1; ovs = [rnd(rng,2)+"GG", "GACC"]; break
            if o in ovs or rc(o) in ovs or rc(o) == o: continue
            ovs.append(o)
        # vector: group1 = downstream overhang (=ovs[0]); group3 = upstream (= ovs[nmods])
        for vs, vg in inst_groups(V.structure(), rng, g1=ovs[0], g3=ovs[nmods]):
            vs = vs + rnd(rng, rng.randint(2, 10))
            if sites_count(vs, V.cutter) == 2 and sites_count(vs, Nx.cutter) == (2 if V is not ytk.YTKEntryVector else 0): break
        ms = []
        for i in range(nmods):
            for s, g in inst_groups(M.structure(), rng, g1=ovs[i], g3=ovs[i+1]):
                s = s + rnd(rng, rng.randint(0, 8))
                if sites_count(s, M.cutter) == 2 and sites_count(g[1]+g[2], Nx.cutter) == (0 if M is not ytk.YTKProduct else 2): break
            ms.append((s, g))
        try:
            v = V(CircularRecord(Seq(rot(vs, rng.randrange(len(vs)))), "v"))
            mm = [M(CircularRecord(Seq(rot(s, rng.randrange(len(s)))), "m%d"%i)) for i,(s,g) in enumerate(ms)]
            p = v.assemble(*mm)
        except Exception as e:
            res[(V.__name__, "asm-exc", type(e).__name__, str(e)[:50])] += 1; continue
        if sites_count(str(p.seq), Nx.cutter) != 2:
            res[(V.__name__, "skip-sites")] += 1; print(vs, ms, p.seq); continue
        nx = Nx(p)
        ok = nx.is_valid()
        insert = "".join(g[1]+g[2] for s,g in ms)
        cont = ok and insert in str(nx.target_sequence().seq)
        res[(V.__name__, Nx.__name__, ok, cont)] += 1
        if not cont and res[(V.__name__, Nx.__name__, ok, cont)] <= 1: print(V.__name__, vs, [s for s,g in ms], p.seq, insert, ok and nx.target_sequence().seq)
for k,v in sorted(res.items()): print(k, v)
