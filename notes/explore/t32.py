from gen import *
from Bio.Restriction import BsaI
from Bio.SeqFeature import Reference
import copy, collections, warnings
rng = random.Random(99)
V, M = mk_classes(BsaI)
def R(t):
    r = Reference(); r.title = t; r.authors = "a"; return r
def snap(rec):
    return (str(rec.seq), rec.id, rec.name, rec.description, list(rec.dbxrefs),
            [(f.type, str(f.location), f.id, repr(sorted((k, list(v) if isinstance(v, list) else v) for k,v in f.qualifiers.items()))) for f in rec.features],
            repr(sorted((k, v) for k,v in rec.annotations.items() if not (k=="references" and v==[]))), repr(rec.letter_annotations))
res = collections.Counter()
for it in range(600):
    nm = rng.randint(1,4)
    (vec, vd), mods, exp = gen_assembly(rng, BsaI, nm)
    pool = [R("T%d"%i) for i in range(4)]
    recs = []
    for name, w in [("m%d"%i, m) for i,(m,_) in enumerate(mods)] + [("v", vec)]:
        refs = [copy.deepcopy(r) for r in rng.sample(pool, rng.randint(0,3))]
        ann = {"topology":"circular","molecule_type":"DNA"}
        if refs or rng.random()<0.5: ann["references"] = refs
        rec = CircularRecord(Seq(w), name, name=name, annotations=ann)
        for j in range(rng.randint(0,4)):
            s = rng.randrange(len(w)-3); q = {"label":["f%d"%j]}
            if refs and rng.random()<0.6: q["citation"] = ["[%d]"%(rng.randrange(len(refs))+1) for _ in range(rng.randint(1,2))]
            rec.features.append(SeqFeature(FeatureLocation(s, s+rng.randint(1,3), rng.choice([1,-1])), type="misc_feature", qualifiers=q))
        recs.append(rec >> rng.randrange(len(w)))
    fault = rng.choice(["none","missing","dup","invalidvec","boom","invalidmod"])
    ents = [M(r) for r in recs[:-1]]; v = V(recs[-1])
    args = list(ents)
    if fault == "missing" and len(args) >= 1: args.pop(rng.randrange(len(args)))
    if fault == "missing" and not args: continue
    if fault == "dup": args.append(M(copy.deepcopy(args[0].record)))
    if fault == "boom":
        j = rng.randrange(len(args))
        class Boom(M):
            def target_sequence(self): raise RuntimeError("boom")
        args[j] = Boom(args[j].record)
    if fault == "invalidmod":
        args.append(M(CircularRecord(Seq("ACGTACGT"), "junk")))
    if fault == "invalidvec":
        v = V(CircularRecord(Seq(gen_vector(rng, BsaI, "ACGT", "ACGT")[0]), "vv"))
    rng.shuffle(args)
    before = [snap(a.record) for a in args] + [snap(v.record)]
    outs = []
    for call in range(3):
        with warnings.catch_warnings():
            warnings.simplefilter("ignore")
            try:
                p = v.assemble(*args); outs.append(("ok", str(p.seq), [(f.type, str(f.location), repr(sorted(f.qualifiers.items()))) for f in p.features], [r.title for r in p.annotations["references"]]))
            except Exception as e: outs.append(("err", type(e).__name__))
        after = [snap(a.record) for a in args] + [snap(v.record)]
        if after != before:
            res[(fault, "MUTATED")] += 1
            if res[(fault,"MUTATED")] < 3:
                for a,b in zip(before, after):
                    if a!=b: print(fault, a, "\n   ->", b)
            break
    if len(set(map(repr, outs))) != 1: res[(fault, "NONDET")] += 1
    res[(fault, outs[0][0] if outs[0][0]=="ok" else outs[0][1])] += 1
    # citation consistency on success
    if outs[0][0] == "ok":
        p = v.assemble(*args)
        prefs = p.annotations["references"]
        if len(prefs) != len(set(r.title for r in prefs)): res["dup-prod-refs"] += 1
        for f in p.features:
            for c in f.qualifiers.get("citation", []):
                if not re.fullmatch(r"\[\d+\]", c): res["badform"] += 1
print(sorted(res.items(), key=str))
