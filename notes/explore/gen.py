from boot import *
import random, re
from Bio import Restriction
def rc(s): return str(Seq(s).reverse_complement())
def rnd(rng, n, forbid=()):
    while True:
        s = "".join(rng.choice("ACGT") for _ in range(n))
        if not any(f in s for f in forbid): return s
def circ_count(w, s):
    d = w + w[:len(s)-1]
    return sum(1 for i in range(len(w)) if d.startswith(s, i))
def mk_classes(enz):
    class V(AbstractVector): cutter = enz
    class M(AbstractModule): cutter = enz
    return V, M
def gen_module(rng, enz, o5, o3, tlen=None, blen=None):
    site = enz.site; n = enz.fst5 - len(site); k = abs(enz.ovhg)
    for _it in range(2000):
        x = rnd(rng, n); y = rnd(rng, n)
        t = rnd(rng, tlen if tlen is not None else rng.randint(2, 12))
        b = rnd(rng, blen if blen is not None else rng.randint(0, 10))
        w = site + x + o5 + t + o3 + y + rc(site) + b
        if circ_count(w, site) == 1 and circ_count(w, rc(site)) == 1:
            return w, dict(x=x,y=y,t=t,b=b,o5=o5,o3=o3)
    raise RuntimeError('gen failed')
def gen_vector(rng, enz, o5, o3, plen=None, blen=None):
    # v = (o3 . b . o5 . y . rc(s) . p . s . x)
    site = enz.site; n = enz.fst5 - len(site); k = abs(enz.ovhg)
    for _it in range(2000):
        x = rnd(rng, n); y = rnd(rng, n)
        p = rnd(rng, plen if plen is not None else rng.randint(0, 10))
        b = rnd(rng, blen if blen is not None else rng.randint(2, 12))
        w = o3 + b + o5 + y + rc(site) + p + site + x
        if circ_count(w, site) == 1 and circ_count(w, rc(site)) == 1:
            return w, dict(x=x,y=y,p=p,b=b,o5=o5,o3=o3)
    raise RuntimeError('gen failed')
def rot(w, k):
    k %= len(w); return w[-k:] + w[:-k] if k else w
def canon(w):
    return min(rot(w, i) for i in range(len(w)))
def gen_assembly(rng, enz, nmods):
    k = abs(enz.ovhg)
    # distinct overhangs, none rc of each other, none palindromic
    ovs = []
    nmods = min(nmods, {1:1,2:4}.get(k, 99))
    while len(ovs) < nmods + 1:
        o = rnd(rng, k)
        if o in ovs or rc(o) in ovs or rc(o) == o: continue
        ovs.append(o)
    # vector: up(v)=o3v=ovs[-1]... chain: down(v)=o5v=ovs[0]; modules i: up=ovs[i], down=ovs[i+1]; last down = ovs[nmods] = up(v)
    vec, vd = gen_vector(rng, enz, o5=ovs[0], o3=ovs[nmods])
    mods = [gen_module(rng, enz, ovs[i], ovs[i+1]) for i in range(nmods)]
    expected = vd["o3"] + vd["b"] + "".join(d["o5"] + d["t"] for _, d in mods)
    return (vec, vd), mods, expected
