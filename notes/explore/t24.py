from boot import *
from Bio import Restriction
from Bio.Restriction import AllEnzymes
import re
n=0; bad=0
for e in sorted(AllEnzymes, key=str):
    try:
        if e.is_blunt() or e.is_unknown() or not e.is_5overhang() or e.is_palindromic() or e.cut_twice(): continue
    except Exception: continue
    site=e.site
    if not re.fullmatch("[ACGT]+", site): continue
    off = e.fst5 - len(site); k = abs(e.ovhg)
    if off < 0: continue
    n+=1
    model = site + "N"*off + "^" + "N"*k + "_" + "N"
    if e.elucidate() != model: bad+=1; print("ELU", e, e.elucidate(), model, e.fst5, e.fst3, e.ovhg)
    if e.fst3 != -(off + k) + 0 and True:
        pass
    class M(AbstractModule): cutter = e
    class V(AbstractVector): cutter = e
    rcs = str(Seq(site).reverse_complement())
    ms = site + "N"*off + "(" + "N"*k + ")(NN*N)(" + "N"*k + ")" + "N"*off + rcs
    vs = "N(" + "N"*k + ")(" + "N"*off + rcs + "N*" + site + "N"*off + ")(" + "N"*k + ")N"
    if M.structure()!=ms or V.structure()!=vs: bad+=1; print("STRUCT", e, M.structure(), ms, V.structure(), vs)
print(n, "enzymes", bad, "bad")
print(sorted(set((len(e.site), e.fst5-len(e.site), abs(e.ovhg), e.fst3) for e in AllEnzymes if not e.is_unknown() and not e.is_blunt() and e.is_5overhang() and not e.is_palindromic() and not e.cut_twice() and re.fullmatch("[ACGT]+", e.site) and e.fst5>=len(e.site))))
