from boot import *
from moclo.kits import ytk, cidar, ecoflex, moclo as mk, plant
from moclo._utils import isabstract
import inspect, re
rows = []
for mod in (ytk, cidar, ecoflex, mk, plant):
    for name, cls in sorted(vars(mod).items()):
        if inspect.isclass(cls) and cls.__module__ == mod.__name__ and issubclass(cls, (AbstractModule, AbstractVector, AbstractPart)) and not isabstract(cls):
            kind = "vector" if issubclass(cls, AbstractVector) else "module"
            e = cls.cutter
            rows.append((name, kind, e.site, e.fst5 - len(e.site), abs(e.ovhg), cls.structure()))
def toks(p):
    out=[]
    for t in re.findall(r"[A-Z]\*\?|[A-Z]\*|[A-Z]|\(|\)", p):
        if t=="(": out.append(".gopen")
        elif t==")": out.append(".gclose")
        elif t.endswith("*?"): out.append("(.star .%s false)"%t[0])
        elif t.endswith("*"): out.append("(.star .%s true)"%t[0])
        else: out.append("(.cls .%s)"%t)
    return "[" + ", ".join(out) + "]"
with open("/tmp/leanprobe/probe/Probe/Kits.lean","w") as f:
    f.write("import Probe.Table\nnamespace Probe\nopen Nt Tok\ndef kits : List Row := [\n")
    f.write(",\n".join('  { name := "%s", isVector := %s, site := [%s], off := %d, k := %d, pat := %s }' % (n, "true" if k=="vector" else "false", ", ".join("."+c for c in s), off, kk, toks(p)) for n,k,s,off,kk,p in rows))
    f.write("\n]\nend Probe\n")
print(len(rows))
