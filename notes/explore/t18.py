from gen import *
import collections
rng = random.Random(9)
def parts(loc): return [(int(p.start), int(p.end), p.strand) for p in loc.parts]
def denote(feat, n):
    return (feat.type, tuple(sorted(((tuple(sorted(t % n for t in range(s,e))), st) for s,e,st in parts(feat.location)), key=repr)))
def rand_loc(n):
    def part():
        s = rng.randrange(0, n); e = rng.randrange(s+1, min(n, s+ max(2,n//2))+1)
        return s,e
    st = rng.choice([1,-1,None])
    if rng.random() < 0.6:
        s,e = part(); return FeatureLocation(s,e,st)
    if rng.random() < 0.5:
        # origin spanning compound
        a = rng.randrange(1,n); b = rng.randrange(1, n)
        return CompoundLocation([FeatureLocation(a,n,st), FeatureLocation(0,min(b,a),st)])
    ps = sorted(part() for _ in range(rng.randint(2,3)))
    return CompoundLocation([FeatureLocation(s,e,st) for s,e in ps])
bad = collections.Counter()
for it in range(3000):
    n = rng.randint(1, 12)
    s = "".join(rng.choice("ACGT") for _ in range(n))
    r = CircularRecord(Seq(s), "id1", name="nm", description="desc", annotations={"topology":"circular","molecule_type":"DNA","x":[1]})
    for _ in range(rng.randint(0,3)):
        if n >= 2: r.features.append(SeqFeature(rand_loc(n), type=rng.choice(["CDS","misc","source"]), qualifiers={"label":["f"]}))
    if rng.random()<0.3: r.features.append(SeqFeature(FeatureLocation(0,n,1), type="source"))
    r.letter_annotations["q"] = list(range(n))
    cur = r; total = 0
    for step in range(rng.randint(1,4)):
        k = rng.randint(-2*n-1, 2*n+1); right = rng.random()<0.5
        cur = (cur >> k) if right else (cur << k)
        total += k if right else -k
        exp = rot(s, total % n)
        if str(cur.seq) != exp: bad["seq"] += 1
        if cur.letter_annotations["q"] != [ (i - total) % n for i in range(n)]: bad["letan"] += 1
        if (cur.id, cur.name, cur.description, cur.annotations) != (r.id, r.name, r.description, r.annotations): bad["ids"] += 1
        if len(cur.features) != len(r.features): bad["nfeat"] += 1; continue
        for f0, f1 in zip(r.features, cur.features):
            d0 = denote(f0, n); d1 = denote(f1, n)
            e = (d0[0], tuple(sorted(((tuple(sorted((p + total) % n for p in ps)), st) for ps, st in d0[1]), key=repr)))
            if e != d1:
                bad["feat"] += 1
                if bad["feat"] < 5: print("FEAT", n, total, f0.location, f1.location)
            if f0.qualifiers != f1.qualifiers: bad["quals"] += 1
    # rc
    try:
        rr = cur.reverse_complement()
        if not isinstance(rr, CircularRecord): bad["rc-type"] += 1
        if str(rr.seq) != rc(str(cur.seq)): bad["rc-seq"] += 1
        d_exp = sorted([ (d[0], tuple(sorted(((tuple(sorted(n-1-p for p in ps)), {1:-1,-1:1,None:None}[st]) for ps, st in d[1]), key=repr))) for d in (denote(f, n) for f in cur.features)], key=repr)
        d_got = sorted([denote(f, n) for f in rr.features], key=repr)
        if d_exp != d_got:
            bad["rc-feat"] += 1
            if bad["rc-feat"] < 5: print("RCFEAT", n, [str(f.location) for f in cur.features], [str(f.location) for f in rr.features])
        rrr = rr.reverse_complement()
        if str(rrr.seq) != str(cur.seq): bad["rcrc-seq"] += 1
        if sorted([denote(f,n) for f in rrr.features], key=repr) != sorted([denote(f,n) for f in cur.features], key=repr): bad["rcrc-feat"] += 1
        k = rng.randint(0, 2*n)
        a = (cur >> k).reverse_complement(); b = cur.reverse_complement() << k
        if str(a.seq) != str(b.seq): bad["rc-rot-seq"] += 1
        if sorted([denote(f,n) for f in a.features], key=repr) != sorted([denote(f,n) for f in b.features], key=repr):
            bad["rc-rot-feat"] += 1
            if bad["rc-rot-feat"] < 5: print("RCROT", n, k, [str(f.location) for f in cur.features], [str(f.location) for f in a.features], [str(f.location) for f in b.features])
    except Exception as ex:
        bad["rc-exc:"+type(ex).__name__+str(ex)[:40]] += 1
print(bad)
