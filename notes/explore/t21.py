from gen import *
import collections
from Bio import Restriction
rng = random.Random(33)
bad = collections.Counter(); ok = 0
for nm in ["BsaI","BbsI","BsmBI","BspQI","FokI","BscAI","CseI","AarI"]:
    enz = getattr(Restriction, nm); V, M = mk_classes(enz)
    for it in range(60):
        (vec, vd), mods, exp = gen_assembly(rng, enz, rng.randint(1,3))
        vr = rot(vec, rng.randrange(len(vec))); mrs = [rot(m, rng.randrange(len(m))) for m,_ in mods]
        v = V(CircularRecord(Seq(vr), "v")); ms = [M(CircularRecord(Seq(m), "m%d"%i)) for i,m in enumerate(mrs)]
        p = v.assemble(*ms)
        vrc = V(v.record.reverse_complement(id=True)); msrc = [M(m.record.reverse_complement(id=True)) for m in ms]
        for a, b in zip(ms + [v], msrc + [vrc]):
            if not b.is_valid(): bad["rc-invalid"] += 1; continue
            if str(b.overhang_start()) != rc(str(a.overhang_end())) or str(b.overhang_end()) != rc(str(a.overhang_start())): bad["ovh"] += 1
        try:
            prc = vrc.assemble(*msrc)
            if canon(str(prc.seq)) != canon(rc(str(p.seq))): bad["product"] += 1
            else: ok += 1
        except Exception as e: bad["exc:"+type(e).__name__+str(e)[:40]] += 1
print(ok, bad)
