from gen import *
from moclo.kits import ytk, cidar, ecoflex, moclo as mk, plant
from moclo._utils import isabstract
from moclo.regex import DNARegex
import inspect, collections
rng = random.Random(77)
parts_ = []
for mod in (ytk, cidar, ecoflex, mk, plant):
    for name, cls in sorted(vars(mod).items()):
        if inspect.isclass(cls) and cls.__module__ == mod.__name__ and issubclass(cls, AbstractPart) and not isabstract(cls) and "structure" not in cls.__dict__:
            parts_.append(cls)
print(len(parts_))
def generic_of(cls):
    e = cls.cutter
    if issubclass(cls, AbstractVector):
        class G(AbstractVector): cutter = e
    else:
        class G(AbstractModule): cutter = e
    return G
def sigmatch(sig, ov):
    return DNARegex(sig).regex.fullmatch(str(ov)) is not None
res = collections.Counter()
allsigs = sorted(set(s for c in parts_ for s in c.signature if "N" not in s))
for cls in parts_:
    G = generic_of(cls); e = cls.cutter; up, down = cls.signature
    for it in range(40):
        mode = rng.randrange(4)
        def pick(sig):
            if mode == 0: return "".join(rng.choice("ACGT") if ch=="N" else ch for ch in sig)
            if mode == 1: return rng.choice(allsigs)
            if mode == 2: return rnd(rng, 4)
            s = list("".join(rng.choice("ACGT") if ch=="N" else ch for ch in sig)); j = rng.randrange(4); s[j] = rng.choice([c for c in "ACGT" if c != s[j]]); return "".join(s)
        u, d = pick(up), pick(down)
        try:
            if issubclass(cls, AbstractVector): w,_ = gen_vector(rng, e, o5=d, o3=u)
            else: w,_ = gen_module(rng, e, u, d)
        except RuntimeError: continue
        w = rot(w, rng.randrange(len(w)))
        rec = CircularRecord(Seq(w), "r")
        g = G(rec); p = cls(rec)
        gv = g.is_valid(); pv = p.is_valid()
        exp = gv and sigmatch(up, g.overhang_start()) and sigmatch(down, g.overhang_end())
        res[(exp, pv)] += 1
        if exp != pv and res[(exp,pv)] < 4: print("DIFF", cls.__name__, w, u, d, gv, pv)
print(res)
# user-defined signatures incl degenerate over other enzymes
from Bio import Restriction
for nm in ["BbsI","BsmBI","BspQI","FokI","BscAI"]:
    e = getattr(Restriction, nm); k = abs(e.ovhg)
    for it in range(60):
        up = "".join(rng.choice("ACGTNRYSWKMBDHV") for _ in range(k)); down = "".join(rng.choice("ACGTNRYSWKMBDHV") for _ in range(k))
        isvec = rng.random()<0.5
        base = AbstractVector if isvec else AbstractModule
        P = type("P", (AbstractPart, base), {"cutter": e, "signature": (up, down)})
        G = type("G", (base,), {"cutter": e})
        for j in range(5):
            def inst(sig): return "".join(rng.choice([c for c in "ACGT" if DNARegex(ch).regex.fullmatch(c)] if rng.random()<0.7 else "ACGT") for ch in sig)
            u, d = inst(up), inst(down)
            try:
                w,_ = gen_vector(rng, e, o5=d, o3=u) if isvec else gen_module(rng, e, u, d)
            except RuntimeError: continue
            rec = CircularRecord(Seq(rot(w, rng.randrange(len(w)))), "r")
            g = G(rec); p = P(rec)
            exp = g.is_valid() and sigmatch(up, g.overhang_start()) and sigmatch(down, g.overhang_end())
            res[("user", exp, p.is_valid())] += 1
print(res)
