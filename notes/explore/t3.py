from boot import *
from moclo.kits import ytk
import tarfile, io, Bio.SeqIO
tar = tarfile.open("/repo/moclo-ytk/moclo/registry/ytk.tar.gz")
recs = {}
for e in tar:
    rec = CircularRecord(Bio.SeqIO.read(io.TextIOWrapper(tar.extractfile(e)), "gb"))
    recs[rec.id] = rec
print(len(recs), list(tar.getnames())[:3])
rec = recs["pYTK002"]
print("prime YTKEntry:", ytk.YTKEntry(rec).is_valid())
print("then Part2 valid on Part1 rec?", ytk.YTKPart2(rec).is_valid(), "Part1:", ytk.YTKPart1(rec).is_valid())
print(ytk.YTKPart2._get_regex().pattern)
