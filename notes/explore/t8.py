from gen import *
from Bio.Restriction import BsaI, BpiI
rng = random.Random(3)
V, M = mk_classes(BsaI)
# C18 mixed case
(vec, vd), mods, exp = gen_assembly(rng, BsaI, 3)
def run(vs, ms):
    try:
        v = V(CircularRecord(Seq(vs), "v")); mm=[M(CircularRecord(Seq(m), "m%d"%i)) for i,m in enumerate(ms)]
        return canon(str(v.assemble(*mm).seq).upper())
    except Exception as e:
        return type(e).__name__+": "+str(e)[:80]
print(run(vec, [m for m,_ in mods]) == canon(exp))
print(run(vec.lower(), [m.lower() for m,_ in mods]) == canon(exp))
print(run(vec.lower(), [m for m,_ in mods]))
print(run(vec, [mods[0][0].lower()] + [m for m,_ in mods[1:]]))
# validity lower-case
v = V(CircularRecord(Seq(vec.lower()), "v")); print(v.is_valid(), v.overhang_start(), v.overhang_end())
m = M(CircularRecord(Seq(mods[0][0].lower()), "v")); print(m.is_valid(), m.overhang_start(), m.target_sequence().seq)
