import os, sys, warnings
warnings.filterwarnings("ignore")
proj = os.environ.get("MOCLO_REPO","/repo")
sys.path.insert(0, os.path.join(proj, "moclo"))
import moclo.kits, moclo.registry
for extension in ["cidar", "ytk", "ecoflex", "moclo", "plant"]:
    d = os.path.join(proj, "moclo-{}".format(extension))
    moclo.kits.__path__.append(os.path.join(d, "moclo", "kits"))
    moclo.registry.__path__.append(os.path.join(d, "moclo", "registry"))
from Bio.Seq import Seq
from Bio.SeqRecord import SeqRecord
from Bio.SeqFeature import SeqFeature, FeatureLocation, CompoundLocation, SimpleLocation
from moclo.record import CircularRecord
from moclo.regex import DNARegex
from moclo import errors
from moclo.core import *
