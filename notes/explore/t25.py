from gen import *
from moclo.kits import ytk
rng = random.Random(5)
ok=0; bad=0
for it in range(200):
    oo = rnd(rng,2)+"GG"
    if rc(oo)==oo or oo=="GACC" or rc(oo)=="GACC": continue
    tmpl = rnd(rng, rng.randint(0,15)); o1=rnd(rng,4); o2=rnd(rng,4)
    mod = "CGTCTC"+rnd(rng,1)+oo+"TCTC"+rnd(rng,1)+o1+tmpl+o2+rnd(rng,1)+"GA"+"GACC"+rnd(rng,1)+"GAGACG"+rnd(rng,rng.randint(0,8))
    vec = "GACC"+rnd(rng,rng.randint(2,10))+oo+rnd(rng,1)+"GAGACG"+rnd(rng,rng.randint(0,8))+"CGTCTC"+rnd(rng,1)
    def cnt(w,s): return circ_count(w,s)+circ_count(w,rc(s))
    if cnt(mod,"CGTCTC")!=2 or cnt(vec,"CGTCTC")!=2 or cnt(vec,"GGTCTC")!=0 or cnt(mod,"GGTCTC")!=2: continue
    v = ytk.YTKEntryVector(CircularRecord(Seq(rot(vec, rng.randrange(len(vec)))),"v")); m = ytk.YTKProduct(CircularRecord(Seq(rot(mod, rng.randrange(len(mod)))),"m"))
    if not (v.is_valid() and m.is_valid()): bad+=1; print("invalid", v.is_valid(), m.is_valid(), mod); continue
    p = v.assemble(m)
    if cnt(str(p.seq),"GGTCTC")!=2: continue
    e = ytk.YTKEntry(p)
    good = e.is_valid() and (len(tmpl)<2 or (tmpl in str(e.target_sequence().seq) and str(e.overhang_start())==o1 and str(e.overhang_end())==o2))
    if len(tmpl)>=2 and not good: bad+=1; print("BAD", mod, vec, p.seq)
    elif len(tmpl)>=2: ok+=1
print(ok,bad)
