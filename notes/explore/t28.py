from boot import *
from Bio.Restriction import AllEnzymes
import collections, re
res = collections.Counter()
for e in sorted(AllEnzymes, key=str):
    if e.is_blunt() or e.is_unknown(): continue
    class M(AbstractModule): cutter = e
    try: re.compile(DNARegex._transcribe(M.structure())); ok=True
    except re.error: ok=False
    res[("5'" if e.is_5overhang() else "3'", "twice" if e.cut_twice() else "once", ok)] += 1
print(res)
