from gen import *
import sys, itertools, traceback
from Bio.Restriction import AllEnzymes
rng = random.Random(1)
names = ["Alw26I","AclWI","BscAI","BmsI","CseI","BbvI","FokI","BslFI","BcefI","BceAI","Bst6I","BsaI","BbsI","Acc36I","AceIII","BtgZI","BspQI","AarI"]
for nm in names:
    enz = getattr(Restriction, nm)
    V, M = mk_classes(enz)
    bad = 0; tot = 0; errs = {}
    for trial in range(40):
        nm_ = rng.randint(1, 4)
        try:
            (vec, vd), mods, exp = gen_assembly(rng, enz, nm_)
        except Exception as e:
            errs["gen:"+repr(e)] = errs.get("gen:"+repr(e),0)+1; continue
        for rep in range(3):
            tot += 1
            vr = rot(vec, rng.randrange(len(vec)))
            mrs = [rot(m, rng.randrange(len(m))) for m,_ in mods]
            order = list(range(len(mrs))); rng.shuffle(order)
            try:
                v = V(CircularRecord(Seq(vr), "v"))
                ms = [M(CircularRecord(Seq(mrs[i]), "m%d"%i)) for i in order]
                p = v.assemble(*ms)
                if canon(str(p.seq)) != canon(exp):
                    bad += 1; errs["mismatch"] = errs.get("mismatch",0)+1
                    if errs["mismatch"] <= 1: print(nm, "MISMATCH", vr, mrs, str(p.seq), exp)
            except Exception as e:
                bad += 1; key = type(e).__name__+":"+str(e)[:50]; errs[key] = errs.get(key,0)+1
                if errs[key] <= 1: print(nm, "EXC", key, vr, mrs)
    print(nm, enz.elucidate(), "bad", bad, "/", tot, errs)
