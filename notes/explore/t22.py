from boot import *
import fs, io
from Bio import SeqIO
from moclo.kits import ytk
from moclo.registry.ytk import YTKRegistry
from moclo.registry import base
r = YTKRegistry()
mem = fs.open_fs("mem://")
def put(name, rec):
    buf = io.StringIO(); SeqIO.write([rec], buf, "genbank")
    with mem.open(name, "w") as f: f.write(buf.getvalue())
put("a.gb", r["pYTK002"].entity.record); put("b.gbk", r["pYTK003"].entity.record); put("c.genbank", r["pYTK004"].entity.record)
put("d.e.gb", r["pYTK005"].entity.record)
mem.makedir("sub"); put("sub/x.gb", r["pYTK006"].entity.record)
mem.makedir("dir.gb")
with mem.open("notes.txt","w") as f: f.write("hello")
with mem.open("junk.gb.bak","w") as f: f.write("hello")
reg = base.FilesystemRegistry(mem, ytk.YTKPart)
keys = list(reg); print(sorted(keys), len(reg))
for k in keys:
    it = reg[k]; print(k, it.id, it.entity.record.id, type(it.entity).__name__, it.resistance, type(it.entity.record).__name__)
for k in ["c", "x", "sub/x", "notes", "dir", "zzz"]:
    try: reg[k]; print(k, "FOUND")
    except KeyError: print(k, "KeyError")
    except Exception as e: print(k, type(e).__name__, e)
print("c" in reg, "a" in reg)
reg2 = base.FilesystemRegistry(mem, ytk.YTKPart, extensions=("genbank",))
print(list(reg2), len(reg2))
c = base.CombinedRegistry(); c << reg << reg2 << r
print(len(c), c["a"].entity.record.id, c["pYTK002"].id)
