from gen import *
import itertools, warnings, collections
from Bio.Restriction import BscAI
enz = BscAI
V, M = mk_classes(enz)
rng = random.Random(4)
OVS = ["AA","TT","AC","GT","AT","CG","CA"]   # AA/TT rc pair, AC/GT rc pair, AT & CG palindromic, CA
modcache = {}
def module(o5, o3, tag):
    key=(o5,o3,tag)
    if key not in modcache:
        w,_ = gen_module(rng, enz, o5, o3, tlen=3)
        modcache[key] = w
    return modcache[key]
veccache = {}
def vector(o5, o3):
    if (o5,o3) not in veccache:
        veccache[(o5,o3)] = gen_vector(rng, enz, o5, o3, plen=2, blen=4)[0]
    return veccache[(o5,o3)]
def spec(vdown, vup, mods):
    """mods: list of (start,end,id). returns ('ok', chain ids, unused ids) or ('err', cls, detail)"""
    if vdown == vup: return ("err","InvalidSequence",None)
    seen = {}
    for s,e,i in mods:
        if s in seen: return ("err","DuplicateModules",None)
        seen[s] = (s,e,i)
    for s in seen:
        if rc(s) in seen: return ("err","DuplicateModules",None)
    cur = vdown; chain=[]; avail = dict(seen)
    while cur != vup:
        if cur not in avail: return ("err","MissingModule",cur)
        s,e,i = avail.pop(cur); chain.append(i); cur = e
    return ("ok", chain, sorted(x[2] for x in avail.values()))
def impl(vdown, vup, mods):
    v = V(CircularRecord(Seq(vector(vdown, vup)), "v"))
    ms = [M(CircularRecord(Seq(module(s,e,i)), "m%d"%i)) for s,e,i in mods]
    with warnings.catch_warnings(record=True) as caught:
        warnings.simplefilter("always")
        try:
            p = v.assemble(*ms)
        except errors.MissingModule as ex: return ("err","MissingModule",str(ex.start_overhang))
        except errors.DuplicateModules as ex: return ("err","DuplicateModules",None)
        except errors.InvalidSequence as ex: return ("err","InvalidSequence",None)
    unused = []
    for w in caught:
        if isinstance(w.message, errors.UnusedModules): unused = sorted(int(r.record.id[1:]) for r in w.message.remaining)
    # recover chain from source features
    chain = [int(f.qualifiers["plasmid"][1:]) for f in p.features if f.type=="source" and f.qualifiers["plasmid"]!="v"]
    return ("ok", chain, unused)
cnt = collections.Counter(); bad = 0
pairs = [(a,b) for a in OVS for b in OVS]
for vdown, vup in [("AA","AC"),("AC","AA"),("AA","AA"),("AT","CA"),("CA","CG"),("AA","TT")]:
    for k in range(1,4):
        for combo in itertools.product(pairs, repeat=k):
            if rng.random() > (1.0 if k<3 else 0.02): continue
            mods = [(s,e,i) for i,(s,e) in enumerate(combo)]
            a = spec(vdown, vup, mods); b = impl(vdown, vup, mods)
            cnt[a[:2] if a[0]=="err" else "ok"] += 1
            if a != b:
                bad += 1
                if bad < 10: print("DIFF", vdown, vup, mods, a, b)
print(cnt, "bad", bad)
