namespace Probe

inductive Tok where
  | cls (c : Char)
  | star (c : Char) (greedy : Bool)
  | gopen
  | gclose
deriving Repr, BEq, Inhabited

def lettermap (p : Char) : List Char :=
  match p with
  | 'B' => ['C','G','T'] | 'D' => ['A','G','T'] | 'H' => ['A','C','T']
  | 'K' => ['G','T'] | 'M' => ['A','C'] | 'N' => ['A','C','G','T','N']
  | 'R' => ['A','G'] | 'S' => ['C','G'] | 'V' => ['A','C','G']
  | 'W' => ['A','T'] | 'Y' => ['C','T'] | c => [c]

def clsMatch (p : Char) (x : Char) : Bool := (lettermap p).contains x.toUpper

def runLen (p : Char) : List Char → Nat
  | [] => 0
  | x :: xs => if clsMatch p x then runLen p xs + 1 else 0

def firstDown {R} (k : Nat → Option R) : Nat → Option R
  | 0 => k 0
  | j+1 => match k (j+1) with
    | some r => some r
    | none => firstDown k j

def firstUp {R} (k : Nat → Option R) (j : Nat) : Nat → Option R
  | 0 => none
  | fuel+1 => match k j with
    | some r => some r
    | none => firstUp k (j+1) fuel

/-- returns reversed list of recorded positions: group boundaries then end -/
def matchToks : List Tok → List Char → Nat → List Nat → Option (List Nat)
  | [], _, pos, acc => some (pos :: acc)
  | .cls c :: ts, x :: xs, pos, acc => if clsMatch c x then matchToks ts xs (pos+1) acc else none
  | .cls _ :: _, [], _, _ => none
  | .gopen :: ts, xs, pos, acc => matchToks ts xs pos (pos :: acc)
  | .gclose :: ts, xs, pos, acc => matchToks ts xs pos (pos :: acc)
  | .star c g :: ts, xs, pos, acc =>
      let m := runLen c xs
      if g then firstDown (fun j => matchToks ts (xs.drop j) (pos+j) acc) m
      else firstUp (fun j => matchToks ts (xs.drop j) (pos+j) acc) 0 (m+1)

def parsePat (s : String) : List Tok :=
  let rec go : List Char → List Tok
    | [] => []
    | '(' :: cs => .gopen :: go cs
    | ')' :: cs => .gclose :: go cs
    | c :: '*' :: '?' :: cs => .star c false :: go cs
    | c :: '*' :: cs => .star c true :: go cs
    | c :: cs => .cls c :: go cs
  go s.toList

def search (p : List Tok) (w : List Char) (circular : Bool) : Option (List Nat) :=
  let n := w.length
  let data := if circular then w ++ w else w
  firstUp (fun i => matchToks p ((data.drop i).take n) i [i]) 0 n

end Probe
