namespace Probe
inductive Nt | A|C|G|T|R|Y|S|W|K|M|B|D|H|V|N
deriving DecidableEq, Repr
inductive Tok where
  | cls (c : Nt) | star (c : Nt) (greedy : Bool) | gopen | gclose
deriving DecidableEq, Repr
structure Row where
  name : String
  isVector : Bool
  site : List Nt
  off : Nat
  k : Nat
  pat : List Tok
def compl : Nt → Nt
  | .A => .T | .T => .A | .C => .G | .G => .C | .R => .Y | .Y => .R | .K => .M | .M => .K
  | .B => .V | .V => .B | .D => .H | .H => .D | x => x
def rcSite (s : List Nt) : List Tok := (s.map compl).reverse.map .cls
def nRun (n : Nat) : List Tok := List.replicate n (.cls .N)
/-- split at group markers: pre, g1, g2, g3, suf -/
def splitGroups (p : List Tok) : Option (List Tok × List Tok × List Tok × List Tok × List Tok) :=
  let rec go (p : List Tok) (cur : List Tok) (acc : List (List Tok)) : List (List Tok) :=
    match p with
    | [] => (cur.reverse :: acc).reverse
    | .gopen :: r => go r [] (cur.reverse :: acc)
    | .gclose :: r => go r [] (cur.reverse :: acc)
    | t :: r => go r (t :: cur) acc
  match go p [] [] with
  | [a, b, c, d, e, f, g] => if c == [] ∧ e == [] then some (a, b, d, f, g) else none
  | _ => none
def isFixed (n : Nat) (g : List Tok) : Bool := g.length == n && g.all (fun t => match t with | .cls _ => true | _ => false)
def cutAligned (r : Row) : Bool :=
  match splitGroups r.pat with
  | none => false
  | some (pre, g1, g2, g3, suf) =>
    let fwd := r.site.map Tok.cls ++ nRun r.off
    let rev := nRun r.off ++ rcSite r.site
    isFixed r.k g1 && isFixed r.k g3 &&
    ((fwd.isSuffixOf pre) || (rev.isPrefixOf g2)) &&
    ((rev.isPrefixOf suf) || (fwd.isSuffixOf g2))
end Probe
