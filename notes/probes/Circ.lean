import Mathlib.Data.List.Rotate

namespace Probe
variable {α : Type}

/-- the one-turn window the implementation hands to `re.match`: data = w*2, from i, length n -/
def window (w : List α) (i : Nat) : List α := ((w ++ w).drop i).take w.length

theorem window_eq_rotate (w : List α) (i : Nat) (hi : i ≤ w.length) : window w i = w.rotate i := by
  unfold window
  rw [List.rotate_eq_drop_append_take hi, List.drop_append_of_le_length hi, List.take_append]
  simp [List.length_drop, Nat.sub_sub_self hi]

/-- `SeqMatch.group` (fixed version), spans are absolute offsets in the doubled string -/
def group (w : List α) (a b : Nat) : List α :=
  let n := w.length
  if b ≥ a ∧ a ≥ n then (w.drop (a % n)).take (b % n - a % n)
  else if b ≥ n ∧ n > a then w.drop a ++ w.take (b % n)
  else (w.drop a).take (b - a)

theorem group_spec (w : List α) (a b : Nat) (hab : a ≤ b) (hb : b < 2 * w.length) (hlen : b - a ≤ w.length) :
    group w a b = ((w ++ w).drop a).take (b - a) := by
  unfold group
  have hn : 0 < w.length := by omega
  simp only []
  split
  · rename_i h
    obtain ⟨_, han⟩ := h
    have ha2 : a < 2 * w.length := by omega
    have e1 : a % w.length = a - w.length := by
      rw [Nat.mod_eq_sub_mod han, Nat.mod_eq_of_lt (by omega)]
    have e2 : b % w.length = b - w.length := by
      rw [Nat.mod_eq_sub_mod (by omega), Nat.mod_eq_of_lt (by omega)]
    rw [e1, e2, List.drop_append]
    have : List.drop a w = [] := List.drop_eq_nil_of_le han
    simp [this]; congr 1; omega
  · split
    · rename_i h1 h2
      obtain ⟨hbn, han⟩ := h2
      have e2 : b % w.length = b - w.length := by
        rw [Nat.mod_eq_sub_mod hbn, Nat.mod_eq_of_lt (by omega)]
      rw [e2, List.drop_append_of_le_length (by omega), List.take_append]
      simp [List.length_drop]
      congr 1
      · rw [List.take_of_length_le]; simp; omega
      · congr 1; omega
    · rename_i h1 h2
      have hbn : b ≤ w.length := by
        by_contra hc
        apply h2; constructor <;> [omega; skip]
        by_contra hc2; apply h1; constructor <;> omega
      rw [List.drop_append_of_le_length (by omega), List.take_append]
      simp [List.length_drop]; omega

#print axioms group_spec
end Probe
