import Mathlib.Data.List.Perm.Basic
import Mathlib.Data.List.Nodup

/-! Probe for C03: overhang-graph model of `AssemblyManager` on abstract overhangs. -/
namespace Probe

variable {O : Type} [DecidableEq O]

structure Mod (O : Type) where
  start : O
  stop  : O
  id    : Nat
deriving DecidableEq, Repr

inductive Err (O : Type) | invalidVector | duplicate | missing (o : O)
deriving DecidableEq, Repr

/-- `modmap.get(k)`: first module with that start overhang (insertion order; keys are unique when used) -/
def lookup (mods : List (Mod O)) (k : O) : Option (Mod O) := mods.find? (fun m => m.start = k)

/-- map building succeeds iff start overhangs are pairwise distinct and none is the reverse
complement of one of them (itself included) -/
def dupFree (rc : O → O) (mods : List (Mod O)) : Bool :=
  decide (mods.map (·.start)).Nodup && mods.all (fun m => !(mods.any (fun m' => m'.start = rc m.start)))

/-- pop-walk: `visited` are the keys already popped -/
def walk (mods : List (Mod O)) (stop : O) : Nat → O → List O → Except (Err O) (List (Mod O))
  | 0, cur, _ => .error (.missing cur)      -- unreachable with enough fuel
  | fuel+1, cur, visited =>
    if cur = stop then .ok []
    else if cur ∈ visited then .error (.missing cur)
    else match lookup mods cur with
      | none => .error (.missing cur)
      | some m => (walk mods stop fuel m.stop (cur :: visited)).map (m :: ·)

def assemble (rc : O → O) (vUp vDown : O) (mods : List (Mod O)) : Except (Err O) (List (Mod O) × List (Mod O)) :=
  if vUp = vDown then .error .invalidVector
  else if !dupFree rc mods then .error .duplicate
  else match walk mods vUp (mods.length + 1) vDown [] with
    | .error e => .error e
    | .ok chain => .ok (chain, mods.filter (fun m => m ∉ chain))

theorem lookup_perm {mods mods' : List (Mod O)} (hp : mods.Perm mods')
    (hn : (mods.map (·.start)).Nodup) (k : O) : lookup mods k = lookup mods' k := by
  have hn' : (mods'.map (·.start)).Nodup := (hp.map _).nodup_iff.mp hn
  unfold lookup
  cases h : mods.find? (fun m => m.start = k) with
  | none =>
    rw [List.find?_eq_none] at h
    symm; rw [List.find?_eq_none]
    intro x hx; exact h x (hp.mem_iff.mpr hx)
  | some m =>
    have hm := List.mem_of_find?_eq_some h
    have hk : m.start = k := by simpa using List.find?_some h
    symm
    cases h' : mods'.find? (fun m => m.start = k) with
    | none =>
      rw [List.find?_eq_none] at h'
      exact absurd (by simpa using hk) (h' m (hp.mem_iff.mp hm))
    | some m' =>
      have hm' := List.mem_of_find?_eq_some h'
      have hk' : m'.start = k := by simpa using List.find?_some h'
      have := List.inj_on_of_nodup_map hn' hm' (hp.mem_iff.mp hm) (hk'.trans hk.symm)
      rw [this]

theorem walk_perm {mods mods' : List (Mod O)} (hp : mods.Perm mods')
    (hn : (mods.map (·.start)).Nodup) (stop : O) :
    ∀ fuel cur visited, walk mods stop fuel cur visited = walk mods' stop fuel cur visited := by
  intro fuel
  induction fuel with
  | zero => intros; rfl
  | succ f ih =>
    intro cur visited
    simp only [walk, lookup_perm hp hn, ih]

#print axioms walk_perm
end Probe
