import Probe.Basic
namespace Probe

/-- declarative: pattern `ts` fits a prefix of `xs` consuming `len` letters -/
inductive Fits : List Tok → List Char → Nat → Prop
  | nil (xs) : Fits [] xs 0
  | cls {c x ts xs n} : clsMatch c x = true → Fits ts xs n → Fits (.cls c :: ts) (x :: xs) (n+1)
  | gopen {ts xs n} : Fits ts xs n → Fits (.gopen :: ts) xs n
  | gclose {ts xs n} : Fits ts xs n → Fits (.gclose :: ts) xs n
  | star {c g ts xs n} (j : Nat) : j ≤ xs.length → (∀ x ∈ xs.take j, clsMatch c x = true) →
      Fits ts (xs.drop j) n → Fits (.star c g :: ts) xs (j + n)

theorem firstDown_some {R} {k : Nat → Option R} {m : Nat} {r : R} (h : firstDown k m = some r) :
    ∃ j, j ≤ m ∧ k j = some r := by
  induction m with
  | zero => exact ⟨0, Nat.le_refl _, h⟩
  | succ m ih =>
    unfold firstDown at h
    split at h
    · exact ⟨m+1, Nat.le_refl _, by simp_all⟩
    · obtain ⟨j, hj, hk⟩ := ih h; exact ⟨j, Nat.le_succ_of_le hj, hk⟩

theorem firstDown_none {R} {k : Nat → Option R} {m : Nat} (h : firstDown k m = none) :
    ∀ j, j ≤ m → k j = none := by
  induction m with
  | zero => intro j hj; have : j = 0 := by omega
            subst this; exact h
  | succ m ih =>
    unfold firstDown at h
    split at h
    · simp at h
    · intro j hj
      by_cases hjm : j = m+1
      · subst hjm; assumption
      · exact ih h j (by omega)

theorem firstUp_some {R} {k : Nat → Option R} {j fuel : Nat} {r : R} (h : firstUp k j fuel = some r) :
    ∃ i, j ≤ i ∧ i < j + fuel ∧ k i = some r ∧ ∀ i', j ≤ i' → i' < i → k i' = none := by
  induction fuel generalizing j with
  | zero => simp [firstUp] at h
  | succ f ih =>
    unfold firstUp at h
    split at h
    · rename_i r' hk
      refine ⟨j, Nat.le_refl _, by omega, by simp_all, ?_⟩
      intro i' h1 h2; omega
    · rename_i hk
      obtain ⟨i, h1, h2, h3, h4⟩ := ih h
      refine ⟨i, by omega, by omega, h3, ?_⟩
      intro i' h5 h6
      by_cases e : i' = j
      · subst e; exact hk
      · exact h4 i' (by omega) h6

theorem firstUp_none {R} {k : Nat → Option R} {j fuel : Nat} (h : firstUp k j fuel = none) :
    ∀ i, j ≤ i → i < j + fuel → k i = none := by
  induction fuel generalizing j with
  | zero => intro i h1 h2; omega
  | succ f ih =>
    unfold firstUp at h
    split at h
    · simp at h
    · rename_i hk
      intro i h1 h2
      by_cases e : i = j
      · subst e; exact hk
      · exact ih h i (by omega) (by omega)

theorem runLen_le (c : Char) (xs : List Char) : runLen c xs ≤ xs.length := by
  induction xs with
  | nil => simp [runLen]
  | cons x xs ih => simp only [runLen]; split <;> simp <;> omega

theorem runLen_take (c : Char) (xs : List Char) : ∀ j, j ≤ runLen c xs → ∀ x ∈ xs.take j, clsMatch c x = true := by
  induction xs with
  | nil => intro j _ x hx; simp at hx
  | cons y ys ih =>
    intro j hj x hx
    cases j with
    | zero => simp at hx
    | succ j =>
      simp only [runLen] at hj
      split at hj
      · rename_i hy
        simp only [List.take_succ_cons, List.mem_cons] at hx
        rcases hx with rfl | hx
        · exact hy
        · exact ih j (by omega) x hx
      · omega

theorem le_runLen (c : Char) (xs : List Char) (j : Nat) (hj : j ≤ xs.length)
    (h : ∀ x ∈ xs.take j, clsMatch c x = true) : j ≤ runLen c xs := by
  induction xs generalizing j with
  | nil => simp at hj; omega
  | cons y ys ih =>
    cases j with
    | zero => omega
    | succ j =>
      have hy : clsMatch c y = true := h y (by simp)
      simp only [runLen, hy, if_true]
      have := ih j (by simpa using hj) (fun x hx => h x (by simp [hx]))
      omega

/-- soundness: a successful run yields a fit; the final position is start + consumed length -/
theorem matchToks_sound : ∀ (ts : List Tok) (xs : List Char) (pos : Nat) (acc r : List Nat),
    matchToks ts xs pos acc = some r → ∃ n, Fits ts xs n ∧ r.head? = some (pos + n) := by
  intro ts
  induction ts with
  | nil => intro xs pos acc r h; simp [matchToks] at h; exact ⟨0, .nil _, by simp [← h]⟩
  | cons t ts ih =>
    intro xs pos acc r h
    cases t with
    | cls c =>
      cases xs with
      | nil => simp [matchToks] at h
      | cons x xs =>
        simp only [matchToks] at h
        split at h
        · rename_i hc
          obtain ⟨n, hf, hr⟩ := ih _ _ _ _ h
          exact ⟨n+1, .cls hc hf, by rw [hr]; congr 1; omega⟩
        · simp at h
    | gopen =>
      simp only [matchToks] at h
      obtain ⟨n, hf, hr⟩ := ih _ _ _ _ h
      exact ⟨n, .gopen hf, hr⟩
    | gclose =>
      simp only [matchToks] at h
      obtain ⟨n, hf, hr⟩ := ih _ _ _ _ h
      exact ⟨n, .gclose hf, hr⟩
    | star c g =>
      simp only [matchToks] at h
      split at h
      · obtain ⟨j, hj, hk⟩ := firstDown_some h
        obtain ⟨n, hf, hr⟩ := ih _ _ _ _ hk
        have hjl := Nat.le_trans hj (runLen_le c xs)
        exact ⟨j + n, .star j hjl (runLen_take c xs j hj) hf, by rw [hr]; congr 1; omega⟩
      · obtain ⟨j, _, hj, hk, _⟩ := firstUp_some h
        obtain ⟨n, hf, hr⟩ := ih _ _ _ _ hk
        have hj' : j ≤ runLen c xs := by omega
        have hjl := Nat.le_trans hj' (runLen_le c xs)
        exact ⟨j + n, .star j hjl (runLen_take c xs j hj') hf, by rw [hr]; congr 1; omega⟩

/-- completeness: failure means no fit at all -/
theorem matchToks_complete : ∀ (ts : List Tok) (xs : List Char) (pos : Nat) (acc : List Nat),
    matchToks ts xs pos acc = none → ∀ n, ¬ Fits ts xs n := by
  intro ts
  induction ts with
  | nil => intro xs pos acc h; simp [matchToks] at h
  | cons t ts ih =>
    intro xs pos acc h n hf
    cases hf with
    | cls hc hf' =>
      simp only [matchToks, hc, if_true] at h
      exact ih _ _ _ h _ hf'
    | gopen hf' => simp only [matchToks] at h; exact ih _ _ _ h _ hf'
    | gclose hf' => simp only [matchToks] at h; exact ih _ _ _ h _ hf'
    | star j hj hall hf' =>
      simp only [matchToks] at h
      have hjr := le_runLen _ xs j hj hall
      split at h
      · exact ih _ _ _ (firstDown_none h j hjr) _ hf'
      · exact ih _ _ _ (firstUp_none h j (Nat.zero_le _) (by omega)) _ hf'

#print axioms matchToks_sound
#print axioms matchToks_complete
end Probe
