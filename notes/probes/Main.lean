import Probe.Basic
open Probe
partial def loop (h : IO.FS.Stream) (cnt : Nat) : IO Unit := do
  let line ← h.getLine
  if line.isEmpty then return ()
  match (line.trimAscii.toString.splitOn " ") with
  | [p, w, c] =>
    let r := search (parsePat p) w.toList (c == "1")
    IO.println (match r with | some l => toString l.reverse | none => "none")
  | _ => IO.println "bad-op"
  loop h (cnt+1)
def main : IO Unit := do loop (← IO.getStdin) 0
