import Probe.Kits
namespace Probe
theorem kits_len : kits.length = 85 := by decide
theorem kits_cutAligned : kits.all cutAligned = true := by decide +kernel
#print axioms kits_cutAligned
end Probe
