import Moclo.Model.Wire
/-! stdin/stdout line protocol around `Moclo.Wire.step`. -/
partial def loop (h : IO.FS.Stream) (out : IO.FS.Stream) : IO Unit := do
  let line ← h.getLine
  if line.isEmpty then return ()
  let l := if line.endsWith "\n" then (line.dropEnd 1).toString else line
  out.putStrLn (Moclo.Wire.step l)
  loop h out

def main : IO Unit := do
  let out ← IO.getStdout
  loop (← IO.getStdin) out
  out.flush
