import Moclo.Generated.Enzymes
/-! Kernel-checked tie between the live `structure()` of generic and signature-typed classes over every
supported enzyme and the model's closed forms (`moduleStructure`, `vectorStructure`,
`modulePartStructure`, `vectorPartStructure`). -/
namespace Moclo.Tables
open Moclo Moclo.Generated

def EnzRow.geom (r : EnzRow) : Geom := { site := r.site, off := r.fst5 - r.site.length, k := r.k }

def EnzRow.ok (r : EnzRow) : Bool :=
  r.is5 && decide (r.site.length ≤ r.fst5) && decide (1 ≤ r.site.length) && decide (1 ≤ r.k) &&
  r.fst3 == (r.fst5 - r.site.length) + r.k &&
  r.modS == moduleStructure (EnzRow.geom r) && r.vecS == vectorStructure (EnzRow.geom r) &&
  r.modP == modulePartStructure (EnzRow.geom r) r.up r.down &&
  r.vecP == vectorPartStructure (EnzRow.geom r) r.up r.down &&
  r.modP2 == modulePartStructure (EnzRow.geom r) r.up2 r.down2 &&
  r.vecP2 == vectorPartStructure (EnzRow.geom r) r.up2 r.down2

theorem enzymes_ok : enzymes.all EnzRow.ok = true := by decide +kernel

/-- the generic structures over every supported enzyme are cut-aligned -/
theorem enzymes_cutAligned : enzymes.all (fun r => cutAligned (EnzRow.geom r) r.modS && cutAligned (EnzRow.geom r) r.vecS
    && cutAligned (EnzRow.geom r) r.modP && cutAligned (EnzRow.geom r) r.vecP) = true := by decide +kernel

/-- every supported site is spelt with nucleotides only and is not its own reverse complement -/
theorem enzymes_sites : enzymes.all (fun r => r.site.all Nt.isBase && (r.site != rcNt r.site)) = true := by decide +kernel

theorem enzymes_nonempty : 20 ≤ enzymes.length := by decide +kernel

end Moclo.Tables
