import Moclo.Generated.Lettermap
/-! Kernel-checked tie between `DNARegex._lettermap` + `(?i)` as the code behaves now and the model's
`clsMatch`: the extracted table is exactly the graph of `clsMatch` over all 15 × 15 × 2 letter pairs. -/
namespace Moclo.Tables
open Moclo Moclo.Generated

/-- the graph of the model's `clsMatch`, in the order the extractor enumerates -/
def modelTable : List (Nt × Nt × Bool × Bool) :=
  Nt.all.flatMap (fun p => Nt.all.flatMap (fun x => [false, true].map (fun lo => (p, x, lo, clsMatch p ⟨x, lo⟩))))

theorem lettermap_eq_model : lettermapTable = modelTable := by decide +kernel

end Moclo.Tables
