import Moclo.Generated.Kits
/-! Kernel-checked facts about the live `structure()` of the 85 concrete kit classes. -/
namespace Moclo.Tables
open Moclo Moclo.Generated

def KitRow.geom (r : KitRow) : Geom := { site := r.site, off := r.off, k := r.k }

/-- signature-derived classes carry exactly the model's part structure; plain module / vector classes the
generic one -/
def KitRow.derivedOk (r : KitRow) : Bool :=
  match r.sig with
  | some (u, d) => r.pat == partStructure r.kind (KitRow.geom r) u d
  | none => if r.generic then r.pat == genericStructure r.kind (KitRow.geom r) else true

theorem kits_derived : kits.all KitRow.derivedOk = true := by decide +kernel
theorem kits_5prime : kits.all (fun r => r.is5 && decide (1 ≤ r.k)) = true := by decide +kernel
theorem kits_flat : kits.all (fun r => flatGroups r.pat false) = true := by decide +kernel
/-- every kit class records exactly three capture groups -/
theorem kits_three_groups : kits.all (fun r => nmarks r.pat == 6) = true := by decide +kernel
/-- every kit class is cut-aligned with respect to its own cutter (hand-written structures included) -/
theorem kits_cutAligned : kits.all (fun r => cutAligned (KitRow.geom r) r.pat) = true := by decide +kernel
/-- every bundled vector type that embeds the next level's sites has the next-level layout for the cutter of
the kit's next-level module class -/
theorem kits_nextLevel : nextLevelPairs.all (fun ij =>
    match kits[ij.1]?, kits[ij.2]? with
    | some v, some m => nextLevelOK (KitRow.geom m) v.k v.pat && (m.pat == moduleStructure (KitRow.geom m))
    | _, _ => false) = true := by decide +kernel
/-- the cutters of the kits: sites spelt with nucleotides only, non-palindromic -/
theorem kits_sites : kits.all (fun r => r.site.all Nt.isBase && (r.site != rcNt r.site)) = true := by decide +kernel
theorem kits_count : 85 ≤ kits.length := by decide +kernel

/-- the YTK pair as the classes are now: the product's structure is the closed form `ytkProductPat`, the
next-level class (`YTKEntry`) is matched with the generic module structure of BsaI, the entry vector's cutter
is the product's -/
theorem kits_ytk :
    (match kits[ytkPair.1]?, kits[ytkPair.2.1]?, kits[ytkPair.2.2]? with
     | some v, some prod, some nxt =>
        (prod.pat == ytkProductPat) && (nxt.pat == moduleStructure bsaI) && (nxt.site == bsaI.site) &&
        (nxt.off == bsaI.off) && (nxt.k == bsaI.k) && (v.site == prod.site) && (v.k == 4) && (prod.k == 4)
     | _, _, _ => false) = true := by decide +kernel

end Moclo.Tables
