import Moclo.Generated.Registries
/-! Kernel-checked coherence of the embedded registries as they load now (C20, exhaustive).
Strings are extracted as single natural numbers (UTF-8 bytes behind a leading 0x01), an injective
encoding, so key equality and duplicate-freedom are decided by the kernel on numbers. -/
namespace Moclo.Tables
open Moclo.Generated

/-- "Kanamycin", "Chloramphenicol", "Ampicillin", "Spectinomycin" in the extractor's encoding -/
def knownResistance : List Nat := [0x14b616e616d7963696e, 0x143686c6f72616d7068656e69636f6c, 0x1416d706963696c6c696e, 0x15370656374696e6f6d7963696e]

def memN (x : Nat) : List Nat → Bool
  | [] => false
  | y :: ys => Nat.beq x y || memN x ys

def nodupN : List Nat → Bool
  | [] => true
  | x :: xs => !(memN x xs) && nodupN xs

/-- length = number of keys; keys pairwise distinct; every key looks up an item whose id and whose
record id are the key, whose record is circular and whose resistance is a known antibiotic -/
def RegTable.ok (t : RegTable) : Bool :=
  Nat.beq t.len t.rows.length &&
  nodupN (t.rows.map (·.1)) &&
  t.rows.all (fun r => Nat.beq r.1 r.2.1 && Nat.beq r.1 r.2.2.1 && r.2.2.2.1 && memN r.2.2.2.2 knownResistance)

theorem registries_ok : registries.all RegTable.ok = true := by decide +kernel
/-- every cassette tag of the live table selects a known antibiotic -/
theorem antibiotics_known : antibiotics.all (fun e => memN e.2 knownResistance) = true := by decide +kernel
theorem antibiotics_nonempty : 4 ≤ antibiotics.length := by decide +kernel

theorem registries_count : registries.length = 5 := by decide +kernel
theorem registries_nonempty : registries.all (fun t => decide (10 ≤ t.rows.length)) = true := by decide +kernel

theorem nodupN_sound : ∀ (l : List Nat), nodupN l = true → l.Nodup := by
  intro l
  induction l with
  | nil => intro _; exact List.nodup_nil
  | cons x xs ih =>
    intro h
    simp only [nodupN, Bool.and_eq_true, Bool.not_eq_true'] at h
    refine List.nodup_cons.mpr ⟨?_, ih h.2⟩
    intro hx
    have : memN x xs = true := by
      clear h ih
      induction xs with
      | nil => cases hx
      | cons y ys ih2 =>
        simp only [memN, Bool.or_eq_true]
        rcases List.mem_cons.mp hx with rfl | h'
        · left; exact Nat.beq_refl _
        · right; exact ih2 h'
    rw [this] at h; exact absurd h.1 (by simp)

end Moclo.Tables
