import Moclo.Generated.Enzymes3
/-! Kernel-checked tie between the live `structure()` of signature-typed classes over every single-cut
3'-overhang enzyme and the model's closed forms: the same `modulePartStructure` / `vectorPartStructure` as for
a 5' cutter with the same `(site, off, k)`, where `off = fst3` and `fst5 = |site| + off + k`. -/
namespace Moclo.Tables
open Moclo Moclo.Generated

def Enz3Row.geom (r : Enz3Row) : Geom := { site := r.site, off := r.fst3, k := r.k }

def Enz3Row.ok (r : Enz3Row) : Bool :=
  r.is3 && decide (1 ≤ r.site.length) && decide (1 ≤ r.k) &&
  r.fst5 == r.site.length + r.fst3 + r.k &&
  r.modP == modulePartStructure (Enz3Row.geom r) r.up r.down &&
  r.vecP == vectorPartStructure (Enz3Row.geom r) r.up r.down &&
  r.modP2 == modulePartStructure (Enz3Row.geom r) r.up2 r.down2 &&
  r.vecP2 == vectorPartStructure (Enz3Row.geom r) r.up2 r.down2 &&
  cutAligned (Enz3Row.geom r) r.modP && cutAligned (Enz3Row.geom r) r.vecP

theorem enzymes3_ok : enzymes3.all Enz3Row.ok = true := by decide +kernel

/-- every tabulated site is spelt with nucleotides only and is not its own reverse complement -/
theorem enzymes3_sites : enzymes3.all (fun r => r.site.all Nt.isBase && (r.site != rcNt r.site)) = true := by decide +kernel

theorem enzymes3_nonempty : 20 ≤ enzymes3.length := by decide +kernel

end Moclo.Tables
