import Moclo.Proofs.Assembly
import Moclo.Proofs.Names
import Moclo.Props.C03
import Moclo.Tables.Enzymes
import Moclo.Proofs.Flank
import Moclo.Proofs.RevComp
import Moclo.Props.C02
import Moclo.Proofs.Complete
/-!
# C01 — assembly yields exactly the Golden Gate ligation product

Model: `assemble` (`AssemblyManager`), `ClassSpec.matchSeq/targetOf` (`target_sequence`), the structure
closed forms of `Model/Structure.lean`.

* `product_is_concatenation`: whenever a product is returned its sequence is the concatenation of the
  fragments retained from the modules, in chain order, followed by the fragment retained from the vector —
  nothing else contributes, and the length is the sum of the fragment lengths.  The chain is the one the
  overhang graph defines (C03).
* `structures_are_closed_forms`: for every supported enzyme of `Bio.Restriction` the live `structure()` of
  generic and signature-typed classes is the model's closed form (kernel-checked on the regenerated
  table), i.e. `site N^off (N^k)(N N* N)(N^k) N^off rc(site)` / `N (N^k)(N^off rc(site) N* site N^off)(N^k) N`.
* what each fragment *is* in terms of the canonical decomposition of a well-formed plasmid is C02 + C04
  (`Props/C02.lean`, `Props/C04.lean`): overhangs and target are functions of the matched text only.
-/
namespace Moclo.C01
open Moclo

/-- the product is exactly the chain's fragments followed by the vector's, each module used once, the chain
being a linked path through the overhang graph from the vector's downstream to its upstream overhang -/
theorem product_is_concatenation {v : Ent} {mods : List Ent} {pid pname : Nat} {p : Product} {after : List Rec}
    (h : assemble v mods pid pname = (.ok p, after)) :
    ∃ (gv : GMod Word) (chain : List (GMod Word)),
      v.gmod = .ok gv ∧
      IsPath gv.stop chain gv.start ∧ (keys chain).Nodup ∧ (∀ g ∈ chain, g.start ≠ gv.start) ∧
      (∀ g ∈ chain, ∃ e ∈ mods, e.oid = g.oid ∧ e.gmod = .ok g) ∧
      p.rcd.seq = (chain.map (fun g => fragOfOid mods g.oid)).flatten ++ v.fragment ∧
      p.rcd.seq.length = ((chain.map (fun g => (fragOfOid mods g.oid).length)).sum) + v.fragment.length := by
  obtain ⟨gv, gs, map, chain, rest, h1, h2, h3, h4, h5, h6, h7, _⟩ := assemble_ok h
  have hw := gWalk_walk gv.start (map.length + 1) gv.stop map (by omega)
  rw [h6] at hw
  obtain ⟨hkn, hmapmem⟩ := gBuild_basic gs [] map (by simp [keys]) h4
  obtain ⟨hperm, hns, hpath⟩ := hw.spec hkn
  have hkc : (keys chain).Nodup := by
    have := keys_nodup_of_perm hperm hkn
    unfold keys at this ⊢; rw [List.map_append] at this; exact (List.nodup_append.mp this).1
  have hsrc := evalPrefix_src mods gs none h3
  have hmapsrc : ∀ g ∈ map, g ∈ gs := fun g hg => (hmapmem g hg).elim (fun h => by simp at h) id
  refine ⟨gv, chain, h1, hpath, hkc, hns, ?_, h7, ?_⟩
  · intro g hg
    exact hsrc g (hmapsrc g (hperm.mem_iff.mpr (by simp [hg])))
  · rw [h7, List.length_append, List.length_flatten, List.map_map]
    rfl

/-- **the converse — a well-formed assembly does yield the product**: distinct module objects accepted by
their classes, whose overhang keys contain a chain from the vector's downstream to its upstream overhang (no
two modules starting alike, no reverse-complementary starts), well-formed citations: `assemble` returns a
product, its sequence is the concatenation of the chain's fragments followed by the vector's, and the unused
modules are exactly those outside the chain.  With `module_canonical` / `vector_canonical` for the fragments
this is the documented formula `o5₁·t₁ ⋯ o5ₖ·tₖ · o3ᵥ·backbone` -/
theorem wellformed_assembly_succeeds {v : Ent} {mods : List Ent} (pid pname : Nat) {gv : GMod Word}
    {gs chain : List (GMod Word)}
    (h1 : v.gmod = .ok gv) (hF : List.Forall₂ (fun e g => e.gmod = .ok g) mods gs)
    (hoid : (mods.map (·.oid)).Nodup) (hne : gv.start ≠ gv.stop)
    (hsf : StartFree gs) (hrc : C03.NoRc rc gs) (hc : C03.Chain gs gv.stop chain gv.start)
    (hd : ∀ e ∈ mods, (derefRec e.rcd).isSome) (hdv : (derefRec v.rcd).isSome)
    (hf : ∀ e ∈ mods, e.faulty = false) (hvf : v.faulty = false) :
    ∃ p, (assemble v mods pid pname).1 = .ok p ∧
      p.rcd.seq = (chain.map (fun g => fragOfOid mods g.oid)).flatten ++ v.fragment ∧
      (∀ o, o ∈ p.unused ↔ ∃ g ∈ gs, g ∉ chain ∧ g.oid = o) :=
  assemble_complete pid pname h1 hF hoid hne hsf hrc hc hd hdv hf hvf

/-- for every supported enzyme the structures the classes are matched with are the documented closed
forms (generic module / vector, and signature-typed parts for two signatures each) -/
theorem structures_are_closed_forms :
    ∀ r ∈ Generated.enzymes,
      r.modS = moduleStructure (Tables.EnzRow.geom r) ∧ r.vecS = vectorStructure (Tables.EnzRow.geom r) ∧
      r.fst3 = (r.fst5 - r.site.length) + r.k ∧ 1 ≤ r.k ∧ 1 ≤ r.site.length ∧ r.site.length ≤ r.fst5 := by
  intro r hr
  have h := List.all_eq_true.mp Tables.enzymes_ok r hr
  unfold Tables.EnzRow.ok at h
  simp only [Bool.and_eq_true, decide_eq_true_eq, beq_iff_eq] at h
  obtain ⟨⟨⟨⟨⟨⟨⟨⟨⟨⟨_, a⟩, b⟩, c⟩, d⟩, e⟩, f⟩, _⟩, _⟩, _⟩, _⟩ := h
  exact ⟨e, f, d, c, b, a⟩

/-- letters the wildcard `N` accepts (A, C, G, T, N in either case) -/
def Plain (w : Word) : Prop := ∀ x ∈ w, clsMatch .N x = true

theorem Plain_append (a b : Word) : Plain (a ++ b) ↔ Plain a ∧ Plain b := by
  unfold Plain
  constructor
  · intro h; exact ⟨fun x hx => h x (List.mem_append_left _ hx), fun x hx => h x (List.mem_append_right _ hx)⟩
  · rintro ⟨h1, h2⟩ x hx
    rcases List.mem_append.mp hx with h | h
    · exact h1 x h
    · exact h2 x h

/-- **what a well-formed module is typed as, for every geometry, every sequence and every rotation**:
let the plasmid be any rotation of `site·x·o5·t·o3·y·rc(site)·b` with `|x| = |y| = off`, `|o5| = |o3| = k`,
`|t| ≥ 2`, carrying exactly the structure once (`UniqueFit`) and passing the illegal-site screen.  Then the
generic module class reports upstream overhang `o5`, downstream overhang `o3` and target `o5·t` — module
backbone and recognition sites contribute nothing -/
theorem module_canonical (g : Geom) (S x o5 t o3 y S' b : Word)
    (hS : matchesAt g.site S) (hSl : S.length = g.site.length)
    (hS' : matchesAt (rcNt g.site) S') (hS'l : S'.length = g.site.length)
    (hx : x.length = g.off) (hy : y.length = g.off) (ho5 : o5.length = g.k) (ho3 : o3.length = g.k)
    (ht : 2 ≤ t.length) (hplain : Plain (x ++ o5 ++ t ++ o3 ++ y))
    (hfit : UniqueFit (moduleStructure g) (S ++ x ++ o5 ++ t ++ o3 ++ y ++ S' ++ b))
    (hscreen : validCuts g (S ++ x ++ o5 ++ t ++ o3 ++ y ++ S') ≤ 2) (r : Nat) :
    C02.report { kind := .module, pat := moduleStructure g, geom := g }
      (rotr (S ++ x ++ o5 ++ t ++ o3 ++ y ++ S' ++ b) r) = .ok (o5, o3, o5 ++ t, o5 ++ t) := by
  set w := S ++ x ++ o5 ++ t ++ o3 ++ y ++ S' ++ b with hw
  set c : ClassSpec := { kind := .module, pat := moduleStructure g, geom := g } with hc
  have h3 : C02.ThreeGroups c.pat := C02.generic_three_groups .module g
  -- split t = t0 :: tm ++ [tl]
  obtain ⟨t0, tm, tl, rfl⟩ : ∃ t0 tm tl, t = t0 :: (tm ++ [tl]) := by
    cases t with
    | nil => simp at ht
    | cons a rest =>
      cases h : rest.reverse with
      | nil => have := List.reverse_eq_nil_iff.mp h; subst this; simp at ht
      | cons l rr => exact ⟨a, rr.reverse, l, by rw [← List.reverse_reverse rest, h]; simp⟩
  have hp := hplain
  unfold Plain at hp
  have core : S ++ x ++ o5 ++ (t0 :: (tm ++ [tl])) ++ o3 ++ y ++ S' =
      S ++ (x ++ o5 ++ [t0]) ++ tm ++ ([tl] ++ o3 ++ y) ++ S' := by simp [List.append_assoc]
  obtain ⟨ms, hrun⟩ := module_fits g S (x ++ o5 ++ [t0]) tm ([tl] ++ o3 ++ y) S' hS hSl hS' hS'l
    (fun z hz => hp z (by simp at hz ⊢; tauto)) (by simp [hx, ho5]; omega)
    (fun z hz => hp z (by simp at hz ⊢; tauto))
    (fun z hz => hp z (by simp at hz ⊢; tauto)) (by simp [ho3, hy]; omega)
  rw [← core] at hrun
  -- the same run on the whole plasmid (window at 0)
  have hw0 : window w 0 = w := by
    rw [window_eq_rotate w 0 (Nat.zero_le _)]; simp
  have hrunw : Run (moduleStructure g) (window w 0) 0 ms
      (S ++ x ++ o5 ++ (t0 :: (tm ++ [tl])) ++ o3 ++ y ++ S').length := by
    rw [hw0, hw]; exact Run.extend hrun b
  -- uniqueness: the search finds exactly this fit
  obtain ⟨i, ms', e', rel, hi, hr', hrel, hrev, hsearch, huniq⟩ := search_of_uniqueFit hfit
  have hwpos : 0 < w.length := by omega
  obtain ⟨ei, em, ee⟩ := huniq 0 ms _ hwpos hrunw
  subst ei
  have hustart : UniqueStart c.pat w := by
    refine ⟨0, hwpos, by rw [show c.pat = moduleStructure g from rfl, hrel]; rfl, ?_⟩
    intro j hj hsome
    obtain ⟨rj, hrj⟩ := Option.isSome_iff_exists.mp hsome
    obtain ⟨mj, ej, hrunj, _⟩ := relMatch_run hrj
    exact (huniq j mj ej hj hrunj).1
  rw [C02.report_rotr c w r h3 hustart]
  have hmarks := (module_run_marks g hrunw).1
  rw [C02.report_of_view (c := c) h3 hwpos hrel hsearch]
  -- the marks of the unique fit
  have hrs : rel.reverse = ms ++ [(S ++ x ++ o5 ++ (t0 :: (tm ++ [tl])) ++ o3 ++ y ++ S').length] := by
    rw [hrev, em, ee]
  set L := (S ++ x ++ o5 ++ (t0 :: (tm ++ [tl])) ++ o3 ++ y ++ S').length with hL
  have hLval : L = g.site.length + g.off + g.k + (tm.length + 2) + g.k + g.off + g.site.length := by
    simp [hL, hSl, hS'l, hx, hy, ho5, ho3]; omega
  rw [hrs, hmarks, hw0]
  have hg0 : vgroup w (([g.site.length + g.off, g.site.length + g.off + g.k, g.site.length + g.off + g.k,
      L - (g.site.length + g.off + g.k), L - (g.site.length + g.off + g.k), L - (g.site.length + g.off)]) ++ [L]) 0
      = S ++ x ++ o5 ++ (t0 :: (tm ++ [tl])) ++ o3 ++ y ++ S' := by
    simp only [vgroup, rspan, slice, if_true, List.drop_zero, Nat.sub_zero]
    rw [show ([g.site.length + g.off, g.site.length + g.off + g.k, g.site.length + g.off + g.k,
      L - (g.site.length + g.off + g.k), L - (g.site.length + g.off + g.k), L - (g.site.length + g.off)] ++ [L]).getLastD 0 = L by simp]
    rw [hw, hL, List.take_left']
    rfl
  rw [hg0, if_neg (by show ¬ validCuts g _ > 2; omega)]
  -- read the groups off the plasmid
  have take_drop : ∀ (pre mid post : Word), ((pre ++ mid ++ post).drop pre.length).take mid.length = mid := by
    intro pre mid post; simp [List.append_assoc]
  simp only [ClassSpec.upGroup, ClassSpec.downGroup, vgroup, vTarget, rspan, slice, hc]
  simp only [show (1:Nat) ≠ 0 by omega, show (2:Nat) ≠ 0 by omega, show (3:Nat) ≠ 0 by omega, if_false,
    List.getD_cons_succ, List.getD_cons_zero, List.cons_append, List.nil_append]
  congr 1
  refine Prod.ext ?_ (Prod.ext ?_ (Prod.ext ?_ ?_))
  · show (w.drop (g.site.length + g.off)).take (g.site.length + g.off + g.k - (g.site.length + g.off)) = o5
    have := take_drop (S ++ x) o5 ((t0 :: (tm ++ [tl])) ++ o3 ++ y ++ S' ++ b)
    simp only [List.length_append, hSl, hx, ho5] at this
    rw [show g.site.length + g.off + g.k - (g.site.length + g.off) = g.k by omega]
    rw [hw]; simpa [List.append_assoc] using this
  · show (w.drop (L - (g.site.length + g.off + g.k))).take (L - (g.site.length + g.off) - (L - (g.site.length + g.off + g.k))) = o3
    have := take_drop (S ++ x ++ o5 ++ (t0 :: (tm ++ [tl]))) o3 (y ++ S' ++ b)
    have e1 : (S ++ x ++ o5 ++ (t0 :: (tm ++ [tl]))).length = L - (g.site.length + g.off + g.k) := by
      simp [hLval, hSl, hx, ho5]; omega
    rw [e1, ho3] at this
    rw [show L - (g.site.length + g.off) - (L - (g.site.length + g.off + g.k)) = g.k by omega]
    rw [hw]; simpa [List.append_assoc] using this
  · show (w.drop (g.site.length + g.off)).take (L - (g.site.length + g.off + g.k) - (g.site.length + g.off)) = o5 ++ t0 :: (tm ++ [tl])
    have := take_drop (S ++ x) (o5 ++ (t0 :: (tm ++ [tl]))) (o3 ++ y ++ S' ++ b)
    simp only [List.length_append, hSl, hx, ho5, List.length_cons, List.length_nil] at this
    rw [show L - (g.site.length + g.off + g.k) - (g.site.length + g.off) = g.k + (tm.length + (0 + 1) + 1) by omega]
    rw [hw]; simpa [List.append_assoc] using this
  · -- placeholder expression = group 1 ++ group 2 = o5 ++ t
    show (w.drop (g.site.length + g.off)).take (g.site.length + g.off + g.k - (g.site.length + g.off)) ++
      (w.drop (g.site.length + g.off + g.k)).take (L - (g.site.length + g.off + g.k) - (g.site.length + g.off + g.k))
      = o5 ++ t0 :: (tm ++ [tl])
    have h1 := take_drop (S ++ x) o5 ((t0 :: (tm ++ [tl])) ++ o3 ++ y ++ S' ++ b)
    have h2 := take_drop (S ++ x ++ o5) (t0 :: (tm ++ [tl])) (o3 ++ y ++ S' ++ b)
    simp only [List.length_append, hSl, hx, ho5, List.length_cons, List.length_nil] at h1 h2
    rw [show g.site.length + g.off + g.k - (g.site.length + g.off) = g.k by omega,
      show L - (g.site.length + g.off + g.k) - (g.site.length + g.off + g.k) = tm.length + (0 + 1) + 1 by omega]
    rw [hw]
    congr 1
    · simpa [List.append_assoc] using h1
    · simpa [List.append_assoc] using h2

/-- **what a well-formed vector is typed as**: let the plasmid be any rotation of
`c0·o5·y·rc(site)·p·site·x·o3·c1·b` (i.e. of the documented `o3·B·o5·y·rc(site)·p·site·x` with backbone
`B = c1·b·c0`, `|B| ≥ 2`), `|x| = |y| = off`, `|o5| = |o3| = k`, carrying the structure exactly once and passing
the screen.  Then the generic vector class reports upstream overhang `o3`, downstream overhang `o5`, target
`o3·c1·b·c0` — the vector backbone with its upstream overhang — and placeholder `o5·y·rc(site)·p·site·x`; the
placeholder contributes nothing to an assembly -/
theorem vector_canonical (g : Geom) (c0 c1 : Sym) (o5 y S' p S x o3 b : Word)
    (hS : matchesAt g.site S) (hSl : S.length = g.site.length)
    (hS' : matchesAt (rcNt g.site) S') (hS'l : S'.length = g.site.length)
    (hx : x.length = g.off) (hy : y.length = g.off) (ho5 : o5.length = g.k) (ho3 : o3.length = g.k)
    (hplain : Plain ([c0] ++ o5 ++ y ++ p ++ x ++ o3 ++ [c1]))
    (hfit : UniqueFit (vectorStructure g) ([c0] ++ o5 ++ y ++ S' ++ p ++ S ++ x ++ o3 ++ [c1] ++ b))
    (hscreen : validCuts g ([c0] ++ o5 ++ y ++ S' ++ p ++ S ++ x ++ o3 ++ [c1]) ≤ 2) (r : Nat) :
    C02.report { kind := .vector, pat := vectorStructure g, geom := g }
      (rotr ([c0] ++ o5 ++ y ++ S' ++ p ++ S ++ x ++ o3 ++ [c1] ++ b) r)
      = .ok (o3, o5, o3 ++ [c1] ++ b ++ [c0], o5 ++ (y ++ S' ++ p ++ S ++ x)) := by
  set w := [c0] ++ o5 ++ y ++ S' ++ p ++ S ++ x ++ o3 ++ [c1] ++ b with hw
  set c : ClassSpec := { kind := .vector, pat := vectorStructure g, geom := g } with hc
  have h3 : C02.ThreeGroups c.pat := C02.generic_three_groups .vector g
  simp only [Plain_append] at hplain
  obtain ⟨⟨⟨⟨⟨⟨p0, p5⟩, py⟩, pp⟩, px⟩, p3⟩, p1⟩ := hplain
  have pA : Plain ([c0] ++ o5 ++ y) := (Plain_append _ _).mpr ⟨(Plain_append _ _).mpr ⟨p0, p5⟩, py⟩
  have pB : Plain (x ++ o3 ++ [c1]) := (Plain_append _ _).mpr ⟨(Plain_append _ _).mpr ⟨px, p3⟩, p1⟩
  have core : [c0] ++ o5 ++ y ++ S' ++ p ++ S ++ x ++ o3 ++ [c1] =
      ([c0] ++ o5 ++ y) ++ S' ++ p ++ S ++ (x ++ o3 ++ [c1]) := by simp only [List.append_assoc]
  obtain ⟨ms, hrun⟩ := vector_fits g ([c0] ++ o5 ++ y) S' p S (x ++ o3 ++ [c1]) hS hSl hS' hS'l
    pA (by simp [ho5, hy]; omega) pp pB (by simp [hx, ho3]; omega)
  rw [← core] at hrun
  have hw0 : window w 0 = w := by
    rw [window_eq_rotate w 0 (Nat.zero_le _)]; simp
  set L := ([c0] ++ o5 ++ y ++ S' ++ p ++ S ++ x ++ o3 ++ [c1]).length with hL
  have hrunw : Run (vectorStructure g) (window w 0) 0 ms L := by
    rw [hw0, hw]; exact Run.extend hrun b
  obtain ⟨i, ms', e', rel, hi, hr', hrel, hrev, hsearch, huniq⟩ := search_of_uniqueFit hfit
  have hwpos : 0 < w.length := by omega
  obtain ⟨ei, em, ee⟩ := huniq 0 ms _ hwpos hrunw
  subst ei
  have hustart : UniqueStart c.pat w := by
    refine ⟨0, hwpos, by rw [show c.pat = vectorStructure g from rfl, hrel]; rfl, ?_⟩
    intro j hj hsome
    obtain ⟨rj, hrj⟩ := Option.isSome_iff_exists.mp hsome
    obtain ⟨mj, ej, hrunj, _⟩ := relMatch_run hrj
    exact (huniq j mj ej hj hrunj).1
  rw [C02.report_rotr c w r h3 hustart]
  have hmarks := (vector_run_marks g hrunw).1
  rw [C02.report_of_view (c := c) h3 hwpos hrel hsearch]
  have hrs : rel.reverse = ms ++ [L] := by rw [hrev, em, ee]
  have hLval : L = 1 + g.k + g.off + g.site.length + p.length + g.site.length + g.off + g.k + 1 := by
    simp [hL, hSl, hS'l, hx, hy, ho5, ho3]; omega
  rw [hrs, hmarks, hw0]
  have hg0 : vgroup w (([1, 1 + g.k, 1 + g.k, L - (g.k + 1), L - (g.k + 1), L - 1]) ++ [L]) 0
      = [c0] ++ o5 ++ y ++ S' ++ p ++ S ++ x ++ o3 ++ [c1] := by
    simp only [vgroup, rspan, slice, if_true, List.drop_zero, Nat.sub_zero]
    rw [show ([1, 1 + g.k, 1 + g.k, L - (g.k + 1), L - (g.k + 1), L - 1] ++ [L]).getLastD 0 = L by simp]
    rw [hw, hL, List.take_left']
    rfl
  rw [hg0, if_neg (by show ¬ validCuts g _ > 2; omega)]
  have take_drop : ∀ (pre mid post : Word), ((pre ++ mid ++ post).drop pre.length).take mid.length = mid := by
    intro pre mid post; simp [List.append_assoc]
  simp only [ClassSpec.upGroup, ClassSpec.downGroup, vgroup, vTarget, rspan, slice, hc]
  simp only [show (1:Nat) ≠ 0 by omega, show (2:Nat) ≠ 0 by omega, show (3:Nat) ≠ 0 by omega, if_false,
    List.getD_cons_succ, List.getD_cons_zero, List.cons_append, List.nil_append]
  congr 1
  refine Prod.ext ?_ (Prod.ext ?_ (Prod.ext ?_ ?_))
  · -- upstream overhang = group 3 = o3
    show (w.drop (L - (g.k + 1))).take (L - 1 - (L - (g.k + 1))) = o3
    have := take_drop ([c0] ++ o5 ++ y ++ S' ++ p ++ S ++ x) o3 ([c1] ++ b)
    have e1 : ([c0] ++ o5 ++ y ++ S' ++ p ++ S ++ x).length = L - (g.k + 1) := by
      simp [hLval, hSl, hS'l, hx, hy, ho5]; omega
    rw [e1, ho3] at this
    rw [show L - 1 - (L - (g.k + 1)) = g.k by omega]
    rw [hw]; simpa [List.append_assoc] using this
  · -- downstream overhang = group 1 = o5
    show (w.drop 1).take (1 + g.k - 1) = o5
    have := take_drop [c0] o5 (y ++ S' ++ p ++ S ++ x ++ o3 ++ [c1] ++ b)
    simp only [List.length_singleton, ho5] at this
    rw [show 1 + g.k - 1 = g.k by omega]
    rw [hw]; simpa [List.append_assoc] using this
  · -- target = text[b2:] ++ text[:a1] = o3 c1 b ++ c0
    show w.drop (L - (g.k + 1)) ++ w.take 1 = o3 ++ [c1] ++ b ++ [c0]
    have e1 : ([c0] ++ o5 ++ y ++ S' ++ p ++ S ++ x).length = L - (g.k + 1) := by
      simp [hLval, hSl, hS'l, hx, hy, ho5]; omega
    have hd : w.drop (L - (g.k + 1)) = o3 ++ [c1] ++ b := by
      rw [← e1, hw]
      have : [c0] ++ o5 ++ y ++ S' ++ p ++ S ++ x ++ o3 ++ [c1] ++ b =
          ([c0] ++ o5 ++ y ++ S' ++ p ++ S ++ x) ++ (o3 ++ [c1] ++ b) := by simp [List.append_assoc]
      rw [this, List.drop_left]
    have ht1 : w.take 1 = [c0] := by rw [hw]; simp
    rw [hd, ht1]
  · -- placeholder = group 1 ++ group 2
    show (w.drop 1).take (1 + g.k - 1) ++ (w.drop (1 + g.k)).take (L - (g.k + 1) - (1 + g.k))
      = o5 ++ (y ++ S' ++ p ++ S ++ x)
    have h1 := take_drop [c0] o5 (y ++ S' ++ p ++ S ++ x ++ o3 ++ [c1] ++ b)
    have h2 := take_drop ([c0] ++ o5) (y ++ S' ++ p ++ S ++ x) (o3 ++ [c1] ++ b)
    simp only [List.length_append, List.length_singleton, ho5, hy, hS'l, hSl, hx] at h1 h2
    rw [show 1 + g.k - 1 = g.k by omega,
      show L - (g.k + 1) - (1 + g.k) = g.off + g.site.length + p.length + g.site.length + g.off by omega]
    rw [hw]
    congr 1
    · simpa [List.append_assoc] using h1
    · simpa [List.append_assoc] using h2

/-- **what is ligated does not depend on what the records are called**: the same objects under any other record
identifiers — all different, all equal (records built in code, exports without an accession, products left at the
default id) — assemble whenever the original inputs do, to the same sequence, leaving the same modules unused -/
theorem product_independent_of_record_names {v v' : Ent} {mods mods' : List Ent} {pid pname : Nat} {p : Product}
    {after : List Rec} (hv : SameButName v v') (hm : List.Forall₂ SameButName mods mods')
    (h : assemble v mods pid pname = (.ok p, after)) :
    ∃ p', (assemble v' mods' pid pname).1 = .ok p' ∧ p'.rcd.seq = p.rcd.seq ∧ p'.unused = p.unused :=
  assemble_names hv hm h

/-- … and they fail together too, with the same error -/
theorem outcome_independent_of_record_names {v v' : Ent} {mods mods' : List Ent} (pid pname : Nat)
    (hv : SameButName v v') (hm : List.Forall₂ SameButName mods mods') :
    OutcomeSame (assemble v mods pid pname).1 (assemble v' mods' pid pname).1 :=
  assemble_names_outcome pid pname hv hm

/-- every supplied module that its class accepts is in the evaluated prefix when no module was refused -/
theorem evalPrefix_mem : ∀ (mods : List Ent) (gs : List (GMod Word)), evalPrefix mods = (gs, none) →
    ∀ e ∈ mods, ∀ g, e.gmod = .ok g → g ∈ gs := by
  intro mods
  induction mods with
  | nil => intro gs _ e he; cases he
  | cons e0 es ih =>
    intro gs h e he g hg
    simp only [evalPrefix] at h
    cases h0 : e0.gmod with
    | error x => rw [h0] at h; simp at h
    | ok g0 =>
      rw [h0] at h
      simp only [Prod.mk.injEq] at h
      obtain ⟨rfl, herr⟩ := h
      rcases List.mem_cons.mp he with rfl | he
      · rw [h0] at hg; cases hg; exact List.mem_cons_self ..
      · exact List.mem_cons_of_mem _ (ih (evalPrefix es).1 (by rw [← herr]) e he g hg)

/-- **a module whose start overhang is its own reverse complement is never ligated** — whatever else is supplied,
whatever the vector: such an assembly returns no product (at the level of records, not only of the overhang graph) -/
theorem palindromic_module_never_assembled {v : Ent} {mods : List Ent} {pid pname : Nat} {e : Ent} {g : GMod Word}
    (he : e ∈ mods) (hg : e.gmod = .ok g) (hp : rc g.start = g.start) :
    ∀ p after, assemble v mods pid pname ≠ (.ok p, after) := by
  intro p after h
  obtain ⟨gv, gs, map, chain, rest, _, _, h3, h4, h5, _⟩ := assemble_ok h
  have hgs : g ∈ gs := evalPrefix_mem mods gs h3 e he g hg
  obtain ⟨m', hm', hs⟩ := (C03.gBuild_keeps_starts gs [] map h4).2 g hgs
  have hclash : gRcClash rc map = true := by
    unfold gRcClash
    rw [List.any_eq_true]
    refine ⟨m', hm', ?_⟩
    rw [hs, hp]
    cases hl : gLookup map g.start with
    | some _ => rfl
    | none => exact absurd hs ((gLookup_none.mp hl) m' hm')
  rw [hclash] at h5
  cases h5

/-! non-vacuity: a complete BsaI-like assembly on a toy geometry (site `GA`, off 1, k 2) evaluated by the
model: vector `N(NN)(N TC N* GA N)(NN)N`, one module, product = module fragment ++ vector fragment -/
section example_
def g : Geom := { site := [.G, .A], off := 1, k := 2 }
def wordOf (s : List Nt) : Word := s.map (fun n => ⟨n, false⟩)
-- module  GA·C·AC·AAA·CA·C·TC·GG    (o5 = AC, target AAA, o3 = CA)
def mrec : Rec := { rid := 1, seq := wordOf [.G,.A,.C,.A,.C,.A,.A,.A,.C,.A,.C,.T,.C,.G,.G], feats := [], refs := [] }
-- vector  CA·CCCC·AC·C·TC·T·GA·C    (o3 = CA upstream, backbone CCCC, o5 = AC downstream)
def vrec : Rec := { rid := 0, seq := wordOf [.C,.A,.C,.C,.C,.C,.A,.C,.C,.T,.C,.T,.G,.A,.C], feats := [], refs := [] }
def ment : Ent := { oid := 1, spec := { kind := .module, pat := moduleStructure g, geom := g }, rcd := mrec }
def vent : Ent := { oid := 0, spec := { kind := .vector, pat := vectorStructure g, geom := g }, rcd := vrec }
example : ((assemble vent [ment] 7 7).1.toOption.map (fun p => p.rcd.seq)) =
    some (wordOf [.A,.C,.A,.A,.A, .C,.A,.C,.C,.C,.C]) := by decide
-- the same two plasmids, both called 5
example : ((assemble { vent with rcd := { vrec with rid := 5 } } [{ ment with rcd := { mrec with rid := 5 } }] 7 7).1.toOption.map
    (fun p => p.rcd.seq)) = some (wordOf [.A,.C,.A,.A,.A, .C,.A,.C,.C,.C,.C]) := by decide
end example_

end Moclo.C01
