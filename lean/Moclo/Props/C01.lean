import Moclo.Proofs.Assembly
import Moclo.Props.C03
import Moclo.Tables.Enzymes
/-!
# C01 — assembly yields exactly the Golden Gate ligation product

Model: `assemble` (`AssemblyManager`), `ClassSpec.matchSeq/targetOf` (`target_sequence`), the structure
closed forms of `Model/Structure.lean`.

* `product_is_concatenation`: whenever a product is returned its sequence is the concatenation of the
  fragments retained from the modules, in chain order, followed by the fragment retained from the vector —
  nothing else contributes, and the length is the sum of the fragment lengths.  The chain is the one the
  overhang graph defines (C03).
* `structures_are_closed_forms`: for every supported enzyme of `Bio.Restriction` the live `structure()` of
  generic and signature-typed classes is the model's closed form (kernel-checked on the regenerated
  table), i.e. `site N^off (N^k)(N N* N)(N^k) N^off rc(site)` / `N (N^k)(N^off rc(site) N* site N^off)(N^k) N`.
* what each fragment *is* in terms of the canonical decomposition of a well-formed plasmid is C02 + C04
  (`Props/C02.lean`, `Props/C04.lean`): overhangs and target are functions of the matched text only.
-/
namespace Moclo.C01
open Moclo

/-- the product is exactly the chain's fragments followed by the vector's, each module used once, the chain
being a linked path through the overhang graph from the vector's downstream to its upstream overhang -/
theorem product_is_concatenation {v : Ent} {mods : List Ent} {pid pname : Nat} {p : Product} {after : List Rec}
    (h : assemble v mods pid pname = (.ok p, after)) :
    ∃ (gv : GMod Word) (chain : List (GMod Word)),
      v.gmod = .ok gv ∧
      IsPath gv.stop chain gv.start ∧ (keys chain).Nodup ∧ (∀ g ∈ chain, g.start ≠ gv.start) ∧
      (∀ g ∈ chain, ∃ e ∈ mods, e.oid = g.oid ∧ e.gmod = .ok g) ∧
      p.rcd.seq = (chain.map (fun g => fragOfOid mods g.oid)).flatten ++ v.fragment ∧
      p.rcd.seq.length = ((chain.map (fun g => (fragOfOid mods g.oid).length)).sum) + v.fragment.length := by
  obtain ⟨gv, gs, map, chain, rest, h1, h2, h3, h4, h5, h6, h7, _⟩ := assemble_ok h
  have hw := gWalk_walk gv.start (map.length + 1) gv.stop map (by omega)
  rw [h6] at hw
  obtain ⟨hkn, hmapmem⟩ := gBuild_basic gs [] map (by simp [keys]) h4
  obtain ⟨hperm, hns, hpath⟩ := hw.spec hkn
  have hkc : (keys chain).Nodup := by
    have := keys_nodup_of_perm hperm hkn
    unfold keys at this ⊢; rw [List.map_append] at this; exact (List.nodup_append.mp this).1
  have hsrc := evalPrefix_src mods gs none h3
  have hmapsrc : ∀ g ∈ map, g ∈ gs := fun g hg => (hmapmem g hg).elim (fun h => by simp at h) id
  refine ⟨gv, chain, h1, hpath, hkc, hns, ?_, h7, ?_⟩
  · intro g hg
    exact hsrc g (hmapsrc g (hperm.mem_iff.mpr (by simp [hg])))
  · rw [h7, List.length_append, List.length_flatten, List.map_map]
    rfl

/-- for every supported enzyme the structures the classes are matched with are the documented closed
forms (generic module / vector, and signature-typed parts for two signatures each) -/
theorem structures_are_closed_forms :
    ∀ r ∈ Generated.enzymes,
      r.modS = moduleStructure (Tables.EnzRow.geom r) ∧ r.vecS = vectorStructure (Tables.EnzRow.geom r) ∧
      r.fst3 = (r.fst5 - r.site.length) + r.k ∧ 1 ≤ r.k ∧ 1 ≤ r.site.length ∧ r.site.length ≤ r.fst5 := by
  intro r hr
  have h := List.all_eq_true.mp Tables.enzymes_ok r hr
  unfold Tables.EnzRow.ok at h
  simp only [Bool.and_eq_true, decide_eq_true_eq, beq_iff_eq] at h
  obtain ⟨⟨⟨⟨⟨⟨⟨⟨⟨⟨_, a⟩, b⟩, c⟩, d⟩, e⟩, f⟩, _⟩, _⟩, _⟩, _⟩ := h
  exact ⟨e, f, d, c, b, a⟩

/-! non-vacuity: a complete BsaI-like assembly on a toy geometry (site `GA`, off 1, k 2) evaluated by the
model: vector `N(NN)(N TC N* GA N)(NN)N`, one module, product = module fragment ++ vector fragment -/
section example_
def g : Geom := { site := [.G, .A], off := 1, k := 2 }
def wordOf (s : List Nt) : Word := s.map (fun n => ⟨n, false⟩)
-- module  GA·C·AC·AAA·CA·C·TC·GG    (o5 = AC, target AAA, o3 = CA)
def mrec : Rec := { rid := 1, seq := wordOf [.G,.A,.C,.A,.C,.A,.A,.A,.C,.A,.C,.T,.C,.G,.G], feats := [], refs := [] }
-- vector  CA·CCCC·AC·C·TC·T·GA·C    (o3 = CA upstream, backbone CCCC, o5 = AC downstream)
def vrec : Rec := { rid := 0, seq := wordOf [.C,.A,.C,.C,.C,.C,.A,.C,.C,.T,.C,.T,.G,.A,.C], feats := [], refs := [] }
def ment : Ent := { oid := 1, spec := { kind := .module, pat := moduleStructure g, geom := g }, rcd := mrec }
def vent : Ent := { oid := 0, spec := { kind := .vector, pat := vectorStructure g, geom := g }, rcd := vrec }
example : ((assemble vent [ment] 7 7).1.toOption.map (fun p => p.rcd.seq)) =
    some (wordOf [.A,.C,.A,.A,.A, .C,.A,.C,.C,.C,.C]) := by decide
end example_

end Moclo.C01
