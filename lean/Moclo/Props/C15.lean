import Moclo.Proofs.Word
/-!
# C15 — a circular record behaves as a circle, never as a line

Model: `ccontains` (`CircularRecord.__contains__`), `pySlice` (`__getitem__(slice)` on the sequence).
**Partial**: `TypeError` on `+`/`radd`, `ValueError` for a record declared linear, slices being plain
`SeqRecord`s without circular topology and copy-on-wrap isolation are Python object behaviour that no
executable model of the logic exhibits; they are decided by the oracle on the implementation.
-/
namespace Moclo.C15
open Moclo
variable {α : Type}

/-- membership is circular: a string is contained exactly when it is no longer than the record and
occurs in some rotation of it -/
theorem contains_iff_in_some_rotation [BEq α] [LawfulBEq α] (w q : List α) :
    ccontains w q = true ↔ q.length ≤ w.length ∧ ∃ k, q <:+: w.rotate k := ccontains_iff w q

/-- … hence in some right rotation `record >> k` as the implementation defines it -/
theorem contains_iff_in_some_rshift [BEq α] [LawfulBEq α] (w q : List α) :
    ccontains w q = true ↔ q.length ≤ w.length ∧ ∃ k : Nat, q <:+: rotr w k := by
  rw [ccontains_iff]
  constructor
  · rintro ⟨h, k, hk⟩
    refine ⟨h, w.length - k % w.length, ?_⟩
    rcases Nat.eq_zero_or_pos w.length with h0 | hpos
    · have : w = [] := List.length_eq_zero_iff.mp h0
      subst this; simpa using hk
    · rw [rotr_eq_rotate]
      have hlt := Nat.mod_lt k hpos
      rw [← List.rotate_mod] at hk
      by_cases hz : k % w.length = 0
      · rw [hz] at hk ⊢
        simpa using hk
      · have e : (w.length - k % w.length) % w.length = w.length - k % w.length :=
          Nat.mod_eq_of_lt (by omega)
        rw [e]
        have : w.length - (w.length - k % w.length) = k % w.length := by omega
        rw [this]; exact hk
  · rintro ⟨h, k, hk⟩
    exact ⟨h, _, by rw [rotr_eq_rotate] at hk; exact hk⟩

/-- the answer is the same for every rotation of the record (any integer amount) -/
theorem contains_rotation_invariant [BEq α] [LawfulBEq α] (w q : List α) (k : Int) :
    ccontains (rotrI w k) q = ccontains w q := ccontains_rotrI w q k

/-- a query longer than the record is never contained -/
theorem longer_never_contained [BEq α] [LawfulBEq α] (w q : List α) (h : w.length < q.length) :
    ccontains w q = false := by
  unfold ccontains; simp; intro h'; omega

/-- a slice is the ordinary list slice of the sequence (never wraps) -/
theorem slice_is_linear (w : List α) (a b : Nat) : pySlice w a b = (w.drop a).take (b - a) := rfl
theorem slice_length (w : List α) (a b : Nat) (h : b ≤ w.length) : (pySlice w a b).length = b - a := by
  unfold pySlice; simp [List.length_take, List.length_drop]; omega

/-! non-vacuity: a query spanning the origin -/
example : ccontains [1, 2, 3, 4] [4, 1] = true := by decide
example : ccontains [1, 2, 3, 4] [4, 1, 2, 3, 4] = false := by decide
example : ccontains [1, 2, 3, 4] [1, 3] = false := by decide

end Moclo.C15
