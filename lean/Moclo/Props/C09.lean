import Moclo.Model.Entity
/-! placeholder for C09 (theorems follow) -/
