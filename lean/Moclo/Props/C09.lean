import Moclo.Proofs.Layout
import Mathlib.Data.List.Infix
/-!
# C09 — the product records its provenance and is a complete GenBank record

Model: `assemble` / `assembleCore` (`_generate_assembly`, `_annotate_assembly`), `addSource`
(`add_as_source`).  **Partial**: the GenBank write/read round trip is Biopython I/O outside the model and is
decided by the oracle on the implementation; the theorems cover id / name / comment, the tiling of the
generated `source` features and the verbatim occurrence of each fragment in the plasmid it names.
-/
namespace Moclo.C09
open Moclo

/-- the product carries the requested id and name, and its comment names the vector and every supplied
module (in argument order) -/
theorem product_header {v : Ent} {mods : List Ent} {pid pname : Nat} {p : Product} {after : List Rec}
    (h : assemble v mods pid pname = (.ok p, after)) :
    p.pid = pid ∧ p.pname = pname ∧ p.rcd.rid = pid ∧ p.commentVector = v.rcd.rid ∧
    p.commentModules = mods.map (·.rcd.rid) := by
  obtain ⟨_, _, _, _, _, _, _, _, _, _, _, _, _, h1, h2, h3, h4, h5, _⟩ := assemble_ok h
  exact ⟨h1, h2, h3, h4, h5⟩

/-- every fragment record ends with its generated source feature `[0, length)` naming its plasmid -/
theorem target_has_source (c : ClassSpec) (r : Rec) (m : Match) :
    (c.targetOf r m).feats.getLast? = some (sourceFeature r.rid (c.targetOf r m).seq.length) := by
  unfold ClassSpec.targetOf addSource
  simp

/-- **tiling**: concatenating fragment records `t₁ … t_k` puts the features of `t_j`, shifted by the total
length of the fragments before it, into the product — in particular its generated source feature covers
exactly `[o_j, o_j + |t_j|)` with `o_1 = 0`, `o_{j+1} = o_j + |t_j|`, and the last one ends at the length of the
product: every nucleotide is covered by exactly one generated source feature -/
theorem sources_tile (ts : List Rec) :
    let prod := ts.foldl Rec.append ⟨0, [], [], []⟩
    prod.seq = (ts.map (·.seq)).flatten ∧
    prod.seq.length = (ts.map (·.seq.length)).sum ∧
    prod.feats = ((ts.zip (offsets 0 ts)).map (fun p => p.1.feats.map (Feature.shift p.2))).flatten := by
  refine ⟨by simpa using foldl_append_seq ts ⟨0, [], [], []⟩, ?_, by simpa using foldl_append_feats ts ⟨0, [], [], []⟩⟩
  rw [foldl_append_seq]; simp [List.length_flatten, List.map_map, Function.comp_def]

theorem offsets_spec (start : Nat) (ts : List Rec) :
    (offsets start ts).length = ts.length ∧
    ∀ j (hj : j < ts.length), (offsets start ts)[j]? = some (start + ((ts.take j).map (·.seq.length)).sum) := by
  induction ts generalizing start with
  | nil => exact ⟨rfl, fun j hj => by simp at hj⟩
  | cons t ts ih =>
    obtain ⟨h1, h2⟩ := ih (start + t.seq.length)
    refine ⟨by simp [offsets, h1], ?_⟩
    intro j hj
    cases j with
    | zero => simp [offsets]
    | succ j =>
      simp only [offsets, List.getElem?_cons_succ, List.take_succ_cons, List.map_cons, List.sum_cons]
      rw [h2 j (by simpa using hj)]; congr 1; omega

/-- the shifted source feature of fragment `j` covers `[o_j, o_j + |t_j|)` -/
theorem shifted_source (rid len : Nat) (o : Nat) :
    (sourceFeature rid len).shift o = { ftype := 0, qual := .src rid, parts := [⟨o, o + len, 0⟩], cites := [] } := by
  simp [sourceFeature, Feature.shift, Part.shift]; omega

/-- **verbatim**: the fragment retained from a plasmid occurs literally in a rotation of that plasmid -/
theorem fragment_verbatim (c : ClassSpec) (w : Word) (m : Match) :
    ∃ k : Int, targetWord c w m <:+: rotlI w k := by
  refine ⟨(m.span 1).1, ?_⟩
  unfold targetWord pySlice
  cases c.kind
  · exact (List.take_prefix _ _).isInfix.trans (List.drop_suffix _ _).isInfix
  · exact (List.take_prefix _ _).isInfix.trans (List.drop_suffix _ _).isInfix

/-- re-referencing the citations does not disturb the generated source features (they cite nothing) -/
theorem reref_keeps_sources (pre : Rec) :
    List.Forall₂ (fun f f' => f'.ftype = f.ftype ∧ f'.qual = f.qual ∧ f'.parts = f.parts ∧
      (f.cites = [] → f'.cites = [])) pre.feats (rerefRec { pre with refs := [] }).feats :=
  rerefFeatures_shape [] pre.feats

/-- **the product is that concatenation**: its record is the re-referenced concatenation of the chain's
fragment records followed by the vector's, so the three facts above apply to it -/
theorem product_is_layout {v : Ent} {mods : List Ent} {pid pname : Nat} {p : Product} {after : List Rec}
    (h : assemble v mods pid pname = (.ok p, after)) :
    ∃ ts : List Rec, ts ≠ [] ∧
      p.rcd = rerefRec { (ts.foldl Rec.append ⟨0, [], [], []⟩) with rid := pid, refs := [] } := by
  unfold assemble at h
  simp only [] at h
  split at h
  · cases h
  · split at h
    · cases h
    · split at h
      · cases h
      · split at h
        · cases h
        · split at h
          · cases h
          · split at h
            · rename_i dms dv _ _
              simp only [Prod.mk.injEq] at h
              obtain ⟨hcore, _⟩ := h
              unfold assembleCore at hcore
              simp only [] at hcore
              split at hcore
              · cases hcore
              · rename_i acc hex
                split at hcore
                · cases hcore
                · split at hcore
                  · cases hcore
                  · split at hcore
                    · cases hcore
                    · rename_i vt hvt
                      simp only [Except.ok.injEq] at hcore
                      subst hcore
                      obtain ⟨ts, _, hacc⟩ := extractChain_eq_foldl hex
                      refine ⟨ts ++ [vt], by simp, ?_⟩
                      simp only [List.foldl_append, List.foldl_cons, List.foldl_nil, ← hacc]
            · cases h

/-! non-vacuity -/
example : offsets 0 [⟨1, [⟨.A, false⟩, ⟨.C, false⟩], [], []⟩, ⟨2, [⟨.G, false⟩], [], []⟩, ⟨3, [], [], []⟩] = [0, 2, 3] := by
  decide

end Moclo.C09
