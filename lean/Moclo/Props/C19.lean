import Moclo.Proofs.Assembly
import Moclo.Proofs.SameRole
/-!
# C19 — parts of the same type are interchangeable

Model: `assemble`.  `Interchangeable e e'`: `e'` stands where `e` stood (same Python-level position /
identity in the argument list), is a valid module of its class reporting the same upstream and downstream
overhangs as `e` (`gmod` = both overhangs, upper-cased), its citations are well formed and its extraction
does not fail.
-/
namespace Moclo.C19
open Moclo

/-- either the same entity, or a replacement with the same two overhangs -/
def Interchangeable (e e' : Ent) : Prop :=
  e' = e ∨ (e'.oid = e.oid ∧ e'.gmod = e.gmod ∧ e'.faulty = false ∧ (derefRec e'.rcd).isSome ∧
            ∃ m, e'.spec.matchSeq e'.rcd.seq = .ok m)

theorem evalPrefix_interchangeable {ms ms' : List Ent} (h : List.Forall₂ Interchangeable ms ms') :
    evalPrefix ms' = evalPrefix ms := by
  induction h with
  | nil => rfl
  | @cons e e' es es' he _ ih =>
    have hg : e'.gmod = e.gmod := by
      rcases he with rfl | ⟨_, h2, _⟩
      · rfl
      · exact h2
    simp only [evalPrefix, hg, ih]

theorem find_interchangeable {ms ms' : List Ent} (h : List.Forall₂ Interchangeable ms ms') (k : Nat) {e : Ent}
    (he : ms.find? (fun e => e.oid = k) = some e) :
    ∃ e', ms'.find? (fun e => e.oid = k) = some e' ∧ Interchangeable e e' := by
  induction h with
  | nil => simp at he
  | @cons a a' as as' ha _ ih =>
    have ho : a'.oid = a.oid := by
      rcases ha with rfl | ⟨h1, _⟩
      · rfl
      · exact h1
    simp only [List.find?_cons, ho] at he ⊢
    by_cases hk : a.oid = k
    · simp only [hk, decide_true] at he ⊢
      simp only [Option.some.injEq] at he; subst he
      exact ⟨a', rfl, ha⟩
    · simp only [hk, decide_false] at he ⊢
      exact ih he

theorem deref_interchangeable {ms ms' : List Ent} (h : List.Forall₂ Interchangeable ms ms')
    (hd : ∀ e ∈ ms, (derefRec e.rcd).isSome) : ∀ e ∈ ms', (derefRec e.rcd).isSome := by
  induction h with
  | nil => intro e he; simp at he
  | @cons a a' as as' ha _ ih =>
    intro e he
    rcases List.mem_cons.mp he with rfl | he
    · rcases ha with rfl | ⟨_, _, _, hd', _⟩
      · exact hd _ (by simp)
      · exact hd'
    · exact ih (fun x hx => hd x (List.mem_cons_of_mem _ hx)) e he

theorem find_none_interchangeable {ms ms' : List Ent} (h : List.Forall₂ Interchangeable ms ms') (k : Nat)
    (hf : ms.find? (fun e => e.oid = k) = none) : ms'.find? (fun e => e.oid = k) = none := by
  induction h with
  | nil => rfl
  | @cons a a' as as' ha _ ih =>
    have ho : a'.oid = a.oid := by
      rcases ha with rfl | ⟨h1, _⟩
      · rfl
      · exact h1
    simp only [List.find?_cons, ho] at hf ⊢
    by_cases hk : a.oid = k
    · simp [hk] at hf
    · simp only [hk, decide_false] at hf ⊢
      exact ih hf

/-- **substitution**: if an assembly succeeds, replacing any of its modules by valid modules with the same
upstream and downstream overhangs also succeeds; both products are the concatenation, along the *same*
chain, of the modules' retained fragments followed by the same vector fragment — so the new product differs
from the old one only in the segments of the replaced modules: vector backbone, every other module's
segment and every junction are literally the same -/
theorem substitute_modules {v : Ent} {mods mods' : List Ent} {pid pname : Nat} {p : Product} {after : List Rec}
    (h : assemble v mods pid pname = (.ok p, after)) (hrel : List.Forall₂ Interchangeable mods mods') :
    ∃ (p' : Product) (chain : List (GMod Word)),
      (assemble v mods' pid pname).1 = .ok p' ∧
      p.rcd.seq = (chain.map (fun g => fragOfOid mods g.oid)).flatten ++ v.fragment ∧
      p'.rcd.seq = (chain.map (fun g => fragOfOid mods' g.oid)).flatten ++ v.fragment ∧
      p'.unused = p.unused ∧
      ∀ g ∈ chain, (∀ e, mods.find? (fun e => e.oid = g.oid) = some e →
        mods'.find? (fun e => e.oid = g.oid) = some e) → fragOfOid mods' g.oid = fragOfOid mods g.oid := by
  obtain ⟨gv, gs, map, chain, rest, h1, h2, h3, h4, h5, h6, h7, h8, _, _, _, _, _, h9, h10, h11, h12⟩ := assemble_ok h
  have h3' : evalPrefix mods' = (gs, none) := by rw [evalPrefix_interchangeable hrel]; exact h3
  have hd' := deref_interchangeable hrel h11
  have hch' : ∀ g ∈ chain, ∃ e m, mods'.find? (fun e => e.oid = g.oid) = some e ∧ e.faulty = false ∧
      e.spec.matchSeq e.rcd.seq = .ok m := by
    intro g hg
    obtain ⟨e, m, hf, hfa, hm⟩ := h9 g hg
    obtain ⟨e', hf', hi⟩ := find_interchangeable hrel g.oid hf
    rcases hi with rfl | ⟨_, _, hfa', _, m', hm'⟩
    · exact ⟨e', m, hf', hfa, hm⟩
    · exact ⟨e', m', hf', hfa', hm'⟩
  obtain ⟨p', hp'⟩ := assemble_succeeds pid pname h1 h2 h3' h4 h5 h6 hd' h12 hch' h10
  obtain ⟨gv', gs', map', chain', rest', k1, _, k3, k4, _, k6, k7, k8, _⟩ :=
    assemble_ok (show assemble v mods' pid pname = (.ok p', (assemble v mods' pid pname).2) from
      Prod.ext hp' rfl)
  -- the graph part is literally the same, hence the same chain and leftover
  have e1 : gv' = gv := by rw [h1] at k1; cases k1; rfl
  have e2 : gs' = gs := by rw [h3'] at k3; cases k3; rfl
  subst e1 e2
  have e3 : map' = map := by rw [h4] at k4; cases k4; rfl
  subst e3
  rw [h6] at k6
  simp only [Prod.mk.injEq] at k6
  obtain ⟨e4, e5, _⟩ := k6
  subst e4 e5
  refine ⟨p', chain, hp', h7, k7, by rw [k8, h8], ?_⟩
  intro g _ hsame
  unfold fragOfOid
  cases hf : mods.find? (fun e => e.oid = g.oid) with
  | none => rw [find_none_interchangeable hrel g.oid hf]
  | some e => rw [hsame e hf]

/-- the same for the vector: the outcome of an assembly depends on *every* input only through its role —
position, overhang keys, retained fragment (`SameRole`) — so a vector of the same type with another backbone
gives the same chain and the same module segments -/
theorem substitute_any {v v' : Ent} {mods mods' : List Ent} {pid pname : Nat} {p : Product} {after : List Rec}
    (h : assemble v mods pid pname = (.ok p, after)) (hv : SameRole v v') (hm : List.Forall₂ SameRole mods mods') :
    ∃ p', (assemble v' mods' pid pname).1 = .ok p' ∧ p'.rcd.seq = p.rcd.seq ∧ p'.unused = p.unused :=
  assemble_sameRole h hv hm

/-- … including failures: inputs playing the same roles fail with the same error -/
theorem substitute_any_outcome {v v' : Ent} {mods mods' : List Ent} (pid pname : Nat)
    (hv : SameRole v v') (hm : List.Forall₂ SameRole mods mods') :
    OutcomeSame (assemble v mods pid pname).1 (assemble v' mods' pid pname).1 :=
  assemble_sameRole_outcome pid pname hv hm

/-! non-vacuity: see `Moclo.C01` example; a replacement with another target changes only that segment -/

end Moclo.C19
