import Moclo.Model.Entity
/-! placeholder for C19 (theorems follow) -/
