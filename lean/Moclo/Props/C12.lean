import Moclo.Proofs.RevComp
import Moclo.Tables.Enzymes
/-!
# C12 — strand symmetry: reverse-complemented inputs give the reverse complement

Model: `rc` (`reverse_complement` on the sequence), `rcPattern`, `Run` (the matcher's fits),
`moduleStructure` / `vectorStructure`.

Proved for every geometry and every record:
* the generic module and vector structures are their own reverse complement (groups 1 and 3 exchanged);
* a structure fits a window of a circular record iff its reverse-complement pattern fits a window of the
  reverse-complemented record, consuming the reverse complement of the same letters, with mirrored group
  boundaries — hence for the generic structures: *occurs in `w` iff occurs in `rc w`*, and the text of group 1
  (resp. 3, 2) on one strand is the reverse complement of the text of group 3 (resp. 1, 2) on the other:
  overhangs exchanged and reverse-complemented, body reverse-complemented.
**Partial** (decided by the correspondence check and the metamorphic oracle on the implementation, not yet a
theorem): that the illegal-site screen counts the same number of valid cuts on both strands, and the lift of
the above through `assemble` (the product of the reverse complements is a rotation of the reverse complement
of the product).  The duplicate screen of the implementation is *not* strand-symmetric when the vector's
upstream overhang clashes (known finding, DESIGN §8); the assembly-level statement needs "no reverse-
complementary pair among all junction overhangs".
-/
namespace Moclo.C12
open Moclo

/-- the generic structures read the same on both strands, for every enzyme geometry -/
theorem generic_structures_self_rc (g : Geom) :
    rcPattern (moduleStructure g) = moduleStructure g ∧ rcPattern (vectorStructure g) = vectorStructure g :=
  ⟨rcPattern_module g, rcPattern_vector g⟩

/-- the structures the classes are matched with *are* these closed forms, for every supported enzyme (as
`structure()` answers now: kernel-checked on the regenerated table) -/
theorem live_structures_self_rc : ∀ r ∈ Generated.enzymes, rcPattern r.modS = r.modS ∧ rcPattern r.vecS = r.vecS := by
  intro r hr
  have h := List.all_eq_true.mp Tables.enzymes_ok r hr
  unfold Tables.EnzRow.ok at h
  simp only [Bool.and_eq_true, decide_eq_true_eq, beq_iff_eq] at h
  obtain ⟨⟨⟨⟨⟨⟨_, e⟩, f⟩, _⟩, _⟩, _⟩, _⟩ := h
  rw [e, f]
  exact ⟨rcPattern_module _, rcPattern_vector _⟩

/-- a pattern fits a word exactly iff its reverse-complement pattern fits the reverse complement -/
theorem fits_rc (p : Pat) (xs : Word) (ms : List Nat) (h : Run p xs 0 ms xs.length) :
    Run (rcPattern p) (rc xs) 0 (ms.reverse.map (fun m => xs.length - m)) xs.length :=
  Run.rc_exact p xs ms h

/-- on the circle -/
theorem fits_rc_on_circle {p : Pat} {w : Word} {i : Nat} {ms : List Nat} {e : Nat} (hi : i < w.length)
    (h : Run p (window w i) 0 ms e) :
    ∃ j, j < w.length ∧ Run (rcPattern p) (window (rc w) j) 0 (ms.reverse.map (fun m => e - m)) e ∧
      (window (rc w) j).take e = rc ((window w i).take e) :=
  fits_rc_circular hi h

/-- **a generic module / vector structure occurs in a record iff it occurs in its reverse complement** -/
theorem generic_occurs_iff (kind : Kind) (g : Geom) (w : Word) :
    (∃ i ms e, i < w.length ∧ Run (genericStructure kind g) (window w i) 0 ms e) ↔
    (∃ j ms e, j < (rc w).length ∧ Run (genericStructure kind g) (window (rc w) j) 0 ms e) := by
  have hself : rcPattern (genericStructure kind g) = genericStructure kind g := by
    cases kind
    · exact rcPattern_module g
    · exact rcPattern_vector g
  have hrcrc : rc (rc w) = w := by
    unfold rc
    rw [List.map_reverse, List.reverse_reverse, List.map_map]
    have : (Sym.compl ∘ Sym.compl) = id := by
      funext x; cases x; simp [Sym.compl, compl_compl]
    rw [this, List.map_id]
  constructor
  · rintro ⟨i, ms, e, hi, h⟩
    obtain ⟨j, hj, hr, _⟩ := fits_rc_circular hi h
    rw [hself] at hr
    exact ⟨j, _, e, by rw [rc_length']; exact hj, hr⟩
  · rintro ⟨j, ms, e, hj, h⟩
    obtain ⟨i, hi, hr, _⟩ := fits_rc_circular hj h
    rw [hself, hrcrc] at hr
    rw [rc_length'] at hi
    exact ⟨i, _, e, hi, hr⟩

/-- **overhangs exchanged and reverse-complemented, body reverse-complemented**: for a fit consuming the
word `A` with group boundaries `[a1,b1,a2,b2,a3,b3]`, the mirrored fit on `rc A` has boundaries
`[L-b3, L-a3, L-b2, L-a2, L-b1, L-a1]`, and the text of each mirrored group is the reverse complement of the
text of the group it mirrors -/
theorem mirrored_group_text (A : Word) (a b : Nat) (hab : a ≤ b) (hb : b ≤ A.length) :
    slice (rc A) (A.length - b) (A.length - a) = rc (slice A a b) := slice_rc A a b hab hb

theorem mirrored_marks (a1 b1 a2 b2 a3 b3 L : Nat) :
    ([a1, b1, a2, b2, a3, b3].reverse.map (fun m => L - m)) = [L - b3, L - a3, L - b2, L - a2, L - b1, L - a1] := rfl

/-! non-vacuity -/
example : rcPattern (moduleStructure ⟨[.G, .G, .T, .C, .T, .C], 1, 4⟩) = moduleStructure ⟨[.G, .G, .T, .C, .T, .C], 1, 4⟩ := by
  decide

end Moclo.C12
