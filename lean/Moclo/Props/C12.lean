import Moclo.Proofs.RevComp
import Moclo.Proofs.GenericReport
import Moclo.Proofs.AssembleRc
import Moclo.Proofs.AllRuns
import Moclo.Tables.Enzymes
/-!
# C12 — strand symmetry: reverse-complemented inputs give the reverse complement

Model: `rc` (`reverse_complement` on the sequence), `rcPattern`, `Run` (the matcher's fits),
`moduleStructure` / `vectorStructure`.

Proved for every geometry and every record:
* the generic module and vector structures are their own reverse complement (groups 1 and 3 exchanged);
* a structure fits a window of a circular record iff its reverse-complement pattern fits a window of the
  reverse-complemented record, consuming the reverse complement of the same letters, with mirrored group
  boundaries — hence for the generic structures: *occurs in `w` iff occurs in `rc w`*, and the text of group 1
  (resp. 3, 2) on one strand is the reverse complement of the text of group 3 (resp. 1, 2) on the other:
  overhangs exchanged and reverse-complemented, body reverse-complemented.
* the illegal-site screen counts the same number of valid cuts on both strands (`screen_rc`), and what a
  generic class reports about the reverse complement of a record is the mirror image of what it reports about
  the record (`report_rc`): same verdict, overhangs exchanged and reverse-complemented, target and
  placeholder reverse-complemented.
* `assemble_rc`: the lift through `assemble` — assembling the reverse complements succeeds along the reversed
  chain (`graph_rc`) and the product is, up to rotation and letter case, the reverse complement of the
  original product.  The duplicate screen of the implementation is *not* strand-symmetric when the vector's
upstream overhang clashes (known finding, DESIGN §8); the assembly-level statement needs "no reverse-
complementary pair among all junction overhangs".
-/
namespace Moclo.C12
open Moclo

/-- the generic structures read the same on both strands, for every enzyme geometry -/
theorem generic_structures_self_rc (g : Geom) :
    rcPattern (moduleStructure g) = moduleStructure g ∧ rcPattern (vectorStructure g) = vectorStructure g :=
  ⟨rcPattern_module g, rcPattern_vector g⟩

/-- the structures the classes are matched with *are* these closed forms, for every supported enzyme (as
`structure()` answers now: kernel-checked on the regenerated table) -/
theorem live_structures_self_rc : ∀ r ∈ Generated.enzymes, rcPattern r.modS = r.modS ∧ rcPattern r.vecS = r.vecS := by
  intro r hr
  have h := List.all_eq_true.mp Tables.enzymes_ok r hr
  unfold Tables.EnzRow.ok at h
  simp only [Bool.and_eq_true, decide_eq_true_eq, beq_iff_eq] at h
  obtain ⟨⟨⟨⟨⟨⟨_, e⟩, f⟩, _⟩, _⟩, _⟩, _⟩ := h
  rw [e, f]
  exact ⟨rcPattern_module _, rcPattern_vector _⟩

/-- a pattern fits a word exactly iff its reverse-complement pattern fits the reverse complement -/
theorem fits_rc (p : Pat) (xs : Word) (ms : List Nat) (h : Run p xs 0 ms xs.length) :
    Run (rcPattern p) (rc xs) 0 (ms.reverse.map (fun m => xs.length - m)) xs.length :=
  Run.rc_exact p xs ms h

/-- on the circle -/
theorem fits_rc_on_circle {p : Pat} {w : Word} {i : Nat} {ms : List Nat} {e : Nat} (hi : i < w.length)
    (h : Run p (window w i) 0 ms e) :
    ∃ j, j < w.length ∧ Run (rcPattern p) (window (rc w) j) 0 (ms.reverse.map (fun m => e - m)) e ∧
      (window (rc w) j).take e = rc ((window w i).take e) :=
  fits_rc_circular hi h

/-- **a generic module / vector structure occurs in a record iff it occurs in its reverse complement** -/
theorem generic_occurs_iff (kind : Kind) (g : Geom) (w : Word) :
    (∃ i ms e, i < w.length ∧ Run (genericStructure kind g) (window w i) 0 ms e) ↔
    (∃ j ms e, j < (rc w).length ∧ Run (genericStructure kind g) (window (rc w) j) 0 ms e) := by
  have hself : rcPattern (genericStructure kind g) = genericStructure kind g := by
    cases kind
    · exact rcPattern_module g
    · exact rcPattern_vector g
  have hrcrc : rc (rc w) = w := by
    unfold rc
    rw [List.map_reverse, List.reverse_reverse, List.map_map]
    have : (Sym.compl ∘ Sym.compl) = id := by
      funext x; cases x; simp [Sym.compl, compl_compl]
    rw [this, List.map_id]
  constructor
  · rintro ⟨i, ms, e, hi, h⟩
    obtain ⟨j, hj, hr, _⟩ := fits_rc_circular hi h
    rw [hself] at hr
    exact ⟨j, _, e, by rw [rc_length']; exact hj, hr⟩
  · rintro ⟨j, ms, e, hj, h⟩
    obtain ⟨i, hi, hr, _⟩ := fits_rc_circular hj h
    rw [hself, hrcrc] at hr
    rw [rc_length'] at hi
    exact ⟨i, _, e, hi, hr⟩

/-- **overhangs exchanged and reverse-complemented, body reverse-complemented**: for a fit consuming the
word `A` with group boundaries `[a1,b1,a2,b2,a3,b3]`, the mirrored fit on `rc A` has boundaries
`[L-b3, L-a3, L-b2, L-a2, L-b1, L-a1]`, and the text of each mirrored group is the reverse complement of the
text of the group it mirrors -/
theorem mirrored_group_text (A : Word) (a b : Nat) (hab : a ≤ b) (hb : b ≤ A.length) :
    slice (rc A) (A.length - b) (A.length - a) = rc (slice A a b) := slice_rc A a b hab hb

theorem mirrored_marks (a1 b1 a2 b2 a3 b3 L : Nat) :
    ([a1, b1, a2, b2, a3, b3].reverse.map (fun m => L - m)) = [L - b3, L - a3, L - b2, L - a2, L - b1, L - a1] := rfl

/-- **the illegal-site screen is strand-symmetric** for every non-palindromic site -/
theorem screen_rc (g : Geom) (T : Word) (hnp : g.site ≠ rcNt g.site) (hs : 1 ≤ g.site.length) :
    validCuts g (rc T) = validCuts g T := validCuts_rc g T hnp hs

/-- every supported enzyme meets the hypotheses of `screen_rc` (kernel-checked on the regenerated table) -/
theorem live_sites_nonpalindromic : ∀ r ∈ Generated.enzymes, r.site ≠ rcNt r.site ∧ 1 ≤ r.site.length := by
  intro r hr
  have h1 := List.all_eq_true.mp Tables.enzymes_sites r hr
  have h2 := List.all_eq_true.mp Tables.enzymes_ok r hr
  unfold Tables.EnzRow.ok at h2
  simp only [Bool.and_eq_true, decide_eq_true_eq, bne_iff_ne, ne_eq] at h1 h2
  exact ⟨h1.2, h2.1.1.1.1.1.1.1.1.2⟩

/-- what a generic class reports, in terms of the three captured groups `a`, `b`, `c` and (vectors) the
backbone `B` outside the overhangs -/
def shape (kind : Kind) (a b c B : Word) : Word × Word × Word × Word :=
  match kind with
  | .module => (a, c, a ++ b, a ++ b)
  | .vector => (c, a, c ++ B, a ++ b)

theorem slice_rc_len (A : Word) (e a b : Nat) (he : A.length = e) (hab : a ≤ b) (hb : b ≤ e) :
    slice (rc A) a b = rc (slice A (e - b) (e - a)) := by
  subst he
  have h := slice_rc A (A.length - b) (A.length - a) (by omega) (by omega)
  have e1 : A.length - (A.length - a) = a := by omega
  have e2 : A.length - (A.length - b) = b := by omega
  rw [e1, e2] at h
  exact h

/-- **strand symmetry of typing**: a record that carries the generic structure exactly once on each strand
is accepted on one strand iff on the other (same screen verdict), and what is reported about the reverse
complement is the mirror image: groups 1 and 3 exchanged and reverse-complemented, group 2 and the backbone
reverse-complemented — so upstream and downstream overhangs are swapped and reverse-complemented -/
theorem report_rc (kind : Kind) (g : Geom) (w : Word) (hnp : g.site ≠ rcNt g.site) (hs : 1 ≤ g.site.length)
    (hu : UniqueFit (genericStructure kind g) w) (hu' : UniqueFit (genericStructure kind g) (rc w)) :
    (C02.report { kind := kind, pat := genericStructure kind g, geom := g } w = .error .illegal ∧
     C02.report { kind := kind, pat := genericStructure kind g, geom := g } (rc w) = .error .illegal) ∨
    ∃ a b c B,
      C02.report { kind := kind, pat := genericStructure kind g, geom := g } w = .ok (shape kind a b c B) ∧
      C02.report { kind := kind, pat := genericStructure kind g, geom := g } (rc w)
        = .ok (shape kind (rc c) (rc b) (rc a) (rc B)) := by
  obtain ⟨i, ms, e, hi, hr, huq⟩ := hu
  obtain ⟨j, hj, hr2, hwin, he⟩ := fits_rc_circular_window hi hr
  have hself : rcPattern (genericStructure kind g) = genericStructure kind g := by
    cases kind
    · exact rcPattern_module g
    · exact rcPattern_vector g
  rw [hself] at hr2
  obtain ⟨i2, ms2, e2, hi2, hr2', huq2⟩ := hu'
  have hjl : j < (rc w).length := by rw [rc_length']; exact hj
  obtain ⟨ej, em, ee⟩ := huq2 j _ e hjl hr2
  subst ej ee
  rw [em] at hr2
  have hwl := window_length w i (Nat.le_of_lt hi)
  set text := window w i with htext
  have hAl : (text.take e).length = e := by simp [hwl]; omega
  have hA' : (window (rc w) j).take e = rc (text.take e) := by
    rw [hwin, List.take_append_of_le_length (by rw [rc_length', hAl]), List.take_of_length_le (by rw [rc_length', hAl])]
  have hB' : (window (rc w) j).drop e = rc (text.drop e) := by
    rw [hwin, List.drop_append_of_le_length (by rw [rc_length', hAl]), List.drop_of_length_le (by rw [rc_length', hAl])]
    rfl
  have hscreen := validCuts_rc g (text.take e) hnp hs
  cases kind with
  | module =>
    have hlen := (module_run_marks g hr).2
    rw [show genericStructure .module g = moduleStructure g from rfl] at *
    rw [module_report_of_fit g hi hr huq, module_report_of_fit g (w := rc w) hjl hr2 huq2, hA', hscreen]
    by_cases hc : validCuts g (text.take e) > 2
    · left; rw [if_pos hc, if_pos hc]; exact ⟨rfl, rfl⟩
    · right
      rw [if_neg hc, if_neg hc]
      set p := g.site.length + g.off with hp
      refine ⟨slice (text.take e) p (p + g.k), slice (text.take e) (p + g.k) (e - (p + g.k)),
        slice (text.take e) (e - (p + g.k)) (e - p), [], ?_, ?_⟩
      · simp only [shape]
        rw [slice_join _ _ _ _ (by omega) (by omega)]
      · simp only [shape]
        rw [slice_rc_len _ e _ _ hAl (by omega) (by omega), slice_rc_len _ e _ _ hAl (by omega) (by omega),
          slice_rc_len _ e _ _ hAl (by omega) (by omega)]
        rw [← rc_append', slice_join _ _ _ _ (by omega) (by omega)]
        have e1 : e - (e - p) = p := by omega
        have e2 : e - (e - (p + g.k)) = p + g.k := by omega
        rw [e1, e2]
  | vector =>
    have hlen := (vector_run_marks g hr).2
    rw [show genericStructure .vector g = vectorStructure g from rfl] at *
    rw [vector_report_of_fit g hi hr huq, vector_report_of_fit g (w := rc w) hjl hr2 huq2, hA', hB', hscreen]
    by_cases hc : validCuts g (text.take e) > 2
    · left; rw [if_pos hc, if_pos hc]; exact ⟨rfl, rfl⟩
    · right
      rw [if_neg hc, if_neg hc]
      refine ⟨slice (text.take e) 1 (1 + g.k), slice (text.take e) (1 + g.k) (e - (g.k + 1)),
        slice (text.take e) (e - (g.k + 1)) (e - 1),
        (text.take e).drop (e - 1) ++ text.drop e ++ (text.take e).take 1, ?_, ?_⟩
      · simp only [shape]
        rw [slice_join _ _ _ _ (by omega) (by omega)]
      · simp only [shape]
        rw [slice_rc_len _ e _ _ hAl (by omega) (by omega), slice_rc_len _ e _ _ hAl (by omega) (by omega),
          slice_rc_len _ e _ _ hAl (by omega) (by omega)]
        have e1 : e - (e - 1) = 1 := by omega
        have e2 : e - (e - (g.k + 1)) = 1 + g.k := by omega
        have e4 : e - (1 + g.k) = e - (g.k + 1) := by omega
        rw [e1, e2, e4]
        have d1 : (rc (text.take e)).drop (e - 1) = rc ((text.take e).take 1) := by
          rw [rc_drop_eq _ _ (by rw [hAl]; omega), hAl, e1]
        have d2 : (rc (text.take e)).take 1 = rc ((text.take e).drop (e - 1)) := by
          rw [rc_take_eq _ _ (by rw [hAl]; omega), hAl]
        rw [d1, d2, rc_append', rc_append']
        rw [← slice_join (text.take e) (1 + g.k) (e - (g.k + 1)) (e - 1) (by omega) (by omega), rc_append']
        simp [List.append_assoc]

/-- hence the verdict is the same on both strands -/
theorem valid_rc (kind : Kind) (g : Geom) (w : Word) (hnp : g.site ≠ rcNt g.site) (hs : 1 ≤ g.site.length)
    (hu : UniqueFit (genericStructure kind g) w) (hu' : UniqueFit (genericStructure kind g) (rc w)) :
    (C02.report { kind := kind, pat := genericStructure kind g, geom := g } w).toOption.isSome =
    (C02.report { kind := kind, pat := genericStructure kind g, geom := g } (rc w)).toOption.isSome := by
  rcases report_rc kind g w hnp hs hu hu' with ⟨h1, h2⟩ | ⟨a, b, c, B, h1, h2⟩
  · rw [h1, h2]
  · rw [h1, h2]; rfl

/-- what an entity reports determines its place in the overhang graph and the fragment it contributes -/
theorem ent_of_report {e : Ent} {u d t ph : Word} (h : C02.report e.spec e.rcd.seq = .ok (u, d, t, ph)) :
    e.gmod = .ok ⟨upperW u, upperW d, e.oid⟩ ∧ e.fragment = t := by
  unfold C02.report at h
  unfold Ent.gmod Ent.fragment fragmentOf
  cases hm : e.spec.matchSeq e.rcd.seq with
  | error x => rw [hm] at h; cases h
  | ok m =>
    rw [hm] at h
    simp only [Except.map, Except.ok.injEq, Prod.mk.injEq] at h
    obtain ⟨rfl, rfl, rfl, _⟩ := h
    exact ⟨rfl, rfl⟩

/-- the graph of the other strand (C03's walk on flipped modules) -/
theorem graph_rc {O : Type} [DecidableEq O] {rcO : O → O} (hinv : ∀ x, rcO (rcO x) = x) {vUp vDown : O}
    {mods chain : List (GMod O)} (hid : SameObj mods) (h : gAssemble rcO vUp vDown mods = .ok (chain, []))
    (hJ : ∀ m ∈ mods, ∀ m' ∈ mods, m'.stop ≠ rcO m.stop) :
    gAssemble rcO (rcO vDown) (rcO vUp) (mods.map (GMod.flip rcO)) = .ok (chain.reverse.map (GMod.flip rcO), []) :=
  gAssemble_rc hinv hid h hJ

/-- a generic entity (module or vector over a non-palindromic site) and its reverse complement, each carrying
the structure exactly once -/
structure Twin (kind : Kind) (e e' : Ent) : Prop where
  geom : ∃ g : Geom, e.spec = { kind := kind, pat := genericStructure kind g, geom := g } ∧
    g.site ≠ rcNt g.site ∧ 1 ≤ g.site.length
  spec : e'.spec = e.spec
  oid : e'.oid = e.oid
  seq : e'.rcd.seq = rc e.rcd.seq
  fit : UniqueFit e.spec.pat e.rcd.seq
  fit' : UniqueFit e.spec.pat (rc e.rcd.seq)

theorem modRc_of_twin {e e' : Ent} (h : Twin .module e e') {ge : GMod Word} (hv : e.gmod = .ok ge) :
    ∃ a b c, ModRc e e' a b c := by
  obtain ⟨g, hspec, hnp, hs⟩ := h.geom
  have hf := h.fit; have hf' := h.fit'
  rw [hspec] at hf hf'
  rcases report_rc .module g e.rcd.seq hnp hs hf hf' with ⟨h1, _⟩ | ⟨a, b, c, B, h1, h2⟩
  · -- rejected: contradicts `hv`
    exfalso
    rw [← hspec] at h1
    unfold C02.report at h1
    unfold Ent.gmod at hv
    cases hm : e.spec.matchSeq e.rcd.seq with
    | error x => rw [hm] at hv; cases hv
    | ok m => rw [hm] at h1; cases h1
  · rw [← hspec] at h1 h2
    simp only [shape] at h1 h2
    obtain ⟨g1, f1⟩ := ent_of_report h1
    have h2' : C02.report e'.spec e'.rcd.seq = .ok (rc c, rc a, rc c ++ rc b, rc c ++ rc b) := by
      rw [h.spec, h.seq]; exact h2
    obtain ⟨g2, f2⟩ := ent_of_report h2'
    exact ⟨a, b, c, ⟨g1, f1, by rw [g2, h.oid], f2, h.oid⟩⟩

theorem vecRc_of_twin {v v' : Ent} (h : Twin .vector v v') {gv : GMod Word} (hv : v.gmod = .ok gv) :
    ∃ a c B, VecRc v v' a c B := by
  obtain ⟨g, hspec, hnp, hs⟩ := h.geom
  have hf := h.fit; have hf' := h.fit'
  rw [hspec] at hf hf'
  rcases report_rc .vector g v.rcd.seq hnp hs hf hf' with ⟨h1, _⟩ | ⟨a, b, c, B, h1, h2⟩
  · exfalso
    rw [← hspec] at h1
    unfold C02.report at h1
    unfold Ent.gmod at hv
    cases hm : v.spec.matchSeq v.rcd.seq with
    | error x => rw [hm] at hv; cases hv
    | ok m => rw [hm] at h1; cases h1
  · rw [← hspec] at h1 h2
    simp only [shape] at h1 h2
    obtain ⟨g1, f1⟩ := ent_of_report h1
    have h2' : C02.report v'.spec v'.rcd.seq = .ok (rc a, rc c, rc a ++ rc B, rc c ++ rc b) := by
      rw [h.spec, h.seq]; exact h2
    obtain ⟨g2, f2⟩ := ent_of_report h2'
    exact ⟨a, c, B, ⟨g1, f1, by rw [g2, h.oid], f2⟩⟩

theorem modRc_of_twins : ∀ {mods mods' : List Ent} {gs : List (GMod Word)},
    List.Forall₂ (Twin .module) mods mods' → List.Forall₂ (fun e g => e.gmod = .ok g) mods gs →
    List.Forall₂ (fun e e' => ∃ a b c, ModRc e e' a b c) mods mods' := by
  intro mods mods' gs hm
  induction hm generalizing gs with
  | nil => intro _; exact List.Forall₂.nil
  | cons ht _ ih =>
    intro hF
    cases hF with
    | cons hg hgs => exact List.Forall₂.cons (modRc_of_twin ht hg) (ih hgs)

/-- **assembling the reverse complements yields the reverse complement**: let an assembly of generic
entities succeed using every supplied module (distinct objects), each record carrying its structure exactly
once on each strand, and let no two downstream overhangs be reverse complements of each other (the hypothesis
the implementation's one-sided duplicate screen needs — known finding F11).  Then assembling the reverse
complements of the vector and of all the modules succeeds, and its product is, up to rotation and letter case,
the reverse complement of the original product -/
theorem assemble_rc {v v' : Ent} {mods mods' : List Ent} {pid pname : Nat} {p : Product} {after : List Rec}
    (h : assemble v mods pid pname = (.ok p, after)) (hun : p.unused = [])
    (hoid : (mods.map (·.oid)).Nodup)
    (hv : Twin .vector v v') (hm : List.Forall₂ (Twin .module) mods mods')
    (hd : ∀ e ∈ mods', (derefRec e.rcd).isSome) (hdv : (derefRec v'.rcd).isSome)
    (hf : ∀ e ∈ mods', e.faulty = false) (hvf : v'.faulty = false)
    (hJ : ∀ e ∈ mods, ∀ e2 ∈ mods, ∀ g g2, e.gmod = .ok g → e2.gmod = .ok g2 → g2.stop ≠ rc g.stop) :
    ∃ p', (assemble v' mods' pid pname).1 = .ok p' ∧ ∃ r, NtEq p'.rcd.seq ((rc p.rcd.seq).rotate r) := by
  obtain ⟨gv, gs, _, _, _, h1, _, h3, _⟩ := assemble_ok h
  obtain ⟨av, cv, B, hvr⟩ := vecRc_of_twin hv h1
  have hF := (evalPrefix_ok_iff mods gs).mp h3
  have hm' := modRc_of_twins hm hF
  exact assemble_rc_twins h hun hoid hvr hm' hd hdv hf hvf hJ

/-- the "exactly one fit" hypotheses are checkable by computation (`allFits` enumerates every fit; the
correspondence op `FITS` compares the enumeration with Python's `re`) -/
theorem unique_fit_checkable {p : Pat} {w : Word} (h : (allFits p w).length = 1 ∧ (allFits p (rc w)).length = 1) :
    UniqueFit p w ∧ UniqueFit p (rc w) := ⟨uniqueFit_of_count h.1, uniqueFit_of_count h.2⟩

/-! non-vacuity of `report_rc` / `Twin`: the example module carries its structure exactly once on each strand -/
example : UniqueFit C02.c.pat C02.w ∧ UniqueFit C02.c.pat (rc C02.w) := unique_fit_checkable (by decide)

/-! non-vacuity: the example module of `Moclo.C02` is accepted on both strands, with one fit on each, and the
overhangs come out exchanged and reverse-complemented -/
example : ((List.range C02.w.length).filter (fun i => (relMatch C02.c.pat (window (rc C02.w) i)).isSome)).length = 1 := by decide
example : (C02.report C02.c C02.w).map (fun r => (r.1, r.2.1)) = .ok ([⟨.A, false⟩, ⟨.C, false⟩], [⟨.C, false⟩, ⟨.A, false⟩]) ∧
    (C02.report C02.c (rc C02.w)).map (fun r => (r.1, r.2.1)) = .ok ([⟨.T, false⟩, ⟨.G, false⟩], [⟨.G, false⟩, ⟨.T, false⟩]) := by decide
example : rcPattern (moduleStructure ⟨[.G, .G, .T, .C, .T, .C], 1, 4⟩) = moduleStructure ⟨[.G, .G, .T, .C, .T, .C], 1, 4⟩ := by
  decide

end Moclo.C12
