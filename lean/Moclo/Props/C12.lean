import Moclo.Model.Entity
/-! placeholder for C12 (theorems follow) -/
