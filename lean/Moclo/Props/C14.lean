import Moclo.Proofs.Word
import Moclo.Proofs.Feature
/-!
# C14 — reverse complement of a circular record stays circular and loses nothing

Model: `Moclo.rc` (sequence), `Part.flip`/`Feature.flip` (Biopython `_flip`), `Rec.rc`.
"Is again a `CircularRecord`" is a Python type fact: decided by the oracle on the implementation only.
-/
namespace Moclo.C14
open Moclo

theorem compl_compl (x : Nt) : x.compl.compl = x := by cases x <;> rfl
theorem sym_compl_compl (x : Sym) : x.compl.compl = x := by
  cases x; simp [Sym.compl, compl_compl]

/-- applying reverse complement twice gives back the original sequence -/
theorem rc_rc (w : Word) : rc (rc w) = w := by
  unfold rc
  rw [List.map_reverse, List.reverse_reverse, List.map_map]
  have : (Sym.compl ∘ Sym.compl) = id := by funext x; exact sym_compl_compl x
  rw [this, List.map_id]

theorem rc_length (w : Word) : (rc w).length = w.length := by simp [rc]

/-- the sequence is the reverse complement: letter `i` of the result is the complement of letter
`n-1-i` of the original -/
theorem rc_getElem (w : Word) (i : Nat) (hi : i < w.length) :
    (rc w)[i]'(by rw [rc_length]; exact hi) = (w[w.length - 1 - i]'(by omega)).compl := by
  unfold rc
  rw [List.getElem_reverse]
  simp

theorem rc_append (a b : Word) : rc (a ++ b) = rc b ++ rc a := by simp [rc]

/-- reverse-complementing commutes with rotation: the reverse complement of a right rotation is the
left rotation of the reverse complement -/
theorem rc_rotr (w : Word) (k : Int) : rc (rotrI w k) = rotlI (rc w) k := by
  rw [rotlI_eq]
  rcases Nat.eq_zero_or_pos w.length with h0 | hpos
  · have : w = [] := List.length_eq_zero_iff.mp h0
    subst this; simp [rotrI_nil, rc]
  · -- reduce to natural amounts a = k mod n and n - a
    have hn : (0 : Int) < w.length := by exact_mod_cast hpos
    have ha0 := Int.emod_nonneg k (by omega : (w.length : Int) ≠ 0)
    have ha1 := Int.emod_lt_of_pos k hn
    obtain ⟨a, ha⟩ : ∃ a : Nat, k.emod w.length = a := ⟨(k.emod w.length).toNat, by
      have : k.emod (w.length : Int) = k % w.length := rfl
      omega⟩
    have halt : a < w.length := by
      have : k.emod (w.length : Int) = k % w.length := rfl
      omega
    have e1 : rotrI w k = rotr w a := by
      unfold rotrI; rw [ha]; simp
    have e2 : rotrI (rc w) (-k) = rotr (rc w) (w.length - a) := by
      rw [← rotrI_natCast]
      apply rotrI_congr
      rw [rc_length]
      show (-k) % (w.length : Int) = ((w.length - a : Nat) : Int) % (w.length : Int)
      have hk : k % (w.length : Int) = a := ha
      rw [Int.emod_eq_emod_iff_emod_sub_eq_zero]
      have hd := Int.emod_add_mul_ediv k w.length
      rw [hk] at hd
      have : -k - ((w.length - a : Nat) : Int) = (w.length : Int) * (-(1 + k / w.length)) := by
        rw [Int.mul_neg, Int.mul_add]; omega
      rw [this, Int.mul_emod_right]
    rw [e1, e2, rotr_spec w a (Nat.le_of_lt halt), rotr_spec (rc w) (w.length - a) (by rw [rc_length]; omega),
      rc_append, rc_length]
    have h3 : w.length - (w.length - a) = a := by omega
    rw [h3]
    unfold rc
    rw [List.map_take, List.map_drop]
    have hl : (w.map Sym.compl).length = w.length := by simp
    obtain ⟨r1, r2⟩ := reverse_take_drop (w.map Sym.compl) (w.length - a) a (by rw [hl]; omega)
    rw [r1, r2]

/-- every feature part denotes the mirrored nucleotides, on the opposite strand, also for coordinates
past the end or negative -/
theorem feature_part_mirrored (n : Nat) (p : Part) (x : Nat) (hx : x < n) :
    (p.flip n).strand = -p.strand ∧ ((p.flip n).covers n (n - 1 - x) ↔ p.covers n x) :=
  ⟨rfl, covers_flip n p x hx⟩

/-- flipping twice restores every part exactly -/
theorem feature_part_flip_flip (n : Nat) (p : Part) : (p.flip n).flip n = p := flip_flip n p

/-- a feature keeps type, qualifiers and citations; its parts are the flipped parts (in reversed
order only when every part is strandless) -/
theorem feature_flip (n : Nat) (f : Feature) :
    (f.flip n).ftype = f.ftype ∧ (f.flip n).qual = f.qual ∧ (f.flip n).cites = f.cites ∧
    ((f.flip n).parts = f.parts.map (Part.flip n) ∨ (f.flip n).parts = (f.parts.map (Part.flip n)).reverse) := by
  unfold Feature.flip
  refine ⟨rfl, rfl, rfl, ?_⟩
  simp only []
  split
  · right; rfl
  · left; rfl

/-- so the multiset of parts after two flips is the original one -/
theorem feature_flip_flip_perm (n : Nat) (f : Feature) :
    ((f.flip n).flip n).parts.Perm f.parts := by
  have key : ∀ ps : List Part, (ps.map (Part.flip n)).map (Part.flip n) = ps := by
    intro ps; rw [List.map_map]
    have : (Part.flip n ∘ Part.flip n) = id := by funext p; exact flip_flip n p
    rw [this, List.map_id]
  obtain ⟨_, _, _, h1⟩ := feature_flip n f
  obtain ⟨_, _, _, h2⟩ := feature_flip n (f.flip n)
  rcases h1 with h1 | h1 <;> rcases h2 with h2 | h2 <;> rw [h2, h1]
  · rw [key]
  · rw [key]; exact List.reverse_perm _
  · rw [List.map_reverse, key]; exact List.reverse_perm _
  · rw [List.map_reverse, List.reverse_reverse, key]

/-- **flipping a feature twice gives the feature back exactly** — the parts in their listed order too: the order
of the parts of a join is the order of its exons, part of what the feature denotes -/
theorem feature_flip_flip (n : Nat) (f : Feature) : (f.flip n).flip n = f := by
  have key : ∀ ps : List Part, (ps.map (Part.flip n)).map (Part.flip n) = ps := by
    intro ps; rw [List.map_map]
    have : (Part.flip n ∘ Part.flip n) = id := by funext p; exact flip_flip n p
    rw [this, List.map_id]
  have hall : ∀ ps : List Part, (ps.map (Part.flip n)).all (fun p => decide (p.strand = 0)) = ps.all (fun p => decide (p.strand = 0)) := by
    intro ps
    rw [List.all_map]
    congr 1
    funext p
    simp only [Function.comp, Part.flip]
    by_cases h0 : p.strand = 0
    · simp [h0]
    · have : ¬ (-p.strand = 0) := by omega
      simp [h0, this]
  cases f with
  | mk ftype qual parts cites =>
    unfold Feature.flip
    simp only []
    by_cases hc : parts.length > 1 ∧ parts.all (fun p => decide (p.strand = 0)) = true
    · have hc' : (parts.map (Part.flip n)).reverse.length > 1 ∧
          (parts.map (Part.flip n)).reverse.all (fun p => decide (p.strand = 0)) = true := by
        refine ⟨by simpa using hc.1, ?_⟩
        rw [List.all_reverse, hall]; exact hc.2
      simp only [hc, and_self, if_true, hc']
      rw [List.map_reverse, List.reverse_reverse, key]
    · have hc' : ¬ ((parts.map (Part.flip n)).length > 1 ∧
          (parts.map (Part.flip n)).all (fun p => decide (p.strand = 0)) = true) := by
        rw [hall, List.length_map]; exact hc
      simp only [hc, if_false, hc']
      rw [key]

/-- `s, s+1, …` (`k` positions) and `e-1, e-2, …` (`k` positions) -/
def ascI (s : Int) : Nat → List Int
  | 0 => []
  | k + 1 => s :: ascI (s + 1) k
def descI (e : Int) : Nat → List Int
  | 0 => []
  | k + 1 => (e - 1) :: descI (e - 1) k

theorem ascI_mirror (c : Int) : ∀ (k : Nat) (s : Int), (ascI s k).map (fun t => c - 1 - t) = descI (c - s) k
  | 0, _ => rfl
  | k + 1, s => by
    simp only [ascI, descI, List.map_cons]
    rw [ascI_mirror c k (s + 1)]
    have h1 : c - 1 - s = c - s - 1 := by omega
    have h2 : c - (s + 1) = c - s - 1 := by omega
    rw [h1, h2]

theorem descI_mirror (c : Int) : ∀ (k : Nat) (e : Int), (descI e k).map (fun t => c - 1 - t) = ascI (c - e) k
  | 0, _ => rfl
  | k + 1, e => by
    simp only [ascI, descI, List.map_cons]
    rw [descI_mirror c k (e - 1)]
    have h1 : c - 1 - (e - 1) = c - e := by omega
    have h2 : c - (e - 1) = c - e + 1 := by omega
    rw [h1, h2]

/-- the nucleotides of a part in the order the feature reads them (its own 5'→3'): a minus-strand part from its end
to its start -/
def partReading (p : Part) : List (Int × Int) :=
  if p.strand = -1 then (descI p.e (p.e - p.s).toNat).map (fun t => (t, p.strand))
  else (ascI p.s (p.e - p.s).toNat).map (fun t => (t, p.strand))

/-- … and of a feature: its parts in listed order -/
def reading (f : Feature) : List (Int × Int) := f.parts.flatMap partReading

theorem partReading_flip (n : Nat) (p : Part) (hs : p.strand = 1 ∨ p.strand = -1) :
    partReading (p.flip n) = (partReading p).map (fun x => ((n : Int) - 1 - x.1, -x.2)) := by
  have hlen : ((n : Int) - p.s - ((n : Int) - p.e)).toNat = (p.e - p.s).toNat := by congr 1; omega
  rcases hs with h | h
  · have e1 : partReading (p.flip n) = (descI ((n : Int) - p.s) (p.e - p.s).toNat).map (fun t => (t, (-1 : Int))) := by
      unfold partReading
      simp only [Part.flip, h, hlen]
      rfl
    have e2 : partReading p = (ascI p.s (p.e - p.s).toNat).map (fun t => (t, (1 : Int))) := by
      unfold partReading
      rw [if_neg (by rw [h]; decide), h]
    rw [e1, e2, List.map_map, ← ascI_mirror (n : Int), List.map_map]
    rfl
  · have e1 : partReading (p.flip n) = (ascI ((n : Int) - p.e) (p.e - p.s).toNat).map (fun t => (t, (1 : Int))) := by
      unfold partReading
      simp only [Part.flip, h, hlen]
      rfl
    have e2 : partReading p = (descI p.e (p.e - p.s).toNat).map (fun t => (t, (-1 : Int))) := by
      unfold partReading
      rw [if_pos h, h]
    rw [e1, e2, List.map_map, ← descI_mirror (n : Int), List.map_map]
    rfl

/-- **a stranded feature of the reverse complement reads the mirrored nucleotides in the same order**: the exons of a
join stay in their order, each read on the other strand -/
theorem reading_order_mirrored (n : Nat) (f : Feature) (hs : ∀ p ∈ f.parts, p.strand = 1 ∨ p.strand = -1) :
    reading (f.flip n) = (reading f).map (fun x => ((n : Int) - 1 - x.1, -x.2)) := by
  have hparts : (f.flip n).parts = f.parts.map (Part.flip n) := by
    unfold Feature.flip
    simp only []
    split
    · rename_i hc
      exfalso
      cases hp : f.parts with
      | nil => rw [hp] at hc; simp at hc
      | cons p ps =>
        have h0 : p.strand = 0 := by
          have := hc.2
          rw [hp, List.all_cons, Bool.and_eq_true] at this
          exact of_decide_eq_true this.1
        rcases hs p (by rw [hp]; exact List.mem_cons_self ..) with h | h <;> omega
    · rfl
  unfold reading
  rw [hparts, List.flatMap_map, List.map_flatMap]
  apply List.flatMap_congr
  intro p hp
  exact partReading_flip n p (hs p hp)

/-! non-vacuity: an origin-spanning join listed out of coordinate order keeps its exon order -/
example : reading (Feature.flip 10 ⟨1, .user 0, [⟨8, 10, 1⟩, ⟨0, 2, 1⟩], []⟩)
    = [(1, -1), (0, -1), (9, -1), (8, -1)] := by decide

/-- the record: sequence reverse-complemented, one flipped feature per feature (re-sorted) -/
theorem record_rc (r : Rec) :
    r.rc.seq = rc r.seq ∧ r.rc.feats.Perm (r.feats.map (Feature.flip r.seq.length)) := by
  refine ⟨rfl, ?_⟩
  unfold Rec.rc sortByLo
  simp only []
  generalize r.feats.map (Feature.flip r.seq.length) = fs
  induction fs with
  | nil => exact List.Perm.refl _
  | cons f fs ih =>
    simp only [List.foldr_cons]
    have ins : ∀ (g : Feature) (l : List Feature), (insertByLo g l).Perm (g :: l) := by
      intro g l
      induction l with
      | nil => exact List.Perm.refl _
      | cons h t iht =>
        simp only [insertByLo]
        split
        · exact List.Perm.refl _
        · exact (List.Perm.cons h iht).trans (List.Perm.swap g h t)
    exact (ins f _).trans (List.Perm.cons f ih)

/-! non-vacuity -/
example : rc [⟨.A, false⟩, ⟨.C, true⟩, ⟨.R, false⟩] = [⟨.Y, false⟩, ⟨.G, true⟩, ⟨.T, false⟩] := by decide
/-- a part left past the end by a rotation, `[4, 7)` on a 5-mer (positions 4,0,1), flips to `[-2, 1)`
(positions 3,4,0 = mirrored) -/
example : (⟨4, 7, 1⟩ : Part).flip 5 = ⟨-2, 1, -1⟩ := by decide

end Moclo.C14
