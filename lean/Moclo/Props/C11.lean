import Moclo.Props.C01
import Moclo.Tables.Kits
import Moclo.Proofs.YtkPair
import Moclo.Proofs.CiteRoundTrip
/-!
# C11 — products of one level are valid modules of the next level

Model: the vector structures of the kits (`Generated/Kits.lean`, live `structure()`), `nextLevelOK` (a
decidable layout property of a vector structure relative to the next level's cutter), the generic module
structure of the next level, `C01.module_canonical`.

* every bundled vector type that embeds the next level's sites (CIDAR entry / cassette / device, EcoFlex
  cassette / device, MoClo entry / cassette vectors) has the next-level layout for the cutter of the kit's
  next-level module class, and that class is matched with the generic module structure (kernel-checked on the
  regenerated table);
* for **any** vector instantiating such a structure, the part of the plasmid the vector keeps around the
  insertion point reads `S·X·OV … OV'·Y·S'` with `S` the next-level site, `S'` its reverse complement, `X`, `Y`
  spacers of the next level's offset and `OV`, `OV'` either empty (the vector's own overhangs double as the
  next level's) or the next level's overhangs;
* hence the product, read from that site, is `S·X·o5·t·o3·Y·S'·rest` with `o5·t ⊇` the whole insert, and
  `C01.module_canonical` for the next level's geometry applies: if the product carries the next-level structure
  exactly once and passes the screen (no further next-level site), the next-level class accepts it at every
  rotation and its target contains every module target in chain order.
The YTK entry vector / YTK product pair has another shape — the next level's sites sit inside the *module's*
target: `ytk_structures` (kernel-checked on the regenerated table: the live `YTKProduct.structure()` is the
closed form `ytkProductPat`, the live `YTKEntry.structure()` the generic BsaI module structure),
`ytk_product_layout` (what any fit of the product structure reads) and `ytk_pair` (the product is a
well-formed BsaI module whose target contains the whole template; accepted at every rotation under the same
"exactly once, screen passes" hypotheses, for templates of at least two letters).
-/
namespace Moclo.C11
open Moclo

theorem kit_vectors_next_level : Generated.nextLevelPairs.all (fun ij =>
    match Generated.kits[ij.1]?, Generated.kits[ij.2]? with
    | some v, some m => nextLevelOK (Tables.KitRow.geom m) v.k v.pat && (m.pat == moduleStructure (Tables.KitRow.geom m))
    | _, _ => false) = true := Tables.kits_nextLevel

theorem plain_of_matches_N {A : Word} {r : Nat} (h : matchesAt (List.replicate r .N) A) (hl : A.length = r) :
    C01.Plain A := by
  intro x hx
  obtain ⟨j, hj, rfl⟩ := List.getElem_of_mem hx
  have := h.2 j (by simp; omega) hj
  simpa using this

theorem matches3 {A B C : List Nt} {l : Word} (h : matchesAt (A ++ B ++ C) l)
    (hl : l.length = A.length + B.length + C.length) :
    ∃ x y z, l = x ++ y ++ z ∧ x.length = A.length ∧ y.length = B.length ∧ z.length = C.length ∧
      matchesAt A x ∧ matchesAt B y ∧ matchesAt C z := by
  refine ⟨l.take A.length, (l.drop A.length).take B.length, l.drop (A.length + B.length), ?_, ?_, ?_, ?_, ?_, ?_, ?_⟩
  · rw [List.append_assoc, ← List.drop_drop, List.take_append_drop, List.take_append_drop]
  · simp only [List.length_take]; omega
  · simp only [List.length_take, List.length_drop]; omega
  · simp only [List.length_drop]; omega
  · exact (matchesAt_take _ _ _ (Nat.le_refl _)).mpr (matchesAt_append_left (matchesAt_append_left h))
  · have := matchesAt_append_right (matchesAt_append_left h)
    exact (matchesAt_take _ _ _ (Nat.le_refl _)).mpr this
  · have := matchesAt_append_right h
    rw [List.length_append] at this; exact this

/-- **what a vector with the next-level layout keeps around its insertion point**: in any fit of such a
structure on a window `text`, with `a1` the start of group 1 and `b2 + k` the end of group 3, the letters
before group 1 are `S·X·OV` and the letters after group 3 (up to the end `e` of the match) are `OV'·Y·S'`, with
`S` recognised as the next-level site, `S'` as its reverse complement, `|X| = |Y| = off'`, all of `X OV OV' Y`
wildcard-compatible, and `OV`, `OV'` either both empty (and `k = k'`) or both of length `k'` -/
theorem vector_flanks {g' : Geom} {k : Nat} {p : Pat} {text : Word} {ms : List Nat} {e : Nat}
    (hok : nextLevelOK g' k p = true) (h : Run p text 0 ms e) :
    ∃ a1 b2 S X OV OV' Y S',
      ms = [a1, a1 + k, a1 + k, b2, b2, b2 + k] ∧ a1 + k ≤ b2 ∧ b2 + k ≤ e ∧
      text.take a1 = S ++ X ++ OV ∧ (text.drop (b2 + k)).take (e - (b2 + k)) = OV' ++ Y ++ S' ∧
      matchesAt g'.site S ∧ S.length = g'.site.length ∧ matchesAt (rcNt g'.site) S' ∧ S'.length = g'.site.length ∧
      X.length = g'.off ∧ Y.length = g'.off ∧ C01.Plain (X ++ OV) ∧ C01.Plain (OV' ++ Y) ∧
      ((OV = [] ∧ OV' = [] ∧ k = g'.k) ∨ (OV.length = g'.k ∧ OV'.length = g'.k)) := by
  unfold nextLevelOK at hok
  cases hs : splitGroups p with
  | none => rw [hs] at hok; simp at hok
  | some t =>
    obtain ⟨pre, g1, g2, g3, suf⟩ := t
    rw [hs] at hok
    simp only [Bool.and_eq_true, Bool.or_eq_true, beq_iff_eq] at hok
    obtain ⟨⟨hg1, hg3⟩, hshape⟩ := hok
    obtain ⟨hp, mpre, _, mg2, _, msuf⟩ := splitGroups_sound hs
    rw [hp] at h
    subst hg1 hg3
    obtain ⟨a1, b2, hms, hle1, hle2, rpre, _, _, _, rsuf⟩ :=
      threeGroup_run (k := k) mpre mg2 msuf (isFixed_nRun' k) (isFixed_nRun' k) h
    -- both shapes at once: `xo` next-level overhang letters outside the groups (0 or k')
    obtain ⟨xo, hpre, hsuf, hxo⟩ : ∃ xo, pre = lits g'.site ++ nRun g'.off ++ nRun xo ∧
        suf = nRun xo ++ nRun g'.off ++ lits (rcNt g'.site) ∧ ((xo = 0 ∧ k = g'.k) ∨ xo = g'.k) := by
      rcases hshape with ⟨⟨a, b⟩, c⟩ | ⟨a, b⟩
      · exact ⟨0, by simpa [nRun] using a, by simpa [nRun] using b, Or.inl ⟨rfl, c⟩⟩
      · exact ⟨g'.k, a, b, Or.inr rfl⟩
    subst hpre hsuf
    have hrl : (rcNt g'.site).length = g'.site.length := by simp [rcNt]
    have sfp : starFree (lits g'.site ++ nRun g'.off ++ nRun xo) = true := by
      simp [starFree_append, starFree_lits, starFree_nRun]
    have sfs : starFree (nRun xo ++ nRun g'.off ++ lits (rcNt g'.site)) = true := by
      simp [starFree_append, starFree_lits, starFree_nRun]
    obtain ⟨ea, hma⟩ := rpre.fixed sfp
    obtain ⟨ee, hme⟩ := rsuf.fixed sfs
    simp only [width_append, width_lits, width_nRun, Nat.zero_add, hrl] at ea ee
    simp only [letters_append, letters_lits, letters_nRun] at hma hme
    have hbp := rpre.bounds.2.1
    have hbs := rsuf.bounds.2.1
    simp only [List.length_drop] at hbs
    -- the letters before group 1
    have hpt : matchesAt (g'.site ++ List.replicate g'.off .N ++ List.replicate xo .N) (text.take a1) := by
      rw [ea]; exact (matchesAt_take _ _ _ (by simp; omega)).mpr hma
    obtain ⟨S, X, OV, e1, l1, l2, l3, m1, m2, m3⟩ := matches3 hpt (by simp [List.length_take]; omega)
    -- the letters after group 3
    have hst : matchesAt (List.replicate xo .N ++ List.replicate g'.off .N ++ rcNt g'.site)
        ((text.drop (b2 + k)).take (e - (b2 + k))) := by
      have : e - (b2 + k) = xo + g'.off + g'.site.length := by omega
      rw [this]; exact (matchesAt_take _ _ _ (by simp [hrl])).mpr hme
    obtain ⟨OV', Y, S', e2, k1, k2, k3, n1, n2, n3⟩ := matches3 hst (by
      simp only [List.length_take, List.length_drop, List.length_replicate, hrl]; omega)
    simp only [List.length_replicate] at l2 l3 k1 k2
    refine ⟨a1, b2, S, X, OV, OV', Y, S', hms, hle1, hle2, e1, e2, m1, l1, n3, by rw [k3, hrl], l2, k2, ?_, ?_, ?_⟩
    · intro z hz
      rcases List.mem_append.mp hz with hz | hz
      · exact plain_of_matches_N m2 l2 z hz
      · exact plain_of_matches_N m3 l3 z hz
    · intro z hz
      rcases List.mem_append.mp hz with hz | hz
      · exact plain_of_matches_N n1 k1 z hz
      · exact plain_of_matches_N n2 k2 z hz
    · rcases hxo with ⟨rfl, hk⟩ | rfl
      · exact Or.inl ⟨List.length_eq_zero_iff.mp l3, List.length_eq_zero_iff.mp k1, hk⟩
      · exact Or.inr ⟨l3, k1⟩

/-- **the product is a well-formed next-level module**: reading the product from the next-level site, it is
`S·X·o5·t·o3·Y·S'·rest` with `o5·t` containing the whole insert (first overhang `O1`, then every module target
body in chain order, `body`), for either layout; `C01.module_canonical` for the next level's geometry then
gives acceptance, overhangs and target at every rotation -/
theorem product_shape {g' : Geom} {k : Nat} {OV OV' : Word} (O1 body O3 : Word)
    (hO1 : O1.length = k) (hO3 : O3.length = k)
    (hov : (OV = [] ∧ OV' = [] ∧ k = g'.k) ∨ (OV.length = g'.k ∧ OV'.length = g'.k)) :
    ∃ o5 t o3, OV ++ O1 ++ body ++ O3 ++ OV' = o5 ++ t ++ o3 ∧ o5.length = g'.k ∧ o3.length = g'.k ∧
      ∃ u v, o5 ++ t = u ++ (O1 ++ body) ++ v := by
  rcases hov with ⟨rfl, rfl, hk⟩ | ⟨h1, h2⟩
  · exact ⟨O1, body, O3, by simp, by omega, by omega, [], [], by simp⟩
  · exact ⟨OV, O1 ++ body ++ O3, OV', by simp [List.append_assoc], h1, h2, OV, O3, by simp [List.append_assoc]⟩

/-- the YTK pair as the classes are now (regenerated table): the product's structure is the closed form
`ytkProductPat`, the next-level class (`YTKEntry`) is matched with the generic module structure of BsaI, and
the entry vector's cutter is the product's (BsmBI) -/
theorem ytk_structures :
    (match Generated.kits[Generated.ytkPair.1]?, Generated.kits[Generated.ytkPair.2.1]?,
        Generated.kits[Generated.ytkPair.2.2]? with
     | some v, some prod, some nxt =>
        (prod.pat == ytkProductPat) && (nxt.pat == moduleStructure bsaI) && (nxt.site == bsaI.site) &&
        (nxt.off == bsaI.off) && (nxt.k == bsaI.k) && (v.site == prod.site) && (v.k == 4) && (prod.k == 4)
     | _, _, _ => false) = true := Tables.kits_ytk

/-- what any fit of `YTKProduct.structure()` reads -/
theorem ytk_product_layout {text : Word} {ms : List Nat} {e : Nat} (h : Run ytkProductPat text 0 ms e) :
    ∃ b2 n12 S x o5 t o3 y GA,
      ms = [7, 11, 11, b2, b2, b2 + 4] ∧ b2 + 4 ≤ text.length ∧
      slice text 7 b2 = n12 ++ S ++ x ++ o5 ++ t ++ o3 ++ y ++ GA ∧
      n12.length = 2 ∧ S.length = 6 ∧ matchesAt [.G, .G, .T, .C, .T, .C] S ∧
      x.length = 1 ∧ o5.length = 4 ∧ o3.length = 4 ∧ y.length = 1 ∧ GA.length = 2 ∧ matchesAt [.G, .A] GA ∧
      matchesAt [.G, .A, .C, .C] (slice text b2 (b2 + 4)) ∧ C01.Plain (x ++ o5 ++ t ++ o3 ++ y) :=
  Moclo.ytk_product_layout h

/-- **the YTK pair**: module fragment `text[7, b2)` (upstream overhang and target of the product), then the
vector's fragment `upv · B` whose upstream overhang has the key of the product's downstream overhang: the
product is a well-formed BsaI module, accepted by the next-level class at every rotation with the template
inside its target -/
theorem ytk_pair {text : Word} {ms : List Nat} {e : Nat} (h : Run ytkProductPat text 0 ms e) (upv B : Word)
    (hup : NtEq upv (slice text (ms.getD 3 0) (ms.getD 3 0 + 4))) :
    ∃ n12 S x o5 t o3 y S',
      slice text 7 (ms.getD 3 0) ++ upv ++ B = rotr (S ++ x ++ o5 ++ t ++ o3 ++ y ++ S' ++ (B ++ n12)) 2 ∧
      matchesAt bsaI.site S ∧ S.length = bsaI.site.length ∧
      matchesAt (rcNt bsaI.site) S' ∧ S'.length = bsaI.site.length ∧
      x.length = bsaI.off ∧ y.length = bsaI.off ∧ o5.length = bsaI.k ∧ o3.length = bsaI.k ∧
      C01.Plain (x ++ o5 ++ t ++ o3 ++ y) ∧
      (2 ≤ t.length →
        UniqueFit (moduleStructure bsaI) (S ++ x ++ o5 ++ t ++ o3 ++ y ++ S' ++ (B ++ n12)) →
        validCuts bsaI (S ++ x ++ o5 ++ t ++ o3 ++ y ++ S') ≤ 2 →
        ∀ r, C02.report { kind := .module, pat := moduleStructure bsaI, geom := bsaI }
          (rotr (S ++ x ++ o5 ++ t ++ o3 ++ y ++ S' ++ (B ++ n12)) r) = .ok (o5, o3, o5 ++ t, o5 ++ t)) :=
  Moclo.ytk_pair h upv B hup

/-- **a product is a well-formed input of the next assembly as far as its citations go**: the first thing
`assemble` does with each input is to dereference its `/citation` numbers against its reference list, and an
input on which that fails ends the call with an internal error; on the product of any successful assembly it
succeeds — whatever the number of papers the inputs cited together -/
theorem product_enters_next_level {v : Ent} {mods : List Ent} {pid pname : Nat} {p : Product} {after : List Rec}
    (h : assemble v mods pid pname = (.ok p, after)) : (derefRec p.rcd).isSome := by
  obtain ⟨pre, _, _, hd⟩ := product_derefs h
  rw [hd]; rfl

end Moclo.C11
