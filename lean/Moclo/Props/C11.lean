import Moclo.Model.Entity
/-! placeholder for C11 (theorems follow) -/
