import Moclo.Proofs.Word
import Moclo.Proofs.Feature
import Moclo.Props.C14
/-!
# C13 — rotation of a circular record is a lossless group action

Model: `Moclo.rotr`/`rotrI`/`rotlI` (`CircularRecord.__rshift__`/`__lshift__` on the sequence and on
per-letter tracks), `Feature.rotr`, `Rec.rotr`.  All statements are for every length, every integer
amount and every letter type.
-/
namespace Moclo.C13
open Moclo
variable {α β : Type}

/-- rotating right by `k ≤ n` moves the last `k` letters to the front -/
theorem rotate_right_moves_last_letters_to_front (w : List α) (k : Nat) (hk : k ≤ w.length) :
    rotr w k = w.drop (w.length - k) ++ w.take (w.length - k) := rotr_spec w k hk

/-- letter `i` of the original sits at `(i + k) mod n` afterwards, for any natural `k` -/
theorem letter_position (w : List α) (k i : Nat) (hi : i < w.length) :
    (rotr w k)[(i + k) % w.length]'(by rw [rotr_length]; exact Nat.mod_lt _ (by omega)) = w[i] :=
  rotr_getElem w k i hi

/-- rotations compose additively, for all integers (negative, zero, larger than the length) -/
theorem rotations_compose (w : List α) (a b : Int) : rotrI (rotrI w a) b = rotrI w (a + b) :=
  rotrI_add w a b

/-- rotation by any multiple of the length is the identity -/
theorem multiple_of_length_is_identity (w : List α) (m : Int) : rotrI w (m * w.length) = w :=
  rotrI_mul_length w m

/-- left rotation is the inverse of right rotation, both ways -/
theorem left_inverts_right (w : List α) (k : Int) : rotlI (rotrI w k) k = w := rotlI_rotrI w k
theorem right_inverts_left (w : List α) (k : Int) : rotrI (rotlI w k) k = w := rotrI_rotlI w k

/-- a per-letter annotation track rotates with the sequence: the value attached to letter `i` is still
attached to it -/
theorem track_follows_sequence (w : List α) (tr : List β) (h : tr.length = w.length) (k i : Nat)
    (hi : i < w.length) :
    (rotr w k)[(i + k) % w.length]'(by rw [rotr_length]; exact Nat.mod_lt _ (by omega)) = w[i] ∧
    (rotr tr k)[(i + k) % w.length]'(by rw [rotr_length, h]; exact Nat.mod_lt _ (by omega)) = tr[i] := by
  refine ⟨rotr_getElem w k i hi, ?_⟩
  have := rotr_getElem tr k i (by omega)
  simp only [h] at this
  exact this

/-- every part of every feature, whatever its shape or strand (simple, compound, origin-spanning,
coordinates past the end, whole-length `source`), denotes the same nucleotides after `record >> k` -/
theorem feature_follows_sequence (n k : Nat) (f : Feature) :
    (f.rotr n k).ftype = f.ftype ∧ (f.rotr n k).qual = f.qual ∧ (f.rotr n k).cites = f.cites ∧
    (f.rotr n k).parts.length = f.parts.length ∧
    ∀ j (hj : j < f.parts.length) (hj' : j < (f.rotr n k).parts.length),
      ((f.rotr n k).parts[j]).strand = (f.parts[j]).strand ∧
      ∀ x, x < n → (((f.rotr n k).parts[j]).covers n ((x + k) % n) ↔ (f.parts[j]).covers n x) := by
  unfold Feature.rotr
  split
  · rename_i hsrc
    refine ⟨rfl, rfl, rfl, rfl, ?_⟩
    intro j hj _
    refine ⟨rfl, ?_⟩
    intro x hx
    obtain ⟨_, hlen, hlo, hhi⟩ := hsrc
    have hj0 : j = 0 := by omega
    subst hj0
    obtain ⟨p, hp⟩ := List.length_eq_one_iff.mp hlen
    have h1 : p.s = 0 := by simpa [Feature.lo, hp, minI] using hlo
    have h2 : p.e = n := by simpa [Feature.hi, hp, maxI] using hhi
    have hn : 0 < n := by omega
    simp only [hp, List.getElem_cons_zero]
    exact ⟨fun _ => covers_whole n p h1 h2 x hx, fun _ => covers_whole n p h1 h2 _ (Nat.mod_lt _ hn)⟩
  · refine ⟨rfl, rfl, rfl, by simp, ?_⟩
    intro j hj hj'
    simp only [List.getElem_map]
    refine ⟨?_, fun x hx => covers_rotr_part n k _ x hx⟩
    unfold Part.renorm Part.shift
    split <;> rfl

/-- identifiers, reference list and the number of features are carried over, and the sequence is the
rotated sequence -/
theorem record_carried (r : Rec) (k : Int) :
    (r.rotr k).rid = r.rid ∧ (r.rotr k).refs = r.refs ∧ (r.rotr k).feats.length = r.feats.length ∧
    (r.rotr k).seq = rotrI r.seq k := by
  unfold Rec.rotr
  simp only []
  split
  · rename_i h
    refine ⟨rfl, rfl, rfl, ?_⟩
    unfold rotrI; rw [h, rotr_zero]
  · exact ⟨rfl, rfl, by simp, rfl⟩

/-- the features of the rotated record are the rotated features (the record itself is returned when
the amount is a multiple of the length) -/
theorem record_features (r : Rec) (k : Int) :
    (r.rotr k).feats =
      if (k.emod r.seq.length).toNat = 0 then r.feats
      else r.feats.map (Feature.rotr r.seq.length (k.emod r.seq.length).toNat) := by
  unfold Rec.rotr
  simp only []
  split <;> rfl

/-! non-vacuity: concrete instances of the hypotheses -/
example : rotr [1, 2, 3, 4, 5] 2 = [4, 5, 1, 2, 3] := by decide
example : rotrI [1, 2, 3, 4, 5] (-7) = [3, 4, 5, 1, 2] := by decide
example : rotlI (rotrI [1, 2, 3, 4, 5] 12) 12 = [1, 2, 3, 4, 5] := by decide
/-- an origin-spanning part `[3,5)` of a 5-mer rotated by 3 lands on `[6,8)`, i.e. positions 1,2 -/
example : ((⟨3, 5, 1⟩ : Part).shift 3).renorm 5 = ⟨1, 3, 1⟩ := by decide
example : ((⟨3, 5, 1⟩ : Part).shift 1).renorm 5 = ⟨4, 6, 1⟩ := by decide

/-! ## the order in which a feature reads its nucleotides (exon order) turns with the record -/

open Moclo.C14 in
theorem ascI_shift (c : Int) : ∀ (k : Nat) (s : Int), (ascI s k).map (fun t => t + c) = ascI (s + c) k
  | 0, _ => rfl
  | k + 1, s => by
    simp only [ascI, List.map_cons]
    rw [ascI_shift c k (s + 1)]
    have h : s + 1 + c = s + c + 1 := by omega
    rw [h]

open Moclo.C14 in
theorem descI_shift (c : Int) : ∀ (k : Nat) (e : Int), (descI e k).map (fun t => t + c) = descI (e + c) k
  | 0, _ => rfl
  | k + 1, e => by
    simp only [descI, List.map_cons]
    rw [descI_shift c k (e - 1)]
    have h1 : e - 1 + c = e + c - 1 := by omega
    rw [h1]

/-- what `>>` does to one part is a shift by `k` minus whole turns -/
theorem shift_renorm_eq (n : Nat) (k : Int) (p : Part) :
    ∃ r : Int, ((p.shift k).renorm n) = { p with s := p.s + (k - r * n), e := p.e + (k - r * n) } := by
  unfold Part.renorm Part.shift
  simp only []
  split
  · exact ⟨(p.s + k) / n, by cases p; simp; constructor <;> omega⟩
  · exact ⟨0, by cases p; simp⟩

open Moclo.C14 in
theorem partReading_moved (p : Part) (c : Int) :
    partReading { p with s := p.s + c, e := p.e + c } = (partReading p).map (fun x => (x.1 + c, x.2)) := by
  have hlen : (p.e + c - (p.s + c)).toNat = (p.e - p.s).toNat := by congr 1; omega
  unfold partReading
  simp only [hlen]
  split
  · rw [List.map_map, ← descI_shift c, List.map_map]; rfl
  · rw [List.map_map, ← ascI_shift c, List.map_map]; rfl

open Moclo.C14 in
/-- **the reading order turns with the record**: after `>> k` every feature other than the whole-plasmid `source`
reads, part by part and in the same order, the nucleotides it read before, each moved by `k` around the circle -/
theorem reading_order_rotates (n k : Nat) (f : Feature)
    (hsrc : ¬ (f.ftype = 0 ∧ f.parts.length = 1 ∧ f.lo = 0 ∧ f.hi = n)) :
    (reading (f.rotr n k)).map (fun x => (x.1.emod (n : Int), x.2)) =
      (reading f).map (fun x => ((x.1 + (k : Int)).emod (n : Int), x.2)) := by
  unfold Feature.rotr
  rw [if_neg hsrc]
  unfold reading
  simp only [List.flatMap_map, List.map_flatMap]
  apply List.flatMap_congr
  intro p _
  obtain ⟨r, hr⟩ := shift_renorm_eq n k p
  rw [hr, partReading_moved, List.map_map]
  apply List.map_congr_left
  intro x _
  simp only [Function.comp, Prod.mk.injEq, and_true]
  have : x.1 + (↑k - r * ↑n) = x.1 + ↑k + (-r) * ↑n := by rw [Int.neg_mul]; omega
  rw [this]
  show (x.1 + ↑k + -r * ↑n) % (n : Int) = (x.1 + ↑k) % (n : Int)
  exact Int.add_mul_emod_self_right _ _ _

end Moclo.C13
