import Moclo.Model.Registry
import Moclo.Proofs.Directory
import Moclo.Tables.Registries
import Mathlib.Data.List.Nodup
/-!
# C20 — registries are coherent read-only mappings of uniquely identified plasmids

* mapping laws for association lists and for combinations (`Reg.combine` = `CombinedRegistry`): keys once,
  union of the members' keys, first member added wins, absent key ↦ no item;
* the five embedded registries, exhaustively: kernel-checked over the table regenerated from the live
  archives on every run (`Generated/Registries.lean`).
* a directory of GenBank files (`Dir.keys`, `Dir.lookup` = `FilesystemRegistry.__iter__` / `__getitem__` over a
  listing): a key can be looked up exactly when iteration yields it, the file that is opened is spelt
  `key.ext`, what lies in a sub-directory or is not a regular file is never a key, and none of it depends on
  whether the filesystem matches wildcards case-insensitively.
**Partial**: `tarfile` / `fs` / GenBank parsing are I/O outside the model (the listing a filesystem returns for
literal extensions is modelled by its contract, and compared with the real one on in-memory and on-disk
directories by the correspondence).
-/
namespace Moclo.C20
open Moclo
variable {K V : Type} [DecidableEq K]

theorem lookup_isSome_iff (r : Reg K V) (k : K) : (r.lookup k).isSome ↔ k ∈ r.keys := by
  unfold Reg.lookup Reg.keys
  simp only [Option.isSome_map, List.find?_isSome, List.mem_map]
  constructor
  · rintro ⟨e, he, hk⟩; exact ⟨e, he, by simpa using hk⟩
  · rintro ⟨e, he, hk⟩; exact ⟨e, he, by simpa using hk⟩

/-- looking up an absent key finds nothing (`KeyError`), and only then -/
theorem lookup_absent (r : Reg K V) (k : K) : r.lookup k = none ↔ k ∉ r.keys := by
  rw [← lookup_isSome_iff]; cases r.lookup k <;> simp

theorem lookup_append (r s : Reg K V) (k : K) :
    (r ++ s).lookup k = (r.lookup k).or (s.lookup k) := by
  unfold Reg.lookup
  rw [List.find?_append]
  cases List.find? (fun e => decide (e.1 = k)) r <;> simp

theorem setdefault_keys (r : Reg K V) (k : K) (v : V) :
    (r.setdefault k v).keys = if k ∈ r.keys then r.keys else r.keys ++ [k] := by
  unfold Reg.setdefault
  by_cases h : k ∈ r.keys
  · rw [if_pos h, if_pos ((lookup_isSome_iff r k).mpr h)]
  · have : ¬ (r.lookup k).isSome = true := fun hc => h ((lookup_isSome_iff r k).mp hc)
    rw [if_neg h, if_neg this]
    simp [Reg.keys]

theorem setdefault_lookup (r : Reg K V) (k : K) (v : V) (j : K) :
    (r.setdefault k v).lookup j = (r.lookup j).or (if k = j then some v else none) := by
  unfold Reg.setdefault
  split
  · rename_i h
    by_cases hkj : k = j
    · subst hkj
      obtain ⟨x, hx⟩ := Option.isSome_iff_exists.mp h
      simp [hx]
    · simp [hkj]
  · rw [lookup_append]
    congr 1
    unfold Reg.lookup
    by_cases hkj : k = j <;> simp [hkj]

theorem setdefault_nodup (r : Reg K V) (k : K) (v : V) (h : r.keys.Nodup) : (r.setdefault k v).keys.Nodup := by
  rw [setdefault_keys]
  split
  · exact h
  · rename_i hk
    exact List.nodup_append.mpr ⟨h, by simp, by intro a ha b hb; simp at hb; subst hb; exact fun e => hk (e ▸ ha)⟩

theorem add_spec (acc member : Reg K V) (h : acc.keys.Nodup) :
    (acc.add member).keys.Nodup ∧
    (∀ k, k ∈ (acc.add member).keys ↔ k ∈ acc.keys ∨ k ∈ member.keys) ∧
    (∀ k, (acc.add member).lookup k = (acc.lookup k).or (member.lookup k)) := by
  unfold Reg.add
  induction member generalizing acc with
  | nil => exact ⟨h, by simp [Reg.keys], by simp [Reg.lookup]⟩
  | cons e es ih =>
    simp only [List.foldl_cons]
    obtain ⟨h1, h2, h3⟩ := ih (acc.setdefault e.1 e.2) (setdefault_nodup acc e.1 e.2 h)
    refine ⟨h1, ?_, ?_⟩
    · intro k
      rw [h2 k, setdefault_keys]
      have hk : k ∈ Reg.keys (e :: es) ↔ k = e.1 ∨ k ∈ Reg.keys es := by simp [Reg.keys]
      rw [hk]
      by_cases hin : e.1 ∈ acc.keys
      · rw [if_pos hin]
        constructor
        · rintro (h | h)
          · exact Or.inl h
          · exact Or.inr (Or.inr h)
        · rintro (h | h | h)
          · exact Or.inl h
          · subst h; exact Or.inl hin
          · exact Or.inr h
      · rw [if_neg hin]
        simp only [List.mem_append, List.mem_singleton]; tauto
    · intro k
      rw [h3 k, setdefault_lookup]
      have : Reg.lookup (e :: es) k = (if e.1 = k then some e.2 else none).or (Reg.lookup es k) := by
        unfold Reg.lookup
        simp only [List.find?_cons]
        by_cases hk : e.1 = k <;> simp [hk]
      rw [this, Option.or_assoc]

/-- **combination**: iteration yields each key once, the keys are the union of the members' keys, and when
several members hold an id the first one added wins -/
theorem combine_spec (members : List (Reg K V)) :
    (Reg.combine members).keys.Nodup ∧
    (∀ k, k ∈ (Reg.combine members).keys ↔ ∃ m ∈ members, k ∈ m.keys) ∧
    (∀ k, (Reg.combine members).lookup k = members.findSome? (fun m => m.lookup k)) := by
  unfold Reg.combine
  suffices H : ∀ (acc : Reg K V), acc.keys.Nodup →
      (List.foldl Reg.add acc members).keys.Nodup ∧
      (∀ k, k ∈ (List.foldl Reg.add acc members).keys ↔ k ∈ acc.keys ∨ ∃ m ∈ members, k ∈ m.keys) ∧
      (∀ k, (List.foldl Reg.add acc members).lookup k =
        (acc.lookup k).or (members.findSome? (fun m => m.lookup k))) by
    obtain ⟨h1, h2, h3⟩ := H [] (by simp [Reg.keys])
    refine ⟨h1, ?_, ?_⟩
    · intro k; rw [h2 k]; simp [Reg.keys]
    · intro k; rw [h3 k]; simp [Reg.lookup]
  induction members with
  | nil => intro acc h; simp [h]
  | cons m ms ih =>
    intro acc h
    obtain ⟨a1, a2, a3⟩ := add_spec acc m h
    obtain ⟨h1, h2, h3⟩ := ih (acc.add m) a1
    simp only [List.foldl_cons]
    refine ⟨h1, ?_, ?_⟩
    · intro k
      rw [h2 k, a2 k]
      simp only [List.mem_cons, exists_eq_or_imp]
      tauto
    · intro k
      rw [h3 k, a3 k, List.findSome?_cons, Option.or_assoc]
      congr 1
      cases m.lookup k <;> simp

/-- the length of a registry is the number of keys its iteration yields -/
theorem len_eq_keys (r : Reg K V) : r.length = r.keys.length := by simp [Reg.keys]

/-- every yielded key can be looked up -/
theorem iterated_key_found (r : Reg K V) (k : K) (h : k ∈ r.keys) : (r.lookup k).isSome :=
  (lookup_isSome_iff r k).mpr h

/-- **the five embedded registries, exhaustively** (as they load from the archives now): the length is the
number of keys, keys are pairwise distinct, every key looks up an item carrying that key as its id whose
record has that id, is circular and has a known antibiotic resistance -/
theorem embedded_coherent :
    ∀ t ∈ Generated.registries,
      t.len = t.rows.length ∧ (t.rows.map (·.1)).Nodup ∧
      ∀ r ∈ t.rows, r.1 = r.2.1 ∧ r.1 = r.2.2.1 ∧ r.2.2.2.1 = true ∧ r.2.2.2.2 ∈ Tables.knownResistance := by
  intro t ht
  have h := List.all_eq_true.mp Tables.registries_ok t ht
  unfold Tables.RegTable.ok at h
  simp only [Bool.and_eq_true] at h
  obtain ⟨⟨h1, h2⟩, h3⟩ := h
  refine ⟨Nat.eq_of_beq_eq_true h1, Tables.nodupN_sound _ h2, ?_⟩
  intro r hr
  have := List.all_eq_true.mp h3 r hr
  simp only [Bool.and_eq_true] at this
  obtain ⟨⟨⟨a, b⟩, c⟩, d⟩ := this
  refine ⟨Nat.eq_of_beq_eq_true a, Nat.eq_of_beq_eq_true b, c, ?_⟩
  clear h3 hr a b c h1 h2 ht
  generalize Tables.knownResistance = l at d
  induction l with
  | nil => simp [Tables.memN] at d
  | cons y ys ih =>
    simp only [Tables.memN, Bool.or_eq_true] at d
    rcases d with d | d
    · rw [Nat.eq_of_beq_eq_true d]; simp
    · exact List.mem_cons_of_mem _ (ih d)

theorem memN_sound : ∀ (l : List Nat) (x : Nat), Tables.memN x l = true → x ∈ l := by
  intro l
  induction l with
  | nil => intro x h; simp [Tables.memN] at h
  | cons y ys ih =>
    intro x h
    simp only [Tables.memN, Bool.or_eq_true] at h
    rcases h with h | h
    · rw [Nat.eq_of_beq_eq_true h]; simp
    · exact List.mem_cons_of_mem _ (ih x h)

/-- whatever plasmid is loaded, from an archive or from a directory: when `find_resistance` answers, the
answer is the antibiotic the table gives for a cassette tag that labels one of the features — never anything
else -/
theorem resistance_from_table (table : List (Nat × Nat)) : ∀ (feats : List (List Nat)) (r : Nat),
    findResistance table feats = .ok r → ∃ labels ∈ feats, ∃ tag ∈ labels, (tag, r) ∈ table := by
  intro feats
  induction feats with
  | nil => intro r h; simp [findResistance] at h
  | cons labels rest ih =>
    intro r h
    unfold findResistance at h
    split at h
    · obtain ⟨l, hl, t, ht, hm⟩ := ih r h
      exact ⟨l, List.mem_cons_of_mem _ hl, t, ht, hm⟩
    · rename_i c hc
      have hcm : c ∈ (labels.eraseDups).filter (fun l => table.any (fun e => e.1 == l)) := by rw [hc]; simp
      have hcl : c ∈ labels := List.mem_eraseDups.mp (List.mem_filter.mp hcm).1
      split at h
      · rename_i e he
        simp only [Except.ok.injEq] at h
        subst h
        have hmem := List.mem_of_find?_eq_some he
        have hk : e.1 = c := by simpa using List.find?_some he
        exact ⟨labels, by simp, c, hcl, by rw [← hk]; exact hmem⟩
      · cases h
    · cases h

/-- … and with the table as it is now (regenerated, kernel-checked) that is one of the four known antibiotics -/
theorem resistance_known (feats : List (List Nat)) (r : Nat)
    (h : findResistance Generated.antibiotics feats = .ok r) : r ∈ Tables.knownResistance := by
  obtain ⟨_, _, tag, _, hm⟩ := resistance_from_table _ feats r h
  have := List.all_eq_true.mp Tables.antibiotics_known (tag, r) hm
  exact memN_sound _ _ this

/-! ## a directory of GenBank files -/
section directory
open Dir

/-- **a key can be looked up exactly when iteration yields it** — every yielded key is found, and looking up
anything else is a `KeyError` — whatever the extensions (none of them empty), the directory listing and the
case sensitivity of the filesystem's wildcard matching -/
theorem dir_lookup_iff_iterated (ci : Bool) (exts : List Name) (hne : [] ∉ exts) (dir : List Entry) (k : Name) :
    (lookup exts dir k).isSome ↔ k ∈ keys ci exts dir := by
  rw [mem_keys_iff hne]
  constructor
  · intro h
    obtain ⟨n, hn⟩ := Option.isSome_iff_exists.mp h
    obtain ⟨_, hk, hf⟩ := lookup_spec hn
    obtain ⟨f, hfd, hff, rfl⟩ := isFile_iff.mp hf
    exact ⟨f, hfd, hff, hk⟩
  · rintro ⟨f, hfd, hff, hk⟩
    obtain ⟨_, e, he, hn⟩ := key_spec hne hk
    unfold lookup
    rw [List.find?_isSome]
    refine ⟨k ++ dotC :: e, List.mem_map.mpr ⟨e, he, rfl⟩, ?_⟩
    simp only [Bool.and_eq_true, beq_iff_eq]
    exact ⟨by rw [← hn]; exact hk, isFile_iff.mpr ⟨f, hfd, hff, hn⟩⟩

/-- the file opened for a key is a regular file of the directory itself spelt `key.ext` with a listed
extension, and the id given to its record (`splitext` of that name, which is what `key` computes) is the key -/
theorem dir_item_carries_key (exts : List Name) (dir : List Entry) (k n : Name) (h : lookup exts dir k = some n) :
    (∃ e ∈ exts, n = k ++ dotC :: e) ∧ key exts n = some k ∧ (∃ f ∈ dir, f.isFile = true ∧ f.name = n) := by
  obtain ⟨h1, h2, h3⟩ := lookup_spec h
  exact ⟨h1, h2, isFile_iff.mp h3⟩

/-- the keys do not depend on how the filesystem matches wildcards: a name that differs from `key.ext` in the
case of its extension (`x.GB`), or has nothing before its only dot (`.gb`), is not a plasmid file -/
theorem dir_keys_case_independent (exts : List Name) (hne : [] ∉ exts) (dir : List Entry) (k : Name) :
    k ∈ keys true exts dir ↔ k ∈ keys false exts dir := by
  rw [mem_keys_iff hne, mem_keys_iff hne]

/-- sub-directories and what they hold are ignored: an entry that is not a regular file yields no key, and no
name or key containing `/` is ever looked up successfully -/
theorem dir_subdirectories_ignored (ci : Bool) (exts : List Name) (hne : [] ∉ exts) (dir : List Entry) (k : Name)
    (hk : k ∈ keys ci exts dir) :
    slashC ∉ k ∧ ∃ f ∈ dir, f.isFile = true ∧ ∃ e ∈ exts, f.name = k ++ dotC :: e := by
  obtain ⟨f, hfd, hff, hkey⟩ := (mem_keys_iff hne).mp hk
  obtain ⟨hs, e, he, hn⟩ := key_spec hne hkey
  refine ⟨?_, f, hfd, hff, e, he, hn⟩
  intro hin
  exact hs (by rw [hn]; exact List.mem_append_left _ hin)

/-- **every plasmid file is listed**: a regular file of the directory named `stem.ext` — `ext` one of the
extensions (none empty, this one without a dot), the stem non-empty, not the single dot, no `/` in the name —
is yielded under its stem and can be looked up, whatever else the directory holds and however the filesystem
matches wildcards -/
theorem dir_plasmid_files_listed (ci : Bool) (exts : List Name) (hne : [] ∉ exts) (dir : List Entry)
    (f : Entry) (hf : f ∈ dir) (hfile : f.isFile = true) (k e : Name) (hname : f.name = k ++ dotC :: e)
    (he : e ∈ exts) (hd : dotC ∉ e) (hk : k ≠ []) (hk1 : k ≠ [dotC]) (hs : slashC ∉ f.name) :
    k ∈ keys ci exts dir ∧ (lookup exts dir k).isSome := by
  have hkey : key exts f.name = some k := by
    rw [hname]; exact key_of_plasmid_name he hd hk hk1 (by rw [← hname]; exact hs)
  have hmem : k ∈ keys ci exts dir := (mem_keys_iff hne).mpr ⟨f, hf, hfile, hkey⟩
  exact ⟨hmem, (dir_lookup_iff_iterated ci exts hne dir k).mpr hmem⟩

/-- `len()` is the number of keys iteration yields (the definition of `__len__`), and with distinct file stems
no key comes twice -/
theorem dir_keys_nodup (ci : Bool) (exts : List Name) (dir : List Entry)
    (hd : (dir.filterMap (fun f => key exts f.name)).Nodup) : (keys ci exts dir).Nodup := by
  unfold keys listing
  exact hd.sublist (List.Sublist.filterMap _ List.filter_sublist)

/-! non-vacuity: `a.gb`, `x.GB`, `.gb`, a directory `old.gb`, `p.q.gbk` under `("gb", "gbk")` on a case-insensitive
listing: keys `a` and `p.q`; `x`, the empty key and `old` are absent -/
def gb : Name := [103, 98]
def gbk : Name := [103, 98, 107]
def demoDir : List Entry :=
  [⟨[97, 46, 103, 98], true⟩, ⟨[120, 46, 71, 66], true⟩, ⟨[46, 103, 98], true⟩, ⟨[111, 108, 100, 46, 103, 98], false⟩,
   ⟨[112, 46, 113, 46, 103, 98, 107], true⟩]
example : keys true [gb, gbk] demoDir = [[97], [112, 46, 113]] ∧ keys false [gb, gbk] demoDir = [[97], [112, 46, 113]] ∧
    lookup [gb, gbk] demoDir [97] = some [97, 46, 103, 98] ∧ lookup [gb, gbk] demoDir [120] = none ∧
    lookup [gb, gbk] demoDir [] = none ∧ lookup [gb, gbk] demoDir [111, 108, 100] = none := by decide
example : ([] : Name) ∉ [gb, gbk] := by decide

end directory

/-! non-vacuity -/
example : findResistance [(1, 10), (2, 20)] [[5], [7, 2, 2], [1]] = .ok 20 ∧
    findResistance [(1, 10), (2, 20)] [[1, 2]] = .error .multiple ∧
    findResistance [(1, 10), (2, 20)] [[5], []] = .error .notFound := by decide
example : Reg.combine [[(1, "a"), (2, "b")], [(2, "c"), (3, "d")], [(1, "e")]]
    = [(1, "a"), (2, "b"), (3, "d")] := by decide

end Moclo.C20
