import Moclo.Model.Cache
/-!
# C06 — typing verdicts do not depend on what was typed before

Model: `cacheQuery` (`StructuredRecord._get_regex` with the cache owned by the class asked).
The theorems hold for any set of classes and any `structure` function, i.e. for any hierarchy.
-/
namespace Moclo.C06
open Moclo
variable {C P : Type} [DecidableEq C]

/-- every cached pattern is the pattern of the class that owns it -/
def Inv (struc : C → P) (st : CState C P) : Prop := ∀ c p, cacheGet st c = some p → p = struc c

theorem inv_init (struc : C → P) : Inv struc ([] : CState C P) := by
  intro c p h; simp [cacheGet] at h

theorem cacheGet_cons (st : CState C P) (c d : C) (p : P) :
    cacheGet ((d, p) :: st) c = if d = c then some p else cacheGet st c := by
  unfold cacheGet
  simp only [List.find?_cons]
  by_cases h : d = c <;> simp [h]

theorem inv_query (struc : C → P) (st : CState C P) (c : C) (h : Inv struc st) :
    Inv struc (cacheQuery struc st c).1 ∧ (cacheQuery struc st c).2 = struc c := by
  unfold cacheQuery
  cases hg : cacheGet st c with
  | some p => exact ⟨h, h c p hg⟩
  | none =>
    refine ⟨?_, rfl⟩
    intro d q hq
    rw [cacheGet_cons] at hq
    split at hq
    · rename_i hcd; cases hq; rw [hcd]
    · exact h d q hq

theorem inv_run (struc : C → P) (st : CState C P) (hist : List C) (h : Inv struc st) :
    Inv struc (cacheRun struc st hist) := by
  induction hist generalizing st with
  | nil => exact h
  | cons c cs ih => exact ih _ (inv_query struc st c h).1

/-- **history independence**: after any sequence of earlier queries, over any classes in any order, the
pattern a class is matched with is its own structure — the same as when it is asked first -/
theorem history_independent (struc : C → P) (hist : List C) (c : C) :
    (cacheQuery struc (cacheRun struc [] hist) c).2 = (cacheQuery struc [] c).2 := by
  rw [(inv_query struc _ c (inv_run struc [] hist (inv_init struc))).2]
  rfl

/-- hence every verdict of a history equals the verdict of the same call issued first — whatever the other
records were, in particular records with the same letters but another topology -/
theorem verdicts_independent (spec : C → ClassSpec) (st : CState C Pat)
    (h : Inv (fun c => (spec c).pat) st) (hist : List (C × Word × Bool)) :
    histVerdicts spec st hist = hist.map (fun q => (spec q.1).isValidC q.2.1 q.2.2) := by
  induction hist generalizing st with
  | nil => rfl
  | cons q qs ih =>
    obtain ⟨c, w, circ⟩ := q
    obtain ⟨h1, h2⟩ := inv_query (fun c => (spec c).pat) st c h
    simp only [histVerdicts, List.map_cons]
    rw [ih _ h1]
    congr 1
    rw [h2]

theorem verdicts_fresh (spec : C → ClassSpec) (hist : List (C × Word × Bool)) :
    histVerdicts spec [] hist = hist.map (fun q => (spec q.1).isValidC q.2.1 q.2.2) :=
  verdicts_independent spec [] (inv_init _) hist

/-- on circular records this is the verdict of the typing model used everywhere else -/
theorem isValidC_circular (c : ClassSpec) (w : Word) : c.isValidC w true = c.isValid w := by
  unfold ClassSpec.isValidC ClassSpec.isValid ClassSpec.matchSeq
  cases search c.pat w true with
  | none => rfl
  | some m =>
    simp only []
    by_cases hc : validCuts c.geom (m.group w 0) > 2 <;> simp [hc]

/-- **automatic typing does not depend on the past either**: from any state the validations and
characterisations made so far can have left (`Inv`), `characterize` over a family answers with the first
candidate that accepts the record — the pure function `Moclo.characterize` of the typing model — and leaves a
state that still satisfies the invariant -/
theorem characterize_independent (spec : C → ClassSpec) (cands : List C) (w : Word) :
    ∀ (st : CState C Pat) (i : Nat), Inv (fun c => (spec c).pat) st →
      (charRun spec st cands w i).2 = (characterize (cands.map spec) w).map (· + i) ∧
      Inv (fun c => (spec c).pat) (charRun spec st cands w i).1 := by
  induction cands with
  | nil => intro st i h; exact ⟨rfl, h⟩
  | cons c cs ih =>
    intro st i h
    obtain ⟨hinv, hp⟩ := inv_query (fun c => (spec c).pat) st c h
    unfold charRun
    rw [hp]
    have hsame : ({ (spec c) with pat := (spec c).pat } : ClassSpec) = spec c := rfl
    rw [hsame, isValidC_circular]
    unfold characterize
    simp only [List.map_cons, List.findIdx?_cons]
    by_cases hv : (spec c).isValid w = true
    · simp only [hv, if_true]
      exact ⟨by simp, hinv⟩
    · simp only [hv, Bool.false_eq_true, if_false]
      obtain ⟨h1, h2⟩ := ih _ (i + 1) hinv
      refine ⟨?_, h2⟩
      rw [h1]
      unfold characterize
      cases (cs.map spec).findIdx? (fun c => c.isValid w) with
      | none => rfl
      | some j => simp [Option.map]; omega

/-- in particular after any history of validation calls, from a fresh interpreter -/
theorem characterize_after_history (spec : C → ClassSpec) (hist : List C) (cands : List C) (w : Word) :
    (charRun spec (cacheRun (fun c => (spec c).pat) [] hist) cands w 0).2 = characterize (cands.map spec) w := by
  have := (characterize_independent spec cands w _ 0 (inv_run _ [] hist (inv_init _))).1
  rw [this]
  cases characterize (cands.map spec) w <;> simp

/-- the statement is not vacuous: resolving the cache through the parents (the shape of the defect found
on the pinned tree) breaks it on a two-class hierarchy — class 1 derives from class 0, priming the parent
changes what the child is matched with -/
theorem inherited_cache_counterexample :
    let struc : Nat → Nat := fun c => c + 10
    let mro : Nat → List Nat := fun c => if c = 1 then [1, 0] else [c]
    (cacheQueryInherited struc mro (cacheQueryInherited struc mro [] 0).1 1).2
      ≠ (cacheQueryInherited struc mro [] 1).2 := by decide

end Moclo.C06
