import Moclo.Proofs.Graph
/-!
# C03 — ambiguous or incomplete module sets never produce a plasmid

Model: `gAssemble` (`AssemblyManager.__init__` check, `_generate_modules_map`, `_generate_assembly`
on abstract overhangs): dictionary in insertion order, `setdefault`, reverse-complement scan, `pop` walk.
Generic in the overhang type, so in particular for upper-cased `Seq` keys with Biopython's
`reverse_complement`.  `SameObj` is the harmless well-formedness guard "one Python object is one module".

The independent specification of success:
* `vUp ≠ vDown`;
* `StartFree mods`: no two different modules share a start overhang;
* `NoRc rc mods`: no start overhang is the reverse complement of a start overhang (itself included);
* `Chain mods vDown chain vUp`: the chain is made of supplied modules, linked end-to-start from the
  vector's downstream overhang to its upstream overhang, uses no start overhang twice and stops at the
  first arrival at `vUp`.
-/
namespace Moclo.C03
open Moclo
variable {O : Type} [DecidableEq O]

def NoRc (rc : O → O) (mods : List (GMod O)) : Prop := ∀ m ∈ mods, ∀ m' ∈ mods, m'.start ≠ rc m.start

def Chain (mods : List (GMod O)) (a : O) (chain : List (GMod O)) (b : O) : Prop :=
  IsPath a chain b ∧ (∀ m ∈ chain, m ∈ mods) ∧ (keys chain).Nodup ∧ ∀ m ∈ chain, m.start ≠ b

/-- a product is returned only if the graph conditions hold, and then the chain is the specified one, each
module is used at most once and the leftover is exactly the supplied modules outside the chain -/
theorem ok_sound {rc : O → O} {vUp vDown : O} {mods chain rest : List (GMod O)} (hid : SameObj mods)
    (h : gAssemble rc vUp vDown mods = .ok (chain, rest)) :
    vUp ≠ vDown ∧ StartFree mods ∧ NoRc rc mods ∧ Chain mods vDown chain vUp ∧ chain.Nodup ∧
    (∀ m, m ∈ rest ↔ m ∈ mods ∧ m ∉ chain) := by
  unfold gAssemble at h
  split at h
  · cases h
  · rename_i hv
    split at h
    · cases h
    · rename_i map hb
      obtain ⟨hn, hmem, hsf⟩ := gBuild_ok (map := []) (by simp [keys]) hb (by simpa using hid)
      simp only [List.nil_append, List.not_mem_nil, false_or] at hmem hsf
      split at h
      · cases h
      · rename_i hrc
        have hw := gWalk_walk vUp (map.length + 1) vDown map (by omega)
        split at h
        · rename_i c r heq
          simp only [Except.ok.injEq, Prod.mk.injEq] at h
          obtain ⟨rfl, rfl⟩ := h
          rw [heq] at hw
          obtain ⟨hperm, hns, hpath⟩ := hw.spec hn
          have hnd : (c ++ r).Nodup := hperm.nodup_iff.mp (nodup_of_keys_nodup hn)
          have hkn : (keys (c ++ r)).Nodup := keys_nodup_of_perm hperm hn
          refine ⟨hv, hsf, ?_, ⟨hpath, ?_, ?_, hns⟩, (List.nodup_append.mp hnd).1, ?_⟩
          · intro m hm m' hm' hs
            have : gRcClash rc map = true := (gRcClash_iff rc map).mpr
              ⟨m, (hmem m).mpr hm, m', (hmem m').mpr hm', hs⟩
            exact hrc this
          · intro m hm; exact (hmem m).mp (hperm.mem_iff.mpr (by simp [hm]))
          · unfold keys at hkn ⊢; rw [List.map_append] at hkn; exact (List.nodup_append.mp hkn).1
          · intro m
            rw [← hmem m, hperm.mem_iff, List.mem_append]
            constructor
            · intro hr; exact ⟨Or.inr hr, fun hc => (List.nodup_append.mp hnd).2.2 m hc m hr rfl⟩
            · rintro ⟨h1 | h1, h2⟩
              · exact absurd h1 h2
              · exact h1
        · cases h

/-- conversely, whenever the graph conditions hold a product is returned, with exactly that chain -/
theorem ok_complete {rc : O → O} {vUp vDown : O} {mods chain : List (GMod O)} (hid : SameObj mods)
    (hv : vUp ≠ vDown) (hsf : StartFree mods) (hrc : NoRc rc mods) (hc : Chain mods vDown chain vUp) :
    ∃ rest, gAssemble rc vUp vDown mods = .ok (chain, rest) := by
  obtain ⟨map, hb⟩ := (gBuild_ok_iff hid).mpr hsf
  obtain ⟨hn, hmem, _⟩ := gBuild_ok (map := []) (by simp [keys]) hb (by simpa using hid)
  simp only [List.not_mem_nil, false_or] at hmem
  obtain ⟨hpath, hin, hnd, hns⟩ := hc
  obtain ⟨rest, hw⟩ := Walk.of_path hn chain vDown hpath (fun m hm => (hmem m).mpr (hin m hm)) hnd hns
  have hw' := gWalk_walk vUp (map.length + 1) vDown map (by omega)
  obtain ⟨e1, e2, e3⟩ := hw'.det hw
  refine ⟨rest, ?_⟩
  unfold gAssemble
  rw [if_neg hv, hb]
  simp only []
  have hno : gRcClash rc map = false := by
    cases hcl : gRcClash rc map with
    | false => rfl
    | true =>
      obtain ⟨m, hm, m', hm', hs⟩ := (gRcClash_iff rc map).mp hcl
      exact absurd hs (hrc m ((hmem m).mp hm) m' ((hmem m').mp hm'))
  rw [hno]
  simp only [Bool.false_eq_true, if_false]
  have : gWalk vUp (map.length + 1) vDown map = (chain, rest, none) := by
    rw [← e1, ← e2, ← e3]
  rw [this]

/-- the three failure classes, with their precedence: a vector whose two overhangs coincide is rejected
first; otherwise duplicates (equal or reverse-complementary start overhangs) are reported; otherwise the
walk stalls at an overhang, different from the vector's upstream one, that no remaining module starts
with -/
theorem error_classes {rc : O → O} {vUp vDown : O} {mods : List (GMod O)} {e : GErr O} (hid : SameObj mods)
    (h : gAssemble rc vUp vDown mods = .error e) :
    (e = .invalidVector ∧ vUp = vDown) ∨
    (e = .duplicate ∧ vUp ≠ vDown ∧ (¬ StartFree mods ∨ ¬ NoRc rc mods)) ∨
    (∃ o chain, e = .missing o ∧ vUp ≠ vDown ∧ StartFree mods ∧ NoRc rc mods ∧ IsPath vDown chain o ∧
        o ≠ vUp ∧ (∀ m ∈ chain, m ∈ mods) ∧ ∀ m ∈ mods, m ∉ chain → m.start ≠ o) := by
  unfold gAssemble at h
  split at h
  · rename_i hv; simp only [Except.error.injEq] at h; exact Or.inl ⟨h.symm, hv⟩
  · rename_i hv
    split at h
    · rename_i e' hb
      simp only [Except.error.injEq] at h; subst h
      obtain ⟨h1, h2⟩ := gBuild_error hb
      exact Or.inr (Or.inl ⟨h1, hv, Or.inl (by simpa using h2)⟩)
    · rename_i map hb
      obtain ⟨hn, hmem, hsf⟩ := gBuild_ok (map := []) (by simp [keys]) hb (by simpa using hid)
      simp only [List.nil_append, List.not_mem_nil, false_or] at hmem hsf
      split at h
      · rename_i hrc
        simp only [Except.error.injEq] at h
        obtain ⟨m, hm, m', hm', hs⟩ := (gRcClash_iff rc map).mp hrc
        refine Or.inr (Or.inl ⟨h.symm, hv, Or.inr ?_⟩)
        intro hno; exact hno m ((hmem m).mp hm) m' ((hmem m').mp hm') hs
      · rename_i hrc
        have hw := gWalk_walk vUp (map.length + 1) vDown map (by omega)
        split at h
        · cases h
        · rename_i c r o heq
          simp only [Except.error.injEq] at h
          rw [heq] at hw
          obtain ⟨hperm, hns, hpath, hne, hrest⟩ := hw.spec hn
          refine Or.inr (Or.inr ⟨o, c, h.symm, hv, hsf, ?_, hpath, hne, ?_, ?_⟩)
          · intro m hm m' hm' hs
            exact hrc ((gRcClash_iff rc map).mpr ⟨m, (hmem m).mpr hm, m', (hmem m').mpr hm', hs⟩)
          · intro m hm; exact (hmem m).mp (hperm.mem_iff.mpr (by simp [hm]))
          · intro m hm hnc
            have : m ∈ c ++ r := hperm.mem_iff.mp ((hmem m).mpr hm)
            rcases List.mem_append.mp this with h1 | h1
            · exact absurd h1 hnc
            · exact hrest m h1

/-- **order independence**: permuting the argument list changes neither the outcome class, nor the chain,
nor the overhang at which a chain stalls; the leftover modules are the same up to order -/
theorem order_independent {rc : O → O} {vUp vDown : O} {mods mods' : List (GMod O)} (hp : mods.Perm mods')
    (hid : SameObj mods) :
    match gAssemble rc vUp vDown mods with
    | .ok (chain, rest) => ∃ rest', gAssemble rc vUp vDown mods' = .ok (chain, rest') ∧ rest.Perm rest'
    | .error e => gAssemble rc vUp vDown mods' = .error e := by
  unfold gAssemble
  by_cases hv : vUp = vDown
  · simp [hv]
  · simp only [hv, if_false]
    cases hb : gBuild mods [] with
    | error e =>
      have h1 := gBuild_error hb
      cases hb' : gBuild mods' [] with
      | error e' => rw [h1.1, (gBuild_error hb').1]
      | ok map' =>
        have := (gBuild_ok (map := []) (by simp [keys]) hb' (by simpa using hid.perm hp)).2.2
        exact absurd (StartFree.perm hp.symm (by simpa using this)) (by simpa using h1.2)
    | ok map =>
      obtain ⟨hn, hmem, hsf⟩ := gBuild_ok (map := []) (by simp [keys]) hb (by simpa using hid)
      simp only [List.nil_append, List.not_mem_nil, false_or] at hmem hsf
      obtain ⟨map', hb'⟩ := (gBuild_ok_iff (hid.perm hp)).mpr (StartFree.perm hp hsf)
      have hpm := gBuild_perm hp hid hb hb'
      rw [hb']
      simp only []
      rw [gRcClash_congr rc (fun m => hpm.mem_iff)]
      by_cases hcl : gRcClash rc map' = true
      · simp [hcl]
      · simp only [hcl, if_false]
        obtain ⟨c, r, s, hg⟩ : ∃ c r s, gWalk vUp (map.length + 1) vDown map = (c, r, s) := ⟨_, _, _, rfl⟩
        have hw := gWalk_walk vUp (map.length + 1) vDown map (by omega)
        rw [hg] at hw
        obtain ⟨rest', hw2, hr⟩ := hw.perm hn map' hpm
        have hw' := gWalk_walk vUp (map'.length + 1) vDown map' (by omega)
        obtain ⟨e1, e2, e3⟩ := hw'.det hw2
        have hg' : gWalk vUp (map'.length + 1) vDown map' = (c, rest', s) := by
          apply Prod.ext
          · exact e1
          · apply Prod.ext
            · exact e2
            · exact e3
        rw [hg, hg']
        cases s with
        | none => exact ⟨rest', rfl, hr⟩
        | some o => rfl

/-- every start overhang of the supplied modules is a key of the map that is built (under the accumulator's keys) -/
theorem gBuild_keeps_starts : ∀ (ms acc out : List (GMod O)), gBuild ms acc = .ok out →
    (∀ m ∈ acc, ∃ m' ∈ out, m'.start = m.start) ∧ (∀ m ∈ ms, ∃ m' ∈ out, m'.start = m.start) := by
  intro ms
  induction ms with
  | nil =>
    intro acc out h
    simp only [gBuild, Except.ok.injEq] at h; subst h
    exact ⟨fun m hm => ⟨m, hm, rfl⟩, fun m hm => by cases hm⟩
  | cons x xs ih =>
    intro acc out h
    simp only [gBuild] at h
    cases hl : gLookup acc x.start with
    | some y =>
      rw [hl] at h; simp only [] at h
      split at h
      · obtain ⟨h1, h2⟩ := ih acc out h
        refine ⟨h1, ?_⟩
        intro m hm
        rcases List.mem_cons.mp hm with rfl | hm
        · obtain ⟨hy, hys⟩ := gLookup_some hl
          obtain ⟨m', hm', hs⟩ := h1 y hy
          exact ⟨m', hm', by rw [hs, hys]⟩
        · exact h2 m hm
      · cases h
    | none =>
      rw [hl] at h; simp only [] at h
      obtain ⟨h1, h2⟩ := ih (acc ++ [x]) out h
      refine ⟨fun m hm => h1 m (List.mem_append_left _ hm), ?_⟩
      intro m hm
      rcases List.mem_cons.mp hm with rfl | hm
      · exact h1 m (List.mem_append_right _ (List.mem_singleton.mpr rfl))
      · exact h2 m hm

/-- **a palindromic start overhang is always refused** — alone or in company: a module whose start overhang is
its own reverse complement never takes part in a product (it would ligate to itself) -/
theorem palindromic_start_refused {rc : O → O} {vUp vDown : O} {mods : List (GMod O)} {m : GMod O}
    (hm : m ∈ mods) (hp : rc m.start = m.start) : ∀ r, gAssemble rc vUp vDown mods ≠ .ok r := by
  intro r h
  unfold gAssemble at h
  split at h
  · cases h
  · cases hb : gBuild mods [] with
    | error e => rw [hb] at h; cases h
    | ok map =>
      rw [hb] at h; simp only [] at h
      obtain ⟨m', hm', hs⟩ := (gBuild_keeps_starts mods [] map hb).2 m hm
      have hclash : gRcClash rc map = true := by
        unfold gRcClash
        rw [List.any_eq_true]
        refine ⟨m', hm', ?_⟩
        rw [hs, hp]
        cases hl : gLookup map m.start with
        | some _ => rfl
        | none => exact absurd hs ((gLookup_none.mp hl) m' hm')
      rw [hclash] at h
      simp at h

/-! non-vacuity: a two-module chain over a toy alphabet; a palindromic start overhang is its own reverse
complement and is rejected; a missing partner stalls where expected -/
def rcTest : Nat → Nat := fun n => 100 - n

example : gAssemble rcTest 1 2 [⟨3, 1, 11⟩, ⟨2, 3, 10⟩, ⟨7, 8, 12⟩]
    = .ok ([⟨2, 3, 10⟩, ⟨3, 1, 11⟩], [⟨7, 8, 12⟩]) := by decide
example : gAssemble rcTest 1 2 [⟨2, 50, 10⟩, ⟨50, 1, 11⟩] = .error .duplicate := by decide
/-- a lone module whose palindromic start overhang closes the vector: still refused -/
example : gAssemble rcTest 1 50 [⟨50, 1, 10⟩] = .error .duplicate := by decide
example : gAssemble rcTest 1 2 [⟨2, 3, 10⟩] = .error (.missing 3) := by decide
example : gAssemble rcTest 1 1 [⟨2, 3, 10⟩] = .error .invalidVector := by decide
/-- a cycle that never reaches the vector: the popped key is missing the second time round -/
example : gAssemble rcTest 1 2 [⟨2, 3, 10⟩, ⟨3, 2, 11⟩] = .error (.missing 2) := by decide

end Moclo.C03
