import Moclo.Proofs.Case
/-!
# C18 — letter case of the input sequences never changes the outcome

Model: `clsMatch` ignores case (`(?i)`), `Bio.Restriction`'s site search upper-cases (`siteAt` looks at the
code only), overhang keys are upper-cased (`Ent.gmod`).  `NtEq a b` = same nucleotide codes, any per-letter
case assignment; `RecCase` / `EntCase` = records / entities differing only in spelling.
-/
namespace Moclo.C18
open Moclo

/-- a pattern letter matches a record letter whatever its case -/
theorem letter_case (p : Nt) (x : Sym) (lo : Bool) : clsMatch p ⟨x.nt, lo⟩ = clsMatch p x := rfl

/-- **typing**: for any two spellings of a plasmid the class reports the same verdict and the same match
positions (so lower-, upper- and mixed-case spellings are accepted or rejected alike, `IllegalSite`
included) -/
theorem typing_case (c : ClassSpec) {w w' : Word} (h : NtEq w w') :
    c.matchSeq w = c.matchSeq w' ∧ c.isValid w = c.isValid w' := by
  refine ⟨matchSeq_congr_nt c h, ?_⟩
  unfold ClassSpec.isValid; rw [matchSeq_congr_nt c h]

/-- … and the same overhangs and target up to case -/
theorem overhangs_case (c : ClassSpec) {w w' : Word} (h : NtEq w w') :
    (c.overhangStart w).map upperW = (c.overhangStart w').map upperW ∧
    (c.overhangEnd w).map upperW = (c.overhangEnd w').map upperW ∧
    NtEq (fragmentOf c w) (fragmentOf c w') := by
  unfold ClassSpec.overhangStart ClassSpec.overhangEnd
  rw [matchSeq_congr_nt c h]
  refine ⟨?_, ?_, fragmentOf_congr_nt c h⟩
  · cases c.matchSeq w' with
    | error e => rfl
    | ok m =>
      simp only [Except.map]
      exact congrArg _ (upperW_eq_of_ntEq (by unfold Match.group; exact h.group _ _))
  · cases c.matchSeq w' with
    | error e => rfl
    | ok m =>
      simp only [Except.map]
      exact congrArg _ (upperW_eq_of_ntEq (by unfold Match.group; exact h.group _ _))

/-- upper-casing is one such respelling -/
theorem upper_is_respelling (w : Word) : NtEq (upperW w) w := ntEq_upper w

/-- **assembly**: any mix of spellings among a vector and its modules (all lower, all upper, per record,
per letter) gives the same product up to case — same features, references, provenance, unused modules —
or fails with the same error: same class and, for a missing module, the same stall overhang -/
theorem assembly_case {v v' : Ent} {mods mods' : List Ent} (hv : EntCase v v')
    (hm : List.Forall₂ EntCase mods mods') (pid pname : Nat) :
    OutcomeCase (assemble v mods pid pname).1 (assemble v' mods' pid pname).1 :=
  assemble_case hv hm pid pname

/-- in particular the product sequences are equal after upper-casing -/
theorem product_upper_eq {v v' : Ent} {mods mods' : List Ent} (hv : EntCase v v')
    (hm : List.Forall₂ EntCase mods mods') (pid pname : Nat) {p p' : Product} {a a' : List Rec}
    (h : assemble v mods pid pname = (.ok p, a)) (h' : assemble v' mods' pid pname = (.ok p', a')) :
    upperW p.rcd.seq = upperW p'.rcd.seq := by
  have := assemble_case hv hm pid pname
  rw [h, h'] at this
  exact upperW_eq_of_ntEq this.1.seq

/-! non-vacuity: a lower-case module is accepted like its upper-case spelling -/
example :
    let g : Geom := ⟨[.G, .A], 1, 2⟩
    let c : ClassSpec := { kind := .module, pat := moduleStructure g, geom := g }
    let w : Word := [.G,.A,.C,.A,.C,.A,.A,.A,.C,.A,.C,.T,.C,.G,.G].map (fun n => ⟨n, true⟩)
    c.isValid w = true ∧ c.isValid (upperW w) = true := by decide

end Moclo.C18
