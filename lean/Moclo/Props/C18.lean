import Moclo.Model.Entity
/-! placeholder for C18 (theorems follow) -/
