import Moclo.Model.Entity
/-! placeholder for C05 (theorems follow) -/
