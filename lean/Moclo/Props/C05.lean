import Moclo.Proofs.Narrow
import Moclo.Props.C02
import Moclo.Tables.Kits
import Moclo.Tables.Enzymes
/-!
# C05 — a part type accepts exactly the records with its signature overhangs

Model: `partStructure` (`AbstractPart.structure`) vs `genericStructure`, `ClassSpec.matchSeq`,
`C02.report`; `characterize` as "first candidate whose `is_valid()` is true".
`UniqueFit p w`: the signature-free structure fits the record in exactly one way (one start, one choice of
run lengths) — what "exactly the two recognition sites" gives.  `matchesAt sig text`: the letters of `text`
match the signature under IUPAC rules (`clsMatch`), so degenerate signatures such as `NNNN` are covered.
-/
namespace Moclo.C05
open Moclo

/-- the same class with another structure pattern -/
def withPat (c : ClassSpec) (p : Pat) : ClassSpec := { c with pat := p }

/-- **general form**: two structures with three groups that differ only in the fixed-width letters of
groups 1 and 3, the second (`g1'`, `g3'`) at least as specific as the first.  If the first fits the record in
exactly one way then the second accepts the record iff the first does and the texts of groups 1 and 3 match
`g1'` and `g3'`; and then both report the same thing. -/
theorem narrowed_accepts_iff {pre g1 g1' g2 g3 g3' suf : Pat} {k : Nat} (c : ClassSpec) (w : Word)
    (hpre : markless pre) (hg2 : markless g2) (hsuf : markless suf)
    (h1 : isFixed k g1 = true) (h3 : isFixed k g3 = true) (h1' : isFixed k g1' = true) (h3' : isFixed k g3' = true)
    (hsub1 : ∀ ys, matchesAt (letters g1') ys → matchesAt (letters g1) ys)
    (hsub3 : ∀ ys, matchesAt (letters g3') ys → matchesAt (letters g3) ys)
    (hfit : UniqueFit (threeGroup pre g1 g2 g3 suf) w) :
    let cG := withPat c (threeGroup pre g1 g2 g3 suf)
    let cP := withPat c (threeGroup pre g1' g2 g3' suf)
    (cP.isValid w = true ↔ cG.isValid w = true ∧
      ∃ m, cG.matchSeq w = .ok m ∧ matchesAt (letters g1') (m.group w 1) ∧ matchesAt (letters g3') (m.group w 3)) ∧
    (cP.isValid w = true → C02.report cP w = C02.report cG w) := by
  intro cG cP
  obtain ⟨i, ms, e, rel, hi, hrun, hrel, hrev, hsearch, huniq⟩ := search_of_uniqueFit hfit
  have h3G : C02.ThreeGroups cG.pat := by
    have := (relMatch_marks hrel).1
    obtain ⟨a1, b2, hms, _⟩ := threeGroup_run hpre hg2 hsuf h1 h3 hrun
    have hl : rel.reverse.length = 7 := by rw [hrev, hms]; rfl
    simp only [List.length_reverse] at hl
    show 6 ≤ nmarks (threeGroup pre g1 g2 g3 suf); omega
  obtain ⟨a1, b2, hms, hle1, hle2, rpre, m1, rg2, m3, rsuf⟩ := threeGroup_run hpre hg2 hsuf h1 h3 hrun
  have hwl := window_length w i (Nat.le_of_lt hi)
  have hrs : rel.reverse = [a1, a1 + k, a1 + k, b2, b2, b2 + k, e] := by rw [hrev, hms]; rfl
  have hebound : e ≤ w.length := by have := hrun.bounds.2.1; omega
  -- the texts of groups 1 and 3 of the generic match
  have hg := fun g hg => C02.hasGroup_of_three h3G hrel g hg
  have grp1 : (⟨i :: rel.reverse.map (· + i)⟩ : Match).group w 1 = slice (window w i) a1 (a1 + k) := by
    rw [match_group_view hi hrel 1 (hg 1 (by omega)), hrs]; simp [vgroup, rspan]
  have grp3 : (⟨i :: rel.reverse.map (· + i)⟩ : Match).group w 3 = slice (window w i) b2 (b2 + k) := by
    rw [match_group_view hi hrel 3 (hg 3 (by omega)), hrs]; simp [vgroup, rspan]
  obtain ⟨_, w1', _⟩ := isFixed_spec h1'
  obtain ⟨_, w3', _⟩ := isFixed_spec h3'
  have sig1 : matchesAt (letters g1') (slice (window w i) a1 (a1 + k)) ↔ matchesAt (letters g1') ((window w i).drop a1) := by
    unfold slice; rw [show a1 + k - a1 = k by omega]
    exact matchesAt_take _ _ _ (by rw [letters_length, w1'])
  have sig3 : matchesAt (letters g3') (slice (window w i) b2 (b2 + k)) ↔ matchesAt (letters g3') ((window w i).drop b2) := by
    unfold slice; rw [show b2 + k - b2 = k by omega]
    exact matchesAt_take _ _ _ (by rw [letters_length, w3'])
  -- when the signature letters match, the narrowed structure has the very same unique fit
  have key : matchesAt (letters g1') ((window w i).drop a1) → matchesAt (letters g3') ((window w i).drop b2) →
      relMatch (threeGroup pre g1' g2 g3' suf) (window w i) = some rel ∧
      search (threeGroup pre g1' g2 g3' suf) w true = some ⟨i :: rel.reverse.map (· + i)⟩ := by
    intro s1 s3
    have hP : Run (threeGroup pre g1' g2 g3' suf) (window w i) 0 ms e :=
      (threeGroup_narrow hpre hg2 hsuf h1 h3 h1' h3' hsub1 hsub3).mpr ⟨hrun, a1, b2, hms, s1, s3⟩
    obtain ⟨rel', hrel'⟩ := relMatch_isSome_of_run hP
    obtain ⟨ms', e', hr', hrev'⟩ := relMatch_run hrel'
    have hG' := ((threeGroup_narrow hpre hg2 hsuf h1 h3 h1' h3' hsub1 hsub3).mp hr').1
    obtain ⟨_, e1, e2⟩ := huniq i ms' e' hi hG'
    have : rel' = rel := by
      have : rel'.reverse = rel.reverse := by rw [hrev', hrev, e1, e2]
      simpa using congrArg List.reverse this
    subst this
    refine ⟨hrel', search_circ_first hi hrel' ?_⟩
    intro j hj
    cases hj' : relMatch (threeGroup pre g1' g2 g3' suf) (window w j) with
    | none => rfl
    | some r =>
      obtain ⟨m2, e2', hr2, _⟩ := relMatch_run hj'
      have hG2 := ((threeGroup_narrow hpre hg2 hsuf h1 h3 h1' h3' hsub1 hsub3).mp hr2).1
      have := (huniq j m2 e2' (by omega) hG2).1
      omega
  -- and when the narrowed structure fits anywhere, it is at that fit with matching letters
  have key2 : ∀ j rel', j < w.length → relMatch (threeGroup pre g1' g2 g3' suf) (window w j) = some rel' →
      matchesAt (letters g1') ((window w i).drop a1) ∧ matchesAt (letters g3') ((window w i).drop b2) := by
    intro j rel' hj hrel'
    obtain ⟨ms', e', hr', _⟩ := relMatch_run hrel'
    obtain ⟨hG', a1', b2', hms', s1, s3⟩ := (threeGroup_narrow hpre hg2 hsuf h1 h3 h1' h3' hsub1 hsub3).mp hr'
    obtain ⟨ej, em, _⟩ := huniq j ms' e' hj hG'
    subst ej
    rw [em, hms] at hms'
    simp only [List.cons.injEq, and_true] at hms'
    obtain ⟨ea, _, _, eb, _⟩ := hms'
    subst ea eb
    exact ⟨s1, s3⟩
  have repG := C02.report_of_view (c := cG) h3G hi hrel hsearch
  have validG : cG.isValid w = true ↔ ¬ (validCuts c.geom (vgroup (window w i) rel.reverse 0) > 2) := by
    unfold ClassSpec.isValid ClassSpec.matchSeq
    rw [show cG.pat = threeGroup pre g1 g2 g3 suf from rfl, hsearch]
    simp only []
    rw [match_group_view hi hrel 0 (hg 0 (by omega))]
    by_cases hc : validCuts c.geom (vgroup (window w i) rel.reverse 0) > 2
    · have hc' : validCuts cG.geom (vgroup (window w i) rel.reverse 0) > 2 := hc
      simp [hc, hc']
    · have hc' : ¬ validCuts cG.geom (vgroup (window w i) rel.reverse 0) > 2 := hc
      simp [hc, hc']
  have matchG : ∀ m, cG.matchSeq w = .ok m → m = ⟨i :: rel.reverse.map (· + i)⟩ := by
    intro m hm
    unfold ClassSpec.matchSeq at hm
    rw [show cG.pat = threeGroup pre g1 g2 g3 suf from rfl, hsearch] at hm
    simp only [] at hm
    split at hm
    · cases hm
    · simp only [Except.ok.injEq] at hm; exact hm.symm
  constructor
  · constructor
    · intro hv
      -- the narrowed class found a match somewhere
      have hsP : ∃ mP, search (threeGroup pre g1' g2 g3' suf) w true = some mP := by
        unfold ClassSpec.isValid ClassSpec.matchSeq at hv
        rw [show cP.pat = threeGroup pre g1' g2 g3' suf from rfl] at hv
        cases hsp : search (threeGroup pre g1' g2 g3' suf) w true with
        | none => rw [hsp] at hv; simp at hv
        | some mP => exact ⟨mP, rfl⟩
      obtain ⟨mP, hmP⟩ := hsP
      obtain ⟨j, rel', _, hjhi, hrel', _, _⟩ := search_spec hmP
      have hjn : j < w.length := by simpa [searchHi] using hjhi
      obtain ⟨s1, s3⟩ := key2 j rel' hjn (by simpa [textAt_circ] using hrel')
      obtain ⟨hrelP, hsearchP⟩ := key s1 s3
      have h3P : C02.ThreeGroups cP.pat := by
        have := (relMatch_marks hrelP).1
        have h7 : rel.length = 7 := by have := congrArg List.length hrs; simpa using this
        show 6 ≤ nmarks (threeGroup pre g1' g2 g3' suf); omega
      -- same view, hence the same illegal-site screen
      have validP : cP.isValid w = true ↔ ¬ (validCuts c.geom (vgroup (window w i) rel.reverse 0) > 2) := by
        unfold ClassSpec.isValid ClassSpec.matchSeq
        rw [show cP.pat = threeGroup pre g1' g2 g3' suf from rfl, hsearchP]
        simp only []
        rw [match_group_view hi hrelP 0 (C02.hasGroup_of_three h3P hrelP 0 (by omega))]
        by_cases hc : validCuts c.geom (vgroup (window w i) rel.reverse 0) > 2
        · have hc' : validCuts cP.geom (vgroup (window w i) rel.reverse 0) > 2 := hc
          simp [hc, hc']
        · have hc' : ¬ validCuts cP.geom (vgroup (window w i) rel.reverse 0) > 2 := hc
          simp [hc, hc']
      have hvG : cG.isValid w = true := validG.mpr (validP.mp hv)
      refine ⟨hvG, ⟨i :: rel.reverse.map (· + i)⟩, ?_, by rw [grp1]; exact sig1.mpr s1, by rw [grp3]; exact sig3.mpr s3⟩
      obtain ⟨m, hm⟩ := (by
        unfold ClassSpec.isValid at hvG
        cases hmm : cG.matchSeq w with
        | ok m => exact ⟨m, rfl⟩
        | error e => rw [hmm] at hvG; simp at hvG : ∃ m, cG.matchSeq w = .ok m)
      rw [hm, matchG m hm]
    · rintro ⟨hvG, m, hm, s1, s3⟩
      have hmeq := matchG m hm; subst hmeq
      rw [grp1] at s1; rw [grp3] at s3
      obtain ⟨hrelP, hsearchP⟩ := key (sig1.mp s1) (sig3.mp s3)
      have h3P : C02.ThreeGroups cP.pat := by
        have h7 : rel.length = 7 := by have := congrArg List.length hrs; simpa using this
        have := (relMatch_marks hrelP).1
        show 6 ≤ nmarks (threeGroup pre g1' g2 g3' suf); omega
      unfold ClassSpec.isValid ClassSpec.matchSeq
      rw [show cP.pat = threeGroup pre g1' g2 g3' suf from rfl, hsearchP]
      simp only []
      rw [match_group_view hi hrelP 0 (C02.hasGroup_of_three h3P hrelP 0 (by omega))]
      have hc := validG.mp hvG
      have hc' : ¬ validCuts cP.geom (vgroup (window w i) rel.reverse 0) > 2 := hc
      simp [hc']
  · intro hv
    have hsP : ∃ mP, search (threeGroup pre g1' g2 g3' suf) w true = some mP := by
      unfold ClassSpec.isValid ClassSpec.matchSeq at hv
      rw [show cP.pat = threeGroup pre g1' g2 g3' suf from rfl] at hv
      cases hsp : search (threeGroup pre g1' g2 g3' suf) w true with
      | none => rw [hsp] at hv; simp at hv
      | some mP => exact ⟨mP, rfl⟩
    obtain ⟨mP, hmP⟩ := hsP
    obtain ⟨j, rel', _, hjhi, hrel', _, _⟩ := search_spec hmP
    have hjn : j < w.length := by simpa [searchHi] using hjhi
    obtain ⟨s1, s3⟩ := key2 j rel' hjn (by simpa [textAt_circ] using hrel')
    obtain ⟨hrelP, hsearchP⟩ := key s1 s3
    have h3P : C02.ThreeGroups cP.pat := by
      have h7 : rel.length = 7 := by have := congrArg List.length hrs; simpa using this
      have := (relMatch_marks hrelP).1
      show 6 ≤ nmarks (threeGroup pre g1' g2 g3' suf); omega
    rw [C02.report_of_view (c := cP) h3P hi hrelP hsearchP, repG]
    rfl

/-! ## the generic and the signature-typed structures are such a pair -/

theorem markless_lits (s : List Nt) : markless (lits s) := by
  intro t ht; simp only [lits, List.mem_map] at ht; obtain ⟨_, _, rfl⟩ := ht; rfl

theorem markless_nRun (n : Nat) : markless (nRun n) := by
  intro t ht; simp only [nRun, List.mem_replicate] at ht; rw [ht.2]; rfl

theorem markless_append {a b : Pat} (ha : markless a) (hb : markless b) : markless (a ++ b) := by
  intro t ht; rcases List.mem_append.mp ht with h | h
  · exact ha t h
  · exact hb t h

theorem isFixed_nRun (k : Nat) : isFixed k (nRun k) = true := by
  simp [isFixed, nRun]

theorem isFixed_lits (s : List Nt) : isFixed s.length (lits s) = true := by
  simp [isFixed, lits]

theorem letters_nRun (k : Nat) : letters (nRun k) = List.replicate k .N := by
  induction k with
  | zero => rfl
  | succ n ih => simp [nRun, List.replicate_succ, letters] at ih ⊢; exact ih

/-- a signature is at least as specific as the wildcard overhang `N^k` -/
theorem sig_narrows (s : List Nt) (ys : Word) (h : matchesAt (letters (lits s)) ys) :
    matchesAt (letters (nRun s.length)) ys := by
  rw [letters_lits] at h
  rw [letters_nRun]
  obtain ⟨h1, h2⟩ := h
  refine ⟨by simpa using h1, fun j hj hj' => ?_⟩
  simp only [List.length_replicate] at hj
  have := h2 j hj hj'
  simp only [List.getElem_replicate]
  exact clsMatch_sub_N _ _ this

/-- the pieces around the overhang groups, shared by the generic and the signature-typed structure -/
def preOf : Kind → Geom → Pat
  | .module, g => lits g.site ++ nRun g.off
  | .vector, _ => [.cls .N]
def midOf : Kind → Geom → Pat
  | .module, _ => [.cls .N, .star .N true, .cls .N]
  | .vector, g => nRun g.off ++ lits (rcNt g.site) ++ [.star .N true] ++ lits g.site ++ nRun g.off
def sufOf : Kind → Geom → Pat
  | .module, g => nRun g.off ++ lits (rcNt g.site)
  | .vector, _ => [.cls .N]

theorem generic_eq (kind : Kind) (g : Geom) :
    genericStructure kind g = threeGroup (preOf kind g) (nRun g.k) (midOf kind g) (nRun g.k) (sufOf kind g) := by
  cases kind <;> simp [genericStructure, moduleStructure, vectorStructure, threeGroup, preOf, midOf, sufOf, List.append_assoc]

/-- group 1 carries the upstream signature of a module part, the downstream one of a vector part -/
def sig1 : Kind → List Nt → List Nt → List Nt
  | .module, up, _ => up
  | .vector, _, down => down
def sig3 : Kind → List Nt → List Nt → List Nt
  | .module, _, down => down
  | .vector, up, _ => up

theorem part_eq (kind : Kind) (g : Geom) (up down : List Nt) :
    partStructure kind g up down =
      threeGroup (preOf kind g) (lits (sig1 kind up down)) (midOf kind g) (lits (sig3 kind up down)) (sufOf kind g) := by
  cases kind <;> simp [partStructure, modulePartStructure, vectorPartStructure, threeGroup, preOf, midOf, sufOf, sig1,
    sig3, List.append_assoc]

theorem pieces_markless (kind : Kind) (g : Geom) :
    markless (preOf kind g) ∧ markless (midOf kind g) ∧ markless (sufOf kind g) := by
  have one : ∀ t : Tok, t.isMark = false → markless [t] := by
    intro t ht x hx; simp at hx; subst hx; exact ht
  cases kind
  · exact ⟨markless_append (markless_lits _) (markless_nRun _),
      by intro t ht; simp [midOf] at ht; rcases ht with rfl | rfl | rfl <;> rfl,
      markless_append (markless_nRun _) (markless_lits _)⟩
  · refine ⟨one _ rfl, ?_, one _ rfl⟩
    exact markless_append (markless_append (markless_append (markless_append (markless_nRun _) (markless_lits _))
      (one _ rfl)) (markless_lits _)) (markless_nRun _)

/-- **a part type accepts exactly the records with its signature overhangs**: for every geometry, every
signature of overhang length (degenerate ones included) and every record the signature-free structure fits in
exactly one way, the part class accepts the record iff the signature-free class accepts it and the overhangs it
reports match the signature under IUPAC rules — upstream signature against the upstream overhang, downstream
against the downstream one, for modules and vectors alike; and then both classes report the same overhangs,
target and placeholder -/
theorem part_accepts_iff (kind : Kind) (g : Geom) (up down : List Nt) (hu : up.length = g.k) (hd : down.length = g.k)
    (w : Word) (hfit : UniqueFit (genericStructure kind g) w) :
    let cG : ClassSpec := { kind := kind, pat := genericStructure kind g, geom := g }
    let cP : ClassSpec := { kind := kind, pat := partStructure kind g up down, geom := g }
    (cP.isValid w = true ↔ cG.isValid w = true ∧
      ∃ m, cG.matchSeq w = .ok m ∧ matchesAt up (m.group w cG.upGroup) ∧ matchesAt down (m.group w cG.downGroup)) ∧
    (cP.isValid w = true → C02.report cP w = C02.report cG w) := by
  intro cG cP
  obtain ⟨mp, mm, ms⟩ := pieces_markless kind g
  have hs1 : (sig1 kind up down).length = g.k := by cases kind <;> simp [sig1, hu, hd]
  have hs3 : (sig3 kind up down).length = g.k := by cases kind <;> simp [sig3, hu, hd]
  rw [generic_eq] at hfit
  have main := narrowed_accepts_iff (k := g.k) (g1 := nRun g.k) (g3 := nRun g.k)
    (g1' := lits (sig1 kind up down)) (g3' := lits (sig3 kind up down))
    ({ kind := kind, pat := [], geom := g } : ClassSpec) w mp mm ms
    (isFixed_nRun _) (isFixed_nRun _) (by rw [← hs1]; exact isFixed_lits _) (by rw [← hs3]; exact isFixed_lits _)
    (by intro ys h; have := sig_narrows _ ys h; rwa [hs1] at this)
    (by intro ys h; have := sig_narrows _ ys h; rwa [hs3] at this) hfit
  simp only [withPat, ← generic_eq, ← part_eq, letters_lits] at main
  obtain ⟨m1, m2⟩ := main
  refine ⟨?_, m2⟩
  rw [m1]
  cases kind
  · simp only [sig1, sig3, ClassSpec.upGroup, ClassSpec.downGroup]
    exact Iff.rfl
  · simp only [sig1, sig3, ClassSpec.upGroup, ClassSpec.downGroup]
    constructor
    · rintro ⟨a, m, b, c, d⟩; exact ⟨a, m, b, d, c⟩
    · rintro ⟨a, m, b, c, d⟩; exact ⟨a, m, b, d, c⟩

/-- the signature-derived classes of the kits carry exactly this part structure, the plain module / vector
classes the generic one (as the structures are now: kernel-checked on the regenerated table); the same for
user-defined signatures over every supported enzyme -/
theorem kit_structures_derived : ∀ r ∈ Generated.kits, Tables.KitRow.derivedOk r = true :=
  fun r hr => List.all_eq_true.mp Tables.kits_derived r hr

/-! ## automatic characterisation -/

/-- `characterize` returns a candidate type that accepts the record — the first in candidate order — and fails
(`RuntimeError`) exactly when no candidate accepts it -/
theorem characterize_spec (cands : List ClassSpec) (w : Word) :
    (∀ i, characterize cands w = some i →
      ∃ h : i < cands.length, (cands[i]).isValid w = true ∧ ∀ j (hj : j < i), (cands[j]'(by omega)).isValid w = false) ∧
    (characterize cands w = none ↔ ∀ c ∈ cands, c.isValid w = false) := by
  unfold characterize
  constructor
  · intro i hi
    rw [List.findIdx?_eq_some_iff_getElem] at hi
    obtain ⟨h, h1, h2⟩ := hi
    exact ⟨h, h1, fun j hj => by simpa using h2 j hj⟩
  · rw [List.findIdx?_eq_none_iff]

end Moclo.C05
