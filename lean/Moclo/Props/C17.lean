import Moclo.Proofs.Assembly
/-!
# C17 — validation is total and failures are always reported as MoClo errors

The model is total by construction (every function is a total Lean function), so "returns True or False"
is carried by the correspondence check on the malformed stream; the theorems below carry the error
*taxonomy*: what `is_valid()` is equivalent to, what the accessors raise on a rejected record, and which
errors an assembly can end with.
**Partial**: "never AttributeError / KeyError / IndexError / TypeError" is a statement about the Python
runtime that no total model can exhibit: decided by the oracle on the implementation.
-/
namespace Moclo.C17
open Moclo

/-- `is_valid()` answers `False` exactly when the match fails with one of the two documented
invalid-sequence errors -/
theorem isValid_false_iff (c : ClassSpec) (w : Word) :
    c.isValid w = false ↔ c.matchSeq w = .error .invalid ∨ c.matchSeq w = .error .illegal := by
  unfold ClassSpec.isValid ClassSpec.matchSeq
  cases search c.pat w true with
  | none => simp
  | some m =>
    simp only []
    by_cases hc : validCuts c.geom (m.group w 0) > 2
    · simp [hc]
    · simp [hc]

theorem isValid_true_iff (c : ClassSpec) (w : Word) : c.isValid w = true ↔ ∃ m, c.matchSeq w = .ok m := by
  unfold ClassSpec.isValid
  cases c.matchSeq w with
  | ok m => simp
  | error e => simp

/-- on a record that is not valid, overhangs, target and placeholder all raise that same
invalid-sequence error -/
theorem accessors_raise_invalid (c : ClassSpec) (r : Rec) (h : c.isValid r.seq = false) :
    ∃ e, (e = .invalid ∨ e = .illegal) ∧ c.overhangStart r.seq = .error e ∧ c.overhangEnd r.seq = .error e ∧
      c.target r = .error e ∧ c.placeholder r.seq = .error e := by
  rcases (isValid_false_iff c r.seq).mp h with h' | h'
  · exact ⟨.invalid, Or.inl rfl, by simp [ClassSpec.overhangStart, h', Except.map],
      by simp [ClassSpec.overhangEnd, h', Except.map], by simp [ClassSpec.target, h', Except.map],
      by simp [ClassSpec.placeholder, h', Except.map]⟩
  · exact ⟨.illegal, Or.inr rfl, by simp [ClassSpec.overhangStart, h', Except.map],
      by simp [ClassSpec.overhangEnd, h', Except.map], by simp [ClassSpec.target, h', Except.map],
      by simp [ClassSpec.placeholder, h', Except.map]⟩

theorem matchSeq_error (c : ClassSpec) (w : Word) (e : Err) (h : c.matchSeq w = .error e) :
    e = .invalid ∨ e = .illegal := by
  unfold ClassSpec.matchSeq at h
  cases hs : search c.pat w true with
  | none => rw [hs] at h; simp only [Except.error.injEq] at h; exact Or.inl h.symm
  | some m =>
    rw [hs] at h; simp only [] at h
    split at h
    · simp only [Except.error.injEq] at h; exact Or.inr h.symm
    · cases h

theorem gmod_error (e : Ent) (err : Err) (h : e.gmod = .error err) : err = .invalid ∨ err = .illegal := by
  unfold Ent.gmod at h
  cases hm : e.spec.matchSeq e.rcd.seq with
  | error x =>
    rw [hm] at h
    simp [bind, Except.bind] at h
    subst h; exact matchSeq_error _ _ _ hm
  | ok m => rw [hm] at h; simp [bind, Except.bind, pure, Except.pure] at h

theorem evalPrefix_error (mods : List Ent) (err : Err) (h : (evalPrefix mods).2 = some err) :
    err = .invalid ∨ err = .illegal := by
  induction mods with
  | nil => simp [evalPrefix] at h
  | cons e es ih =>
    simp only [evalPrefix] at h
    cases he : e.gmod with
    | error x => rw [he] at h; simp at h; subst h; exact gmod_error e _ he
    | ok g => rw [he] at h; exact ih h

theorem target_error (c : ClassSpec) (r : Rec) (e : Err) (h : c.target r = .error e) :
    e = .invalid ∨ e = .illegal := by
  unfold ClassSpec.target at h
  cases hm : c.matchSeq r.seq with
  | error x => rw [hm] at h; simp [Except.map] at h; subst h; exact matchSeq_error _ _ _ hm
  | ok m => rw [hm] at h; simp [Except.map] at h

theorem extractChain_error (ents : List Ent) (gs : List (GMod Word)) (acc : Rec) (e : Err)
    (h : extractChain ents gs acc = .error e) :
    e = .invalid ∨ e = .illegal ∨ e = .injected ∨ e = .internal := by
  induction gs generalizing acc with
  | nil => simp [extractChain] at h
  | cons g gs ih =>
    simp only [extractChain] at h
    split at h
    · simp only [Except.error.injEq] at h; exact Or.inr (Or.inr (Or.inr h.symm))
    · split at h
      · simp only [Except.error.injEq] at h; exact Or.inr (Or.inr (Or.inl h.symm))
      · split at h
        · rename_i err ht
          simp only [Except.error.injEq] at h; subst h
          rcases target_error _ _ _ ht with h' | h'
          · exact Or.inl h'
          · exact Or.inr (Or.inl h')
        · exact ih _ h

/-- **an assembly ends with a product or with a documented error**: the only possible failures are the
invalid-sequence errors, `DuplicateModules`, `MissingModule` — plus, and only when the harness injected one,
the injected fault, and `internal` only for citation qualifiers that do not index the reference list -/
theorem assemble_errors_documented (v : Ent) (mods : List Ent) (pid pname : Nat) (e : Err)
    (h : (assemble v mods pid pname).1 = .error e) :
    e = .invalid ∨ e = .illegal ∨ e = .duplicate ∨ (∃ o, e = .missing o) ∨ e = .injected ∨ e = .internal := by
  unfold assemble at h
  simp only [] at h
  split at h
  · rename_i err hv
    simp only [Except.error.injEq] at h; subst h
    rcases gmod_error v _ hv with h' | h'
    · exact Or.inl h'
    · exact Or.inr (Or.inl h')
  · split at h
    · simp only [Except.error.injEq] at h; exact Or.inl h.symm
    · split at h
      · simp only [Except.error.injEq] at h; exact Or.inr (Or.inr (Or.inl h.symm))
      · split at h
        · rename_i err herr
          simp only [Except.error.injEq] at h; subst h
          rcases evalPrefix_error mods _ herr with h' | h'
          · exact Or.inl h'
          · exact Or.inr (Or.inl h')
        · split at h
          · simp only [Except.error.injEq] at h; exact Or.inr (Or.inr (Or.inl h.symm))
          · split at h
            · rename_i dms dv _ _
              simp only [] at h
              unfold assembleCore at h
              simp only [] at h
              split at h
              · rename_i err hex
                simp only [Except.error.injEq] at h; subst h
                rcases extractChain_error _ _ _ _ hex with h' | h' | h' | h'
                · exact Or.inl h'
                · exact Or.inr (Or.inl h')
                · exact Or.inr (Or.inr (Or.inr (Or.inr (Or.inl h'))))
                · exact Or.inr (Or.inr (Or.inr (Or.inr (Or.inr h'))))
              · split at h
                · rename_i o _
                  simp only [Except.error.injEq] at h
                  exact Or.inr (Or.inr (Or.inr (Or.inl ⟨o, h.symm⟩)))
                · split at h
                  · simp only [Except.error.injEq] at h
                    exact Or.inr (Or.inr (Or.inr (Or.inr (Or.inl h.symm))))
                  · split at h
                    · rename_i err ht
                      simp only [Except.error.injEq] at h; subst h
                      rcases target_error _ _ _ ht with h' | h'
                      · exact Or.inl h'
                      · exact Or.inr (Or.inl h')
                    · cases h
            · simp only [Except.error.injEq] at h
              exact Or.inr (Or.inr (Or.inr (Or.inr (Or.inr h.symm))))

/-! non-vacuity: a record shorter than the structure is rejected with `invalid`; one with a third cut with
`illegal` -/
example : ({ kind := .module, pat := moduleStructure ⟨[.G, .A], 1, 2⟩, geom := ⟨[.G, .A], 1, 2⟩ } : ClassSpec).matchSeq
    ([.G, .A, .C].map (fun n => ⟨n, false⟩)) = .error .invalid := by decide

end Moclo.C17
