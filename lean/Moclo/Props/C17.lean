import Moclo.Proofs.Assembly
import Moclo.Proofs.CiteRoundTrip
/-!
# C17 — validation is total and failures are always reported as MoClo errors

The model is total by construction (every function is a total Lean function), so "returns True or False"
is carried by the correspondence check on the malformed stream; the theorems below carry the error
*taxonomy*: what `is_valid()` is equivalent to, what the accessors raise on a rejected record, and which
errors an assembly can end with.
**Partial**: "never AttributeError / KeyError / IndexError / TypeError" is a statement about the Python
runtime that no total model can exhibit: decided by the oracle on the implementation.
-/
namespace Moclo.C17
open Moclo

/-- `is_valid()` answers `False` exactly when the match fails with one of the two documented
invalid-sequence errors -/
theorem isValid_false_iff (c : ClassSpec) (w : Word) :
    c.isValid w = false ↔ c.matchSeq w = .error .invalid ∨ c.matchSeq w = .error .illegal := by
  unfold ClassSpec.isValid ClassSpec.matchSeq
  cases search c.pat w true with
  | none => simp
  | some m =>
    simp only []
    by_cases hc : validCuts c.geom (m.group w 0) > 2
    · simp [hc]
    · simp [hc]

theorem isValid_true_iff (c : ClassSpec) (w : Word) : c.isValid w = true ↔ ∃ m, c.matchSeq w = .ok m := by
  unfold ClassSpec.isValid
  cases c.matchSeq w with
  | ok m => simp
  | error e => simp

/-- on a record that is not valid, overhangs, target and placeholder all raise that same
invalid-sequence error -/
theorem accessors_raise_invalid (c : ClassSpec) (r : Rec) (h : c.isValid r.seq = false) :
    ∃ e, (e = .invalid ∨ e = .illegal) ∧ c.overhangStart r.seq = .error e ∧ c.overhangEnd r.seq = .error e ∧
      c.target r = .error e ∧ c.placeholder r.seq = .error e := by
  rcases (isValid_false_iff c r.seq).mp h with h' | h'
  · exact ⟨.invalid, Or.inl rfl, by simp [ClassSpec.overhangStart, h', Except.map],
      by simp [ClassSpec.overhangEnd, h', Except.map], by simp [ClassSpec.target, h', Except.map],
      by simp [ClassSpec.placeholder, h', Except.map]⟩
  · exact ⟨.illegal, Or.inr rfl, by simp [ClassSpec.overhangStart, h', Except.map],
      by simp [ClassSpec.overhangEnd, h', Except.map], by simp [ClassSpec.target, h', Except.map],
      by simp [ClassSpec.placeholder, h', Except.map]⟩

theorem matchSeq_error (c : ClassSpec) (w : Word) (e : Err) (h : c.matchSeq w = .error e) :
    e = .invalid ∨ e = .illegal := by
  unfold ClassSpec.matchSeq at h
  cases hs : search c.pat w true with
  | none => rw [hs] at h; simp only [Except.error.injEq] at h; exact Or.inl h.symm
  | some m =>
    rw [hs] at h; simp only [] at h
    split at h
    · simp only [Except.error.injEq] at h; exact Or.inr h.symm
    · cases h

theorem gmod_error (e : Ent) (err : Err) (h : e.gmod = .error err) : err = .invalid ∨ err = .illegal := by
  unfold Ent.gmod at h
  cases hm : e.spec.matchSeq e.rcd.seq with
  | error x =>
    rw [hm] at h
    simp [bind, Except.bind] at h
    subst h; exact matchSeq_error _ _ _ hm
  | ok m => rw [hm] at h; simp [bind, Except.bind, pure, Except.pure] at h

theorem evalPrefix_error (mods : List Ent) (err : Err) (h : (evalPrefix mods).2 = some err) :
    err = .invalid ∨ err = .illegal := by
  induction mods with
  | nil => simp [evalPrefix] at h
  | cons e es ih =>
    simp only [evalPrefix] at h
    cases he : e.gmod with
    | error x => rw [he] at h; simp at h; subst h; exact gmod_error e _ he
    | ok g => rw [he] at h; exact ih h

theorem target_error (c : ClassSpec) (r : Rec) (e : Err) (h : c.target r = .error e) :
    e = .invalid ∨ e = .illegal := by
  unfold ClassSpec.target at h
  cases hm : c.matchSeq r.seq with
  | error x => rw [hm] at h; simp [Except.map] at h; subst h; exact matchSeq_error _ _ _ hm
  | ok m => rw [hm] at h; simp [Except.map] at h

theorem extractChain_error (ents : List Ent) (gs : List (GMod Word)) (acc : Rec) (e : Err)
    (h : extractChain ents gs acc = .error e) :
    e = .invalid ∨ e = .illegal ∨ e = .injected ∨ e = .internal := by
  induction gs generalizing acc with
  | nil => simp [extractChain] at h
  | cons g gs ih =>
    simp only [extractChain] at h
    split at h
    · simp only [Except.error.injEq] at h; exact Or.inr (Or.inr (Or.inr h.symm))
    · split at h
      · simp only [Except.error.injEq] at h; exact Or.inr (Or.inr (Or.inl h.symm))
      · split at h
        · rename_i err ht
          simp only [Except.error.injEq] at h; subst h
          rcases target_error _ _ _ ht with h' | h'
          · exact Or.inl h'
          · exact Or.inr (Or.inl h')
        · exact ih _ h

/-- **an assembly ends with a product or with a documented error**: the only possible failures are the
invalid-sequence errors, `DuplicateModules`, `MissingModule` — plus, and only when the harness injected one,
the injected fault, and `internal` only for citation qualifiers that do not index the reference list -/
theorem assemble_errors_documented (v : Ent) (mods : List Ent) (pid pname : Nat) (e : Err)
    (h : (assemble v mods pid pname).1 = .error e) :
    e = .invalid ∨ e = .illegal ∨ e = .duplicate ∨ (∃ o, e = .missing o) ∨ e = .injected ∨ e = .internal := by
  unfold assemble at h
  simp only [] at h
  split at h
  · rename_i err hv
    simp only [Except.error.injEq] at h; subst h
    rcases gmod_error v _ hv with h' | h'
    · exact Or.inl h'
    · exact Or.inr (Or.inl h')
  · split at h
    · simp only [Except.error.injEq] at h; exact Or.inl h.symm
    · split at h
      · simp only [Except.error.injEq] at h; exact Or.inr (Or.inr (Or.inl h.symm))
      · split at h
        · rename_i err herr
          simp only [Except.error.injEq] at h; subst h
          rcases evalPrefix_error mods _ herr with h' | h'
          · exact Or.inl h'
          · exact Or.inr (Or.inl h')
        · split at h
          · simp only [Except.error.injEq] at h; exact Or.inr (Or.inr (Or.inl h.symm))
          · split at h
            · rename_i dms dv _ _
              simp only [] at h
              unfold assembleCore at h
              simp only [] at h
              split at h
              · rename_i err hex
                simp only [Except.error.injEq] at h; subst h
                rcases extractChain_error _ _ _ _ hex with h' | h' | h' | h'
                · exact Or.inl h'
                · exact Or.inr (Or.inl h')
                · exact Or.inr (Or.inr (Or.inr (Or.inr (Or.inl h'))))
                · exact Or.inr (Or.inr (Or.inr (Or.inr (Or.inr h'))))
              · split at h
                · rename_i o _
                  simp only [Except.error.injEq] at h
                  exact Or.inr (Or.inr (Or.inr (Or.inl ⟨o, h.symm⟩)))
                · split at h
                  · simp only [Except.error.injEq] at h
                    exact Or.inr (Or.inr (Or.inr (Or.inr (Or.inl h.symm))))
                  · split at h
                    · rename_i err ht
                      simp only [Except.error.injEq] at h; subst h
                      rcases target_error _ _ _ ht with h' | h'
                      · exact Or.inl h'
                      · exact Or.inr (Or.inl h')
                    · cases h
            · simp only [Except.error.injEq] at h
              exact Or.inr (Or.inr (Or.inr (Or.inr (Or.inr h.symm))))

/-- every module the walk puts into the chain is one of the supplied objects, so its extraction finds it -/
theorem chain_found {mods dms : List Ent} {gs map chain rest : List (GMod Word)} {err : Option Err}
    {stall : Option Word} {cur stop : Word}
    (h3 : evalPrefix mods = (gs, err)) (hb : gBuild gs [] = .ok map)
    (hw : gWalk stop (map.length + 1) cur map = (chain, rest, stall))
    (hms : List.Forall₂ DerefOf mods dms) :
    ∀ g ∈ chain, ∃ d, dms.find? (fun e => e.oid = g.oid) = some d := by
  obtain ⟨hn, hsub⟩ := gBuild_basic gs [] map (by simp [keys]) hb
  have hwalk := gWalk_walk stop (map.length + 1) cur map (by omega)
  rw [hw] at hwalk
  have hperm := (Walk.spec hwalk hn).1
  intro g hg
  have hgm : g ∈ map := hperm.mem_iff.mpr (List.mem_append_left _ hg)
  have hgs : g ∈ gs := by
    rcases hsub g hgm with h | h
    · cases h
    · exact h
  obtain ⟨e, he, hoid, _⟩ := evalPrefix_src mods gs err h3 g hgs
  cases hf : mods.find? (fun e => e.oid = g.oid) with
  | none =>
    have := List.find?_eq_none.mp hf e he
    simp [hoid] at this
  | some e' =>
    obtain ⟨d, hd, _⟩ := find_deref' hms g.oid hf
    exact ⟨d, hd⟩

theorem extractChain_error_found (ents : List Ent) (gs : List (GMod Word)) (acc : Rec) (e : Err)
    (hfound : ∀ g ∈ gs, ∃ d, ents.find? (fun e => e.oid = g.oid) = some d)
    (h : extractChain ents gs acc = .error e) :
    e = .invalid ∨ e = .illegal ∨ e = .injected := by
  induction gs generalizing acc with
  | nil => simp [extractChain] at h
  | cons g gs ih =>
    obtain ⟨d, hd⟩ := hfound g (List.mem_cons_self ..)
    simp only [extractChain, hd] at h
    split at h
    · simp only [Except.error.injEq] at h; exact Or.inr (Or.inr h.symm)
    · split at h
      · rename_i err ht
        simp only [Except.error.injEq] at h; subst h
        rcases target_error _ _ _ ht with h' | h'
        · exact Or.inl h'
        · exact Or.inr (Or.inl h')
      · exact ih _ (fun g' hg' => hfound g' (List.mem_cons_of_mem _ hg')) h

/-- **the internal error has exactly one cause**: an assembly ends with `internal` only when a `/citation`
qualifier of one of the supplied records does not index that record's reference list (the one input defect the
library does not translate into a MoClo error); with well-formed citations every failure is a documented one -/
theorem internal_only_for_bad_citations (v : Ent) (mods : List Ent) (pid pname : Nat)
    (h : (assemble v mods pid pname).1 = .error .internal) :
    derefRec v.rcd = none ∨ ∃ e ∈ mods, derefRec e.rcd = none := by
  unfold assemble at h
  simp only [] at h
  split at h
  · rename_i err hv
    simp only [Except.error.injEq] at h; subst h
    rcases gmod_error v _ hv with h' | h' <;> cases h'
  · split at h
    · simp only [Except.error.injEq] at h; cases h
    · generalize hep : evalPrefix mods = ep at h
      obtain ⟨gs, err⟩ := ep
      simp only [] at h
      split at h
      · simp only [Except.error.injEq] at h; cases h
      · rename_i map hb
        split at h
        · rename_i err' herr
          simp only [Except.error.injEq] at h; subst h
          have : (evalPrefix mods).2 = some .internal := by rw [hep]
          rcases evalPrefix_error mods _ this with h' | h' <;> cases h'
        · split at h
          · simp only [Except.error.injEq] at h; cases h
          · split at h
            · rename_i dms dv hdm _
              have hms := derefEnts_spec hdm
              simp only [] at h
              unfold assembleCore at h
              simp only [] at h
              generalize hw : gWalk _ (map.length + 1) _ map = w at h
              obtain ⟨chain, rest, stall⟩ := w
              simp only [] at h
              split at h
              · rename_i err' hex
                simp only [Except.error.injEq] at h; subst h
                rcases extractChain_error_found _ _ _ _ (chain_found hep hb hw hms) hex with h' | h' | h' <;> cases h'
              · split at h
                · simp only [Except.error.injEq] at h; cases h
                · split at h
                  · simp only [Except.error.injEq] at h; cases h
                  · split at h
                    · rename_i err' ht
                      simp only [Except.error.injEq] at h; subst h
                      rcases target_error _ _ _ ht with h' | h' <;> cases h'
                    · cases h
            · rename_i hnot
              by_cases hv : derefRec v.rcd = none
              · exact Or.inl hv
              · by_cases hm : ∃ e ∈ mods, derefRec e.rcd = none
                · exact Or.inr hm
                · exfalso
                  have hall : ∀ e ∈ mods, (derefRec e.rcd).isSome := by
                    intro e he
                    cases hd : derefRec e.rcd with
                    | none => exact absurd ⟨e, he, hd⟩ hm
                    | some _ => rfl
                  obtain ⟨dms, hdms⟩ := derefEnts_some hall
                  cases hr : derefRec v.rcd with
                  | none => exact hv hr
                  | some r => exact hnot dms { v with rcd := r } hdms (by simp [hr])

/-- **multi-level workflows**: the product of a successful assembly, used as a module of a further assembly
together with any other records whose citations are well formed, never makes that assembly end with the internal
error — however many papers the product cites -/
theorem product_as_input_never_internal {v : Ent} {mods : List Ent} {pid pname : Nat} {p : Product}
    {after : List Rec} (h : assemble v mods pid pname = (.ok p, after))
    (v2 : Ent) (mods2 : List Ent) (pid2 pname2 : Nat) (hv2 : (derefRec v2.rcd).isSome)
    (hm2 : ∀ e ∈ mods2, e.rcd = p.rcd ∨ (derefRec e.rcd).isSome) :
    (assemble v2 mods2 pid2 pname2).1 ≠ .error .internal := by
  intro hint
  rcases internal_only_for_bad_citations v2 mods2 pid2 pname2 hint with hn | ⟨e, he, hn⟩
  · rw [hn] at hv2; cases hv2
  · rcases hm2 e he with hp | hs
    · obtain ⟨pre, _, _, hd⟩ := product_derefs h
      rw [hp, hd] at hn; cases hn
    · rw [hn] at hs; cases hs

/-! non-vacuity: the toy assembly of `C01` succeeds; with a citation `[5]` on a module that lists no reference it
ends with the internal error, and the hypothesis of `internal_only_for_bad_citations` is met by that module -/
section example_
def g : Geom := { site := [.G, .A], off := 1, k := 2 }
def wordOf (s : List Nt) : Word := s.map (fun n => ⟨n, false⟩)
def mrec (cs : List Cite) : Rec :=
  { rid := 1, seq := wordOf [.G,.A,.C,.A,.C,.A,.A,.A,.C,.A,.C,.T,.C,.G,.G],
    feats := [⟨1, .user 0, [⟨3, 4, 1⟩], cs⟩], refs := [] }
def vrec : Rec := { rid := 0, seq := wordOf [.C,.A,.C,.C,.C,.C,.A,.C,.C,.T,.C,.T,.G,.A,.C], feats := [], refs := [] }
def ment (cs : List Cite) : Ent :=
  { oid := 1, spec := { kind := .module, pat := moduleStructure g, geom := g }, rcd := mrec cs }
def vent : Ent := { oid := 0, spec := { kind := .vector, pat := vectorStructure g, geom := g }, rcd := vrec }
example : (assemble vent [ment []] 7 7).1.toOption.isSome = true := by decide
example : (assemble vent [ment [.idx 5]] 7 7).1 = .error .internal := by decide
end example_

/-! non-vacuity: a record shorter than the structure is rejected with `invalid`; one with a third cut with
`illegal` -/
example : ({ kind := .module, pat := moduleStructure ⟨[.G, .A], 1, 2⟩, geom := ⟨[.G, .A], 1, 2⟩ } : ClassSpec).matchSeq
    ([.G, .A, .C].map (fun n => ⟨n, false⟩)) = .error .invalid := by decide

end Moclo.C17
