import Moclo.Model.Entity
/-! placeholder for C17 (theorems follow) -/
