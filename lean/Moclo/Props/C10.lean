import Moclo.Proofs.Layout
import Moclo.Proofs.CiteRoundTrip
/-!
# C10 — literature citations survive assembly with consistent numbering

Model: `derefRec` (`_deref_citations`), `rerefRec` (`_ref_citations` on the product), `snapshot`/`restore`
for the inputs; rotation, slicing and concatenation never touch the citation entries of a feature.
References are opaque identities with decidable equality (`Reference.__eq__`).
-/
namespace Moclo.C10
open Moclo

theorem forall2_and {α β : Type} {R S : α → β → Prop} {l : List α} {l' : List β}
    (h1 : List.Forall₂ R l l') (h2 : List.Forall₂ S l l') : List.Forall₂ (fun a b => R a b ∧ S a b) l l' := by
  induction h1 with
  | nil => exact List.Forall₂.nil
  | cons hab _ ih =>
    cases h2 with
    | cons hc ht => exact List.Forall₂.cons ⟨hab, hc⟩ (ih ht)

/-- dereferencing replaces every citation index of a record by the reference it points to -/
theorem deref_points_to_reference {r r' : Rec} (h : derefRec r = some r') :
    List.Forall₂ (fun f f' => List.Forall₂ (fun c c' => match c with
      | .idx i => 1 ≤ i ∧ ∃ x, r.refs[i-1]? = some x ∧ c' = .ref x
      | .ref x => c' = .ref x) f.cites f'.cites) r.feats r'.feats := by
  obtain ⟨_, _, _, h4⟩ := derefRec_fields h
  refine List.Forall₂.imp ?_ h4
  intro f f' hf
  unfold derefFeature at hf
  cases hc : f.cites.mapM (derefCite r.refs) with
  | none => simp [hc] at hf
  | some cs =>
    simp [hc] at hf; subst hf
    refine List.Forall₂.imp ?_ (mapM_option_forall2 _ _ _ hc)
    intro c c' hcc
    cases c with
    | ref x => simp only [derefCite, Option.some.injEq] at hcc; exact hcc.symm
    | idx i =>
      simp only [derefCite] at hcc
      split at hcc
      · cases hcc
      · rename_i hi
        cases hx : r.refs[i-1]? with
        | none => simp [hx] at hcc
        | some x => simp [hx] at hcc; exact ⟨by omega, x, hx, hcc.symm⟩

/-- the citation entries of a feature are carried untouched by rotation, slicing, shifting and
concatenation (so an inherited feature cites what its source feature cited) -/
theorem cites_carried (n k : Nat) (d : Int) (f : Feature) :
    (f.rotr n k).cites = f.cites ∧ (f.shift d).cites = f.cites ∧ (f.flip n).cites = f.cites := by
  refine ⟨?_, rfl, rfl⟩
  unfold Feature.rotr; split <;> rfl

/-- **the product's reference list**: built from an empty list, it holds each cited reference exactly once
and nothing else; every citation of the product is a bracketed index `[j]` and points to the very reference
the (dereferenced) source citation denoted -/
theorem product_references (pre : Rec) :
    let p := rerefRec { pre with refs := [] }
    p.refs.Nodup ∧
    (∀ r ∈ p.refs, ∃ f ∈ pre.feats, Cite.ref r ∈ f.cites) ∧
    List.Forall₂ (fun f f' => f'.ftype = f.ftype ∧ f'.qual = f.qual ∧ f'.parts = f.parts ∧
      List.Forall₂ (fun c c' => match c with
        | .ref r => ∃ j, c' = .idx (j + 1) ∧ p.refs[j]? = some r
        | .idx i => c' = .idx i) f.cites f'.cites) pre.feats p.feats := by
  obtain ⟨⟨extra, h1, h2⟩, h3, h4⟩ := rerefFeatures_spec [] pre.feats (by simp)
  refine ⟨h3, ?_, ?_⟩
  · intro r hr
    have : r ∈ extra := by simpa [rerefRec, h1] using hr
    exact h2 r this
  · exact forall2_and (rerefFeatures_shape [] pre.feats) h4 |>.imp
      (fun f f' h => ⟨h.1.1, h.1.2.1, h.1.2.2.1, h.2⟩)

/-- **the inputs' own citation indices are unchanged afterwards** (shared with C07) -/
theorem inputs_citations_unchanged (v : Ent) (mods : List Ent) (pid pname : Nat) :
    (assemble v mods pid pname).2 = v.rcd :: mods.map (·.rcd) := assemble_inputs v mods pid pname

/-- **the numbering can be read back**: dereferencing the product's citations against the product's own
reference list (what the next assembly does first when the product is one of its inputs) succeeds and yields,
entry by entry, the papers the source features cited — for any number of papers, cited any number of times -/
theorem product_citations_read_back (pre : Rec) (h : ∀ f ∈ pre.feats, ∀ c ∈ f.cites, ∃ r, c = Cite.ref r) :
    derefRec (rerefRec { pre with refs := [] }) =
      some { pre with refs := (rerefRec { pre with refs := [] }).refs } := deref_reref pre h

/-- … and this is the situation of the product of every successful assembly -/
theorem product_citations_resolve {v : Ent} {mods : List Ent} {pid pname : Nat} {p : Product} {after : List Rec}
    (h : assemble v mods pid pname = (.ok p, after)) :
    ∃ pre : Rec, (∀ f ∈ pre.feats, ∀ c ∈ f.cites, ∃ r, c = Cite.ref r) ∧
      p.rcd = rerefRec { pre with refs := [] } ∧ derefRec p.rcd = some { pre with refs := p.rcd.refs } :=
  product_derefs h

/-! non-vacuity: two features citing overlapping references -/
def exPre : Rec := ⟨0, [], [⟨1, .user 0, [], [.ref 7, .ref 5]⟩, ⟨1, .user 1, [], [.ref 5, .ref 8]⟩], [9]⟩
example : ((rerefRec { exPre with refs := [] }).refs, (rerefRec { exPre with refs := [] }).feats.map (·.cites))
    = ([7, 5, 8], [[.idx 1, .idx 2], [.idx 2, .idx 3]]) := by decide

example : derefRec (rerefRec { exPre with refs := [] }) = some { exPre with refs := [7, 5, 8] } := by decide

end Moclo.C10
