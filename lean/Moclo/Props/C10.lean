import Moclo.Model.Entity
/-! placeholder for C10 (theorems follow) -/
