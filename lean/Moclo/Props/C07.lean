import Moclo.Model.Entity
/-! placeholder for C07 (theorems follow) -/
