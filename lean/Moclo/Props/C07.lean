import Moclo.Proofs.Assembly
/-!
# C07 — assembly is pure: inputs are left untouched, even when it fails

Model: `assemble` returns, next to the outcome, the state of the input records after the call (vector
first, then the modules in argument order).  Inside, the citation lists of the inputs really are
rewritten (`derefRec`) and put back (`restore ∘ snapshot`) on every exit path; `Ent.faulty` stands for an
arbitrary exception raised by a fragment extraction.
-/
namespace Moclo.C07
open Moclo

/-- **every input is left exactly as it was**, for every vector, every list of modules, every citation
state and every outcome: product, warning (unused modules), invalid vector, duplicate at map building,
missing module after any number of consumed modules, invalid module, exception raised by any fragment
extraction (any assignment of the `faulty` flags) -/
theorem inputs_unchanged (v : Ent) (mods : List Ent) (pid pname : Nat) :
    (assemble v mods pid pname).2 = v.rcd :: mods.map (·.rcd) := assemble_inputs v mods pid pname

/-- the step that makes this non-trivial: dereferencing does change the records, and restoring the snapshot
undoes it exactly -/
theorem restore_undoes_deref {r r' : Rec} (h : derefRec r = some r') : restore (snapshot r) r' = r :=
  restore_deref h

/-- rebuild the entities from the records an assembly left behind -/
def withRecs (v : Ent) (mods : List Ent) : List Rec → Ent × List Ent
  | [] => (v, mods)
  | r :: rs => ({ v with rcd := r }, (mods.zip rs).map (fun p => { p.1 with rcd := p.2 }))

theorem withRecs_self (v : Ent) (mods : List Ent) : withRecs v mods (v.rcd :: mods.map (·.rcd)) = (v, mods) := by
  unfold withRecs
  simp only [Prod.mk.injEq, true_and]
  induction mods with
  | nil => rfl
  | cons m ms ih => simp only [List.map_cons, List.zip_cons_cons]; rw [ih]

/-- **repeatable**: calling again on the very same objects — after a success, a warning or any failure —
returns what the first call returned (and what a first call on fresh copies returns, the model being a
function of the records' contents) -/
theorem second_call_same (v : Ent) (mods : List Ent) (pid pname : Nat) :
    let first := assemble v mods pid pname
    let again := withRecs v mods first.2
    assemble again.1 again.2 pid pname = first := by
  simp only []
  rw [inputs_unchanged, withRecs_self]

/-- **retry after a failure**: whatever was attempted first, a later call with a corrected module list over
the same vector object sees the vector as it originally was -/
theorem retry_sees_original_vector (v : Ent) (bad good : List Ent) (pid pname : Nat) :
    let first := assemble v bad pid pname
    assemble (withRecs v bad first.2).1 good pid pname = assemble v good pid pname := by
  simp only []
  rw [inputs_unchanged, withRecs_self]

/-! non-vacuity: a record whose citation is really rewritten while the assembly runs -/
example :
    let r : Rec := { rid := 1, seq := [], feats := [{ ftype := 1, qual := .user 0, parts := [⟨0, 1, 1⟩], cites := [.idx 2] }],
                     refs := [100, 101] }
    (derefRec r).map (fun r' => (r'.feats.map (·.cites), (restore (snapshot r) r').feats.map (·.cites)))
      = some ([[.ref 101]], [[.idx 2]]) := by decide

end Moclo.C07
