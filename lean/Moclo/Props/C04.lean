import Moclo.Model.Entity
/-! placeholder for C04 (theorems follow) -/
