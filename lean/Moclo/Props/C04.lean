import Moclo.Proofs.Cut
import Moclo.Proofs.Screen
import Moclo.Props.C02
import Moclo.Tables.Kits
import Moclo.Tables.Enzymes
import Moclo.Proofs.ThreePrime
import Moclo.Tables.Enzymes3
/-!
# C04 — reported overhangs and fragments are true restriction fragments of the cutter

Model: `ClassSpec.matchSeq`, `Match.group`, `targetWord`, placeholder; `cutAligned` (a decidable property
of a structure pattern relative to a cutter geometry, kernel-checked for all 85 kit classes and for the
generic / signature-typed structures over every supported enzyme on the regenerated tables).

All statements are about the *window* `text = window w i` the structure matched in — a rotation of the
plasmid — so they hold wherever the origin of the record lies, and for every accepted record whether or not
it is otherwise well formed (only soundness of the matcher is used, no uniqueness).
A site "matched at `s`" means its letters are matched letterwise (`matchesAt`), i.e. the enzyme recognises
it there; the enzyme cuts the top strand `|site| + off` letters after the start of a forward site, and
leaves the `k` letters that follow single-stranded; for a site on the other strand the overhang is the `k`
letters ending `off` letters before it.
-/
namespace Moclo.C04
open Moclo

/-- every concrete class of the five kits is cut-aligned for its own cutter (as the structures are now) -/
theorem kit_classes_cut_aligned : ∀ r ∈ Generated.kits, cutAligned (Tables.KitRow.geom r) r.pat = true :=
  fun r hr => List.all_eq_true.mp Tables.kits_cutAligned r hr

/-- … and so are the generic and signature-typed structures over every supported enzyme -/
theorem generic_classes_cut_aligned : ∀ r ∈ Generated.enzymes,
    cutAligned (Tables.EnzRow.geom r) r.modS = true ∧ cutAligned (Tables.EnzRow.geom r) r.vecS = true ∧
    cutAligned (Tables.EnzRow.geom r) r.modP = true ∧ cutAligned (Tables.EnzRow.geom r) r.vecP = true := by
  intro r hr
  have := List.all_eq_true.mp Tables.enzymes_cutAligned r hr
  simp only [Bool.and_eq_true] at this
  exact ⟨this.1.1.1, this.1.1.2, this.1.2, this.2⟩

/-- the relative marks of a match of a cut-aligned structure, and where the sites are -/
theorem marks_and_sites {g : Geom} {p : Pat} {text : Word} {rel : List Nat}
    (hca : cutAligned g p = true) (h : relMatch p text = some rel) :
    ∃ a1 b2 e, rel.reverse = [a1, a1 + g.k, a1 + g.k, b2, b2, b2 + g.k, e] ∧ a1 + g.k ≤ b2 ∧ b2 + g.k ≤ e ∧
      e ≤ text.length ∧
      ((g.site.length + g.off ≤ a1 ∧ matchesAt g.site (text.drop (a1 - g.off - g.site.length))) ∨
        matchesAt (rcNt g.site) (text.drop (a1 + g.k + g.off))) ∧
      (matchesAt (rcNt g.site) (text.drop (b2 + g.k + g.off)) ∨
        (a1 + g.k + g.site.length + g.off ≤ b2 ∧ matchesAt g.site (text.drop (b2 - g.off - g.site.length)))) := by
  obtain ⟨ms, e, hr, hrev⟩ := relMatch_run h
  obtain ⟨a1, b2, hms, h1, h2, h3, h4⟩ := cutAligned_sound hca hr
  refine ⟨a1, b2, e, by rw [hrev, hms]; rfl, h1, h2, ?_, h3, h4⟩
  have := hr.bounds.2.1; omega

/-- **overhangs, target and placeholder of an accepted record**: with `a1`, `b2` as above,
* the overhang reported from group 1 is `text[a1, a1+k)` and the one from group 3 is `text[b2, b2+k)`, each
  the single-stranded end of a cut of the enzyme (by `marks_and_sites`);
* a module's target is `text[a1, b2)`: from the first cut to the second, leading overhang included, trailing
  one excluded; a vector's target is the complementary stretch `text[b2, end) ++ text[0, a1)`;
* a vector's placeholder is the contiguous stretch `text[a1, b2)`. -/
theorem accepted_record_fragments {c : ClassSpec} {w : Word} {i : Nat} {rel : List Nat}
    (hca : cutAligned c.geom c.pat = true) (h3 : C02.ThreeGroups c.pat) (hi : i < w.length)
    (hrel : relMatch c.pat (window w i) = some rel)
    (hs : search c.pat w true = some ⟨i :: rel.reverse.map (· + i)⟩)
    {up down tgt ph : Word} (hrep : C02.report c w = .ok (up, down, tgt, ph)) :
    ∃ a1 b2 e, rel.reverse = [a1, a1 + c.geom.k, a1 + c.geom.k, b2, b2, b2 + c.geom.k, e] ∧
      (match c.kind with
       | .module => up = slice (window w i) a1 (a1 + c.geom.k) ∧ down = slice (window w i) b2 (b2 + c.geom.k) ∧
                    tgt = slice (window w i) a1 b2
       | .vector => down = slice (window w i) a1 (a1 + c.geom.k) ∧ up = slice (window w i) b2 (b2 + c.geom.k) ∧
                    tgt = (window w i).drop b2 ++ (window w i).take a1) ∧
      ph = slice (window w i) a1 b2 := by
  obtain ⟨a1, b2, e, hrs, h1, h2, h4, _, _⟩ := marks_and_sites hca hrel
  rw [C02.report_of_view h3 hi hrel hs] at hrep
  split at hrep
  · cases hrep
  · simp only [Except.ok.injEq, Prod.mk.injEq] at hrep
    obtain ⟨e1, e2, e3, e4⟩ := hrep
    refine ⟨a1, b2, e, hrs, ?_, ?_⟩
    · cases hk : c.kind
      · simp only [ClassSpec.upGroup, ClassSpec.downGroup, hk] at e1 e2 e3
        simp only []
        refine ⟨?_, ?_, ?_⟩
        · rw [← e1, hrs]; simp [vgroup, rspan]
        · rw [← e2, hrs]; simp [vgroup, rspan]
        · rw [← e3, hrs]; simp [vTarget, rspan, hk]
      · simp only [ClassSpec.upGroup, ClassSpec.downGroup, hk] at e1 e2 e3
        simp only []
        refine ⟨?_, ?_, ?_⟩
        · rw [← e2, hrs]; simp [vgroup, rspan]
        · rw [← e1, hrs]; simp [vgroup, rspan]
        · rw [← e3, hrs]; simp [vTarget, rspan, hk]
    · rw [← e4, hrs]
      simp only [vgroup, rspan, slice]
      simp
      -- text[a1, a1+k) ++ text[a1+k, b2) = text[a1, b2)
      have hsplit : b2 - a1 = c.geom.k + (b2 - (a1 + c.geom.k)) := by omega
      rw [hsplit, List.take_add]
      congr 2
      rw [List.drop_drop]

/-- **placeholder and target tile the plasmid**: for a vector, placeholder followed by target is the window
rotated to the start of the placeholder — every nucleotide of the plasmid exactly once -/
theorem placeholder_target_tile (text : Word) (a1 b2 : Nat) (h1 : a1 ≤ b2) (h2 : b2 ≤ text.length) :
    slice text a1 b2 ++ (text.drop b2 ++ text.take a1) = text.rotate a1 := by
  rw [List.rotate_eq_drop_append_take (by omega)]
  unfold slice
  rw [← List.append_assoc]
  congr 1
  have : text.drop b2 = (text.drop a1).drop (b2 - a1) := by rw [List.drop_drop]; congr 1; omega
  rw [this, List.take_append_drop]

theorem placeholder_target_isRotated (w : Word) (i a1 b2 : Nat) (hi : i < w.length) (h1 : a1 ≤ b2) (h2 : b2 ≤ w.length) :
    (slice (window w i) a1 b2 ++ ((window w i).drop b2 ++ (window w i).take a1)) ~r w := by
  rw [placeholder_target_tile _ _ _ h1 (by rw [window_length w i (Nat.le_of_lt hi)]; exact h2),
    window_eq_rotate w i (Nat.le_of_lt hi)]
  exact (List.IsRotated.forall _ _).trans (List.IsRotated.forall _ _)

/-- the cutters in play have non-palindromic sites spelt with nucleotides (kernel-checked on the regenerated
tables: the 58 supported enzymes and the cutters of the 85 kit classes) -/
theorem cutter_sites_plain :
    (∀ r ∈ Generated.enzymes, r.site.all Nt.isBase = true ∧ r.site ≠ rcNt r.site) ∧
    (∀ r ∈ Generated.kits, r.site.all Nt.isBase = true ∧ r.site ≠ rcNt r.site) := by
  constructor
  · intro r hr
    have := List.all_eq_true.mp Tables.enzymes_sites r hr
    simpa using this
  · intro r hr
    have := List.all_eq_true.mp Tables.kits_sites r hr
    simpa using this

/-- **no further cut strictly inside the target** (module classes whose sites flank the target — the generic
module structure and every signature-typed module structure): if the class accepts the record, i.e. the match
passes the illegal-site screen, then at no position strictly inside the target `[a1, b2)` of the matched
window does the enzyme cut, on either strand -/
theorem no_inner_cut (g : Geom) (up down : List Nt) (hu : up.length = g.k) (hd : down.length = g.k)
    (hbase : g.site.all Nt.isBase = true) (hnp : g.site ≠ rcNt g.site) (hs1 : 1 ≤ g.site.length)
    {text : Word} {ms : List Nat} {e : Nat}
    (h : Run (moduleStructure g) text 0 ms e ∨ Run (modulePartStructure g up down) text 0 ms e)
    (hscreen : validCuts g (text.take e) ≤ 2) :
    ∃ a1 b2, ms = [a1, a1 + g.k, a1 + g.k, b2, b2, b2 + g.k] ∧ a1 = g.site.length + g.off ∧
      ∀ c, a1 < c → c < b2 →
        siteAt g.site text (c - g.off - g.site.length) = false ∧ siteAt (rcNt g.site) text (c + g.k + g.off) = false := by
  have mg2 : markless ([.cls .N, .star .N true, .cls .N] : Pat) := by
    intro t ht; simp at ht; rcases ht with rfl | rfl | rfl <;> rfl
  rcases h with h | h
  · rw [moduleStructure_threeGroup] at h
    exact no_inner_cut_of_screen hbase hnp hs1 mg2 (isFixed_nRun' g.k) (isFixed_nRun' g.k) h hscreen
  · have hp : modulePartStructure g up down = threeGroup (lits g.site ++ nRun g.off) (lits up)
        [.cls .N, .star .N true, .cls .N] (lits down) (nRun g.off ++ lits (rcNt g.site)) := by
      simp [modulePartStructure, threeGroup, List.append_assoc]
    rw [hp] at h
    have f1 : isFixed g.k (lits up) = true := by rw [← hu]; simp [isFixed, lits]
    have f3 : isFixed g.k (lits down) = true := by rw [← hd]; simp [isFixed, lits]
    exact no_inner_cut_of_screen hbase hnp hs1 mg2 f1 f3 h hscreen

/-! ## cutters that leave a 3' overhang (signature-typed part classes; beyond the kits' own cutters) -/

/-- acceptance is the same function: the illegal-site screen of a 3' cutter counts the same cuts -/
theorem three_prime_same_screen (c : ClassSpec) (w : Word) : c.matchSeq3 w = c.matchSeq w := matchSeq3_eq c w

/-- **fragments of an accepted record, 3' cutter**: the overhangs are the same stretches `text[a1, a1+k)` and
`text[b2, b2+k)`; a module's target now runs from the end of the first overhang to the end of the second
(leading overhang excluded, trailing one included — the mirror image of the 5' rule), a vector's target is the
complementary stretch, and a vector's placeholder is the contiguous stretch `text[a1+k, b2+k)` -/
theorem three_prime_fragments {c : ClassSpec} {w : Word} {i : Nat} {rel : List Nat}
    (hca : cutAligned c.geom c.pat = true) (h3 : C02.ThreeGroups c.pat) (hi : i < w.length)
    (hrel : relMatch c.pat (window w i) = some rel)
    (hs : search c.pat w true = some ⟨i :: rel.reverse.map (· + i)⟩)
    {up down tgt ph : Word} (hrep : report3 c w = .ok (up, down, tgt, ph)) :
    ∃ a1 b2 e, rel.reverse = [a1, a1 + c.geom.k, a1 + c.geom.k, b2, b2, b2 + c.geom.k, e] ∧
      a1 + c.geom.k ≤ b2 ∧ b2 + c.geom.k ≤ (window w i).length ∧
      (match c.kind with
       | .module => up = slice (window w i) a1 (a1 + c.geom.k) ∧ down = slice (window w i) b2 (b2 + c.geom.k) ∧
                    tgt = slice (window w i) (a1 + c.geom.k) (b2 + c.geom.k)
       | .vector => down = slice (window w i) a1 (a1 + c.geom.k) ∧ up = slice (window w i) b2 (b2 + c.geom.k) ∧
                    tgt = (window w i).drop (b2 + c.geom.k) ++ (window w i).take (a1 + c.geom.k) ∧
                    ph = slice (window w i) (a1 + c.geom.k) (b2 + c.geom.k)) := by
  obtain ⟨a1, b2, e, hrs, h1, h2, h4, _, _⟩ := marks_and_sites hca hrel
  rw [report3_of_view h3 hi hrel hs] at hrep
  split at hrep
  · cases hrep
  · simp only [Except.ok.injEq, Prod.mk.injEq] at hrep
    obtain ⟨e1, e2, e3, e4⟩ := hrep
    refine ⟨a1, b2, e, hrs, h1, by omega, ?_⟩
    cases hk : c.kind
    · simp only [ClassSpec.upGroup, ClassSpec.downGroup, hk] at e1 e2 e3
      simp only []
      refine ⟨?_, ?_, ?_⟩
      · rw [← e1, hrs]; simp [vgroup, rspan]
      · rw [← e2, hrs]; simp [vgroup, rspan]
      · rw [← e3, hrs]; simp [vTarget3, rspan, hk]
    · simp only [ClassSpec.upGroup, ClassSpec.downGroup, hk] at e1 e2 e3 e4
      simp only []
      refine ⟨?_, ?_, ?_, ?_⟩
      · rw [← e2, hrs]; simp [vgroup, rspan]
      · rw [← e1, hrs]; simp [vgroup, rspan]
      · rw [← e3, hrs]; simp [vTarget3, rspan, hk]
      · rw [← e4, hrs]
        simp only [vgroup, rspan, slice]
        simp
        -- text[a1+k, b2) ++ text[b2, b2+k) = text[a1+k, b2+k)
        have hsplit : b2 + c.geom.k - (a1 + c.geom.k) = (b2 - (a1 + c.geom.k)) + c.geom.k := by omega
        rw [hsplit, List.take_add]
        congr 2
        rw [List.drop_drop]
        congr 1
        omega

/-- … and placeholder and target still tile the plasmid -/
theorem three_prime_tile (w : Word) (i a1 b2 k : Nat) (hi : i < w.length) (h1 : a1 + k ≤ b2) (h2 : b2 + k ≤ w.length) :
    (slice (window w i) (a1 + k) (b2 + k) ++ ((window w i).drop (b2 + k) ++ (window w i).take (a1 + k))) ~r w :=
  placeholder_target_isRotated w i (a1 + k) (b2 + k) hi (by omega) h2

/-- **one fragment, two conventions**: on the same accepted window the 5' reading (leading overhang + body) and
the 3' reading (body + trailing overhang) differ only in which of the two overhangs they carry — upstream overhang
followed by the 3' target is the 5' target followed by the downstream overhang, both the stretch `text[a1, b2+k)`
between the outermost cut positions -/
theorem three_prime_same_fragment (text : Word) (a1 b2 k : Nat) (h1 : a1 + k ≤ b2) :
    slice text a1 (a1 + k) ++ slice text (a1 + k) (b2 + k) = slice text a1 b2 ++ slice text b2 (b2 + k) := by
  have e1 : slice text a1 (a1 + k) ++ slice text (a1 + k) (b2 + k) = slice text a1 (b2 + k) := by
    unfold slice
    have : b2 + k - a1 = (a1 + k - a1) + (b2 + k - (a1 + k)) := by omega
    rw [this, List.take_add, List.drop_drop]
    congr 3
    omega
  have e2 : slice text a1 b2 ++ slice text b2 (b2 + k) = slice text a1 (b2 + k) := by
    unfold slice
    have : b2 + k - a1 = (b2 - a1) + (b2 + k - b2) := by omega
    rw [this, List.take_add, List.drop_drop]
    congr 3
    omega
  rw [e1, e2]

/-- the signature-typed structures over every single-cut 3'-overhang enzyme of `Bio.Restriction` with an
unambiguous site are the same closed forms as for a 5' cutter with the same `(site, off, k)`, and are
cut-aligned (kernel-checked on the regenerated table) -/
theorem three_prime_structures : ∀ r ∈ Generated.enzymes3,
    r.modP = modulePartStructure (Tables.Enz3Row.geom r) r.up r.down ∧
    r.vecP = vectorPartStructure (Tables.Enz3Row.geom r) r.up r.down ∧
    cutAligned (Tables.Enz3Row.geom r) r.modP = true ∧ cutAligned (Tables.Enz3Row.geom r) r.vecP = true := by
  intro r hr
  have := List.all_eq_true.mp Tables.enzymes3_ok r hr
  simp only [Tables.Enz3Row.ok, Bool.and_eq_true, beq_iff_eq, decide_eq_true_eq] at this
  obtain ⟨⟨⟨⟨⟨⟨_, hm⟩, hv⟩, _⟩, _⟩, c1⟩, c2⟩ := this
  exact ⟨hm, hv, c1, c2⟩

/-! non-vacuity: the toy module of C01/C02 -/
example : cutAligned C02.g C02.c.pat = true := by decide
example : cutAligned ⟨[.G,.A,.A,.G,.A,.C], 2, 4⟩ (vectorStructure ⟨[.G,.A,.A,.G,.A,.C], 2, 4⟩) = true := by decide

end Moclo.C04
