import Moclo.Model.Entity
/-! placeholder for C02 (theorems follow) -/
