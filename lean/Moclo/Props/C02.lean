import Moclo.Proofs.View
import Moclo.Proofs.SameRole
import Moclo.Tables.Kits
/-!
# C02 — a plasmid has no origin: typing and assembly are rotation-invariant

Model: `ClassSpec.matchSeq` (circular search + illegal-site screen), `Match.group` (`SeqMatch.group`),
`targetWord` (`target_sequence`), placeholder, `assemble`.

`UniqueStart p w`: the record contains exactly one occurrence of the class's structure — exactly one start
below the length at which the pattern fits the one-turn window.  `ThreeGroups p`: the pattern records the
three capture groups every MoClo structure has (kernel-checked for all kit classes, true by construction
for the generic ones).  The theorems hold for **any** pattern of the supported fragment, hence for every kit
and user-defined class, and for every rotation amount — in particular those that place the origin inside a
recognition site, an overhang or the target.
-/
namespace Moclo.C02
open Moclo

def ThreeGroups (p : Pat) : Prop := 6 ≤ nmarks p

/-- everything a class reports about a record: verdict (error or not), upstream and downstream overhangs,
target, placeholder (downstream overhang ++ group 2; meaningful for vectors) -/
def report (c : ClassSpec) (w : Word) : Except Err (Word × Word × Word × Word) :=
  (c.matchSeq w).map (fun m => (m.group w c.upGroup, m.group w c.downGroup, targetWord c w m,
    m.group w 1 ++ m.group w 2))

theorem hasGroup_of_three {p : Pat} {text : Word} {rel : List Nat} (h3 : ThreeGroups p)
    (h : relMatch p text = some rel) (g : Nat) (hg : g ≤ 3) : HasGroup rel.reverse g := by
  have hl := (relMatch_marks h).1
  unfold ThreeGroups at h3
  rcases Nat.eq_zero_or_pos g with rfl | hpos
  · left; refine ⟨rfl, ?_⟩
    intro hc; have := congrArg List.length hc; simp only [List.length_reverse, List.length_nil] at this; omega
  · right; refine ⟨hpos, ?_⟩; simp only [List.length_reverse]; omega

/-- what is reported, as a function of the matched window and the relative marks only -/
theorem report_of_view {c : ClassSpec} {w : Word} {i : Nat} {rel : List Nat} (h3 : ThreeGroups c.pat)
    (hi : i < w.length) (hrel : relMatch c.pat (window w i) = some rel)
    (hs : search c.pat w true = some ⟨i :: rel.reverse.map (· + i)⟩) :
    report c w =
      if validCuts c.geom (vgroup (window w i) rel.reverse 0) > 2 then .error .illegal
      else .ok (vgroup (window w i) rel.reverse c.upGroup, vgroup (window w i) rel.reverse c.downGroup,
                vTarget c.kind (window w i) rel.reverse,
                vgroup (window w i) rel.reverse 1 ++ vgroup (window w i) rel.reverse 2) := by
  have hg := fun g hg => hasGroup_of_three h3 hrel g hg
  unfold report ClassSpec.matchSeq
  rw [hs]
  simp only []
  rw [match_group_view hi hrel 0 (hg 0 (by omega))]
  split
  · rfl
  · simp only [Except.map]
    rw [match_group_view hi hrel 1 (hg 1 (by omega)), match_group_view hi hrel 2 (hg 2 (by omega)),
      targetWord_view hi hrel (hg 1 (by omega)) (hg 2 (by omega))]
    have hu : c.upGroup ≤ 3 := by unfold ClassSpec.upGroup; cases c.kind <;> simp
    have hd : c.downGroup ≤ 3 := by unfold ClassSpec.downGroup; cases c.kind <;> simp
    rw [match_group_view hi hrel _ (hg _ hu), match_group_view hi hrel _ (hg _ hd)]

/-- **rotation invariance of typing**: for a record with exactly one occurrence of the class's structure,
rotating by any amount changes neither the verdict (accepted, invalid, illegal site) nor the overhangs, the
target or the placeholder -/
theorem report_rotr (c : ClassSpec) (w : Word) (k : Nat) (h3 : ThreeGroups c.pat) (hu : UniqueStart c.pat w) :
    report c (rotr w k) = report c w := by
  obtain ⟨i, rel, hi, hrel, hs, hs', hwin⟩ := search_rotr k hu
  have hn : 0 < w.length := by omega
  have hl : (rotr w k).length = w.length := rotr_length w k
  rw [report_of_view h3 hi hrel hs]
  have hi' : (i + k) % w.length < (rotr w k).length := by rw [hl]; exact Nat.mod_lt _ hn
  have := report_of_view (c := c) (w := rotr w k) (i := (i + k) % w.length) (rel := rel) h3 hi'
    (by rw [hwin]; exact hrel) hs'
  rw [this, hwin]

/-- … for every integer amount, and in both directions -/
theorem report_rotrI (c : ClassSpec) (w : Word) (k : Int) (h3 : ThreeGroups c.pat) (hu : UniqueStart c.pat w) :
    report c (rotrI w k) = report c w ∧ report c (rotlI w k) = report c w := by
  unfold rotlI rotrI
  exact ⟨report_rotr c w _ h3 hu, report_rotr c w _ h3 hu⟩

/-- a record without any occurrence is rejected at every rotation -/
theorem invalid_rotr (c : ClassSpec) (w : Word) (k : Nat) (hn : 0 < w.length)
    (h : ∀ j, j < w.length → relMatch c.pat (window w j) = none) :
    report c (rotr w k) = .error .invalid ∧ report c w = .error .invalid := by
  unfold report ClassSpec.matchSeq
  rw [search_rotr_none k hn h, search_circ_none h]
  exact ⟨rfl, rfl⟩

/-- the verdict alone -/
theorem isValid_rotr (c : ClassSpec) (w : Word) (k : Nat) (h3 : ThreeGroups c.pat) (hu : UniqueStart c.pat w) :
    c.isValid (rotr w k) = c.isValid w := by
  have h := report_rotr c w k h3 hu
  unfold report at h
  unfold ClassSpec.isValid
  cases h1 : c.matchSeq (rotr w k) <;> cases h2 : c.matchSeq w <;> simp_all [Except.map]

/-- the fragment an input contributes to an assembly, and the overhang keys the assembly graph is built
from, are therefore the same: **rotating any input leaves the product literally unchanged** (C01 gives the
product as the concatenation of these fragments along the chain the keys define) -/
theorem fragment_and_keys_rotr (c : ClassSpec) (w : Word) (k : Nat) (h3 : ThreeGroups c.pat)
    (hu : UniqueStart c.pat w) :
    fragmentOf c (rotr w k) = fragmentOf c w ∧
    (c.matchSeq (rotr w k)).map (fun m => (upperW (m.group (rotr w k) c.upGroup), upperW (m.group (rotr w k) c.downGroup)))
      = (c.matchSeq w).map (fun m => (upperW (m.group w c.upGroup), upperW (m.group w c.downGroup))) := by
  have h := report_rotr c w k h3 hu
  unfold report at h
  unfold fragmentOf
  cases h1 : c.matchSeq (rotr w k) with
  | error e =>
    cases h2 : c.matchSeq w with
    | error e' => rw [h1, h2] at h; simp only [Except.map, Except.error.injEq] at h; subst h; exact ⟨rfl, rfl⟩
    | ok m' => rw [h1, h2] at h; simp [Except.map] at h
  | ok m =>
    cases h2 : c.matchSeq w with
    | error e' => rw [h1, h2] at h; simp [Except.map] at h
    | ok m' =>
      rw [h1, h2] at h
      simp only [Except.map, Except.ok.injEq, Prod.mk.injEq] at h
      obtain ⟨a, b, t, _⟩ := h
      exact ⟨t, by simp only [Except.map, a, b]⟩

theorem feature_rotr_cites (n k : Nat) (f : Feature) : (f.rotr n k).cites = f.cites := by
  unfold Feature.rotr; split <;> rfl

/-- rotating a record does not touch citation entries: it dereferences iff the original does -/
theorem derefRec_rotr_isSome (r : Rec) (k : Int) : (derefRec (r.rotr k)).isSome = (derefRec r).isSome := by
  unfold Rec.rotr
  simp only []
  split
  · rfl
  · unfold derefRec
    simp only [Option.isSome_map]
    have : ∀ (fs : List Feature) (n k : Nat) (refs : List Nat),
        ((fs.map (Feature.rotr n k)).mapM (derefFeature refs)).isSome = (fs.mapM (derefFeature refs)).isSome := by
      intro fs n k refs
      induction fs with
      | nil => rfl
      | cons f fs ih =>
        simp only [List.map_cons, List.mapM_cons]
        have hf : (derefFeature refs (f.rotr n k)).isSome = (derefFeature refs f).isSome := by
          unfold derefFeature
          simp only [Option.isSome_map, feature_rotr_cites]
        cases h1 : derefFeature refs (f.rotr n k) <;> cases h2 : derefFeature refs f <;> simp_all
        cases h3 : (fs.map (Feature.rotr n k)).mapM (derefFeature refs) <;>
          cases h4 : fs.mapM (derefFeature refs) <;> simp_all
    exact this _ _ _ _

/-- an input and a rotation of it -/
structure Rotated (e e' : Ent) : Prop where
  oid : e'.oid = e.oid
  spec : e'.spec = e.spec
  faulty : e'.faulty = e.faulty
  rot : ∃ k : Int, e'.rcd = e.rcd.rotr k
  three : ThreeGroups e.spec.pat
  unique : UniqueStart e.spec.pat e.rcd.seq

/-- a rotated input plays the same role in every assembly -/
theorem sameRole_of_rotated {e e' : Ent} (h : Rotated e e') : SameRole e e' := by
  obtain ⟨k, hk⟩ := h.rot
  have hseq : e'.rcd.seq = rotr e.rcd.seq (k.emod e.rcd.seq.length).toNat := by
    rw [hk]
    unfold Rec.rotr
    simp only []
    split
    · rename_i h0; rw [h0, rotr_zero]
    · rfl
  obtain ⟨hfrag, hkeys⟩ := fragment_and_keys_rotr e.spec e.rcd.seq (k.emod e.rcd.seq.length).toNat h.three h.unique
  refine ⟨h.oid, ?_, h.faulty, by rw [hk]; exact derefRec_rotr_isSome _ _, ?_⟩
  · unfold Ent.gmod
    rw [h.spec, hseq, h.oid]
    cases h1 : e.spec.matchSeq (rotr e.rcd.seq (k.emod e.rcd.seq.length).toNat) with
    | error x =>
      cases h2 : e.spec.matchSeq e.rcd.seq with
      | error y => rw [h1, h2] at hkeys; simp only [Except.map, Except.error.injEq] at hkeys; rw [hkeys]; rfl
      | ok m => rw [h1, h2] at hkeys; simp [Except.map] at hkeys
    | ok m1 =>
      cases h2 : e.spec.matchSeq e.rcd.seq with
      | error y => rw [h1, h2] at hkeys; simp [Except.map] at hkeys
      | ok m =>
        rw [h1, h2] at hkeys
        simp only [Except.map, Except.ok.injEq, Prod.mk.injEq] at hkeys
        simp only [bind, Except.bind, pure, Except.pure, hkeys.1, hkeys.2]
  · unfold Ent.fragment
    rw [h.spec, hseq]; exact hfrag

/-- **rotation invariance of assembly**: if an assembly succeeds, the assembly of any rotations of the vector
and of the modules (each carrying its structure once) succeeds too, with literally the same product sequence
and the same unused modules — wherever the origins are -/
theorem assembly_rotation_invariant {v v' : Ent} {mods mods' : List Ent} {pid pname : Nat} {p : Product}
    {after : List Rec} (h : assemble v mods pid pname = (.ok p, after)) (hv : Rotated v v')
    (hm : List.Forall₂ Rotated mods mods') :
    ∃ p', (assemble v' mods' pid pname).1 = .ok p' ∧ p'.rcd.seq = p.rcd.seq ∧ p'.unused = p.unused :=
  assemble_sameRole h (sameRole_of_rotated hv) (hm.imp (fun _ _ hr => sameRole_of_rotated hr))

/-- … and when the assembly fails, the assembly of the rotated inputs fails with the same error: the whole
outcome is rotation-invariant -/
theorem assembly_rotation_invariant_outcome {v v' : Ent} {mods mods' : List Ent} (pid pname : Nat)
    (hv : Rotated v v') (hm : List.Forall₂ Rotated mods mods') :
    OutcomeSame (assemble v mods pid pname).1 (assemble v' mods' pid pname).1 :=
  assemble_sameRole_outcome pid pname (sameRole_of_rotated hv) (hm.imp (fun _ _ hr => sameRole_of_rotated hr))

/-- the hypothesis `ThreeGroups` holds for every concrete class of the five kits (as their structures are
now: kernel-checked on the regenerated table) and for every generic and signature-typed structure -/
theorem kit_classes_three_groups : ∀ r ∈ Generated.kits, ThreeGroups r.pat := by
  intro r hr
  have := List.all_eq_true.mp Tables.kits_three_groups r hr
  unfold ThreeGroups; simp at this; omega

theorem nmarks_append (a b : Pat) : nmarks (a ++ b) = nmarks a + nmarks b := by
  induction a with
  | nil => simp [nmarks]
  | cons t ts ih => cases t <;> simp [nmarks, ih] <;> omega

theorem nmarks_lits (s : List Nt) : nmarks (lits s) = 0 := by
  induction s with
  | nil => rfl
  | cons x xs ih => simpa [lits, nmarks] using ih

theorem nmarks_nRun (n : Nat) : nmarks (nRun n) = 0 := by
  induction n with
  | zero => rfl
  | succ n ih => simpa [nRun, List.replicate_succ, nmarks] using ih

theorem generic_three_groups (kind : Kind) (g : Geom) : ThreeGroups (genericStructure kind g) := by
  unfold ThreeGroups
  cases kind <;>
    simp [genericStructure, moduleStructure, vectorStructure, nmarks_append, nmarks_lits, nmarks_nRun, nmarks]

theorem part_three_groups (kind : Kind) (g : Geom) (u d : List Nt) : ThreeGroups (partStructure kind g u d) := by
  unfold ThreeGroups
  cases kind <;>
    simp [partStructure, modulePartStructure, vectorPartStructure, nmarks_append, nmarks_lits, nmarks_nRun, nmarks]

/-! non-vacuity: the module of `Moclo.C01`'s example has a unique start, and at the rotation that puts
the origin inside the upstream overhang the same overhangs and target are reported -/
section example_
def g : Geom := { site := [.G, .A], off := 1, k := 2 }
def c : ClassSpec := { kind := .module, pat := moduleStructure g, geom := g }
def w : Word := [.G,.A,.C,.A,.C,.A,.A,.A,.C,.A,.C,.T,.C,.G,.G].map (fun n => ⟨n, false⟩)
example : ThreeGroups c.pat := by unfold ThreeGroups; decide
example : ((List.range w.length).filter (fun i => (relMatch c.pat (window w i)).isSome)) = [0] := by decide
example : report c (rotr w 11) = report c w ∧ (report c w).toOption.isSome := by decide
end example_

end Moclo.C02
