import Moclo.Proofs.Search
import Moclo.Proofs.Priority
import Moclo.Tables.Lettermap
/-!
# C16 — DNA pattern search has exact IUPAC, circular and group-extraction semantics

Model: `clsMatch` (`DNARegex._lettermap` + `(?i)`), `matchToks` (Python `re` on the fragment
letters / flat groups / `X*` / `X*?`), `search`, `group` (`SeqMatch.group`).  The letter table is tied
to the code by the regenerated table `Generated/Lettermap.lean` (`Tables.lettermap_eq_model`).
-/
namespace Moclo.C16
open Moclo

/-- each IUPAC letter in a pattern matches exactly its set of nucleotides, in either letter case -/
theorem lettermap_exact (p : Nt) (x : Sym) (hx : x.nt.isBase = true) :
    clsMatch p x = (iupac p).contains x.nt := by
  obtain ⟨nt, lo⟩ := x
  cases p <;> cases nt <;> simp_all [clsMatch, lettermap, iupac, Nt.isBase]

/-- case is irrelevant -/
theorem lettermap_case (p : Nt) (x : Sym) : clsMatch p x.upper = clsMatch p x := rfl

/-- the table extracted from the running code is exactly the graph of the model's `clsMatch` -/
theorem code_table_is_model : Generated.lettermapTable = Tables.modelTable := Tables.lettermap_eq_model

/-- the anchored matcher succeeds exactly when the pattern fits for some choice of run lengths -/
theorem matcher_sound_complete (ts : Pat) (xs : Word) :
    (matchToks ts xs 0 []).isSome ↔ ∃ n, Fits ts xs n := matchToks_isSome_iff ts xs 0 []

/-- a search returns the leftmost start of the requested range at which the pattern matches -/
theorem search_leftmost {p : Pat} {w : Word} {c : Bool} {pos : Nat} {ep : Option Nat} {m : Match}
    (h : search p w c pos ep = some m) :
    pos ≤ m.start ∧ m.start < searchHi w ep ∧ FitsAt p w c m.start ∧
      ∀ j, pos ≤ j → j < m.start → ¬ FitsAt p w c j := Moclo.search_leftmost h

/-- … and reports no match only when the pattern matches at no start of the range -/
theorem search_none_iff {p : Pat} {w : Word} {c : Bool} {pos : Nat} {ep : Option Nat} :
    search p w c pos ep = none ↔ ∀ j, pos ≤ j → j < searchHi w ep → ¬ FitsAt p w c j :=
  Moclo.search_none_iff

/-- the text matched against at start `i` of a circular target is the rotation of the record by `i`:
the match may run past the end and continue at the beginning -/
theorem circular_text_is_rotation (w : Word) (i : Nat) (hi : i ≤ w.length) :
    textAt w true i = w.rotate i := by
  unfold textAt; simpa [window] using window_eq_rotate w i hi

/-- on a linear target the text is the suffix from `i` -/
theorem linear_text_is_suffix (w : Word) (i : Nat) : textAt w false i = w.drop i := by
  unfold textAt; simp

/-- a match never covers more than one full turn; on a linear target it never passes the end -/
theorem search_one_turn {p : Pat} {w : Word} {c : Bool} {pos : Nat} {ep : Option Nat} {m : Match}
    (h : search p w c pos ep = some m) :
    m.start ≤ m.stop ∧ m.stop - m.start ≤ w.length ∧ (c = false → m.stop ≤ w.length) :=
  Moclo.search_one_turn h

/-- every group asked for as a sequence is exactly the text of its span in the doubled string,
wherever the span lies (in particular when it crosses the origin) -/
theorem group_is_matched_text (w : Word) (a b : Nat) (hab : a ≤ b) (hb : b < 2 * w.length)
    (hlen : b - a ≤ w.length) : group w a b = ((w ++ w).drop a).take (b - a) :=
  group_spec w a b hab hb hlen

/-- **which fit is reported when several exist at the leftmost start**: the one of highest priority in the
order of Python's backtracking `re` — every wildcard run, in pattern order, takes the most preferred length
(longest if greedy, shortest if lazy) for which the rest of the pattern still fits; that fit is unique, and the
reported marks are the start, its group boundaries and its end (relative to the start of the text) -/
theorem search_priority {p : Pat} {w : Word} {c : Bool} {pos : Nat} {ep : Option Nat} {m : Match}
    (h : search p w c pos ep = some m) :
    ∃ ms e, Best p (textAt w c m.start) 0 ms e ∧ m.marks = m.start :: ((ms ++ [e]).map (· + m.start)) ∧
      ∀ ms' e', Best p (textAt w c m.start) 0 ms' e' → ms' = ms ∧ e' = e := by
  obtain ⟨i, rel, _, _, hrel, hmarks, _⟩ := search_spec h
  have hs : m.start = i := by simp [Match.start, hmarks]
  rw [hs]
  obtain ⟨ms, e, hb, hr⟩ := matchToks_best p (textAt w c i) 0 [] rel hrel
  refine ⟨ms, e, hb, ?_, fun ms' e' hb' => hb'.unique hb⟩
  rw [hmarks, hr]
  simp

/-- conversely the anchored matcher finds the fit of highest priority whenever the pattern fits at all -/
theorem matcher_finds_best {p : Pat} {xs : Word} {ms : List Nat} {e : Nat} (h : Best p xs 0 ms e) :
    relMatch p xs = some (e :: ms.reverse) := by
  have := matchToks_of_best [] h
  simpa [relMatch] using this

/-! non-vacuity: the D1 witness — `AA(NN)` on `TGCAGCATAAG` searched circularly matches at 8 and group 1,
spanning the origin, is `GT` (the pinned code returned `TG`). -/
example :
    let w : Word := [.T,.G,.C,.A,.G,.C,.A,.T,.A,.A,.G].map (fun n => ⟨n, false⟩)
    let p : Pat := [.cls .A, .cls .A, .gopen, .cls .N, .cls .N, .gclose]
    (search p w true).map (fun m => (m.marks, (m.group w 1).map (·.nt))) = some ([8, 10, 12, 12], [.G, .T]) := by
  decide

/-- a greedy run takes all it can, a lazy one as little as it can: `(N*)(N*?)A` on `CAGAT` gives group 1 = `CAG`
(the longest prefix still followed by an `A`), group 2 empty -/
example :
    let w : Word := [.C,.A,.G,.A,.T].map (fun n => ⟨n, false⟩)
    let p : Pat := [.gopen, .star .N true, .gclose, .gopen, .star .N false, .gclose, .cls .A]
    (search p w false).map (·.marks) = some [0, 0, 3, 3, 3, 4] := by
  decide

end Moclo.C16
