import Moclo.Model.Entity
/-! placeholder for C08 (theorems follow) -/
