import Moclo.Proofs.Feature
import Moclo.Proofs.Layout
import Moclo.Proofs.Erase
/-!
# C08 — annotations are inherited faithfully by the assembled plasmid

Model: `Rec.rotl` / `Feature.rotr` (`record << start`), `Rec.slice` (Biopython's raw-coordinate test
`start ≤ f.start ∧ f.end ≤ stop` and shift), `Rec.append` (shift by the length of what precedes),
`addSource`.  A *well-formed* part (`Part.WF n`): `-n < s < n`, `s < e ≤ s + n`, `0 < e` — what GenBank
locations are and what `>>`, `<<`, `reverse_complement` keep producing (theorems `wf_rotr`, `wf_flip`).

The theorems show that Biopython's test on raw, unnormalised coordinates coincides with containment of the
denoted nucleotides (positions modulo `n`) in the retained fragment once the record is rotated to the cut, and
that the kept feature denotes exactly the shifted nucleotides.  `product_is_concatenation_of_targets` ties
these per-feature facts to `assemble`: citations aside, the product record *is* the concatenation of the
targets of the supplied records (dereferencing and re-referencing touch citation entries only).
-/
namespace Moclo.C08
open Moclo

/-- well-formed part of a record of length `n` -/
def Part.WF (n : Nat) (p : Part) : Prop := -(n : Int) < p.s ∧ p.s < n ∧ p.s < p.e ∧ p.e ≤ p.s + n ∧ 0 < p.e

/-- rotation keeps parts well formed -/
theorem wf_rotr (n k : Nat) (p : Part) (hk : k < n) (h : Part.WF n p) : Part.WF n ((p.shift k).renorm n) := by
  obtain ⟨s, e, st⟩ := p
  simp only [Part.WF] at h
  obtain ⟨h1, h2, h3, h4, h5⟩ := h
  unfold Part.renorm
  split
  · rename_i hc
    simp only [Part.shift] at hc
    obtain ⟨hc1, hc2⟩ := hc
    have hn : (0 : Int) < n := by omega
    have hr : (s + (k : Int)) / (n : Int) = 1 := by
      have a := Int.le_ediv_of_mul_le hn (show (1 : Int) * n ≤ s + k by omega)
      have b := Int.ediv_lt_of_lt_mul hn (show s + (k : Int) < 2 * n by omega)
      omega
    simp only [Part.shift, hr, Part.WF]
    refine ⟨by omega, by omega, by omega, by omega, by omega⟩
  · rename_i hc
    simp only [Part.shift, not_and_or, not_le] at hc
    simp only [Part.shift, Part.WF]
    refine ⟨by omega, by omega, by omega, by omega, by omega⟩

/-- … and so does reverse complement -/
theorem wf_flip (n : Nat) (p : Part) (h : Part.WF n p) : Part.WF n (p.flip n) := by
  obtain ⟨s, e, st⟩ := p
  simp only [Part.WF] at h
  obtain ⟨h1, h2, h3, h4, h5⟩ := h
  simp only [Part.flip, Part.WF]
  exact ⟨by omega, by omega, by omega, by omega, by omega⟩

/-- GenBank locations are well formed -/
theorem wf_genbank (n : Nat) (s e : Nat) (st : Int) (h1 : s < e) (h2 : e ≤ n) : Part.WF n ⟨s, e, st⟩ := by
  simp only [Part.WF]
  refine ⟨by omega, by omega, by omega, by omega, by omega⟩

theorem emod_small (t : Int) (n : Nat) (h0 : 0 ≤ t) (h1 : t < n) : t.emod n = t := Int.emod_eq_of_lt h0 h1

/-- **the raw-coordinate test is containment of the denoted nucleotides**: for a well-formed part of a record
of length `n` and a fragment `[0, L)` strictly shorter than the record, Biopython's `0 ≤ start ∧ end ≤ L`
holds exactly when every nucleotide the part denotes lies in the fragment -/
theorem part_inside_iff (n L : Nat) (p : Part) (hL : L < n) (h : Part.WF n p) :
    (0 ≤ p.s ∧ p.e ≤ L) ↔ ∀ x, x < n → p.covers n x → x < L := by
  obtain ⟨h1, h2, h3, h4, h5⟩ := h
  constructor
  · rintro ⟨a, b⟩ x hx ⟨t, t1, t2, t3⟩
    rw [emod_small t n (by omega) (by omega)] at t3; omega
  · intro hall
    have hs : 0 ≤ p.s := by
      by_contra hc
      have hm : (-1 : Int).emod (n : Int) = ((n - 1 : Nat) : Int) := by
        show (-1 : Int) % (n : Int) = _
        rw [← Int.add_emod_right, Int.emod_eq_of_lt (by omega) (by omega)]; omega
      have := hall (n - 1) (by omega) ⟨-1, by omega, by omega, hm⟩
      omega
    refine ⟨hs, ?_⟩
    by_contra hc
    by_cases hsl : p.s ≤ L
    · have := hall L (by omega) ⟨L, hsl, by omega, emod_small _ _ (by omega) (by omega)⟩
      omega
    · have hsn : p.s.toNat < n := by omega
      have := hall p.s.toNat hsn ⟨p.s, Int.le_refl _, h3, by
        rw [emod_small _ _ hs (by omega)]; omega⟩
      omega

theorem minI_ge {l : List Int} (hne : l ≠ []) (c : Int) : c ≤ minI l ↔ ∀ x ∈ l, c ≤ x := by
  induction l with
  | nil => exact absurd rfl hne
  | cons a as ih =>
    cases as with
    | nil => simp [minI]
    | cons b bs =>
      simp only [minI]
      rw [Int.le_min, ih (by simp)]
      simp

theorem maxI_le {l : List Int} (hne : l ≠ []) (c : Int) : maxI l ≤ c ↔ ∀ x ∈ l, x ≤ c := by
  induction l with
  | nil => exact absurd rfl hne
  | cons a as ih =>
    cases as with
    | nil => simp [maxI]
    | cons b bs =>
      simp only [maxI]
      rw [Int.max_le, ih (by simp)]
      simp

/-- a feature is kept by the slice `[0, L)` iff each of its parts lies inside — never truncated -/
theorem feature_kept_iff (f : Feature) (L : Nat) (hne : f.parts ≠ []) :
    ((0 : Int) ≤ f.lo ∧ f.hi ≤ (L : Int)) ↔ ∀ p ∈ f.parts, 0 ≤ p.s ∧ p.e ≤ L := by
  unfold Feature.lo Feature.hi
  rw [minI_ge (by simpa using hne), maxI_le (by simpa using hne)]
  simp only [List.mem_map, forall_exists_index, and_imp, forall_apply_eq_imp_iff₂]
  constructor
  · rintro ⟨a, b⟩ p hp; exact ⟨a p hp, b p hp⟩
  · intro h; exact ⟨fun p hp => (h p hp).1, fun p hp => (h p hp).2⟩

/-- **faithful transport of one part**: let the record (length `n`) be rotated so that the retained
fragment is `[0, L)`, `L < n` (`k` = the right-rotation amount), then sliced and placed at offset `o` of a
product of length `N ≥ o + L`.  For a well-formed part:
* it is kept iff every nucleotide it denoted, seen after the rotation, lies in the fragment;
* when kept, the product part `[s + k + o, e + k + o)` (after renormalisation) denotes exactly the images
  `o + ((x + k) mod n)` of the nucleotides `x` it denoted, on the same strand. -/
theorem part_transport (n k L o N : Nat) (p : Part) (hk : k < n) (hL : L < n) (hN : o + L ≤ N) (h : Part.WF n p) :
    let q := (p.shift k).renorm n
    ((0 ≤ q.s ∧ q.e ≤ L) ↔ ∀ x, x < n → p.covers n x → (x + k) % n < L) ∧
    ((0 ≤ q.s ∧ q.e ≤ L) → (q.shift o).strand = p.strand ∧
      ∀ y, y < N → ((q.shift o).covers N y ↔ ∃ x, x < n ∧ p.covers n x ∧ y = o + (x + k) % n)) := by
  intro q
  have hn : 0 < n := by omega
  have hq := wf_rotr n k p hk h
  have hrot : ∀ x, x < n → (q.covers n ((x + k) % n) ↔ p.covers n x) := fun x hx => covers_rotr_part n k p x hx
  constructor
  · rw [part_inside_iff n L q hL hq]
    constructor
    · intro hall x hx hc
      exact hall _ (Nat.mod_lt _ hn) ((hrot x hx).mpr hc)
    · intro hall y hy hc
      -- y is the image of some x
      obtain ⟨x, hx, rfl⟩ : ∃ x, x < n ∧ y = (x + k) % n := by
        refine ⟨(y + (n - k)) % n, Nat.mod_lt _ hn, ?_⟩
        rw [Nat.add_mod, Nat.mod_mod, ← Nat.add_mod]
        have : y + (n - k) + k = y + n := by omega
        rw [this, Nat.add_mod_right, Nat.mod_eq_of_lt hy]
      exact hall x hx ((hrot x hx).mp hc)
  · rintro ⟨a, b⟩
    refine ⟨?_, ?_⟩
    · show ((p.shift k).renorm n).strand = p.strand
      unfold Part.renorm Part.shift; split <;> rfl
    · intro y hy
      obtain ⟨_, _, q3, _, _⟩ := hq
      constructor
      · rintro ⟨t, t1, t2, t3⟩
        simp only [Part.shift] at t1 t2
        rw [emod_small t N (by omega) (by omega)] at t3
        -- t - o is a raw coordinate inside [q.s, q.e) ⊆ [0, L)
        have hy' : (t - o).toNat < n := by omega
        obtain ⟨x, hx, hxe⟩ : ∃ x, x < n ∧ (t - o).toNat = (x + k) % n := by
          refine ⟨((t - o).toNat + (n - k)) % n, Nat.mod_lt _ hn, ?_⟩
          rw [Nat.add_mod, Nat.mod_mod, ← Nat.add_mod]
          have : (t - o).toNat + (n - k) + k = (t - o).toNat + n := by omega
          rw [this, Nat.add_mod_right, Nat.mod_eq_of_lt hy']
        refine ⟨x, hx, ?_, by omega⟩
        rw [← hrot x hx, ← hxe]
        exact ⟨t - o, by omega, by omega, by rw [emod_small _ _ (by omega) (by omega)]; omega⟩
      · rintro ⟨x, hx, hc, rfl⟩
        obtain ⟨t, t1, t2, t3⟩ := (hrot x hx).mpr hc
        rw [emod_small t n (by omega) (by omega)] at t3
        refine ⟨t + o, by simp only [Part.shift]; omega, by simp only [Part.shift]; omega, ?_⟩
        rw [emod_small _ _ (by omega) (by omega)]; omega

/-- features overlapping a discarded region are dropped, never truncated or shifted: the slice either keeps a
feature with all its parts (shifted as a whole) or not at all -/
theorem slice_all_or_nothing (r : Rec) (a b : Nat) :
    ∀ f' ∈ (r.slice a b).feats, ∃ f ∈ r.feats, f' = f.shift (-(a : Int)) ∧ (a : Int) ≤ f.lo ∧ f.hi ≤ (b : Int) := by
  intro f' hf'
  simp only [Rec.slice, List.mem_map, List.mem_filter, decide_eq_true_eq] at hf'
  obtain ⟨f, ⟨hf, hc⟩, rfl⟩ := hf'
  exact ⟨f, hf, rfl, hc⟩

/-- type, qualifiers and citations are carried untouched by every step of the pipeline -/
theorem attributes_carried (n k : Nat) (d : Int) (f : Feature) :
    ((f.rotr n k).shift d).ftype = f.ftype ∧ ((f.rotr n k).shift d).qual = f.qual ∧
    ((f.rotr n k).shift d).cites = f.cites := by
  unfold Feature.rotr; split <;> exact ⟨rfl, rfl, rfl⟩

/-- every feature of the concatenated product comes from exactly one fragment record, shifted by the total
length of the fragments before it (conversely every feature of every fragment record is there): nothing is
invented, nothing is lost at this step -/
theorem product_features (ts : List Rec) :
    (ts.foldl Rec.append ⟨0, [], [], []⟩).feats =
      ((ts.zip (offsets 0 ts)).map (fun p => p.1.feats.map (Feature.shift p.2))).flatten := by
  simpa using foldl_append_feats ts ⟨0, [], [], []⟩

theorem target_eq_targetOf {c : ClassSpec} {r t : Rec} (h : c.target r = .ok t) :
    ∃ m, c.matchSeq r.seq = .ok m ∧ t = c.targetOf r m := by
  unfold ClassSpec.target at h
  cases hm : c.matchSeq r.seq with
  | error e => rw [hm] at h; cases h
  | ok m => rw [hm] at h; simp only [Except.map, Except.ok.injEq] at h; exact ⟨m, rfl, h.symm⟩

/-- the target extracted from a dereferenced input is, citations aside, the target of the input itself -/
theorem deref_target_erase {e d : Ent} {t : Rec} (hd : DerefOf e d) (ht : d.spec.target d.rcd = .ok t) :
    ∃ m, e.spec.matchSeq e.rcd.seq = .ok m ∧ t.erase = (e.spec.targetOf e.rcd m).erase := by
  obtain ⟨m, hm, rfl⟩ := target_eq_targetOf ht
  obtain ⟨_, hspec, _, hrec⟩ := hd
  have hseq := (derefRec_fields hrec).1
  refine ⟨m, by rw [← hspec, ← hseq]; exact hm, ?_⟩
  rw [erase_targetOf, erase_targetOf, derefRec_erase hrec, hspec]

/-- the fragment records the chain contributes are, citations aside, the targets of the supplied modules
themselves, in chain order -/
theorem chainTargets_sources {mods dms : List Ent} (hms : List.Forall₂ DerefOf mods dms) :
    ∀ (chain : List (GMod Word)) (ts : List Rec), chainTargets dms chain = some ts →
    ∃ srcs : List (Ent × Match), srcs.map (·.1.oid) = chain.map (·.oid) ∧
      (∀ s ∈ srcs, s.1 ∈ mods ∧ s.1.spec.matchSeq s.1.rcd.seq = .ok s.2) ∧
      ts.map Rec.erase = srcs.map (fun s => (s.1.spec.targetOf s.1.rcd s.2).erase) := by
  intro chain
  induction chain with
  | nil =>
    intro ts h
    simp only [chainTargets, Option.some.injEq] at h
    subst h
    exact ⟨[], rfl, by simp, rfl⟩
  | cons g gs ih =>
    intro ts h
    simp only [chainTargets] at h
    cases hf : dms.find? (fun e => e.oid = g.oid) with
    | none => rw [hf] at h; cases h
    | some d =>
      rw [hf] at h
      simp only [] at h
      split at h
      · cases h
      · cases ht : d.spec.target d.rcd with
        | error er => rw [ht] at h; cases h
        | ok t =>
          cases hrest : chainTargets dms gs with
          | none => rw [ht, hrest] at h; cases h
          | some ts' =>
            rw [ht, hrest] at h
            simp only [Option.some.injEq] at h
            subst h
            obtain ⟨e, he, hde⟩ := find_deref hms g.oid hf
            obtain ⟨m, hm, hte⟩ := deref_target_erase hde ht
            obtain ⟨srcs, h1, h2, h3⟩ := ih ts' hrest
            have heo : e.oid = g.oid := by simpa using List.find?_some he
            refine ⟨(e, m) :: srcs, by simp [h1, heo], ?_, by simp [hte, h3]⟩
            intro s hs
            rcases List.mem_cons.mp hs with rfl | hs
            · exact ⟨List.mem_of_find?_eq_some he, hm⟩
            · exact h2 s hs

theorem rerefRec_erase (r : Rec) : (rerefRec r).erase = r.erase := by
  unfold Rec.erase
  rw [rerefRec_erase_feats]
  rfl

/-- **end to end**: whenever `assemble` returns a product, then — citations aside — the product record is
exactly the concatenation of the targets of the chain's modules (the *supplied* records, each with its own
match) followed by the target of the vector: sequence, and every feature with its type, qualifiers, strand
and coordinates.  Each target is `(record << start)[…]` plus its generated `source` feature, so
`slice_all_or_nothing`, `attributes_carried` and `part_transport` apply to every feature of the product:
nothing is invented, nothing inside a fragment is lost, nothing is truncated -/
theorem product_is_concatenation_of_targets {v : Ent} {mods : List Ent} {pid pname : Nat} {p : Product}
    {after : List Rec} (h : assemble v mods pid pname = (.ok p, after)) :
    ∃ (srcs : List (Ent × Match)) (mv : Match),
      (∀ s ∈ srcs, s.1 ∈ mods ∧ s.1.spec.matchSeq s.1.rcd.seq = .ok s.2) ∧
      v.spec.matchSeq v.rcd.seq = .ok mv ∧
      p.rcd.erase =
        { ((srcs.map (fun s => (s.1.spec.targetOf s.1.rcd s.2).erase) ++ [(v.spec.targetOf v.rcd mv).erase]).foldl
            Rec.append ⟨0, [], [], []⟩) with rid := pid } := by
  unfold assemble at h
  simp only [] at h
  split at h
  · cases h
  · split at h
    · cases h
    · split at h
      · cases h
      · split at h
        · cases h
        · split at h
          · cases h
          · split at h
            · rename_i dms dv hdm hdv
              have hms := derefEnts_spec hdm
              cases hr : derefRec v.rcd with
              | none => simp [hr] at hdv
              | some r =>
                simp [hr] at hdv; subst hdv
                simp only [Prod.mk.injEq] at h
                obtain ⟨hcore, _⟩ := h
                unfold assembleCore at hcore
                simp only [] at hcore
                split at hcore
                · cases hcore
                · rename_i acc hex
                  split at hcore
                  · cases hcore
                  · split at hcore
                    · cases hcore
                    · split at hcore
                      · cases hcore
                      · rename_i vt hvt
                        simp only [Except.ok.injEq] at hcore
                        subst hcore
                        obtain ⟨ts, hts, hacc⟩ := extractChain_eq_foldl hex
                        obtain ⟨srcs, _, hsrc, hmap⟩ := chainTargets_sources hms _ ts hts
                        have hdv : DerefOf v { v with rcd := r } := ⟨rfl, rfl, rfl, hr⟩
                        obtain ⟨mv, hmv, hvte⟩ := deref_target_erase hdv hvt
                        refine ⟨srcs, mv, hsrc, hmv, ?_⟩
                        simp only []
                        rw [rerefRec_erase]
                        have : (acc.append vt).erase =
                            (srcs.map (fun s => (s.1.spec.targetOf s.1.rcd s.2).erase) ++
                              [(v.spec.targetOf v.rcd mv).erase]).foldl Rec.append ⟨0, [], [], []⟩ := by
                          rw [Rec.erase_append, hacc, foldl_append_erase, hmap, hvte, List.foldl_append]
                          rfl
                        rw [← this]
                        rfl
            · cases h

/-- … unrolled: the product's features (citations aside) are, in order, the features of those targets, each
shifted by the total length of the fragments before it -/
theorem product_features_unrolled {v : Ent} {mods : List Ent} {pid pname : Nat} {p : Product}
    {after : List Rec} (h : assemble v mods pid pname = (.ok p, after)) :
    ∃ (srcs : List (Ent × Match)) (mv : Match),
      (∀ s ∈ srcs, s.1 ∈ mods ∧ s.1.spec.matchSeq s.1.rcd.seq = .ok s.2) ∧
      v.spec.matchSeq v.rcd.seq = .ok mv ∧
      (let ts := srcs.map (fun s => (s.1.spec.targetOf s.1.rcd s.2).erase) ++ [(v.spec.targetOf v.rcd mv).erase]
       p.rcd.feats.map Feature.erase =
         ((ts.zip (offsets 0 ts)).map (fun q => q.1.feats.map (Feature.shift q.2))).flatten ∧
       p.rcd.seq = (ts.map (·.seq)).flatten) := by
  obtain ⟨srcs, mv, h1, h2, h3⟩ := product_is_concatenation_of_targets h
  refine ⟨srcs, mv, h1, h2, ?_⟩
  simp only []
  generalize srcs.map (fun s => (s.1.spec.targetOf s.1.rcd s.2).erase) ++ [(v.spec.targetOf v.rcd mv).erase] = ts at h3 ⊢
  constructor
  · rw [show p.rcd.feats.map Feature.erase = p.rcd.erase.feats from rfl, h3]
    have := foldl_append_feats ts ⟨0, [], [], []⟩
    simpa using this
  · rw [show p.rcd.seq = p.rcd.erase.seq from rfl, h3]
    have := foldl_append_seq ts ⟨0, [], [], []⟩
    simpa using this

/-- the features of a target: the features of the rotated record that lie wholly inside the retained
stretch, shifted to its start, followed by the generated `source` feature -/
theorem target_features (c : ClassSpec) (r : Rec) (m : Match) :
    ∃ a b : Nat, (c.targetOf r m).feats =
      (((r.rotl ((m.span 1).1 : Nat)).feats.filter (fun f => decide ((a : Int) ≤ f.lo ∧ f.hi ≤ (b : Int)))).map
        (Feature.shift (-(a : Int)))) ++ [sourceFeature r.rid (c.targetOf r m).seq.length] := by
  unfold ClassSpec.targetOf addSource
  cases c.kind
  · exact ⟨0, (m.span 2).2 - (m.span 1).1, rfl⟩
  · exact ⟨(m.span 2).2 - (m.span 1).1, r.seq.length, rfl⟩

/-! non-vacuity: a 10-mer whose fragment is `[0,4)` after rotating right by 3; the origin-spanning part
`[8, 11)` (positions 8, 9, 0) becomes `[1, 4)` and is kept; `[6, 9)` becomes `[9, 12)` and is dropped -/
example : (((⟨8, 11, 1⟩ : Part).shift 3).renorm 10, ((⟨6, 9, -1⟩ : Part).shift 3).renorm 10) = (⟨1, 4, 1⟩, ⟨9, 12, -1⟩) := by
  decide
example : Part.WF 10 ⟨8, 11, 1⟩ := by unfold Part.WF; decide

end Moclo.C08
