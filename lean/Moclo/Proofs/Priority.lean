import Moclo.Proofs.Narrow
/-! Which fit the matcher reports when several exist at one start: Python's `re` is a priority backtracker —
the first greedy run takes the longest length for which the rest of the pattern can still fit, the first lazy
run the shortest, and later runs are decided likewise given the earlier choices. -/
namespace Moclo

/-- `Best ts xs p ms e`: the fit of highest priority — a `Run` in which every wildcard run has the most
preferred length (longest for greedy, shortest for lazy) for which the rest of the pattern fits at all -/
inductive Best : Pat → Word → Nat → List Nat → Nat → Prop
  | nil (xs p) : Best [] xs p [] p
  | cls {c x ts xs p ms e} : clsMatch c x = true → Best ts xs (p+1) ms e → Best (.cls c :: ts) (x :: xs) p ms e
  | gopen {ts xs p ms e} : Best ts xs p ms e → Best (.gopen :: ts) xs p (p :: ms) e
  | gclose {ts xs p ms e} : Best ts xs p ms e → Best (.gclose :: ts) xs p (p :: ms) e
  | star {c g ts xs p ms e} (j : Nat) : j ≤ xs.length → (∀ x ∈ xs.take j, clsMatch c x = true) →
      Best ts (xs.drop j) (p + j) ms e →
      (∀ j', (if g then j < j' else j' < j) → j' ≤ xs.length → (∀ x ∈ xs.take j', clsMatch c x = true) →
        ∀ ms' e', ¬ Run ts (xs.drop j') (p + j') ms' e') →
      Best (.star c g :: ts) xs p ms e

theorem Best.toRun {ts xs p ms e} (h : Best ts xs p ms e) : Run ts xs p ms e := by
  induction h with
  | nil => exact Run.nil _ _
  | cls hc _ ih => exact Run.cls hc ih
  | gopen _ ih => exact Run.gopen ih
  | gclose _ ih => exact Run.gclose ih
  | star j hj hall _ _ ih => exact Run.star j hj hall ih

/-- the fit of highest priority is unique -/
theorem Best.unique {ts xs p ms e ms' e'} (h : Best ts xs p ms e) (h' : Best ts xs p ms' e') : ms = ms' ∧ e = e' := by
  induction h generalizing ms' e' with
  | nil => cases h'; exact ⟨rfl, rfl⟩
  | cls _ _ ih => cases h' with | cls _ h2 => exact ih h2
  | gopen _ ih => cases h' with | gopen h2 => obtain ⟨a, b⟩ := ih h2; exact ⟨by rw [a], b⟩
  | gclose _ ih => cases h' with | gclose h2 => obtain ⟨a, b⟩ := ih h2; exact ⟨by rw [a], b⟩
  | @star c g ts xs p ms e j hj hall hb hmin ih =>
    cases h' with
    | star j2 hj2 hall2 hb2 hmin2 =>
      have hjj : j = j2 := by
        by_contra hne
        cases g with
        | true =>
          rcases Nat.lt_or_gt_of_ne hne with hlt | hgt
          · exact hmin j2 (by simpa using hlt) hj2 hall2 _ _ hb2.toRun
          · exact hmin2 j (by simpa using hgt) hj hall _ _ hb.toRun
        | false =>
          rcases Nat.lt_or_gt_of_ne hne with hlt | hgt
          · exact hmin2 j (by simpa using hlt) hj hall _ _ hb.toRun
          · exact hmin j2 (by simpa using hgt) hj2 hall2 _ _ hb2.toRun
      subst hjj
      exact ih hb2

theorem firstDown_first {R} {k : Nat → Option R} {m : Nat} {r : R} (h : firstDown k m = some r) :
    ∃ j, j ≤ m ∧ k j = some r ∧ ∀ j', j < j' → j' ≤ m → k j' = none := by
  induction m with
  | zero => exact ⟨0, Nat.le_refl _, h, fun j' a b => by omega⟩
  | succ m ih =>
    unfold firstDown at h
    split at h
    · rename_i r' hk
      refine ⟨m+1, Nat.le_refl _, by simp_all, fun j' a b => by omega⟩
    · rename_i hk
      obtain ⟨j, hj, hkj, hn⟩ := ih h
      refine ⟨j, by omega, hkj, ?_⟩
      intro j' a b
      by_cases e : j' = m + 1
      · subst e; exact hk
      · exact hn j' a (by omega)

theorem no_run_of_none {ts : Pat} {xs : Word} {pos : Nat} {acc : List Nat} (h : matchToks ts xs pos acc = none) :
    ∀ ms e, ¬ Run ts xs pos ms e := by
  intro ms e hr
  exact matchToks_complete ts xs pos acc h _ hr.toFits

/-- **the matcher reports the fit of highest priority** -/
theorem matchToks_best : ∀ (ts : Pat) (xs : Word) (pos : Nat) (acc r : List Nat),
    matchToks ts xs pos acc = some r → ∃ ms e, Best ts xs pos ms e ∧ r = e :: (ms.reverse ++ acc) := by
  intro ts
  induction ts with
  | nil => intro xs pos acc r h; simp only [matchToks, Option.some.injEq] at h; subst h
           exact ⟨[], pos, Best.nil _ _, by simp⟩
  | cons t ts ih =>
    intro xs pos acc r h
    cases t with
    | cls c =>
      cases xs with
      | nil => simp [matchToks] at h
      | cons x xs =>
        simp only [matchToks] at h
        split at h
        · rename_i hc
          obtain ⟨ms, e, hb, he⟩ := ih xs (pos+1) acc r h
          exact ⟨ms, e, Best.cls hc hb, he⟩
        · cases h
    | gopen =>
      simp only [matchToks] at h
      obtain ⟨ms, e, hb, he⟩ := ih xs pos (pos :: acc) r h
      exact ⟨pos :: ms, e, Best.gopen hb, by rw [he]; simp⟩
    | gclose =>
      simp only [matchToks] at h
      obtain ⟨ms, e, hb, he⟩ := ih xs pos (pos :: acc) r h
      exact ⟨pos :: ms, e, Best.gclose hb, by rw [he]; simp⟩
    | star c g =>
      simp only [matchToks] at h
      have hle := runLen_le c xs
      cases g with
      | true =>
        simp only [if_true] at h
        obtain ⟨j, hj, hk, hn⟩ := firstDown_first h
        obtain ⟨ms, e, hb, he⟩ := ih _ _ _ _ hk
        refine ⟨ms, e, Best.star j (by omega) (runLen_take c xs j hj) hb ?_, he⟩
        intro j' hlt hj' hall'
        simp only [if_true] at hlt
        exact no_run_of_none (hn j' hlt (le_runLen c xs j' hj' hall'))
      | false =>
        simp only [Bool.false_eq_true, if_false] at h
        obtain ⟨j, _, hj, hk, hn⟩ := firstUp_some h
        obtain ⟨ms, e, hb, he⟩ := ih _ _ _ _ hk
        refine ⟨ms, e, Best.star j (by omega) (runLen_take c xs j (by omega)) hb ?_, he⟩
        intro j' hlt hj' hall'
        simp only [Bool.false_eq_true, if_false] at hlt
        exact no_run_of_none (hn j' (Nat.zero_le _) hlt)

/-- … and conversely: the fit of highest priority, when there is one, is what the matcher reports -/
theorem matchToks_of_best {ts : Pat} {xs : Word} {pos : Nat} {ms : List Nat} {e : Nat} (acc : List Nat)
    (h : Best ts xs pos ms e) : matchToks ts xs pos acc = some (e :: (ms.reverse ++ acc)) := by
  cases hm : matchToks ts xs pos acc with
  | none => exact absurd h.toRun (no_run_of_none hm ms e)
  | some r =>
    obtain ⟨ms', e', hb, hr⟩ := matchToks_best ts xs pos acc r hm
    obtain ⟨a, b⟩ := h.unique hb
    rw [hr, a, b]

end Moclo
