import Moclo.Proofs.Flank
import Mathlib.Data.List.Perm.Subperm
/-! The illegal-site screen: a third site of the cutter whose cut falls inside the matched region makes at
least three valid cuts. -/
namespace Moclo

theorem clsMatch_base_iff (p : Nt) (x : Sym) (hp : p.isBase = true) : clsMatch p x = true ↔ x.nt = p := by
  obtain ⟨nt, lo⟩ := x
  cases p <;> cases nt <;> simp_all [clsMatch, lettermap, Nt.isBase]

/-- for a site spelt with nucleotides only, "matched letterwise" is "occurs" (`Bio.Restriction`'s search) -/
theorem siteAt_iff_matchesAt (site : List Nt) (hb : site.all Nt.isBase = true) (T : Word) (i : Nat) :
    siteAt site T i = true ↔ matchesAt site (T.drop i) := by
  unfold siteAt matchesAt
  simp only [beq_iff_eq]
  constructor
  · intro h
    have hl : ((T.drop i).take site.length).length = site.length := by
      have := congrArg List.length h; simpa using this
    simp only [List.length_take, List.length_drop] at hl
    refine ⟨by simp only [List.length_drop]; omega, fun j hj hj' => ?_⟩
    have hb' : (site[j]).isBase = true := (List.all_eq_true.mp hb) _ (List.getElem_mem hj)
    rw [clsMatch_base_iff _ _ hb']
    have := congrArg (fun l => l[j]?) h
    simp only [List.getElem?_map, List.getElem?_take, hj, if_true, List.getElem?_eq_getElem hj'] at this
    simpa [List.getElem?_eq_getElem hj] using this
  · rintro ⟨h1, h2⟩
    apply List.ext_getElem
    · simp only [List.length_map, List.length_take]; omega
    · intro j hj hj'
      simp only [List.length_map, List.length_take] at hj
      have hjs : j < site.length := hj'
      have hjd : j < (T.drop i).length := by omega
      have hb' : (site[j]).isBase = true := (List.all_eq_true.mp hb) _ (List.getElem_mem hjs)
      have := (clsMatch_base_iff _ _ hb').mp (h2 j hjs hjd)
      simpa [List.getElem_take] using this

theorem three_le_filter {n : Nat} {f : Nat → Bool} {a b c : Nat} (ha : a < n) (hb : b < n) (hc : c < n)
    (hab : a ≠ b) (hac : a ≠ c) (hbc : b ≠ c) (fa : f a = true) (fb : f b = true) (fc : f c = true) :
    3 ≤ ((List.range n).filter f).length := by
  have hsub : [a, b, c] ⊆ (List.range n).filter f := by
    intro x hx
    simp only [List.mem_cons, List.mem_nil_iff, or_false] at hx
    rcases hx with rfl | rfl | rfl <;> simp [List.mem_filter, *]
  have hnd : [a, b, c].Nodup := by simp [hab, hac, hbc]
  have := (List.subperm_of_subset hnd hsub).length_le
  simpa using this

/-- validity of a forward cut: the site starts at `i` and the whole overhang lies before the end -/
theorem cutAt_forward (g : Geom) (T : Word) (i : Nat) (hs : siteAt g.site T i = true)
    (hlen : i + g.site.length + g.off + g.k + 1 ≤ T.length) (h1 : 1 ≤ g.site.length) : cutAt g T i = true := by
  unfold cutAt
  simp only [hs, if_true, decide_eq_true_eq]
  omega

/-- validity of a reverse cut: the reverse site starts at `i` (and the forward site does not), the overhang
starts after the first letter -/
theorem cutAt_reverse (g : Geom) (T : Word) (i : Nat) (hn : siteAt g.site T i = false)
    (hs : siteAt (rcNt g.site) T i = true) (hlo : g.off + g.k + 1 ≤ i) (hi : i + 1 ≤ T.length + g.off) :
    cutAt g T i = true := by
  unfold cutAt
  simp only [hn, hs, if_true, Bool.false_eq_true, if_false, decide_eq_true_eq]
  omega

end Moclo

namespace Moclo

theorem siteAt_both (site : List Nt) (T : Word) (j : Nat) (h1 : siteAt site T j = true)
    (h2 : siteAt (rcNt site) T j = true) : site = rcNt site := by
  unfold siteAt at h1 h2
  simp only [beq_iff_eq] at h1 h2
  have hl : (rcNt site).length = site.length := by simp [rcNt]
  rw [hl] at h2
  exact h1.symm.trans h2

theorem siteAt_take (site : List Nt) (text : Word) (e j : Nat) (h : j + site.length ≤ e) :
    siteAt site (text.take e) j = siteAt site text j := by
  unfold siteAt
  rw [List.drop_take, List.take_take]
  have : min site.length (e - j) = site.length := Nat.min_eq_left (by omega)
  rw [this]

/-- **no further cut inside the target**: for a structure whose sites flank the target (`site N^off` before
group 1, `N^off rc(site)` after group 3) and a cutter with a non-palindromic site spelt with nucleotides, if the
match passes the screen (at most two valid cuts in the matched region) then no site of the cutter — on either
strand — cuts at a position strictly inside the target `[a1, b2)` -/
theorem no_inner_cut_of_screen {g : Geom} {g1 g2 g3 : Pat} {text : Word} {ms : List Nat} {e : Nat}
    (hbase : g.site.all Nt.isBase = true) (hnp : g.site ≠ rcNt g.site) (hs1 : 1 ≤ g.site.length)
    (hg2 : markless g2) (h1 : isFixed g.k g1 = true) (h3 : isFixed g.k g3 = true)
    (h : Run (threeGroup (lits g.site ++ nRun g.off) g1 g2 g3 (nRun g.off ++ lits (rcNt g.site))) text 0 ms e)
    (hscreen : validCuts g (text.take e) ≤ 2) :
    ∃ a1 b2, ms = [a1, a1 + g.k, a1 + g.k, b2, b2, b2 + g.k] ∧ a1 = g.site.length + g.off ∧
      ∀ c, a1 < c → c < b2 →
        siteAt g.site text (c - g.off - g.site.length) = false ∧ siteAt (rcNt g.site) text (c + g.k + g.off) = false := by
  have hrl : (rcNt g.site).length = g.site.length := by simp [rcNt]
  have hbase' : (rcNt g.site).all Nt.isBase = true := by
    simp only [rcNt, List.all_reverse, List.all_map]
    refine List.all_eq_true.mpr (fun x hx => ?_)
    have := (List.all_eq_true.mp hbase) x hx
    cases x <;> simp_all [Nt.isBase, Nt.compl]
  obtain ⟨a1, b2, hms, hle1, hle2, rpre, _, _, _, rsuf⟩ := threeGroup_run
    (markless_append' (markless_lits' _) (markless_nRun' _)) hg2
    (markless_append' (markless_nRun' _) (markless_lits' _)) h1 h3 h
  have ea := (rpre.fixed (by simp [starFree_append, starFree_lits, starFree_nRun])).1
  rw [width_append, width_lits, width_nRun] at ea
  have ee := (rsuf.fixed (by simp [starFree_append, starFree_lits, starFree_nRun])).1
  rw [width_append, width_lits, width_nRun, hrl] at ee
  have hbound : e ≤ text.length := by have := h.bounds.2.1; omega
  have hTl : (text.take e).length = e := by simp [List.length_take]; omega
  -- the two flanking sites
  have s0 : siteAt g.site text 0 = true := by
    rw [siteAt_iff_matchesAt _ hbase]
    have : Run (lits g.site ++ nRun g.off ++ []) text 0 [] a1 := by simpa using rpre
    simpa using this.front_site
  have sq : siteAt (rcNt g.site) text (b2 + g.k + g.off) = true := by
    rw [siteAt_iff_matchesAt _ hbase']
    have hr : Run (nRun g.off ++ lits (rcNt g.site) ++ []) (List.drop (b2 + g.k) text) (b2 + g.k) [] e := by
      simpa using rsuf
    have := hr.front_rev
    rwa [List.drop_drop] at this
  have c0 : cutAt g (text.take e) 0 = true :=
    cutAt_forward g _ 0 (by rw [siteAt_take _ _ _ _ (by omega)]; exact s0) (by rw [hTl]; omega) hs1
  have nq : siteAt g.site (text.take e) (b2 + g.k + g.off) = false := by
    cases hq : siteAt g.site (text.take e) (b2 + g.k + g.off) with
    | false => rfl
    | true =>
      rw [siteAt_take _ _ _ _ (by omega)] at hq
      exact absurd (siteAt_both _ _ _ hq sq) hnp
  have cq : cutAt g (text.take e) (b2 + g.k + g.off) = true :=
    cutAt_reverse g _ _ nq (by rw [siteAt_take _ _ _ _ (by rw [hrl]; omega)]; exact sq) (by omega) (by rw [hTl]; omega)
  refine ⟨a1, b2, hms, by omega, ?_⟩
  intro c hc1 hc2
  constructor
  · cases hf : siteAt g.site text (c - g.off - g.site.length) with
    | false => rfl
    | true =>
      exfalso
      have cj : cutAt g (text.take e) (c - g.off - g.site.length) = true :=
        cutAt_forward g _ _ (by rw [siteAt_take _ _ _ _ (by omega)]; exact hf) (by rw [hTl]; omega) hs1
      have := three_le_filter (n := (text.take e).length) (f := cutAt g (text.take e))
        (a := 0) (b := b2 + g.k + g.off) (c := c - g.off - g.site.length)
        (by rw [hTl]; omega) (by rw [hTl]; omega) (by rw [hTl]; omega) (by omega) (by omega) (by omega) c0 cq cj
      unfold validCuts at hscreen
      omega
  · cases hr : siteAt (rcNt g.site) text (c + g.k + g.off) with
    | false => rfl
    | true =>
      exfalso
      have nj : siteAt g.site (text.take e) (c + g.k + g.off) = false := by
        cases hq : siteAt g.site (text.take e) (c + g.k + g.off) with
        | false => rfl
        | true =>
          rw [siteAt_take _ _ _ _ (by omega)] at hq
          exact absurd (siteAt_both _ _ _ hq hr) hnp
      have cj : cutAt g (text.take e) (c + g.k + g.off) = true :=
        cutAt_reverse g _ _ nj (by rw [siteAt_take _ _ _ _ (by rw [hrl]; omega)]; exact hr) (by omega)
          (by rw [hTl]; omega)
      have := three_le_filter (n := (text.take e).length) (f := cutAt g (text.take e))
        (a := 0) (b := b2 + g.k + g.off) (c := c + g.k + g.off)
        (by rw [hTl]; omega) (by rw [hTl]; omega) (by rw [hTl]; omega) (by omega) (by omega) (by omega) c0 cq cj
      unfold validCuts at hscreen
      omega

end Moclo
