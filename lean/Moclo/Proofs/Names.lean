import Moclo.Proofs.SameRole
/-!
# Record names play no part in what is ligated

Modules are told apart as objects (`oid`) and joined by their overhangs; the identifier a record carries
(`rid`: `record.id`) only ends up in the provenance of the product.  Two lists of inputs that differ only in
those identifiers — in particular inputs that all carry one identifier (records built in code, exports without an
accession, products left at the default id) — play the same roles (`SameRole`), hence succeed or fail together,
with the same error or the same sequence and the same left-over modules.
-/
namespace Moclo

/-- the same entity up to the identifier of its record -/
def SameButName (e e' : Ent) : Prop :=
  e'.oid = e.oid ∧ e'.spec = e.spec ∧ e'.faulty = e.faulty ∧ e'.rcd.seq = e.rcd.seq ∧
  e'.rcd.feats = e.rcd.feats ∧ e'.rcd.refs = e.rcd.refs

theorem SameButName.gmod {e e' : Ent} (h : SameButName e e') : e'.gmod = e.gmod := by
  obtain ⟨h1, h2, _, h4, _, _⟩ := h
  unfold Ent.gmod
  rw [h1, h2, h4]

theorem SameButName.fragment {e e' : Ent} (h : SameButName e e') : e'.fragment = e.fragment := by
  obtain ⟨_, h2, _, h4, _, _⟩ := h
  unfold Ent.fragment
  rw [h2, h4]

theorem SameButName.deref_isSome {e e' : Ent} (h : SameButName e e') :
    (derefRec e'.rcd).isSome = (derefRec e.rcd).isSome := by
  obtain ⟨_, _, _, _, h5, h6⟩ := h
  unfold derefRec
  rw [h5, h6]
  cases e.rcd.feats.mapM (derefFeature e.rcd.refs) <;> rfl

/-- renaming a record does not change the role its entity plays -/
theorem SameButName.sameRole {e e' : Ent} (h : SameButName e e') : SameRole e e' :=
  ⟨h.1, h.gmod, h.2.2.1, h.deref_isSome, h.fragment⟩

/-- **names are irrelevant to the ligation**: if an assembly succeeds, the same objects under any other record
identifiers (all equal, all different, whatever) assemble too, to the same sequence, leaving the same modules
unused -/
theorem assemble_names {v v' : Ent} {mods mods' : List Ent} {pid pname : Nat} {p : Product} {after : List Rec}
    (hv : SameButName v v') (hm : List.Forall₂ SameButName mods mods')
    (h : assemble v mods pid pname = (.ok p, after)) :
    ∃ p', (assemble v' mods' pid pname).1 = .ok p' ∧ p'.rcd.seq = p.rcd.seq ∧ p'.unused = p.unused :=
  assemble_sameRole h hv.sameRole (hm.imp (fun _ _ h => h.sameRole))

/-- … and to every failure: the same error (same stall overhang) under any naming -/
theorem assemble_names_outcome {v v' : Ent} {mods mods' : List Ent} (pid pname : Nat)
    (hv : SameButName v v') (hm : List.Forall₂ SameButName mods mods') :
    OutcomeSame (assemble v mods pid pname).1 (assemble v' mods' pid pname).1 :=
  assemble_sameRole_outcome pid pname hv.sameRole (hm.imp (fun _ _ h => h.sameRole))

end Moclo
