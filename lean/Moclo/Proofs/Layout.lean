import Moclo.Proofs.Assembly
/-! Layout of the product: the concatenation of the retained fragments, their generated `source` features,
and the re-referencing of citations. -/
namespace Moclo

/-- the target records the chain contributes, in order (when every extraction succeeds) -/
def chainTargets (ents : List Ent) : List (GMod Word) → Option (List Rec)
  | [] => some []
  | g :: gs =>
    match ents.find? (fun e => e.oid = g.oid) with
    | none => none
    | some e =>
      if e.faulty then none
      else match e.spec.target e.rcd, chainTargets ents gs with
        | .ok t, some ts => some (t :: ts)
        | _, _ => none

theorem extractChain_eq_foldl {ents : List Ent} {gs : List (GMod Word)} {acc r : Rec}
    (h : extractChain ents gs acc = .ok r) :
    ∃ ts, chainTargets ents gs = some ts ∧ r = ts.foldl Rec.append acc := by
  induction gs generalizing acc with
  | nil => simp only [extractChain, Except.ok.injEq] at h; subst h; exact ⟨[], rfl, rfl⟩
  | cons g gs ih =>
    simp only [extractChain] at h
    cases hf : ents.find? (fun e => e.oid = g.oid) with
    | none => rw [hf] at h; cases h
    | some e =>
      rw [hf] at h; simp only [] at h
      split at h
      · cases h
      · rename_i hfa
        cases ht : e.spec.target e.rcd with
        | error err => rw [ht] at h; cases h
        | ok t =>
          rw [ht] at h; simp only [] at h
          obtain ⟨ts, h1, h2⟩ := ih h
          refine ⟨t :: ts, ?_, by simpa using h2⟩
          simp only [chainTargets, hf, hfa, ht, h1]
          simp

/-- prefix sums of fragment lengths -/
def offsets (start : Nat) : List Rec → List Nat
  | [] => []
  | t :: ts => start :: offsets (start + t.seq.length) ts

theorem foldl_append_seq (ts : List Rec) (acc : Rec) :
    (ts.foldl Rec.append acc).seq = acc.seq ++ (ts.map (·.seq)).flatten := by
  induction ts generalizing acc with
  | nil => simp
  | cons t ts ih => simp only [List.foldl_cons, ih, Rec.append_seq, List.map_cons, List.flatten_cons, List.append_assoc]

theorem foldl_append_feats (ts : List Rec) (acc : Rec) :
    (ts.foldl Rec.append acc).feats =
      acc.feats ++ ((ts.zip (offsets acc.seq.length ts)).map (fun p => p.1.feats.map (Feature.shift p.2))).flatten := by
  induction ts generalizing acc with
  | nil => simp [offsets]
  | cons t ts ih =>
    simp only [List.foldl_cons, ih, offsets, List.zip_cons_cons, List.map_cons, List.flatten_cons]
    simp only [Rec.append, List.length_append, List.append_assoc]

/-- re-referencing keeps everything of a feature but its citation entries, in order -/
theorem rerefFeatures_shape (refs : List Nat) (fs : List Feature) :
    List.Forall₂ (fun f f' => f'.ftype = f.ftype ∧ f'.qual = f.qual ∧ f'.parts = f.parts ∧
      (f.cites = [] → f'.cites = [])) fs (rerefFeatures refs fs).2 := by
  induction fs generalizing refs with
  | nil => exact List.Forall₂.nil
  | cons f fs ih =>
    simp only [rerefFeatures]
    refine List.Forall₂.cons ⟨rfl, rfl, rfl, ?_⟩ (ih _)
    intro hc; simp [hc, rerefCites]

end Moclo

namespace Moclo

/-- what re-referencing one citation list does, relative to the reference list it starts from -/
theorem rerefCites_spec (refs : List Nat) (cs : List Cite) (hn : refs.Nodup) :
    let out := rerefCites refs cs
    (∃ extra, out.1 = refs ++ extra ∧ ∀ r ∈ extra, Cite.ref r ∈ cs) ∧ out.1.Nodup ∧
    List.Forall₂ (fun c c' => match c with
      | .ref r => ∃ i, c' = .idx (i + 1) ∧ out.1[i]? = some r
      | .idx i => c' = .idx i) cs out.2 := by
  induction cs generalizing refs with
  | nil => exact ⟨⟨[], by simp [rerefCites], by simp⟩, by simpa [rerefCites] using hn, by simp [rerefCites]⟩
  | cons c cs ih =>
    cases c with
    | idx i =>
      simp only [rerefCites]
      obtain ⟨⟨extra, h1, h2⟩, h3, h4⟩ := ih refs hn
      exact ⟨⟨extra, h1, fun r hr => List.mem_cons_of_mem _ (h2 r hr)⟩, h3, List.Forall₂.cons rfl h4⟩
    | ref r =>
      simp only [rerefCites]
      by_cases hr : refs.contains r = true
      · simp only [hr, if_true]
        have hmem : r ∈ refs := by simpa using hr
        obtain ⟨⟨extra, h1, h2⟩, h3, h4⟩ := ih refs hn
        refine ⟨⟨extra, h1, fun x hx => List.mem_cons_of_mem _ (h2 x hx)⟩, h3, List.Forall₂.cons ?_ h4⟩
        refine ⟨refs.idxOf r, rfl, ?_⟩
        rw [h1, List.getElem?_append_left (List.idxOf_lt_length_of_mem hmem)]
        exact List.getElem?_idxOf hmem
      · simp only [hr, Bool.false_eq_true, if_false]
        have hnm : r ∉ refs := by simpa using hr
        have hn' : (refs ++ [r]).Nodup := List.nodup_append.mpr ⟨hn, by simp, by
          intro a ha b hb; simp at hb; subst hb; exact fun e => hnm (e ▸ ha)⟩
        obtain ⟨⟨extra, h1, h2⟩, h3, h4⟩ := ih (refs ++ [r]) hn'
        refine ⟨⟨r :: extra, by rw [h1]; simp, ?_⟩, h3, List.Forall₂.cons ?_ h4⟩
        · intro x hx
          rcases List.mem_cons.mp hx with rfl | hx
          · simp
          · exact List.mem_cons_of_mem _ (h2 x hx)
        · have hmem : r ∈ refs ++ [r] := by simp
          refine ⟨(refs ++ [r]).idxOf r, rfl, ?_⟩
          rw [h1, List.getElem?_append_left (List.idxOf_lt_length_of_mem hmem)]
          exact List.getElem?_idxOf hmem

/-- … and a whole feature table -/
theorem rerefFeatures_spec (refs : List Nat) (fs : List Feature) (hn : refs.Nodup) :
    let out := rerefFeatures refs fs
    (∃ extra, out.1 = refs ++ extra ∧ ∀ r ∈ extra, ∃ f ∈ fs, Cite.ref r ∈ f.cites) ∧ out.1.Nodup ∧
    List.Forall₂ (fun f f' => List.Forall₂ (fun c c' => match c with
      | .ref r => ∃ i, c' = .idx (i + 1) ∧ out.1[i]? = some r
      | .idx i => c' = .idx i) f.cites f'.cites) fs out.2 := by
  induction fs generalizing refs with
  | nil => exact ⟨⟨[], by simp [rerefFeatures], by simp⟩, by simpa [rerefFeatures] using hn, by simp [rerefFeatures]⟩
  | cons f fs ih =>
    simp only [rerefFeatures]
    obtain ⟨⟨e1, a1, a2⟩, a3, a4⟩ := rerefCites_spec refs f.cites hn
    obtain ⟨⟨e2, b1, b2⟩, b3, b4⟩ := ih (rerefCites refs f.cites).1 a3
    refine ⟨⟨e1 ++ e2, by rw [b1, a1]; simp, ?_⟩, b3, List.Forall₂.cons ?_ b4⟩
    · intro r hr
      rcases List.mem_append.mp hr with h | h
      · exact ⟨f, by simp, a2 r h⟩
      · obtain ⟨g, hg, hc⟩ := b2 r h
        exact ⟨g, List.mem_cons_of_mem _ hg, hc⟩
    · -- indices computed against the shorter list stay valid in the longer one
      refine List.Forall₂.imp ?_ a4
      intro c c' hcc
      cases c with
      | idx i => exact hcc
      | ref r =>
        obtain ⟨i, h1, h2⟩ := hcc
        refine ⟨i, h1, ?_⟩
        rw [b1]
        have hi : i < (rerefCites refs f.cites).1.length := by
          by_contra hc
          rw [List.getElem?_eq_none (by omega)] at h2; cases h2
        rw [List.getElem?_append_left hi]; exact h2

end Moclo
