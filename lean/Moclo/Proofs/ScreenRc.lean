import Moclo.Proofs.Screen
import Moclo.Proofs.RevComp
import Mathlib.Data.Finset.Card
/-! The illegal-site screen counts the same number of valid cuts on both strands. -/
namespace Moclo

theorem rcNt_map_rc (seg : Word) : (rc seg).map (·.nt) = rcNt (seg.map (·.nt)) := by
  simp [rc, rcNt, List.map_reverse, List.map_map, Function.comp_def, Sym.compl]

/-- a site occurs at `L - i - s` of the reverse complement iff its reverse complement occurs at `i` -/
theorem siteAt_rc (site : List Nt) (T : Word) (i : Nat) (hi : i + site.length ≤ T.length) :
    siteAt site (rc T) (T.length - i - site.length) = siteAt (rcNt site) T i := by
  have hrl : (rcNt site).length = site.length := by simp [rcNt]
  unfold siteAt
  rw [hrl]
  have h := slice_rc T i (i + site.length) (by omega) hi
  unfold slice at h
  have e1 : T.length - (i + site.length) = T.length - i - site.length := by omega
  have e2 : T.length - i - (T.length - i - site.length) = site.length := by omega
  have e3 : i + site.length - i = site.length := by omega
  rw [e1, e2, e3] at h
  simp only []
  rw [h, rcNt_map_rc]
  -- rcNt x == site  ↔  x == rcNt site
  rw [Bool.eq_iff_iff]
  simp only [beq_iff_eq]
  constructor
  · intro hx
    have := congrArg rcNt hx
    rwa [rcNt_rcNt] at this
  · intro hx
    have := congrArg rcNt hx
    rwa [rcNt_rcNt] at this

theorem siteAt_length {site : List Nt} {T : Word} {i : Nat} (h : siteAt site T i = true) (hs : 1 ≤ site.length) :
    i + site.length ≤ T.length := by
  unfold siteAt at h
  simp only [beq_iff_eq] at h
  have := congrArg List.length h
  simp only [List.length_map, List.length_take, List.length_drop] at this
  omega

/-- the mirror of a site position -/
def mirror (L s i : Nat) : Nat := L - i - s

/-- **a cut is valid on one strand iff its mirror image is valid on the other** -/
theorem cutAt_rc (g : Geom) (T : Word) (i : Nat) (hnp : g.site ≠ rcNt g.site) (hs : 1 ≤ g.site.length)
    (hi : i + g.site.length ≤ T.length) :
    cutAt g (rc T) (mirror T.length g.site.length i) = cutAt g T i := by
  have hrl : (rcNt g.site).length = g.site.length := by simp [rcNt]
  have hL : (rc T).length = T.length := rc_length' T
  unfold mirror
  have f1 := siteAt_rc g.site T i hi
  have f2 := siteAt_rc (rcNt g.site) T i (by rw [hrl]; exact hi)
  rw [rcNt_rcNt, hrl] at f2
  unfold cutAt
  rw [f1, f2, hL]
  by_cases hf : siteAt g.site T i = true
  · -- forward on T ⇒ reverse (and not forward) on rc T
    have hr : siteAt (rcNt g.site) T i = false := by
      cases h : siteAt (rcNt g.site) T i with
      | false => rfl
      | true => exact absurd (siteAt_both _ _ _ hf h) hnp
    simp only [hf, hr, if_true, Bool.false_eq_true, if_false]
    rw [Bool.eq_iff_iff]
    simp only [decide_eq_true_eq]
    constructor <;> intro h <;> omega
  · have hf' : siteAt g.site T i = false := by simpa using hf
    by_cases hr : siteAt (rcNt g.site) T i = true
    · simp only [hf', hr, if_true, Bool.false_eq_true, if_false]
      rw [Bool.eq_iff_iff]
      simp only [decide_eq_true_eq]
      constructor <;> intro h <;> omega
    · have hr' : siteAt (rcNt g.site) T i = false := by simpa using hr
      simp [hf', hr']

theorem cutAt_true_length {g : Geom} {T : Word} {i : Nat} (h : cutAt g T i = true) (hs : 1 ≤ g.site.length) :
    i + g.site.length ≤ T.length := by
  have hrl : (rcNt g.site).length = g.site.length := by simp [rcNt]
  unfold cutAt at h
  by_cases hf : siteAt g.site T i = true
  · exact siteAt_length hf hs
  · have hf' : siteAt g.site T i = false := by simpa using hf
    by_cases hr : siteAt (rcNt g.site) T i = true
    · have := siteAt_length hr (by rw [hrl]; exact hs); rw [hrl] at this; exact this
    · have hr' : siteAt (rcNt g.site) T i = false := by simpa using hr
      simp [hf', hr'] at h

/-- **the screen is strand-symmetric**: the reverse complement of a text has exactly as many valid cuts -/
theorem validCuts_rc (g : Geom) (T : Word) (hnp : g.site ≠ rcNt g.site) (hs : 1 ≤ g.site.length) :
    validCuts g (rc T) = validCuts g T := by
  have hL : (rc T).length = T.length := rc_length' T
  unfold validCuts
  rw [hL]
  -- count through finsets and the mirror bijection
  have card : ∀ (f : Nat → Bool) (n : Nat), ((List.range n).filter f).length = ((Finset.range n).filter (fun i => f i = true)).card := by
    intro f n
    rw [← List.toFinset_card_of_nodup ((List.nodup_range).filter _)]
    congr 1
    ext x
    simp [List.mem_filter]
  rw [card, card]
  have hrcrc : rc (rc T) = T := by
    unfold rc
    rw [List.map_reverse, List.reverse_reverse, List.map_map]
    have : (Sym.compl ∘ Sym.compl) = id := by funext x; cases x; simp [Sym.compl, compl_compl]
    rw [this, List.map_id]
  apply Finset.card_bij' (fun i _ => mirror T.length g.site.length i) (fun i _ => mirror T.length g.site.length i)
  · intro i hi
    simp only [Finset.mem_filter, Finset.mem_range] at hi ⊢
    have hlen := cutAt_true_length hi.2 hs
    rw [hL] at hlen
    have := cutAt_rc g (rc T) i hnp hs (by rw [hL]; exact hlen)
    rw [hrcrc, hL] at this
    refine ⟨by unfold mirror; omega, ?_⟩
    rw [this]; exact hi.2
  · intro i hi
    simp only [Finset.mem_filter, Finset.mem_range] at hi ⊢
    have hlen := cutAt_true_length hi.2 hs
    have := cutAt_rc g T i hnp hs hlen
    refine ⟨by unfold mirror; omega, ?_⟩
    rw [this]; exact hi.2
  · intro i hi
    simp only [Finset.mem_filter, Finset.mem_range] at hi
    have hlen := cutAt_true_length hi.2 hs
    rw [hL] at hlen
    unfold mirror; omega
  · intro i hi
    simp only [Finset.mem_filter, Finset.mem_range] at hi
    have hlen := cutAt_true_length hi.2 hs
    unfold mirror; omega

end Moclo
