import Moclo.Proofs.View
/-! A declarative account of a successful match *with positions*: which letters each token consumed and
where each group boundary fell.  Lets one reason about a structure from both ends (before and after the
wildcard run). -/
namespace Moclo

/-- `Run ts xs p ms e`: pattern `ts` fits the text `xs` starting at absolute position `p`, recording the
group boundaries `ms` (reading order) and ending at position `e`. -/
inductive Run : Pat → Word → Nat → List Nat → Nat → Prop
  | nil (xs p) : Run [] xs p [] p
  | cls {c x ts xs p ms e} : clsMatch c x = true → Run ts xs (p+1) ms e → Run (.cls c :: ts) (x :: xs) p ms e
  | gopen {ts xs p ms e} : Run ts xs p ms e → Run (.gopen :: ts) xs p (p :: ms) e
  | gclose {ts xs p ms e} : Run ts xs p ms e → Run (.gclose :: ts) xs p (p :: ms) e
  | star {c g ts xs p ms e} (j : Nat) : j ≤ xs.length → (∀ x ∈ xs.take j, clsMatch c x = true) →
      Run ts (xs.drop j) (p + j) ms e → Run (.star c g :: ts) xs p ms e

/-- a successful match is such a run; the recorded list is `end :: marks (reversed) ++ acc` -/
theorem matchToks_run : ∀ (ts : Pat) (xs : Word) (pos : Nat) (acc r : List Nat),
    matchToks ts xs pos acc = some r → ∃ ms e, Run ts xs pos ms e ∧ r = e :: (ms.reverse ++ acc) := by
  intro ts
  induction ts with
  | nil => intro xs pos acc r h; simp only [matchToks, Option.some.injEq] at h; subst h
           exact ⟨[], pos, Run.nil _ _, by simp⟩
  | cons t ts ih =>
    intro xs pos acc r h
    cases t with
    | cls c =>
      cases xs with
      | nil => simp [matchToks] at h
      | cons x xs =>
        simp only [matchToks] at h
        split at h
        · rename_i hc
          obtain ⟨ms, e, hr, he⟩ := ih _ _ _ _ h
          exact ⟨ms, e, Run.cls hc hr, he⟩
        · cases h
    | gopen =>
      simp only [matchToks] at h
      obtain ⟨ms, e, hr, he⟩ := ih _ _ _ _ h
      exact ⟨pos :: ms, e, Run.gopen hr, by rw [he]; simp⟩
    | gclose =>
      simp only [matchToks] at h
      obtain ⟨ms, e, hr, he⟩ := ih _ _ _ _ h
      exact ⟨pos :: ms, e, Run.gclose hr, by rw [he]; simp⟩
    | star c g =>
      simp only [matchToks] at h
      have key : ∀ j, j ≤ runLen c xs → matchToks ts (xs.drop j) (pos + j) acc = some r →
          ∃ ms e, Run (Tok.star c g :: ts) xs pos ms e ∧ r = e :: (ms.reverse ++ acc) := by
        intro j hj hk
        obtain ⟨ms, e, hr, he⟩ := ih _ _ _ _ hk
        exact ⟨ms, e, Run.star j (Nat.le_trans hj (runLen_le c xs)) (runLen_take c xs j hj) hr, he⟩
      split at h
      · obtain ⟨j, hj, hk⟩ := firstDown_some h; exact key j hj hk
      · obtain ⟨j, _, hj, hk, _⟩ := firstUp_some h; exact key j (by omega) hk

/-- the relative marks of a match (reading order) and its end, as a run on the window -/
theorem relMatch_run {p : Pat} {xs : Word} {rel : List Nat} (h : relMatch p xs = some rel) :
    ∃ ms e, Run p xs 0 ms e ∧ rel.reverse = ms ++ [e] := by
  obtain ⟨ms, e, hr, he⟩ := matchToks_run p xs 0 [] rel h
  exact ⟨ms, e, hr, by rw [he]; simp⟩

theorem Run.bounds {ts xs p ms e} (h : Run ts xs p ms e) : p ≤ e ∧ e ≤ p + xs.length ∧ ∀ m ∈ ms, p ≤ m ∧ m ≤ e := by
  induction h with
  | nil => simp
  | cls _ _ ih =>
    obtain ⟨a, b, c⟩ := ih
    refine ⟨by omega, by simp only [List.length_cons]; omega, fun m hm => ?_⟩
    have := c m hm; omega
  | gopen _ ih =>
    obtain ⟨a, b, c⟩ := ih
    refine ⟨a, b, fun m hm => ?_⟩
    rcases List.mem_cons.mp hm with rfl | hm
    · exact ⟨Nat.le_refl _, a⟩
    · exact c m hm
  | gclose _ ih =>
    obtain ⟨a, b, c⟩ := ih
    refine ⟨a, b, fun m hm => ?_⟩
    rcases List.mem_cons.mp hm with rfl | hm
    · exact ⟨Nat.le_refl _, a⟩
    · exact c m hm
  | star j hj _ _ ih =>
    obtain ⟨a, b, c⟩ := ih
    simp only [List.length_drop] at b
    refine ⟨by omega, by omega, fun m hm => ?_⟩
    have := c m hm; omega

/-- splitting a run at a point of the pattern -/
theorem Run.split {a b : Pat} {xs : Word} {p : Nat} {ms : List Nat} {e : Nat} (h : Run (a ++ b) xs p ms e) :
    ∃ mid msA msB, Run a xs p msA mid ∧ Run b (xs.drop (mid - p)) mid msB e ∧ ms = msA ++ msB ∧ p ≤ mid := by
  induction a generalizing xs p ms with
  | nil => exact ⟨p, [], ms, Run.nil _ _, by simpa using h, rfl, Nat.le_refl _⟩
  | cons t ts ih =>
    cases t with
    | cls c =>
      cases h with
      | cls hc hr =>
        obtain ⟨mid, msA, msB, h1, h2, h3, h4⟩ := ih hr
        refine ⟨mid, msA, msB, Run.cls hc h1, ?_, h3, by omega⟩
        have : mid - p = (mid - (p + 1)) + 1 := by omega
        rw [this, List.drop_succ_cons]; exact h2
    | gopen =>
      cases h with
      | gopen hr =>
        obtain ⟨mid, msA, msB, h1, h2, h3, h4⟩ := ih hr
        exact ⟨mid, p :: msA, msB, Run.gopen h1, h2, by rw [h3]; rfl, h4⟩
    | gclose =>
      cases h with
      | gclose hr =>
        obtain ⟨mid, msA, msB, h1, h2, h3, h4⟩ := ih hr
        exact ⟨mid, p :: msA, msB, Run.gclose h1, h2, by rw [h3]; rfl, h4⟩
    | star c g =>
      cases h with
      | star j hj hall hr =>
        obtain ⟨mid, msA, msB, h1, h2, h3, h4⟩ := ih hr
        refine ⟨mid, msA, msB, Run.star j hj hall h1, ?_, h3, by omega⟩
        rw [List.drop_drop] at h2
        have : j + (mid - (p + j)) = mid - p := by omega
        rw [this] at h2; exact h2

/-- joining two runs -/
theorem Run.join {a b : Pat} {xs : Word} {p mid e : Nat} {msA msB : List Nat}
    (h1 : Run a xs p msA mid) (h2 : Run b (xs.drop (mid - p)) mid msB e) : Run (a ++ b) xs p (msA ++ msB) e := by
  induction h1 with
  | nil xs p => simpa using h2
  | @cls c x ts xs p ms e' hc hr ih =>
    have hb := hr.bounds.1
    have : e' - p = (e' - (p + 1)) + 1 := by omega
    rw [this, List.drop_succ_cons] at h2
    exact Run.cls hc (ih h2)
  | gopen hr ih => exact Run.gopen (ih h2)
  | gclose hr ih => exact Run.gclose (ih h2)
  | @star c g ts xs p ms e' j hj hall hr ih =>
    have hb := hr.bounds.1
    refine Run.star j hj hall (ih ?_)
    rw [List.drop_drop]
    have : j + (e' - (p + j)) = e' - p := by omega
    rw [this]; exact h2

/-! ## fixed-width pieces (letters and group boundaries, no wildcard run) -/

def starFree : Pat → Bool
  | [] => true
  | .star _ _ :: _ => false
  | _ :: ts => starFree ts

/-- number of letters a star-free piece consumes -/
def width : Pat → Nat
  | [] => 0
  | .cls _ :: ts => width ts + 1
  | _ :: ts => width ts

/-- the letter classes of a piece, in order -/
def letters : Pat → List Nt
  | [] => []
  | .cls c :: ts => c :: letters ts
  | _ :: ts => letters ts

/-- letterwise match of a list of classes against the head of a text -/
def matchesAt (cs : List Nt) (xs : Word) : Prop := cs.length ≤ xs.length ∧ ∀ j (h : j < cs.length) (h' : j < xs.length), clsMatch cs[j] xs[j] = true

theorem letters_length (f : Pat) : (letters f).length = width f := by
  induction f with
  | nil => rfl
  | cons t ts ih => cases t <;> simp [letters, width, ih]

/-- a star-free piece consumes exactly its width, letter by letter -/
theorem Run.fixed {f : Pat} {xs : Word} {p : Nat} {ms : List Nat} {e : Nat} (hf : starFree f = true)
    (h : Run f xs p ms e) : e = p + width f ∧ matchesAt (letters f) xs := by
  induction h with
  | nil => exact ⟨rfl, by simp [matchesAt, letters]⟩
  | @cls c x ts xs p ms e hc hr ih =>
    obtain ⟨h1, h2, h3⟩ := ih (by simpa [starFree] using hf)
    refine ⟨by simp only [width]; omega, by simp only [letters, List.length_cons]; omega, ?_⟩
    intro j hj hj'
    cases j with
    | zero => simpa [letters] using hc
    | succ j =>
      simp only [letters, List.getElem_cons_succ]
      exact h3 j (by simpa [letters] using hj) (by simpa using hj')
  | gopen hr ih => simpa [width, letters, starFree] using ih (by simpa [starFree] using hf)
  | gclose hr ih => simpa [width, letters, starFree] using ih (by simpa [starFree] using hf)
  | star => simp [starFree] at hf

end Moclo
