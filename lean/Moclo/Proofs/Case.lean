import Moclo.Proofs.Assembly
import Moclo.Proofs.Search
/-! Letter case is invisible to matching: every stage only looks at the nucleotide codes. -/
namespace Moclo

/-- two spellings of the same sequence: same nucleotide codes, any letter case -/
def NtEq (a b : Word) : Prop := a.map (·.nt) = b.map (·.nt)

theorem NtEq.refl (a : Word) : NtEq a a := rfl
theorem NtEq.symm {a b : Word} (h : NtEq a b) : NtEq b a := Eq.symm h
theorem NtEq.length {a b : Word} (h : NtEq a b) : a.length = b.length := by
  have := congrArg List.length h; simpa using this
theorem NtEq.append {a b c d : Word} (h1 : NtEq a b) (h2 : NtEq c d) : NtEq (a ++ c) (b ++ d) := by
  unfold NtEq at *; simp [h1, h2]
theorem NtEq.drop {a b : Word} (h : NtEq a b) (n : Nat) : NtEq (a.drop n) (b.drop n) := by
  unfold NtEq at *; rw [List.map_drop, List.map_drop, h]
theorem NtEq.take {a b : Word} (h : NtEq a b) (n : Nat) : NtEq (a.take n) (b.take n) := by
  unfold NtEq at *; rw [List.map_take, List.map_take, h]
theorem ntEq_upper (a : Word) : NtEq (upperW a) a := by
  unfold NtEq upperW; simp [List.map_map, Function.comp_def, Sym.upper]

theorem upperW_eq_of_ntEq {a b : Word} (h : NtEq a b) : upperW a = upperW b := by
  unfold NtEq at h
  induction a generalizing b with
  | nil => cases b with
    | nil => rfl
    | cons y ys => simp at h
  | cons x xs ih =>
    cases b with
    | nil => simp at h
    | cons y ys =>
      simp only [List.map_cons, List.cons.injEq] at h
      simp only [upperW, List.map_cons, List.cons.injEq]
      refine ⟨?_, ih h.2⟩
      cases x; cases y; simp_all [Sym.upper]

theorem ntEq_of_upperW_eq {a b : Word} (h : upperW a = upperW b) : NtEq a b :=
  (ntEq_upper a).symm.trans (by rw [h]; exact ntEq_upper b)

theorem NtEq.textAt {w w' : Word} (h : NtEq w w') (c : Bool) (i : Nat) : NtEq (textAt w c i) (textAt w' c i) := by
  unfold Moclo.textAt
  rw [h.length]
  apply NtEq.take
  apply NtEq.drop
  cases c
  · simpa using h
  · simpa using h.append h

theorem NtEq.group {w w' : Word} (h : NtEq w w') (a b : Nat) : NtEq (group w a b) (group w' a b) := by
  unfold Moclo.group pySlice
  rw [h.length]
  split
  · exact (h.drop _).take _
  · split
    · exact (h.drop _).append (h.take _)
    · exact (h.drop _).take _

theorem NtEq.rotr {w w' : Word} (h : NtEq w w') (k : Nat) : NtEq (rotr w k) (rotr w' k) := by
  unfold Moclo.rotr; rw [h.length]; exact (h.drop _).append (h.take _)

theorem NtEq.rotlI {w w' : Word} (h : NtEq w w') (k : Int) : NtEq (rotlI w k) (rotlI w' k) := by
  unfold Moclo.rotlI Moclo.rotrI; rw [h.length]; exact h.rotr _

/-- the search reports identical marks for any two spellings -/
theorem search_congr_nt (p : Pat) {w w' : Word} (h : NtEq w w') (c : Bool) (pos : Nat) (ep : Option Nat) :
    search p w c pos ep = search p w' c pos ep := by
  unfold search
  simp only []
  rw [h.length]
  congr 1
  apply firstUp_congr
  intro i _ _
  apply matchToks_congr_nt
  have := h.textAt c i
  unfold Moclo.textAt at this
  rw [h.length] at this
  exact this

theorem siteAt_congr_nt (site : List Nt) {t t' : Word} (h : NtEq t t') (i : Nat) : siteAt site t i = siteAt site t' i := by
  unfold siteAt
  have := (h.drop i).take site.length
  unfold NtEq at this
  simp only [this]

theorem validCuts_congr_nt (g : Geom) {t t' : Word} (h : NtEq t t') : validCuts g t = validCuts g t' := by
  unfold validCuts
  rw [h.length]
  congr 1
  apply List.filter_congr
  intro i _
  unfold cutAt
  rw [siteAt_congr_nt g.site h, siteAt_congr_nt (rcNt g.site) h, h.length]

/-- **structures are matched case-insensitively**: the match (all recorded positions) and the verdict,
including the illegal-site screen, are the same for any two spellings -/
theorem matchSeq_congr_nt (c : ClassSpec) {w w' : Word} (h : NtEq w w') : c.matchSeq w = c.matchSeq w' := by
  unfold ClassSpec.matchSeq
  rw [search_congr_nt c.pat h]
  cases search c.pat w' true with
  | none => rfl
  | some m =>
    simp only []
    have : validCuts c.geom (m.group w 0) = validCuts c.geom (m.group w' 0) :=
      validCuts_congr_nt c.geom (by unfold Match.group; exact h.group _ _)
    rw [this]

theorem targetWord_congr_nt (c : ClassSpec) {w w' : Word} (h : NtEq w w') (m : Match) :
    NtEq (targetWord c w m) (targetWord c w' m) := by
  unfold targetWord pySlice
  rw [h.length]
  cases c.kind
  · exact ((h.rotlI _).drop _).take _
  · exact ((h.rotlI _).drop _).take _

theorem fragmentOf_congr_nt (c : ClassSpec) {w w' : Word} (h : NtEq w w') :
    NtEq (fragmentOf c w) (fragmentOf c w') := by
  unfold fragmentOf
  rw [matchSeq_congr_nt c h]
  cases c.matchSeq w' with
  | ok m => exact targetWord_congr_nt c h m
  | error e => exact NtEq.refl _

end Moclo

namespace Moclo

/-- two records that differ only in the spelling of the sequence -/
structure RecCase (r r' : Rec) : Prop where
  rid : r'.rid = r.rid
  feats : r'.feats = r.feats
  refs : r'.refs = r.refs
  seq : NtEq r.seq r'.seq

theorem RecCase.refl (r : Rec) : RecCase r r := ⟨rfl, rfl, rfl, NtEq.refl _⟩

theorem RecCase.rotr {r r' : Rec} (h : RecCase r r') (k : Int) : RecCase (r.rotr k) (r'.rotr k) := by
  unfold Rec.rotr
  simp only []
  rw [← h.seq.length]
  split
  · exact h
  · exact ⟨h.rid, by simp [h.feats], h.refs, h.seq.rotr _⟩

theorem RecCase.rotl {r r' : Rec} (h : RecCase r r') (k : Int) : RecCase (r.rotl k) (r'.rotl k) := by
  unfold Rec.rotl; rw [← h.seq.length]; exact h.rotr _

theorem RecCase.slice {r r' : Rec} (h : RecCase r r') (a b : Nat) : RecCase (r.slice a b) (r'.slice a b) := by
  unfold Rec.slice pySlice
  exact ⟨h.rid, by simp [h.feats], h.refs, (h.seq.drop _).take _⟩

theorem RecCase.append {x x' y y' : Rec} (hx : RecCase x x') (hy : RecCase y y') :
    RecCase (x.append y) (x'.append y') := by
  unfold Rec.append
  exact ⟨hx.rid, by simp [hx.feats, hy.feats, hx.seq.length], hx.refs, hx.seq.append hy.seq⟩

theorem RecCase.addSource {r r' : Rec} (h : RecCase r r') (rid : Nat) :
    RecCase (Moclo.addSource rid r) (Moclo.addSource rid r') := by
  unfold Moclo.addSource
  exact ⟨h.rid, by simp [h.feats, h.seq.length], h.refs, h.seq⟩

theorem RecCase.targetOf {r r' : Rec} (h : RecCase r r') (c : ClassSpec) (m : Match) :
    RecCase (c.targetOf r m) (c.targetOf r' m) := by
  unfold ClassSpec.targetOf
  simp only [h.rid, ← h.seq.length]
  cases c.kind
  · exact ((h.rotl _).slice _ _).addSource _
  · exact ((h.rotl _).slice _ _).addSource _

/-- the target records of two spellings: same failure, or records differing only in spelling -/
def ExceptCase : Except Err Rec → Except Err Rec → Prop
  | .error e, .error e' => e = e'
  | .ok r, .ok r' => RecCase r r'
  | _, _ => False

theorem RecCase.target {r r' : Rec} (h : RecCase r r') (c : ClassSpec) : ExceptCase (c.target r) (c.target r') := by
  unfold ClassSpec.target
  rw [matchSeq_congr_nt c h.seq]
  cases c.matchSeq r'.seq with
  | error e => exact rfl
  | ok m => exact h.targetOf c m

theorem RecCase.deref {r r' : Rec} (h : RecCase r r') :
    match derefRec r, derefRec r' with
    | some d, some d' => RecCase d d'
    | none, none => True
    | _, _ => False := by
  unfold derefRec
  rw [h.feats, h.refs]
  cases r.feats.mapM (derefFeature r.refs) with
  | none => trivial
  | some fs => exact ⟨h.rid, rfl, rfl, h.seq⟩

theorem RecCase.reref {r r' : Rec} (h : RecCase r r') : RecCase (rerefRec r) (rerefRec r') := by
  unfold rerefRec
  simp only [h.feats, h.refs]
  exact ⟨h.rid, rfl, rfl, h.seq⟩

theorem RecCase.restore {r r' : Rec} (h : RecCase r r') (s : List (List Cite)) :
    RecCase (Moclo.restore s r) (Moclo.restore s r') := by
  unfold Moclo.restore
  exact ⟨h.rid, by simp [h.feats], h.refs, h.seq⟩

/-- two entities that differ only in the spelling of their record -/
structure EntCase (e e' : Ent) : Prop where
  oid : e'.oid = e.oid
  spec : e'.spec = e.spec
  faulty : e'.faulty = e.faulty
  rcd : RecCase e.rcd e'.rcd

theorem EntCase.gmod {e e' : Ent} (h : EntCase e e') : e'.gmod = e.gmod := by
  unfold Ent.gmod
  rw [h.spec, ← matchSeq_congr_nt e.spec h.rcd.seq, h.oid]
  cases e.spec.matchSeq e.rcd.seq with
  | error x => rfl
  | ok m =>
    simp only [bind, Except.bind, pure, Except.pure]
    have g := fun i => upperW_eq_of_ntEq (by unfold Match.group; exact (h.rcd.seq.group _ _) :
      NtEq (m.group e.rcd.seq i) (m.group e'.rcd.seq i))
    rw [g, g]

theorem evalPrefix_case {ms ms' : List Ent} (h : List.Forall₂ EntCase ms ms') : evalPrefix ms' = evalPrefix ms := by
  induction h with
  | nil => rfl
  | cons he _ ih => simp only [evalPrefix, he.gmod, ih]

end Moclo

namespace Moclo

theorem find_case {l l' : List Ent} (h : List.Forall₂ EntCase l l') (k : Nat) :
    match l.find? (fun e => e.oid = k), l'.find? (fun e => e.oid = k) with
    | some e, some e' => EntCase e e'
    | none, none => True
    | _, _ => False := by
  induction h with
  | nil => simp
  | @cons e e' es es' he _ ih =>
    simp only [List.find?_cons, he.oid]
    by_cases ho : e.oid = k
    · simp only [ho, decide_true]; exact he
    · simp only [ho, decide_false]; exact ih

theorem extractChain_case {dms dms' : List Ent} (h : List.Forall₂ EntCase dms dms') :
    ∀ (gs : List (GMod Word)) (acc acc' : Rec), RecCase acc acc' →
      ExceptCase (extractChain dms gs acc) (extractChain dms' gs acc') := by
  intro gs
  induction gs with
  | nil => intro acc acc' ha; exact ha
  | cons g gs ih =>
    intro acc acc' ha
    simp only [extractChain]
    have hf := find_case h g.oid
    cases h1 : dms.find? (fun e => e.oid = g.oid) with
    | none =>
      cases h2 : dms'.find? (fun e => e.oid = g.oid) with
      | none => exact rfl
      | some e' => rw [h1, h2] at hf; exact hf.elim
    | some e =>
      cases h2 : dms'.find? (fun e => e.oid = g.oid) with
      | none => rw [h1, h2] at hf; exact hf.elim
      | some e' =>
        rw [h1, h2] at hf
        simp only [hf.faulty, hf.spec]
        split
        · exact rfl
        · have ht := hf.rcd.target e.spec
          cases h3 : e.spec.target e.rcd with
          | error x =>
            cases h4 : e.spec.target e'.rcd with
            | error y => rw [h3, h4] at ht; exact ht
            | ok t' => rw [h3, h4] at ht; exact ht.elim
          | ok t =>
            cases h4 : e.spec.target e'.rcd with
            | error y => rw [h3, h4] at ht; exact ht.elim
            | ok t' =>
              rw [h3, h4] at ht
              exact ih _ _ (ha.append ht)

theorem derefEnts_case {ms ms' : List Ent} (h : List.Forall₂ EntCase ms ms') :
    match ms.mapM (fun e => (derefRec e.rcd).map (fun r => { e with rcd := r })),
          ms'.mapM (fun e => (derefRec e.rcd).map (fun r => { e with rcd := r })) with
    | some d, some d' => List.Forall₂ EntCase d d'
    | none, none => True
    | _, _ => False := by
  induction h with
  | nil => simp
  | @cons e e' es es' he _ ih =>
    simp only [List.mapM_cons, Option.bind_eq_bind]
    have hd := he.rcd.deref
    cases h1 : derefRec e.rcd with
    | none =>
      cases h2 : derefRec e'.rcd with
      | none => simp
      | some r' => rw [h1, h2] at hd; exact hd.elim
    | some r =>
      cases h2 : derefRec e'.rcd with
      | none => rw [h1, h2] at hd; exact hd.elim
      | some r' =>
        rw [h1, h2] at hd
        simp only [Option.map_some, Option.bind_some]
        cases h3 : es.mapM (fun e => (derefRec e.rcd).map (fun r => { e with rcd := r })) with
        | none =>
          cases h4 : es'.mapM (fun e => (derefRec e.rcd).map (fun r => { e with rcd := r })) with
          | none => simp
          | some d' => rw [h3, h4] at ih; exact ih.elim
        | some d =>
          cases h4 : es'.mapM (fun e => (derefRec e.rcd).map (fun r => { e with rcd := r })) with
          | none => rw [h3, h4] at ih; exact ih.elim
          | some d' =>
            rw [h3, h4] at ih
            simp only [Option.bind_some, Option.pure_def]
            exact List.Forall₂.cons ⟨he.oid, he.spec, he.faulty, hd⟩ ih

theorem map_rid_case {ms ms' : List Ent} (h : List.Forall₂ EntCase ms ms') :
    ms'.map (fun e => e.rcd.rid) = ms.map (fun e => e.rcd.rid) := by
  induction h with
  | nil => rfl
  | cons he _ ih => simp only [List.map_cons, ih, he.rcd.rid]

/-- two outcomes that differ at most in the spelling of the product -/
def OutcomeCase : Except Err Product → Except Err Product → Prop
  | .error e, .error e' => e = e'
  | .ok p, .ok p' => RecCase p.rcd p'.rcd ∧ p'.pid = p.pid ∧ p'.pname = p.pname ∧
      p'.commentVector = p.commentVector ∧ p'.commentModules = p.commentModules ∧ p'.unused = p.unused
  | _, _ => False

/-- **any mix of spellings among a vector and its modules assembles to the same product up to case, or fails
with the same error** (same class, same stall overhang) -/
theorem assemble_case {v v' : Ent} {mods mods' : List Ent} (hv : EntCase v v')
    (hm : List.Forall₂ EntCase mods mods') (pid pname : Nat) :
    OutcomeCase (assemble v mods pid pname).1 (assemble v' mods' pid pname).1 := by
  unfold assemble
  simp only [hv.gmod, evalPrefix_case hm]
  cases v.gmod with
  | error e => exact rfl
  | ok gv =>
    simp only []
    split
    · exact rfl
    · cases gBuild (evalPrefix mods).1 [] with
      | error e => exact rfl
      | ok map =>
        simp only []
        cases (evalPrefix mods).2 with
        | some e => exact rfl
        | none =>
          simp only []
          split
          · exact rfl
          · have hd := derefEnts_case hm
            have hdv := hv.rcd.deref
            cases h1 : mods.mapM (fun e => (derefRec e.rcd).map (fun r => { e with rcd := r })) with
            | none =>
              cases h2 : mods'.mapM (fun e => (derefRec e.rcd).map (fun r => { e with rcd := r })) with
              | none => exact rfl
              | some d' => rw [h1, h2] at hd; exact hd.elim
            | some dms =>
              cases h2 : mods'.mapM (fun e => (derefRec e.rcd).map (fun r => { e with rcd := r })) with
              | none => rw [h1, h2] at hd; exact hd.elim
              | some dms' =>
                rw [h1, h2] at hd
                cases h3 : derefRec v.rcd with
                | none =>
                  cases h4 : derefRec v'.rcd with
                  | none => exact rfl
                  | some r' => rw [h3, h4] at hdv; exact hdv.elim
                | some r =>
                  cases h4 : derefRec v'.rcd with
                  | none => rw [h3, h4] at hdv; exact hdv.elim
                  | some r' =>
                    rw [h3, h4] at hdv
                    simp only [Option.map_some]
                    unfold assembleCore
                    simp only [hv.faulty, hv.spec]
                    generalize gWalk gv.start (map.length + 1) gv.stop map = w
                    obtain ⟨chain, rest, stall⟩ := w
                    simp only []
                    have hx := extractChain_case hd chain _ _ (RecCase.refl ⟨0, [], [], []⟩)
                    cases h5 : extractChain dms chain ⟨0, [], [], []⟩ with
                    | error e =>
                      cases h6 : extractChain dms' chain ⟨0, [], [], []⟩ with
                      | error e' => rw [h5, h6] at hx; exact hx
                      | ok a' => rw [h5, h6] at hx; exact hx.elim
                    | ok a =>
                      cases h6 : extractChain dms' chain ⟨0, [], [], []⟩ with
                      | error e' => rw [h5, h6] at hx; exact hx.elim
                      | ok a' =>
                        rw [h5, h6] at hx
                        simp only []
                        cases stall with
                        | some o => exact rfl
                        | none =>
                          simp only []
                          split
                          · exact rfl
                          · have ht := hdv.target v.spec
                            cases h7 : v.spec.target r with
                            | error e =>
                              cases h8 : v.spec.target r' with
                              | error e' => rw [h7, h8] at ht; exact ht
                              | ok t' => rw [h7, h8] at ht; exact ht.elim
                            | ok t =>
                              cases h8 : v.spec.target r' with
                              | error e' => rw [h7, h8] at ht; exact ht.elim
                              | ok t' =>
                                rw [h7, h8] at ht
                                refine ⟨?_, rfl, rfl, ?_, ?_, rfl⟩
                                · have := (hx.append ht)
                                  exact RecCase.reref ⟨rfl, this.feats, rfl, this.seq⟩
                                · exact hv.rcd.rid
                                · exact map_rid_case hm

end Moclo
