import Moclo.Props.C01
/-! The YTK pair: a YTK product carries the next level's (BsaI) recognition sites inside its own target —
the last two letters of its upstream overhang and the first four of its target spell `GGTCTC`, the last two of
its target and its downstream overhang spell `GAGACC`. -/
namespace Moclo

/-- fixed piece · wildcard run · fixed piece -/
theorem Run.fixed_star_fixed {F1 F2 : Pat} {c : Nt} {g : Bool} {xs : Word} {p : Nat} {ms : List Nat} {e : Nat}
    (s1 : starFree F1 = true) (s2 : starFree F2 = true)
    (h : Run (F1 ++ [.star c g] ++ F2) xs p ms e) :
    p + width F1 + width F2 ≤ e ∧ matchesAt (letters F1) xs ∧
      matchesAt (letters F2) (xs.drop (e - p - width F2)) ∧
      ∀ x ∈ (xs.drop (width F1)).take (e - p - width F1 - width F2), clsMatch c x = true := by
  obtain ⟨mid, msA, msB, hA, hB, _, hpm⟩ := h.split
  obtain ⟨eB, mB⟩ := hB.fixed s2
  obtain ⟨m1, msA1, msA2, hF1, hS, _, _⟩ := hA.split
  obtain ⟨e1, mF1⟩ := hF1.fixed s1
  have hb := hS.bounds.1
  refine ⟨by omega, mF1, ?_, ?_⟩
  · have : e - p - width F2 = mid - p := by omega
    rw [this]; exact mB
  · cases hS with
    | star j hj hall hr =>
      obtain ⟨_, hmid⟩ := hr.nil_inv
      have : m1 - p = width F1 := by omega
      rw [this] at hall
      have : e - p - width F1 - width F2 = j := by omega
      rw [this]; exact hall

theorem markless_of_all {p : Pat} (h : p.all (fun t => !t.isMark) = true) : markless p := by
  intro t ht
  have := List.all_eq_true.mp h t ht
  simpa using this

theorem plain_of_N {A : Word} {r : Nat} (h : matchesAt (List.replicate r .N) A) (hl : A.length = r) :
    C01.Plain A := by
  intro x hx
  obtain ⟨j, hj, rfl⟩ := List.getElem_of_mem hx
  have := h.2 j (by simp; omega) hj
  simpa using this

def ytkPre : Pat := lits [.C, .G, .T, .C, .T, .C] ++ nRun 1
def ytkG1 : Pat := [.cls .N, .cls .N, .cls .G, .cls .G]
def ytkF1 : Pat := lits [.T, .C, .T, .C] ++ nRun 5
def ytkF2 : Pat := nRun 5 ++ lits [.G, .A]
def ytkG3 : Pat := lits [.G, .A, .C, .C]
def ytkSuf : Pat := nRun 1 ++ lits [.G, .A, .G, .A, .C, .G]
/-- the closed form of `Model/Structure.lean`, as a three-group structure -/
theorem ytkProductPat_eq : ytkProductPat = threeGroup ytkPre ytkG1 (ytkF1 ++ [.star .N false] ++ ytkF2) ytkG3 ytkSuf := rfl


theorem slice_length (t : Word) (a b : Nat) (hab : a ≤ b) (hb : b ≤ t.length) : (slice t a b).length = b - a := by
  unfold slice; simp [List.length_take, List.length_drop]; omega

theorem matchesAt_slice {cs : List Nt} {t : Word} {a : Nat} (h : matchesAt cs (t.drop a)) :
    matchesAt cs (slice t a (a + cs.length)) := by
  unfold slice
  have : a + cs.length - a = cs.length := by omega
  rw [this]
  exact (matchesAt_take cs _ _ (Nat.le_refl _)).mpr h

theorem matchesAt_ntEq {cs : List Nt} {a b : Word} (h : NtEq a b) (hm : matchesAt cs a) : matchesAt cs b := by
  have hl := h.length
  obtain ⟨h1, h2⟩ := hm
  refine ⟨by omega, fun j hj hj' => ?_⟩
  have := h2 j hj (by omega)
  have hnt : (a[j]'(by omega)).nt = (b[j]'hj').nt := by
    have := congrArg (fun l => l[j]?) h
    simp only [List.getElem?_map] at this
    rw [List.getElem?_eq_getElem (by omega), List.getElem?_eq_getElem hj'] at this
    simpa using this
  unfold clsMatch at this ⊢
  rw [← hnt]; exact this

/-- **what a YTK product is made of**: in any fit of `YTKProduct.structure()` the upstream overhang and the
target read `n n · [GGTCTC · x · o5 · t · o3 · y · GA]`, the downstream overhang reads `GACC`: the next level's
site, its spacer, the type-specific overhangs around the template `t`, the spacer, and the first two letters
of the next level's reverse site, completed by the downstream overhang -/
theorem ytk_product_layout {text : Word} {ms : List Nat} {e : Nat} (h : Run ytkProductPat text 0 ms e) :
    ∃ b2 n12 S x o5 t o3 y GA,
      ms = [7, 11, 11, b2, b2, b2 + 4] ∧ b2 + 4 ≤ text.length ∧
      slice text 7 b2 = n12 ++ S ++ x ++ o5 ++ t ++ o3 ++ y ++ GA ∧
      n12.length = 2 ∧ S.length = 6 ∧ matchesAt [.G, .G, .T, .C, .T, .C] S ∧
      x.length = 1 ∧ o5.length = 4 ∧ o3.length = 4 ∧ y.length = 1 ∧ GA.length = 2 ∧ matchesAt [.G, .A] GA ∧
      matchesAt [.G, .A, .C, .C] (slice text b2 (b2 + 4)) ∧ C01.Plain (x ++ o5 ++ t ++ o3 ++ y) := by
  rw [ytkProductPat_eq] at h
  have mpre : markless ytkPre := markless_of_all (by decide)
  have mg2 : markless (ytkF1 ++ [.star .N false] ++ ytkF2) := markless_of_all (by decide)
  have msuf : markless ytkSuf := markless_of_all (by decide)
  obtain ⟨a1, b2, hms, hle1, hle2, rpre, hg1, rg2, hg3, rsuf⟩ :=
    threeGroup_run (k := 4) mpre mg2 msuf (by decide) (by decide) h
  have ea := (rpre.fixed (by decide)).1
  have ha1 : a1 = 7 := by simpa [ytkPre, width, lits, nRun] using ea
  subst ha1
  obtain ⟨hlen, hF1, hF2, hstar⟩ := rg2.fixed_star_fixed (by decide) (by decide)
  have w1 : width ytkF1 = 9 := by decide
  have w2 : width ytkF2 = 7 := by decide
  rw [w1, w2] at hlen
  rw [w2] at hF2
  rw [w1, w2] at hstar
  have hb := rsuf.bounds
  have hel : e ≤ text.length := by have := h.bounds.2.1; omega
  simp only [List.drop_drop] at hF2 hstar
  have l1 : letters ytkF1 = [.T, .C, .T, .C] ++ List.replicate 5 .N := by decide
  have l2 : letters ytkF2 = List.replicate 5 .N ++ [.G, .A] := by decide
  have lg1 : letters ytkG1 = [.N, .N] ++ [.G, .G] := by decide
  have lg3 : letters ytkG3 = [.G, .A, .C, .C] := by decide
  rw [l1] at hF1; rw [l2] at hF2; rw [lg1] at hg1; rw [lg3] at hg3
  have e1 : 7 + 4 + (b2 - (7 + 4) - 7) = b2 - 7 := by omega
  rw [e1] at hF2
  -- the pieces
  have hGG : matchesAt [.G, .G] (slice text 9 11) := by
    have := matchesAt_append_right hg1
    simp only [List.drop_drop, List.length_cons, List.length_nil] at this
    exact matchesAt_slice (cs := [.G, .G]) this
  have hTCTC : matchesAt [.T, .C, .T, .C] (slice text 11 15) :=
    matchesAt_slice (cs := [.T, .C, .T, .C]) (matchesAt_append_left hF1)
  have hN1 : matchesAt (List.replicate 5 .N) (slice text 15 20) := by
    have := matchesAt_append_right hF1
    simp only [List.drop_drop, List.length_cons, List.length_nil] at this
    have := matchesAt_slice (cs := List.replicate 5 .N) this
    simpa using this
  have hN2 : matchesAt (List.replicate 5 .N) (slice text (b2 - 7) (b2 - 2)) := by
    have := matchesAt_slice (cs := List.replicate 5 .N) (matchesAt_append_left hF2)
    have e2 : b2 - 7 + (List.replicate 5 Nt.N).length = b2 - 2 := by simp; omega
    rw [e2] at this; exact this
  have hGA : matchesAt [.G, .A] (slice text (b2 - 2) b2) := by
    have := matchesAt_append_right hF2
    simp only [List.drop_drop, List.length_replicate] at this
    have := matchesAt_slice (cs := [.G, .A]) this
    have e2 : b2 - 7 + 5 = b2 - 2 := by omega
    have e3 : b2 - 2 + ([Nt.G, Nt.A] : List Nt).length = b2 := by simp; omega
    rw [e2, e3] at this; exact this
  have hGACC : matchesAt [.G, .A, .C, .C] (slice text b2 (b2 + 4)) := matchesAt_slice (cs := [.G, .A, .C, .C]) hg3
  have hS : slice text 9 15 = slice text 9 11 ++ slice text 11 15 := (slice_join text 9 11 15 (by omega) (by omega)).symm
  refine ⟨b2, slice text 7 9, slice text 9 15, slice text 15 16, slice text 16 20, slice text 20 (b2 - 7),
    slice text (b2 - 7) (b2 - 3), slice text (b2 - 3) (b2 - 2), slice text (b2 - 2) b2, hms, by omega, ?_,
    slice_length _ _ _ (by omega) (by omega), slice_length _ _ _ (by omega) (by omega), ?_,
    slice_length _ _ _ (by omega) (by omega), slice_length _ _ _ (by omega) (by omega), ?_, ?_, ?_, hGA, hGACC, ?_⟩
  · rw [slice_join _ _ _ _ (by omega) (by omega), slice_join _ _ _ _ (by omega) (by omega),
      slice_join _ _ _ _ (by omega) (by omega), slice_join _ _ _ _ (by omega) (by omega),
      slice_join _ _ _ _ (by omega) (by omega), slice_join _ _ _ _ (by omega) (by omega),
      slice_join _ _ _ _ (by omega) (by omega)]
  · rw [hS]
    exact matchesAt_append (a := [.G, .G]) (b := [.T, .C, .T, .C]) hGG (slice_length _ _ _ (by omega) (by omega)) hTCTC
  · rw [slice_length _ _ _ (by omega) (by omega)]; omega
  · rw [slice_length _ _ _ (by omega) (by omega)]; omega
  · rw [slice_length _ _ _ (by omega) (by omega)]; omega
  · -- everything between the sites is matched by the wildcard
    have p1 : C01.Plain (slice text 15 20) := plain_of_N hN1 (slice_length _ _ _ (by omega) (by omega))
    have p2 : C01.Plain (slice text (b2 - 7) (b2 - 2)) :=
      plain_of_N hN2 (by rw [slice_length _ _ _ (by omega) (by omega)]; omega)
    have p3 : C01.Plain (slice text 20 (b2 - 7)) := by
      intro z hz
      apply hstar z
      unfold slice at hz
      have e2 : 7 + 4 + 9 = 20 := rfl
      have e3 : b2 - (7 + 4) - 9 - 7 = b2 - 7 - 20 := by omega
      rw [e2, e3]; exact hz
    have j1 : slice text 15 16 ++ slice text 16 20 = slice text 15 20 := slice_join _ _ _ _ (by omega) (by omega)
    have j2 : slice text (b2 - 7) (b2 - 3) ++ slice text (b2 - 3) (b2 - 2) = slice text (b2 - 7) (b2 - 2) :=
      slice_join _ _ _ _ (by omega) (by omega)
    have : slice text 15 16 ++ slice text 16 20 ++ slice text 20 (b2 - 7) ++ slice text (b2 - 7) (b2 - 3) ++
        slice text (b2 - 3) (b2 - 2) = slice text 15 20 ++ slice text 20 (b2 - 7) ++ slice text (b2 - 7) (b2 - 2) := by
      rw [j1, List.append_assoc (slice text 15 20 ++ slice text 20 (b2 - 7)), j2]
    rw [this]
    exact (C01.Plain_append _ _).mpr ⟨(C01.Plain_append _ _).mpr ⟨p1, p3⟩, p2⟩


theorem rotr_append_length (X Y : Word) : rotr (X ++ Y) Y.length = Y ++ X := by
  unfold rotr
  by_cases h : (X ++ Y).length = 0
  · have hx : X = [] := by cases X <;> simp_all
    have hy : Y = [] := by cases Y <;> simp_all
    subst hx hy; simp
  · simp only [List.length_append] at h ⊢
    rcases Nat.eq_zero_or_pos X.length with hx | hx
    · have hx' : X = [] := List.length_eq_zero_iff.mp hx
      subst hx'
      simp
    · have : Y.length % (X.length + Y.length) = Y.length := Nat.mod_eq_of_lt (by omega)
      simp [this, List.drop_append, List.take_append]

/-- **the YTK pair**: the product of a YTK product module inserted in a vector whose upstream overhang has the
key of the module's downstream overhang (`upv`, then the rest `B` of the vector's fragment) is — read from the
`GG` of the module's upstream overhang — a well-formed BsaI module `S·x·o5·t·o3·y·S'·b`: the next level's site,
spacer, overhang, the template, overhang, spacer, reverse site.  Hence (`C01.module_canonical`) the next-level
class accepts it at every rotation and its target `o5·t` contains the whole template, provided the template has
at least two letters and the product carries the BsaI structure once and passes the screen -/
theorem ytk_pair {text : Word} {ms : List Nat} {e : Nat} (h : Run ytkProductPat text 0 ms e) (upv B : Word)
    (hup : NtEq upv (slice text (ms.getD 3 0) (ms.getD 3 0 + 4))) :
    ∃ n12 S x o5 t o3 y S',
      slice text 7 (ms.getD 3 0) ++ upv ++ B = rotr (S ++ x ++ o5 ++ t ++ o3 ++ y ++ S' ++ (B ++ n12)) 2 ∧
      matchesAt bsaI.site S ∧ S.length = bsaI.site.length ∧
      matchesAt (rcNt bsaI.site) S' ∧ S'.length = bsaI.site.length ∧
      x.length = bsaI.off ∧ y.length = bsaI.off ∧ o5.length = bsaI.k ∧ o3.length = bsaI.k ∧
      C01.Plain (x ++ o5 ++ t ++ o3 ++ y) ∧
      (2 ≤ t.length →
        UniqueFit (moduleStructure bsaI) (S ++ x ++ o5 ++ t ++ o3 ++ y ++ S' ++ (B ++ n12)) →
        validCuts bsaI (S ++ x ++ o5 ++ t ++ o3 ++ y ++ S') ≤ 2 →
        ∀ r, C02.report { kind := .module, pat := moduleStructure bsaI, geom := bsaI }
          (rotr (S ++ x ++ o5 ++ t ++ o3 ++ y ++ S' ++ (B ++ n12)) r) = .ok (o5, o3, o5 ++ t, o5 ++ t)) := by
  obtain ⟨b2, n12, S, x, o5, t, o3, y, GA, hms, hb2, hsl, l0, lS, mS, lx, l5, l3, ly, lGA, mGA, mG3, hpl⟩ :=
    ytk_product_layout h
  have hb : ms.getD 3 0 = b2 := by rw [hms]; rfl
  rw [hb] at hup ⊢
  have hupl : upv.length = 4 := by
    rw [hup.length, slice_length _ _ _ (by omega) hb2]; omega
  have mS' : matchesAt (rcNt bsaI.site) (GA ++ upv) := by
    have : rcNt bsaI.site = [.G, .A] ++ [.G, .A, .C, .C] := by decide
    rw [this]
    exact matchesAt_append mGA lGA (matchesAt_ntEq hup.symm mG3)
  refine ⟨n12, S, x, o5, t, o3, y, GA ++ upv, ?_, mS, by rw [lS]; rfl, mS', by simp [lGA, hupl, bsaI], lx, ly, l5, l3,
    hpl, ?_⟩
  · rw [hsl]
    have := rotr_append_length (S ++ x ++ o5 ++ t ++ o3 ++ y ++ (GA ++ upv) ++ B) n12
    rw [l0] at this
    rw [← List.append_assoc _ B n12, this]
    simp [List.append_assoc]
  · intro ht hfit hscreen r
    exact C01.module_canonical bsaI S x o5 t o3 y (GA ++ upv) (B ++ n12) mS (by rw [lS]; rfl) mS'
      (by simp [lGA, hupl, bsaI]) lx ly l5 l3 ht hpl hfit hscreen r

end Moclo
