import Moclo.Proofs.Regex
/-! `DNARegex.search`: leftmost start in range, one-turn bound, shape of the recorded marks. -/
namespace Moclo

/-- the text matched against at start `i` -/
def textAt (w : Word) (circular : Bool) (i : Nat) : Word :=
  ((if circular then w ++ w else w).drop i).take w.length

/-- the pattern fits (for some run lengths) at start `i` -/
def FitsAt (p : Pat) (w : Word) (circular : Bool) (i : Nat) : Prop := ∃ n, Fits p (textAt w circular i) n

def searchHi (w : Word) : Option Nat → Nat
  | none => w.length
  | some e => min w.length e

/-- Shape of a successful search: start `i` in range, the relative marks of the anchored match on the
text at `i`, no fit at any earlier start of the range. -/
theorem search_spec {p : Pat} {w : Word} {c : Bool} {pos : Nat} {ep : Option Nat} {m : Match}
    (h : search p w c pos ep = some m) :
    ∃ i rel, pos ≤ i ∧ i < searchHi w ep ∧ relMatch p (textAt w c i) = some rel ∧
      m.marks = i :: (rel.reverse.map (· + i)) ∧
      ∀ j, pos ≤ j → j < i → relMatch p (textAt w c j) = none := by
  unfold search at h
  simp only [Option.map_eq_some_iff] at h
  obtain ⟨r, hr, hm⟩ := h
  obtain ⟨i, h1, h2, h3, h4⟩ := firstUp_some hr
  rw [matchToks_shift] at h3
  simp only [Option.map_eq_some_iff] at h3
  obtain ⟨rel, hrel, hrr⟩ := h3
  refine ⟨i, rel, h1, ?_, hrel, ?_, ?_⟩
  · unfold searchHi; cases ep <;> simp only [] at h2 ⊢ <;> omega
  · subst hm; subst hrr; simp [List.reverse_append, List.map_reverse]
  · intro j hj1 hj2
    have := h4 j hj1 hj2
    rw [matchToks_shift] at this
    simpa [textAt] using this

theorem search_none_spec {p : Pat} {w : Word} {c : Bool} {pos : Nat} {ep : Option Nat}
    (h : search p w c pos ep = none) :
    ∀ j, pos ≤ j → j < searchHi w ep → relMatch p (textAt w c j) = none := by
  unfold search at h
  simp only [Option.map_eq_none_iff] at h
  intro j h1 h2
  have := firstUp_none h j h1 (by unfold searchHi at h2; cases ep <;> simp only [] at h2 ⊢ <;> omega)
  rw [matchToks_shift] at this
  simpa [textAt] using this

theorem relMatch_isSome_iff (p : Pat) (xs : Word) : (relMatch p xs).isSome ↔ ∃ n, Fits p xs n :=
  matchToks_isSome_iff p xs 0 []

theorem relMatch_none_iff (p : Pat) (xs : Word) : relMatch p xs = none ↔ ¬ ∃ n, Fits p xs n := by
  rw [← relMatch_isSome_iff]; cases relMatch p xs <;> simp

/-- **leftmost**: the reported start is in range, the pattern fits there, and at no earlier start of
the range -/
theorem search_leftmost {p : Pat} {w : Word} {c : Bool} {pos : Nat} {ep : Option Nat} {m : Match}
    (h : search p w c pos ep = some m) :
    pos ≤ m.start ∧ m.start < searchHi w ep ∧ FitsAt p w c m.start ∧
      ∀ j, pos ≤ j → j < m.start → ¬ FitsAt p w c j := by
  obtain ⟨i, rel, h1, h2, h3, h4, h5⟩ := search_spec h
  have hs : m.start = i := by simp [Match.start, h4]
  rw [hs]
  refine ⟨h1, h2, ?_, ?_⟩
  · exact (relMatch_isSome_iff _ _).mp (by rw [h3]; rfl)
  · intro j hj1 hj2
    exact (relMatch_none_iff _ _).mp (h5 j hj1 hj2)

/-- no match is reported only when the pattern fits at no start of the range -/
theorem search_none_iff {p : Pat} {w : Word} {c : Bool} {pos : Nat} {ep : Option Nat} :
    search p w c pos ep = none ↔ ∀ j, pos ≤ j → j < searchHi w ep → ¬ FitsAt p w c j := by
  constructor
  · intro h j h1 h2
    exact (relMatch_none_iff _ _).mp (search_none_spec h j h1 h2)
  · intro h
    cases hs : search p w c pos ep with
    | none => rfl
    | some m =>
      obtain ⟨h1, h2, h3, _⟩ := search_leftmost hs
      exact absurd h3 (h _ h1 h2)

theorem textAt_length_le (w : Word) (c : Bool) (i : Nat) : (textAt w c i).length ≤ w.length := by
  unfold textAt; simp only [List.length_take]; omega

theorem textAt_linear_length (w : Word) (i : Nat) : (textAt w false i).length = w.length - i := by
  unfold textAt; simp [List.length_take, List.length_drop]

/-- the last recorded mark is `start + consumed length` -/
theorem relMatch_head {p : Pat} {xs : Word} {rel : List Nat} (h : relMatch p xs = some rel) :
    ∃ n, Fits p xs n ∧ rel.head? = some n := by
  obtain ⟨n, hf, hr⟩ := matchToks_sound p xs 0 [] rel h
  exact ⟨n, hf, by simpa using hr⟩

theorem search_stop {p : Pat} {w : Word} {c : Bool} {pos : Nat} {ep : Option Nat} {m : Match}
    (h : search p w c pos ep = some m) :
    ∃ n, Fits p (textAt w c m.start) n ∧ m.stop = m.start + n := by
  obtain ⟨i, rel, h1, h2, h3, h4, h5⟩ := search_spec h
  obtain ⟨n, hf, hh⟩ := relMatch_head h3
  have hs : m.start = i := by simp [Match.start, h4]
  refine ⟨n, hs ▸ hf, ?_⟩
  rw [hs]
  cases rel with
  | nil => simp at hh
  | cons a rest =>
    simp at hh; subst hh
    simp [Match.stop, h4, List.getLastD]
    omega

/-- **one turn**: a match never covers more than one full turn; on a linear target it never runs
past the end -/
theorem search_one_turn {p : Pat} {w : Word} {c : Bool} {pos : Nat} {ep : Option Nat} {m : Match}
    (h : search p w c pos ep = some m) :
    m.start ≤ m.stop ∧ m.stop - m.start ≤ w.length ∧ (c = false → m.stop ≤ w.length) := by
  obtain ⟨n, hf, hs⟩ := search_stop h
  have hl := hf.le_length
  refine ⟨by omega, ?_, ?_⟩
  · have := textAt_length_le w c m.start; omega
  · intro hc; subst hc
    rw [textAt_linear_length] at hl
    obtain ⟨_, h2, _, _⟩ := search_leftmost h
    have : searchHi w ep ≤ w.length := by unfold searchHi; cases ep <;> simp <;> omega
    omega

end Moclo
