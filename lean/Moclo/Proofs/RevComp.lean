import Moclo.Proofs.Narrow
/-! Reverse complement of patterns and of runs. -/
namespace Moclo

/-- the pattern that matches the reverse complement: tokens in reverse order, letters complemented, group
boundaries exchanged -/
def rcTok : Tok → Tok
  | .cls c => .cls c.compl
  | .star c g => .star c.compl g
  | .gopen => .gclose
  | .gclose => .gopen

def rcPattern (p : Pat) : Pat := (p.map rcTok).reverse

theorem compl_compl (x : Nt) : x.compl.compl = x := by cases x <;> rfl

theorem rcNt_rcNt (s : List Nt) : rcNt (rcNt s) = s := by
  unfold rcNt
  rw [List.map_reverse, List.reverse_reverse, List.map_map]
  have : (Nt.compl ∘ Nt.compl) = id := by funext x; exact compl_compl x
  rw [this, List.map_id]

theorem rcPattern_append (a b : Pat) : rcPattern (a ++ b) = rcPattern b ++ rcPattern a := by
  simp [rcPattern]

theorem rcPattern_lits (s : List Nt) : rcPattern (lits s) = lits (rcNt s) := by
  simp [rcPattern, lits, rcNt, List.map_map, Function.comp_def, rcTok, List.map_reverse]

theorem rcPattern_nRun (n : Nat) : rcPattern (nRun n) = nRun n := by
  simp [rcPattern, nRun, rcTok, Nt.compl]

/-- **the generic module structure is its own reverse complement** (with the roles of the groups exchanged:
what was group 1 is read as group 3 on the other strand), for every geometry -/
theorem rcPattern_module (g : Geom) : rcPattern (moduleStructure g) = moduleStructure g := by
  simp only [moduleStructure, rcPattern_append, rcPattern_lits, rcPattern_nRun, rcNt_rcNt]
  simp [rcPattern, rcTok, Nt.compl, List.append_assoc]

/-- … and so is the generic vector structure -/
theorem rcPattern_vector (g : Geom) : rcPattern (vectorStructure g) = vectorStructure g := by
  simp only [vectorStructure, rcPattern_append, rcPattern_lits, rcPattern_nRun, rcNt_rcNt]
  simp [rcPattern, rcTok, Nt.compl, List.append_assoc]

theorem clsMatch_compl (c : Nt) (x : Sym) : clsMatch c.compl x.compl = clsMatch c x := by
  obtain ⟨nt, lo⟩ := x
  cases c <;> cases nt <;> rfl

/-- runs do not depend on where the text is placed -/
theorem Run.shift {ts : Pat} {xs : Word} {p : Nat} {ms : List Nat} {e : Nat} (h : Run ts xs p ms e) (q : Nat) :
    Run ts xs q (ms.map (fun m => m - p + q)) (e - p + q) := by
  induction h generalizing q with
  | nil xs p => simpa using Run.nil xs q
  | @cls c x ts xs p ms e hc hr ih =>
    have hb := hr.bounds
    have := ih (q + 1)
    have e1 : e - (p + 1) + (q + 1) = e - p + q := by omega
    rw [e1] at this
    have e2 : ms.map (fun m => m - (p + 1) + (q + 1)) = ms.map (fun m => m - p + q) := by
      apply List.map_congr_left; intro m hm; have := hb.2.2 m hm; omega
    rw [e2] at this
    exact Run.cls hc this
  | @gopen ts xs p ms e hr ih =>
    have := ih q
    simp only [List.map_cons, Nat.sub_self, Nat.zero_add]
    exact Run.gopen this
  | @gclose ts xs p ms e hr ih =>
    have := ih q
    simp only [List.map_cons, Nat.sub_self, Nat.zero_add]
    exact Run.gclose this
  | @star c g ts xs p ms e j hj hall hr ih =>
    have hb := hr.bounds
    have := ih (q + j)
    have e1 : e - (p + j) + (q + j) = e - p + q := by omega
    rw [e1] at this
    have e2 : ms.map (fun m => m - (p + j) + (q + j)) = ms.map (fun m => m - p + q) := by
      apply List.map_congr_left; intro m hm; have := hb.2.2 m hm; omega
    rw [e2] at this
    exact Run.star j hj hall this

theorem Run.nil_inv {xs : Word} {p : Nat} {ms : List Nat} {e : Nat} (h : Run [] xs p ms e) : ms = [] ∧ e = p := by
  cases h; exact ⟨rfl, rfl⟩

/-- a run on a text is a run on any longer text -/
theorem Run.extend {ts : Pat} {xs : Word} {p : Nat} {ms : List Nat} {e : Nat} (h : Run ts xs p ms e) (ys : Word) :
    Run ts (xs ++ ys) p ms e := by
  induction h with
  | nil xs p => exact Run.nil _ _
  | cls hc _ ih => exact Run.cls hc ih
  | gopen _ ih => exact Run.gopen ih
  | gclose _ ih => exact Run.gclose ih
  | @star c g ts xs p ms e j hj hall hr ih =>
    refine Run.star j (by simp; omega) ?_ ?_
    · rw [List.take_append_of_le_length hj]; exact hall
    · rw [List.drop_append_of_le_length hj]; exact ih

theorem rc_cons (x : Sym) (xs : Word) : rc (x :: xs) = rc xs ++ [x.compl] := by simp [rc]
theorem rc_append' (a b : Word) : rc (a ++ b) = rc b ++ rc a := by simp [rc]
@[simp] theorem rc_length' (w : Word) : (rc w).length = w.length := by simp [rc]

/-- **a structure fits a word exactly iff its reverse-complement pattern fits the reverse complement of the
word**, the group boundaries being mirrored (`m ↦ length - m`, in reverse order) -/
theorem Run.rc_exact : ∀ (ts : Pat) (xs : Word) (ms : List Nat), Run ts xs 0 ms xs.length →
    Run (rcPattern ts) (rc xs) 0 (ms.reverse.map (fun m => xs.length - m)) xs.length := by
  intro ts
  induction ts with
  | nil =>
    intro xs ms h
    obtain ⟨h1, h2⟩ := h.nil_inv
    subst h1
    have : xs = [] := List.length_eq_zero_iff.mp h2
    subst this
    simpa [rcPattern, rc] using Run.nil ([] : Word) 0
  | cons t ts ih =>
    intro xs ms h
    cases t with
    | cls c =>
      cases h with
      | @cls _ x _ xs' _ _ _ hc hr =>
        have hs := hr.shift 0
        simp only [List.length_cons, Nat.add_sub_cancel, Nat.add_zero] at hs
        have hi := ih xs' _ hs
        have hlast : Run [Tok.cls c.compl] ((rc xs' ++ [x.compl]).drop (xs'.length - 0)) xs'.length [] (xs'.length + 1) := by
          have : (rc xs' ++ [x.compl]).drop (xs'.length - 0) = [x.compl] := by
            rw [Nat.sub_zero, List.drop_append_of_le_length (by simp)]; simp
          rw [this]
          exact Run.cls (by rw [clsMatch_compl]; exact hc) (Run.nil _ _)
        have hj := Run.join (xs := rc xs' ++ [x.compl]) (by
          -- the run on `rc xs'` is also a run on the longer text
          have : Run (rcPattern ts) (rc xs' ++ [x.compl]) 0 _ xs'.length := Run.extend hi [x.compl]
          exact this) hlast
        have hb := hr.bounds
        rw [show rcPattern (Tok.cls c :: ts) = rcPattern ts ++ [Tok.cls c.compl] by simp [rcPattern, rcTok], rc_cons]
        simp only [List.append_nil] at hj
        have e2 : List.map (fun m => xs'.length - m) (List.map (fun m => m - (0 + 1)) ms).reverse =
            ms.reverse.map (fun m => (x :: xs').length - m) := by
          rw [List.map_reverse, List.map_reverse, List.map_map]
          congr 1
          apply List.map_congr_left; intro m hm
          have := hb.2.2 m hm
          simp only [Function.comp, List.length_cons]; omega
        rw [e2] at hj
        simpa using hj
    | gopen =>
      cases h with
      | gopen hr =>
        rename_i ms'
        have hi := ih xs ms' hr
        have hlast : Run [Tok.gclose] ((rc xs).drop (xs.length - 0)) xs.length [xs.length] xs.length :=
          Run.gclose (Run.nil _ _)
        have hj := Run.join hi hlast
        rw [show rcPattern (Tok.gopen :: ts) = rcPattern ts ++ [Tok.gclose] by simp [rcPattern, rcTok]]
        simpa using hj
    | gclose =>
      cases h with
      | gclose hr =>
        rename_i ms'
        have hi := ih xs ms' hr
        have hlast : Run [Tok.gopen] ((rc xs).drop (xs.length - 0)) xs.length [xs.length] xs.length :=
          Run.gopen (Run.nil _ _)
        have hj := Run.join hi hlast
        rw [show rcPattern (Tok.gclose :: ts) = rcPattern ts ++ [Tok.gopen] by simp [rcPattern, rcTok]]
        simpa using hj
    | star c g =>
      cases h with
      | star j hj hall hr =>
        have hb := hr.bounds
        have hs := hr.shift 0
        simp only [Nat.zero_add, Nat.add_zero] at hs
        have hlen : xs.length - j = (xs.drop j).length := by simp
        rw [hlen] at hs
        have hi := ih (xs.drop j) _ hs
        have hsplit : rc xs = rc (xs.drop j) ++ rc (xs.take j) := by
          conv_lhs => rw [← List.take_append_drop j xs]
          exact rc_append' _ _
        have hlast : Run [Tok.star c.compl g] ((rc (xs.drop j) ++ rc (xs.take j)).drop ((xs.drop j).length - 0))
            (xs.drop j).length [] ((xs.drop j).length + j) := by
          have : (rc (xs.drop j) ++ rc (xs.take j)).drop ((xs.drop j).length - 0) = rc (xs.take j) := by
            rw [Nat.sub_zero, List.drop_append_of_le_length (by simp)]; simp
          rw [this]
          refine Run.star j (by simp; omega) ?_ ?_
          · intro y hy
            have : y ∈ rc (xs.take j) := List.mem_of_mem_take hy
            simp only [rc, List.mem_reverse, List.mem_map] at this
            obtain ⟨x0, hx0, rfl⟩ := this
            rw [clsMatch_compl]; exact hall x0 hx0
          · have : (rc (xs.take j)).drop j = [] := by
              apply List.drop_eq_nil_of_le; simp; omega
            rw [this]; exact Run.nil _ _
        have hj' := Run.join (Run.extend hi (rc (xs.take j))) hlast
        rw [show rcPattern (Tok.star c g :: ts) = rcPattern ts ++ [Tok.star c.compl g] by simp [rcPattern, rcTok], hsplit]
        simp only [List.append_nil] at hj'
        have e2 : (ms.map (fun m => m - j)).reverse.map (fun m => (xs.drop j).length - m) =
            ms.reverse.map (fun m => xs.length - m) := by
          rw [List.map_reverse, List.map_reverse, List.map_map]
          congr 1
          apply List.map_congr_left; intro m hm
          have := hb.2.2 m hm
          simp only [Function.comp, List.length_drop]; omega
        rw [e2] at hj'
        have e3 : (xs.drop j).length + j = xs.length := by simp; omega
        rw [e3] at hj'
        exact hj'

end Moclo

namespace Moclo

/-- a run that ends at `e` only looks at the letters before `e` -/
theorem Run.restrict {ts : Pat} {xs : Word} {p : Nat} {ms : List Nat} {e : Nat} (h : Run ts xs p ms e) :
    Run ts (xs.take (e - p)) p ms e := by
  induction h with
  | nil xs p => exact Run.nil _ _
  | @cls c x ts xs p ms e hc hr ih =>
    have hb := hr.bounds.1
    have : e - p = (e - (p + 1)) + 1 := by omega
    rw [this, List.take_succ_cons]
    exact Run.cls hc ih
  | gopen _ ih => exact Run.gopen ih
  | gclose _ ih => exact Run.gclose ih
  | @star c g ts xs p ms e j hj hall hr ih =>
    have hb := hr.bounds
    have hje : j ≤ e - p := by omega
    refine Run.star j (by simp only [List.length_take]; omega) ?_ ?_
    · rw [List.take_take, Nat.min_eq_left hje]; exact hall
    · rw [List.drop_take]
      have : e - p - j = e - (p + j) := by omega
      rw [this]; exact ih

theorem slice_rc (A : Word) (a b : Nat) (hab : a ≤ b) (hb : b ≤ A.length) :
    slice (rc A) (A.length - b) (A.length - a) = rc (slice A a b) := by
  unfold slice rc
  have e1 : A.length - a - (A.length - b) = b - a := by omega
  rw [e1]
  have hl : (A.map Sym.compl).length = A.length := by simp
  rw [List.map_take, List.map_drop]
  generalize hM : A.map Sym.compl = M at hl
  have h1 := (reverse_take_drop M b (A.length - b) (by rw [hl]; omega)).1
  rw [h1]
  have hlb : (M.take b).length = b := by simp [hl]; omega
  have h2 := (reverse_take_drop (M.take b) a (b - a) (by rw [hlb]; omega)).2
  rw [h2, List.drop_take]

end Moclo

namespace Moclo

theorem rc_isRotated {w w' : Word} (h : w ~r w') : rc w ~r rc w' := by
  unfold rc; exact (h.map _).reverse

/-- strand symmetry of fitting on the circle, with the whole mirrored window made explicit: the window of the
reverse complement is the reverse complement of the consumed letters followed by the reverse complement of
the rest of the circle -/
theorem fits_rc_circular_window {p : Pat} {w : Word} {i : Nat} {ms : List Nat} {e : Nat} (hi : i < w.length)
    (h : Run p (window w i) 0 ms e) :
    ∃ j, j < w.length ∧ Run (rcPattern p) (window (rc w) j) 0 (ms.reverse.map (fun m => e - m)) e ∧
      window (rc w) j = rc ((window w i).take e) ++ rc ((window w i).drop e) ∧ e ≤ w.length := by
  have hn : 0 < w.length := by omega
  have hwl := window_length w i (Nat.le_of_lt hi)
  have he : e ≤ w.length := by have := h.bounds.2.1; omega
  set text := window w i with htext
  have hA := h.restrict
  simp only [Nat.sub_zero] at hA
  have hAl : (text.take e).length = e := by simp [hwl]; omega
  have hrc := Run.rc_exact p (text.take e) ms (by rw [hAl]; exact hA)
  rw [hAl] at hrc
  have hrot : (rc (text.take e) ++ rc (text.drop e)) ~r rc w := by
    have h1 : text ~r w := by rw [htext, window_eq_rotate w i (Nat.le_of_lt hi)]; exact List.IsRotated.forall _ _
    have h2 : rc text ~r rc w := rc_isRotated h1
    have h3 : rc text = rc (text.drop e) ++ rc (text.take e) := by
      conv_lhs => rw [← List.take_append_drop e text]
      exact rc_append' _ _
    rw [h3] at h2
    exact (List.isRotated_append).trans h2
  obtain ⟨j0, hj0⟩ := hrot.symm
  have hw : window (rc w) (j0 % w.length) = rc (text.take e) ++ rc (text.drop e) := by
    rw [window_eq_rotate _ _ (by rw [rc_length']; exact Nat.le_of_lt (Nat.mod_lt _ hn))]
    have : (rc w).rotate (j0 % w.length) = (rc w).rotate j0 := by
      conv_rhs => rw [← List.rotate_mod]
      rw [rc_length']
    rw [this, hj0]
  refine ⟨j0 % w.length, Nat.mod_lt _ hn, ?_, hw, he⟩
  rw [hw]
  exact Run.extend hrc _

/-- **strand symmetry of fitting, on the circle**: if a pattern fits the window of a circular record at some
start, its reverse-complement pattern fits a window of the reverse-complemented record, consuming the same
number of letters, with mirrored group boundaries — and the letters it consumes are the reverse complement of
the letters the pattern consumed -/
theorem fits_rc_circular {p : Pat} {w : Word} {i : Nat} {ms : List Nat} {e : Nat} (hi : i < w.length)
    (h : Run p (window w i) 0 ms e) :
    ∃ j, j < w.length ∧ Run (rcPattern p) (window (rc w) j) 0 (ms.reverse.map (fun m => e - m)) e ∧
      (window (rc w) j).take e = rc ((window w i).take e) := by
  have hn : 0 < w.length := by omega
  have hwl := window_length w i (Nat.le_of_lt hi)
  have he : e ≤ w.length := by have := h.bounds.2.1; omega
  set text := window w i with htext
  have hA := h.restrict
  simp only [Nat.sub_zero] at hA
  have hAl : (text.take e).length = e := by simp [hwl]; omega
  have hrc := Run.rc_exact p (text.take e) ms (by rw [hAl]; exact hA)
  rw [hAl] at hrc
  -- rc A ++ rc B is a rotation of rc w
  have hrot : (rc (text.take e) ++ rc (text.drop e)) ~r rc w := by
    have h1 : text ~r w := by rw [htext, window_eq_rotate w i (Nat.le_of_lt hi)]; exact List.IsRotated.forall _ _
    have h2 : rc text ~r rc w := rc_isRotated h1
    have h3 : rc text = rc (text.drop e) ++ rc (text.take e) := by
      conv_lhs => rw [← List.take_append_drop e text]
      exact rc_append' _ _
    rw [h3] at h2
    exact (List.isRotated_append).trans h2
  obtain ⟨j0, hj0⟩ := hrot.symm
  refine ⟨j0 % w.length, Nat.mod_lt _ hn, ?_, ?_⟩
  · have hw : window (rc w) (j0 % w.length) = rc (text.take e) ++ rc (text.drop e) := by
      rw [window_eq_rotate _ _ (by rw [rc_length']; exact Nat.le_of_lt (Nat.mod_lt _ hn))]
      have : (rc w).rotate (j0 % w.length) = (rc w).rotate j0 := by
        conv_rhs => rw [← List.rotate_mod]
        rw [rc_length']
      rw [this, hj0]
    rw [hw]
    exact Run.extend hrc _
  · have hw : window (rc w) (j0 % w.length) = rc (text.take e) ++ rc (text.drop e) := by
      rw [window_eq_rotate _ _ (by rw [rc_length']; exact Nat.le_of_lt (Nat.mod_lt _ hn))]
      have : (rc w).rotate (j0 % w.length) = (rc w).rotate j0 := by
        conv_rhs => rw [← List.rotate_mod]
        rw [rc_length']
      rw [this, hj0]
    rw [hw, List.take_append_of_le_length (by simp [hAl])]
    rw [List.take_of_length_le (by simp [hAl])]

end Moclo
