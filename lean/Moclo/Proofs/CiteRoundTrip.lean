import Moclo.Proofs.Layout
/-!
# Renumbering then dereferencing gives the cited papers back

`_ref_citations` writes the citations of a product as bracketed numbers into its own reference list;
`_deref_citations`, run on that product when it is an input of the next assembly, must find behind every
number the very paper the source feature cited — whatever the number of papers (no bound on the number of
digits) and however often a paper is cited.
-/
namespace Moclo

theorem mapM_some_of_forall2 {α β : Type} (f : α → Option β) :
    ∀ (xs : List α) (ys : List β), List.Forall₂ (fun x y => f x = some y) xs ys → xs.mapM f = some ys
  | [], _, h => by cases h; rfl
  | x :: xs, _, h => by
    cases h with
    | cons hxy ht =>
      rw [List.mapM_cons, hxy, mapM_some_of_forall2 f xs _ ht]
      rfl

/-- every citation entry is a dereferenced paper -/
def AllRefs (cs : List Cite) : Prop := ∀ c ∈ cs, ∃ r, c = Cite.ref r

theorem deref_of_numbered (refs : List Nat) :
    ∀ (cs cs' : List Cite), AllRefs cs →
      List.Forall₂ (fun c c' => match c with
        | .ref r => ∃ i, c' = .idx (i + 1) ∧ refs[i]? = some r
        | .idx i => c' = .idx i) cs cs' →
      cs'.mapM (derefCite refs) = some cs := by
  intro cs cs' hall h
  apply mapM_some_of_forall2
  induction h with
  | nil => exact List.Forall₂.nil
  | @cons c c' l l' hcc _ ih =>
    refine List.Forall₂.cons ?_ (ih (fun d hd => hall d (List.mem_cons_of_mem _ hd)))
    obtain ⟨r, rfl⟩ := hall c (List.mem_cons_self ..)
    obtain ⟨i, rfl, hi⟩ := hcc
    simp [derefCite, hi]

theorem derefFeatures_of_numbered (refs : List Nat) :
    ∀ (fs out : List Feature), (∀ f ∈ fs, AllRefs f.cites) →
      List.Forall₂ (fun f f' => List.Forall₂ (fun c c' => match c with
        | .ref r => ∃ i, c' = .idx (i + 1) ∧ refs[i]? = some r
        | .idx i => c' = .idx i) f.cites f'.cites) fs out →
      List.Forall₂ (fun f f' => f'.ftype = f.ftype ∧ f'.qual = f.qual ∧ f'.parts = f.parts ∧
        (f.cites = [] → f'.cites = [])) fs out →
      List.Forall₂ (fun f' f => derefFeature refs f' = some f) out fs := by
  intro fs out hall h4 hshape
  induction h4 with
  | nil => exact List.Forall₂.nil
  | @cons f f' l l' hff _ ih =>
    cases hshape with
    | cons hs hst =>
      refine List.Forall₂.cons ?_ (ih (fun g hg => hall g (List.mem_cons_of_mem _ hg)) hst)
      unfold derefFeature
      rw [deref_of_numbered refs f.cites f'.cites (hall f (List.mem_cons_self ..)) hff]
      obtain ⟨h1, h2, h3, _⟩ := hs
      cases f; cases f'
      simp_all

/-- **next level**: the numbered citations of a product, dereferenced against the product's own reference
list, are the papers its features cited before the renumbering -/
theorem deref_reref (pre : Rec) (hall : ∀ f ∈ pre.feats, AllRefs f.cites) :
    derefRec (rerefRec { pre with refs := [] }) =
      some { pre with refs := (rerefRec { pre with refs := [] }).refs } := by
  obtain ⟨_, _, h4⟩ := rerefFeatures_spec [] pre.feats (by simp)
  have hshape := rerefFeatures_shape [] pre.feats
  unfold derefRec
  have hfe : (rerefRec { pre with refs := [] }).feats = (rerefFeatures [] pre.feats).2 := rfl
  have hre : (rerefRec { pre with refs := [] }).refs = (rerefFeatures [] pre.feats).1 := rfl
  have hm : (rerefFeatures [] pre.feats).2.mapM (derefFeature (rerefFeatures [] pre.feats).1) = some pre.feats :=
    mapM_some_of_forall2 _ _ _ (derefFeatures_of_numbered _ _ _ hall h4 hshape)
  rw [hfe, hre, hm]
  rfl

end Moclo

namespace Moclo

/-- every citation entry of every feature of the record is a dereferenced paper -/
def RefsOnly (r : Rec) : Prop := ∀ f ∈ r.feats, AllRefs f.cites

theorem derefCite_isRef {refs : List Nat} {c c' : Cite} (h : derefCite refs c = some c') : ∃ r, c' = .ref r := by
  cases c with
  | ref x => simp only [derefCite, Option.some.injEq] at h; exact ⟨x, h.symm⟩
  | idx i =>
    simp only [derefCite] at h
    split at h
    · cases h
    · cases hx : refs[i-1]? with
      | none => simp [hx] at h
      | some x => simp [hx] at h; exact ⟨x, h.symm⟩

theorem forall2_right_mem {α β : Type} {R : α → β → Prop} {l : List α} {l' : List β}
    (h : List.Forall₂ R l l') : ∀ b ∈ l', ∃ a ∈ l, R a b := by
  induction h with
  | nil => intro b hb; cases hb
  | @cons a b l l' hab _ ih =>
    intro x hx
    rcases List.mem_cons.mp hx with rfl | hx
    · exact ⟨a, List.mem_cons_self .., hab⟩
    · obtain ⟨y, hy, hr⟩ := ih x hx
      exact ⟨y, List.mem_cons_of_mem _ hy, hr⟩

theorem derefFeature_allRefs {refs : List Nat} {f f' : Feature} (h : derefFeature refs f = some f') :
    AllRefs f'.cites := by
  unfold derefFeature at h
  cases hc : f.cites.mapM (derefCite refs) with
  | none => simp [hc] at h
  | some cs =>
    simp [hc] at h; subst h
    intro c hc'
    obtain ⟨c0, _, h0⟩ := forall2_right_mem (mapM_option_forall2 _ _ _ hc) c hc'
    exact derefCite_isRef h0

theorem derefRec_refsOnly {r r' : Rec} (h : derefRec r = some r') : RefsOnly r' := by
  obtain ⟨_, _, _, h4⟩ := derefRec_fields h
  intro f' hf'
  obtain ⟨f, _, hff⟩ := forall2_right_mem h4 f' hf'
  exact derefFeature_allRefs hff

theorem Feature.rotr_cites (n k : Nat) (f : Feature) : (f.rotr n k).cites = f.cites := by
  unfold Feature.rotr; split <;> rfl

theorem RefsOnly.rotr {r : Rec} (h : RefsOnly r) (k : Int) : RefsOnly (r.rotr k) := by
  unfold Rec.rotr
  simp only []
  split
  · exact h
  · intro f hf
    simp only [List.mem_map] at hf
    obtain ⟨g, hg, rfl⟩ := hf
    rw [Feature.rotr_cites]; exact h g hg

theorem RefsOnly.rotl {r : Rec} (h : RefsOnly r) (k : Int) : RefsOnly (r.rotl k) := h.rotr _

theorem RefsOnly.slice {r : Rec} (h : RefsOnly r) (a b : Nat) : RefsOnly (r.slice a b) := by
  intro f hf
  simp only [Rec.slice, List.mem_map, List.mem_filter] at hf
  obtain ⟨g, ⟨hg, _⟩, rfl⟩ := hf
  exact h g hg

theorem RefsOnly.addSource {r : Rec} (h : RefsOnly r) (rid : Nat) : RefsOnly (addSource rid r) := by
  intro f hf
  simp only [Moclo.addSource, List.mem_append, List.mem_singleton] at hf
  rcases hf with hf | rfl
  · exact h f hf
  · intro c hc; simp [sourceFeature] at hc

theorem RefsOnly.append {x y : Rec} (hx : RefsOnly x) (hy : RefsOnly y) : RefsOnly (x.append y) := by
  intro f hf
  simp only [Rec.append, List.mem_append, List.mem_map] at hf
  rcases hf with hf | ⟨g, hg, rfl⟩
  · exact hx f hf
  · exact hy g hg

theorem RefsOnly.target {c : ClassSpec} {r t : Rec} (h : RefsOnly r) (ht : c.target r = .ok t) : RefsOnly t := by
  unfold ClassSpec.target at ht
  cases hm : c.matchSeq r.seq with
  | error e => rw [hm] at ht; cases ht
  | ok m =>
    rw [hm] at ht
    simp only [Except.map, Except.ok.injEq] at ht
    subst ht
    unfold ClassSpec.targetOf
    simp only []
    apply RefsOnly.addSource
    cases c.kind <;> exact (h.rotl _).slice _ _

theorem extractChain_refsOnly {ents : List Ent} (he : ∀ e ∈ ents, RefsOnly e.rcd) :
    ∀ (gs : List (GMod Word)) (acc r : Rec), RefsOnly acc → extractChain ents gs acc = .ok r → RefsOnly r
  | [], acc, r, ha, h => by simp only [extractChain, Except.ok.injEq] at h; subst h; exact ha
  | g :: gs, acc, r, ha, h => by
    simp only [extractChain] at h
    cases hf : ents.find? (fun e => e.oid = g.oid) with
    | none => rw [hf] at h; cases h
    | some e =>
      rw [hf] at h; simp only [] at h
      split at h
      · cases h
      · cases ht : e.spec.target e.rcd with
        | error err => rw [ht] at h; cases h
        | ok t =>
          rw [ht] at h; simp only [] at h
          exact extractChain_refsOnly he gs _ r
            (ha.append ((he e (List.mem_of_find?_eq_some hf)).target ht)) h

/-- **the product of any successful assembly can be taken to the next level**: its citations are numbers
into its own reference list, and dereferencing them — the first thing the next assembly does with it — succeeds
and puts behind every citation the paper the (dereferenced) source feature cited -/
theorem product_derefs {v : Ent} {mods : List Ent} {pid pname : Nat} {p : Product} {after : List Rec}
    (h : assemble v mods pid pname = (.ok p, after)) :
    ∃ pre : Rec, RefsOnly pre ∧ p.rcd = rerefRec { pre with refs := [] } ∧
      derefRec p.rcd = some { pre with refs := p.rcd.refs } := by
  unfold assemble at h
  simp only [] at h
  split at h
  · cases h
  · rename_i gv hgv
    split at h
    · cases h
    · split at h
      · cases h
      · rename_i map hb
        split at h
        · cases h
        · split at h
          · cases h
          · split at h
            · rename_i dms dv hdm hdv
              have hms := derefEnts_spec hdm
              cases hr : derefRec v.rcd with
              | none => simp [hr] at hdv
              | some r =>
                simp [hr] at hdv; subst hdv
                simp only [Prod.mk.injEq] at h
                obtain ⟨hcore, _⟩ := h
                unfold assembleCore at hcore
                simp only [] at hcore
                generalize gWalk gv.start (map.length + 1) gv.stop map = w at hcore
                obtain ⟨chain, rest, stall⟩ := w
                simp only [] at hcore
                split at hcore
                · cases hcore
                · rename_i acc hex
                  split at hcore
                  · cases hcore
                  · split at hcore
                    · cases hcore
                    · split at hcore
                      · cases hcore
                      · rename_i vt hvt
                        simp only [Except.ok.injEq] at hcore
                        subst hcore
                        have hdms : ∀ d ∈ dms, RefsOnly d.rcd := by
                          intro d hd
                          obtain ⟨e, _, hed⟩ := forall2_right_mem hms d hd
                          exact derefRec_refsOnly hed.2.2.2
                        have hacc : RefsOnly acc :=
                          extractChain_refsOnly hdms chain _ acc (by intro f hf; cases hf) hex
                        have hvt' : RefsOnly vt := RefsOnly.target (derefRec_refsOnly hr) hvt
                        refine ⟨{ (acc.append vt) with rid := pid }, hacc.append hvt', rfl, ?_⟩
                        exact deref_reref { (acc.append vt) with rid := pid } (hacc.append hvt')
            · cases h

end Moclo
