import Moclo.Props.C03
/-! The overhang graph of the reverse-complemented inputs: every module `a → b` becomes `rc b → rc a`, the
vector `(up, down)` becomes `(rc down, rc up)`, and the chain is walked backwards. -/
namespace Moclo
variable {O : Type} [DecidableEq O]

/-- a module seen on the other strand -/
def GMod.flip (rc : O → O) (m : GMod O) : GMod O := { start := rc m.stop, stop := rc m.start, oid := m.oid }

def stops (l : List (GMod O)) : List O := l.map (·.stop)

theorem isPath_append {a b c : O} {l1 l2 : List (GMod O)} (h1 : IsPath a l1 b) (h2 : IsPath b l2 c) :
    IsPath a (l1 ++ l2) c := by
  induction l1 generalizing a with
  | nil => simp only [IsPath] at h1; subst h1; simpa using h2
  | cons m l ih => exact ⟨h1.1, ih h1.2⟩

/-- the reversed chain of flipped modules is a path between the flipped ends -/
theorem isPath_flip (rc : O → O) {a b : O} {l : List (GMod O)} (h : IsPath a l b) :
    IsPath (rc b) (l.reverse.map (GMod.flip rc)) (rc a) := by
  induction l generalizing a with
  | nil => simp only [IsPath] at h; subst h; rfl
  | cons m l ih =>
    obtain ⟨hs, hp⟩ := h
    simp only [List.reverse_cons, List.map_append, List.map_cons, List.map_nil]
    refine isPath_append (ih hp) ?_
    exact ⟨rfl, by simp [GMod.flip, IsPath, hs]⟩

/-- in a path the downstream overhangs are the upstream overhangs shifted by one, then the end -/
theorem stops_of_path {a b : O} {l : List (GMod O)} (h : IsPath a l b) (hne : l ≠ []) :
    stops l = (keys l).tail ++ [b] := by
  induction l generalizing a with
  | nil => exact absurd rfl hne
  | cons m l ih =>
    obtain ⟨_, hp⟩ := h
    cases l with
    | nil => simp only [IsPath] at hp; simp [stops, keys, hp]
    | cons m2 l2 =>
      have := ih hp (by simp)
      simp only [stops, keys, List.map_cons, List.tail_cons] at this ⊢
      rw [this]
      simp [hp.1]

theorem stops_nodup {a b : O} {l : List (GMod O)} (h : IsPath a l b) (hn : (keys l).Nodup)
    (hb : ∀ m ∈ l, m.start ≠ b) : (stops l).Nodup := by
  by_cases hne : l = []
  · subst hne; simp [stops]
  · rw [stops_of_path h hne]
    refine List.Nodup.append (hn.sublist (List.tail_sublist _)) (by simp) ?_
    intro x hx hy
    simp only [List.mem_singleton] at hy
    subst hy
    have : x ∈ keys l := List.mem_of_mem_tail hx
    simp only [keys, List.mem_map] at this
    obtain ⟨m, hm, rfl⟩ := this
    exact hb m hm rfl

theorem stop_ne_start_of_path {a b : O} {l : List (GMod O)} (h : IsPath a l b) (hn : (keys l).Nodup)
    (hab : a ≠ b) : ∀ m ∈ l, m.stop ≠ a := by
  intro m hm
  have hne : l ≠ [] := List.ne_nil_of_mem hm
  have hs : m.stop ∈ stops l := List.mem_map_of_mem hm
  rw [stops_of_path h hne] at hs
  intro hc
  rcases List.mem_append.mp hs with h1 | h1
  · -- a is the head key, so it cannot be in the tail
    cases l with
    | nil => exact hne rfl
    | cons m0 l0 =>
      simp only [keys, List.map_cons, List.tail_cons, List.nodup_cons] at hn h1
      rw [hc, ← h.1] at h1
      exact hn.1 h1
  · simp only [List.mem_singleton] at h1
    exact hab (hc.symm.trans h1)

theorem sameObj_flip (rc : O → O) {l : List (GMod O)} (h : SameObj l) : SameObj (l.map (GMod.flip rc)) := by
  intro m hm m' hm' ho
  simp only [List.mem_map] at hm hm'
  obtain ⟨x, hx, rfl⟩ := hm
  obtain ⟨y, hy, rfl⟩ := hm'
  have : x = y := h x hx y hy ho
  rw [this]

/-- **the graph of the other strand**: if the walk through the supplied modules succeeds and uses all of
them, and no two downstream overhangs are reverse complements of each other, then the walk through the
flipped modules, from the flipped vector, succeeds along the reversed chain and uses all of them -/
theorem gAssemble_rc {rc : O → O} (hinv : ∀ x, rc (rc x) = x) {vUp vDown : O} {mods chain : List (GMod O)}
    (hid : SameObj mods) (h : gAssemble rc vUp vDown mods = .ok (chain, []))
    (hJ : ∀ m ∈ mods, ∀ m' ∈ mods, m'.stop ≠ rc m.stop) :
    gAssemble rc (rc vDown) (rc vUp) (mods.map (GMod.flip rc)) = .ok (chain.reverse.map (GMod.flip rc), []) := by
  have hinj : ∀ x y, rc x = rc y → x = y := fun x y e => by rw [← hinv x, ← hinv y, e]
  obtain ⟨hv, hsf, hrc, ⟨hpath, hin, hnd, hns⟩, hcn, hrest⟩ := C03.ok_sound hid h
  have hall : ∀ m ∈ mods, m ∈ chain := by
    intro m hm
    by_contra hc
    have := (hrest m).mpr ⟨hm, hc⟩
    simp at this
  have hsn := stops_nodup hpath hnd hns
  have hid' := sameObj_flip rc hid
  have hstopinj : ∀ m ∈ mods, ∀ m' ∈ mods, m.stop = m'.stop → m = m' := by
    intro m hm m' hm' hs
    exact List.inj_on_of_nodup_map hsn (hall m hm) (hall m' hm') hs
  have hc : C03.Chain (mods.map (GMod.flip rc)) (rc vUp) (chain.reverse.map (GMod.flip rc)) (rc vDown) := by
    refine ⟨isPath_flip rc hpath, ?_, ?_, ?_⟩
    · intro m hm
      simp only [List.mem_map, List.mem_reverse] at hm ⊢
      obtain ⟨x, hx, rfl⟩ := hm
      exact ⟨x, hin x hx, rfl⟩
    · have : keys (chain.reverse.map (GMod.flip rc)) = ((stops chain).map rc).reverse := by
        simp [keys, stops, GMod.flip, List.map_reverse, Function.comp_def]
      rw [this, List.nodup_reverse]
      exact hsn.map (fun x y e => hinj x y e)
    · intro m hm
      simp only [List.mem_map, List.mem_reverse] at hm
      obtain ⟨x, hx, rfl⟩ := hm
      show rc x.stop ≠ rc vDown
      intro e
      exact stop_ne_start_of_path hpath hnd (fun e' => hv e'.symm) x hx (hinj _ _ e)
  have hsf' : StartFree (mods.map (GMod.flip rc)) := by
    intro m hm m' hm' hs
    simp only [List.mem_map] at hm hm'
    obtain ⟨x, hx, rfl⟩ := hm
    obtain ⟨y, hy, rfl⟩ := hm'
    have : x = y := hstopinj x hx y hy (hinj _ _ hs)
    rw [this]
  have hrc' : C03.NoRc rc (mods.map (GMod.flip rc)) := by
    intro m hm m' hm' hs
    simp only [List.mem_map] at hm hm'
    obtain ⟨x, hx, rfl⟩ := hm
    obtain ⟨y, hy, rfl⟩ := hm'
    simp only [GMod.flip] at hs
    rw [hinv] at hs
    exact hJ y hy x hx hs.symm
  obtain ⟨rest', hr⟩ := C03.ok_complete (rc := rc) hid' (fun e => hv (hinj _ _ e).symm) hsf' hrc' hc
  obtain ⟨_, _, _, _, _, hrest'⟩ := C03.ok_sound hid' hr
  have : rest' = [] := by
    apply List.eq_nil_iff_forall_not_mem.mpr
    intro m hm
    obtain ⟨hm1, hm2⟩ := (hrest' m).mp hm
    simp only [List.mem_map] at hm1
    obtain ⟨x, hx, rfl⟩ := hm1
    exact hm2 (by simp only [List.mem_map, List.mem_reverse]; exact ⟨x, hall x hx, rfl⟩)
  rw [hr, this]

end Moclo
