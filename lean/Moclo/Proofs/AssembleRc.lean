import Moclo.Proofs.GraphRc
import Moclo.Proofs.GenericReport
import Moclo.Proofs.Case
/-! Lifting strand symmetry from single records to whole assemblies. -/
namespace Moclo
open Moclo.C02

theorem NtEq.rc {a b : Word} (h : NtEq a b) : NtEq (Moclo.rc a) (Moclo.rc b) := by
  unfold NtEq at *
  rw [rcNt_map_rc, rcNt_map_rc, h]

theorem NtEq.trans {a b c : Word} (h1 : NtEq a b) (h2 : NtEq b c) : NtEq a c := Eq.trans h1 h2

theorem NtEq.rotate {a b : Word} (h : NtEq a b) (k : Nat) : NtEq (a.rotate k) (b.rotate k) := by
  unfold NtEq at *
  rw [List.map_rotate, List.map_rotate, h]

theorem upperW_rc (x : Word) : upperW (Moclo.rc x) = Moclo.rc (upperW x) := by
  unfold upperW Moclo.rc
  rw [List.map_reverse, List.map_map, List.map_map]
  congr 1

/-- consecutive triples `(a, b, c)` are linked: `av ≈ a₁`, `cᵢ ≈ aᵢ₊₁`, `c_k ≈ cv` (up to letter case) -/
def LinkedNt : Word → List (Word × Word × Word) → Word → Prop
  | av, [], cv => NtEq av cv
  | av, t :: ts, cv => NtEq av t.1 ∧ LinkedNt t.2.2 ts cv

theorem rc_flatten_link : ∀ (T : List (Word × Word × Word)) (av cv : Word), LinkedNt av T cv →
    NtEq ((T.reverse.map (fun t => Moclo.rc t.2.2 ++ Moclo.rc t.2.1)).flatten ++ Moclo.rc av)
         (Moclo.rc cv ++ Moclo.rc (T.map (fun t => t.1 ++ t.2.1)).flatten) := by
  intro T
  induction T with
  | nil =>
    intro av cv h
    simp only [LinkedNt] at h
    simpa [Moclo.rc] using h.rc
  | cons t ts ih =>
    intro av cv h
    obtain ⟨h1, h2⟩ := h
    have := ih t.2.2 cv h2
    simp only [List.reverse_cons, List.map_append, List.map_cons, List.map_nil, List.flatten_append,
      List.flatten_cons, List.flatten_nil, List.append_nil, List.append_assoc]
    rw [rc_append', rc_append']
    have key := this.append ((NtEq.refl (Moclo.rc t.2.1)).append h1.rc)
    simpa only [List.append_assoc] using key

/-- **the product of the other strand is a rotation of the reverse complement of the product**, as a
statement about words: chain fragments `aᵢ·bᵢ` then the vector's `cv·B` on one strand; `rc cᵢ·rc bᵢ` in
reverse chain order then `rc av·rc B` on the other -/
theorem rc_product_rot (T : List (Word × Word × Word)) (av cv B : Word) (h : LinkedNt av T cv) :
    ∃ r, NtEq ((T.reverse.map (fun t => Moclo.rc t.2.2 ++ Moclo.rc t.2.1)).flatten ++ (Moclo.rc av ++ Moclo.rc B))
      ((Moclo.rc ((T.map (fun t => t.1 ++ t.2.1)).flatten ++ (cv ++ B))).rotate r) := by
  refine ⟨(Moclo.rc B).length, ?_⟩
  rw [rc_append', rc_append', List.append_assoc, List.rotate_append_length_eq]
  have key := (rc_flatten_link T av cv h).append (NtEq.refl (Moclo.rc B))
  simpa only [List.append_assoc] using key


/-! ## entities -/

theorem evalPrefix_ok_iff : ∀ (mods : List Ent) (gs : List (GMod Word)),
    evalPrefix mods = (gs, none) ↔ List.Forall₂ (fun e g => e.gmod = .ok g) mods gs := by
  intro mods
  induction mods with
  | nil =>
    intro gs
    simp only [evalPrefix, Prod.mk.injEq, and_true]
    constructor
    · rintro rfl; exact List.Forall₂.nil
    · intro h; cases h; rfl
  | cons e es ih =>
    intro gs
    simp only [evalPrefix]
    cases he : e.gmod with
    | error x =>
      simp only [Prod.mk.injEq]
      constructor
      · rintro ⟨_, h⟩; cases h
      · intro h; cases h with | cons h1 _ => rw [he] at h1; cases h1
    | ok g0 =>
      simp only [Prod.mk.injEq]
      constructor
      · rintro ⟨rfl, herr⟩
        exact List.Forall₂.cons he ((ih _).mp (by rw [← herr]))
      · intro h
        cases h with
        | @cons _ g _ gs' h1 h2 =>
          rw [he] at h1
          simp only [Except.ok.injEq] at h1
          subst h1
          have := (ih gs').mp
          have h3 := (ih gs').mpr h2
          rw [h3]
          exact ⟨rfl, rfl⟩

theorem gAssemble_ok_iff {O : Type} [DecidableEq O] {rc : O → O} {vUp vDown : O} {mods chain rest : List (GMod O)} :
    gAssemble rc vUp vDown mods = .ok (chain, rest) ↔
      vUp ≠ vDown ∧ ∃ map, gBuild mods [] = .ok map ∧ gRcClash rc map = false ∧
        gWalk vUp (map.length + 1) vDown map = (chain, rest, none) := by
  unfold gAssemble
  by_cases hv : vUp = vDown
  · simp [hv]
  · simp only [hv, if_false, ne_eq, not_false_eq_true, true_and]
    cases hb : gBuild mods [] with
    | error e => simp
    | ok map =>
      simp only [Except.ok.injEq, exists_eq_left']
      cases hc : gRcClash rc map with
      | true => simp
      | false =>
        simp only [Bool.false_eq_true, if_false, true_and]
        generalize gWalk vUp (map.length + 1) vDown map = w
        obtain ⟨c, r, s⟩ := w
        cases s with
        | none => simp
        | some o => simp

/-- what a module and its reverse-complemented twin contribute: groups `a`, `b`, `c` -/
structure ModRc (e e' : Ent) (a b c : Word) : Prop where
  gmod : e.gmod = .ok ⟨upperW a, upperW c, e.oid⟩
  frag : e.fragment = a ++ b
  gmod' : e'.gmod = .ok ⟨upperW (Moclo.rc c), upperW (Moclo.rc a), e.oid⟩
  frag' : e'.fragment = Moclo.rc c ++ Moclo.rc b
  oid' : e'.oid = e.oid

/-- the same for a vector: overhang groups `a` (downstream), `c` (upstream), backbone `B` -/
structure VecRc (v v' : Ent) (a c B : Word) : Prop where
  gmod : v.gmod = .ok ⟨upperW c, upperW a, v.oid⟩
  frag : v.fragment = c ++ B
  gmod' : v'.gmod = .ok ⟨upperW (Moclo.rc a), upperW (Moclo.rc c), v.oid⟩
  frag' : v'.fragment = Moclo.rc a ++ Moclo.rc B


theorem gmod_oid {e : Ent} {g : GMod Word} (h : e.gmod = .ok g) : g.oid = e.oid := by
  unfold Ent.gmod at h
  cases hm : e.spec.matchSeq e.rcd.seq with
  | error _ => rw [hm] at h; cases h
  | ok m => rw [hm] at h; simp [bind, Except.bind, pure, Except.pure] at h; rw [← h]

theorem gmod_match {e : Ent} {g : GMod Word} (h : e.gmod = .ok g) : ∃ m, e.spec.matchSeq e.rcd.seq = .ok m := by
  unfold Ent.gmod at h
  cases hm : e.spec.matchSeq e.rcd.seq with
  | error _ => rw [hm] at h; cases h
  | ok m => exact ⟨m, rfl⟩

theorem find_of_nodup_oid : ∀ (l : List Ent), (l.map (·.oid)).Nodup → ∀ e ∈ l,
    l.find? (fun x => x.oid = e.oid) = some e := by
  intro l
  induction l with
  | nil => intro _ e he; simp at he
  | cons x xs ih =>
    intro hn e he
    simp only [List.map_cons, List.nodup_cons] at hn
    simp only [List.find?_cons]
    rcases List.mem_cons.mp he with rfl | he'
    · simp
    · have : x.oid ≠ e.oid := by
        intro hc
        exact hn.1 (by rw [hc]; exact List.mem_map_of_mem he')
      simp only [this, decide_false]
      exact ih hn.2 e he'

theorem fragOfOid_of_mem {l : List Ent} (hn : (l.map (·.oid)).Nodup) {e : Ent} (he : e ∈ l) :
    fragOfOid l e.oid = e.fragment := by
  unfold fragOfOid
  rw [find_of_nodup_oid l hn e he]

/-- pairing the supplied modules, their twins and their graph modules -/
theorem twins_of_forall2 {R : Ent → Ent → Prop} : ∀ {mods mods' : List Ent} {gs : List (GMod Word)},
    List.Forall₂ R mods mods' → List.Forall₂ (fun e g => e.gmod = .ok g) mods gs →
    ∀ x ∈ gs, ∃ e ∈ mods, ∃ e' ∈ mods', R e e' ∧ e.gmod = .ok x := by
  intro mods mods' gs h1
  induction h1 generalizing gs with
  | nil => intro h2 x hx; cases h2; simp at hx
  | @cons e e' es es' hr _ ih =>
    intro h2 x hx
    cases h2 with
    | @cons _ g _ gs' hg hgs =>
      rcases List.mem_cons.mp hx with rfl | hx'
      · exact ⟨e, by simp, e', by simp, hr, hg⟩
      · obtain ⟨a, ha, b, hb, hab⟩ := ih hgs x hx'
        exact ⟨a, List.mem_cons_of_mem _ ha, b, List.mem_cons_of_mem _ hb, hab⟩

theorem flip_gmods : ∀ {mods mods' : List Ent} {gs : List (GMod Word)},
    List.Forall₂ (fun e e' => ∃ a b c, ModRc e e' a b c) mods mods' →
    List.Forall₂ (fun e g => e.gmod = .ok g) mods gs →
    List.Forall₂ (fun e' g' => e'.gmod = .ok g') mods' (gs.map (GMod.flip Moclo.rc)) := by
  intro mods mods' gs h1
  induction h1 generalizing gs with
  | nil => intro h2; cases h2; exact List.Forall₂.nil
  | @cons e e' es es' hr _ ih =>
    intro h2
    cases h2 with
    | @cons _ g _ gs' hg hgs =>
      obtain ⟨a, b, c, hm⟩ := hr
      have : g = ⟨upperW a, upperW c, e.oid⟩ := by
        have := hm.gmod; rw [hg] at this; simpa using this
      subst this
      refine List.Forall₂.cons ?_ (ih hgs)
      rw [hm.gmod']
      simp [GMod.flip, upperW_rc]

theorem forall2_oids {R : Ent → Ent → Prop} (hR : ∀ e e', R e e' → e'.oid = e.oid) :
    ∀ {mods mods' : List Ent}, List.Forall₂ R mods mods' → mods'.map (·.oid) = mods.map (·.oid) := by
  intro mods mods' h
  induction h with
  | nil => rfl
  | cons hr _ ih => simp only [List.map_cons, hR _ _ hr, ih]

theorem forall2_goids : ∀ {mods : List Ent} {gs : List (GMod Word)},
    List.Forall₂ (fun e g => e.gmod = .ok g) mods gs → gs.map (·.oid) = mods.map (·.oid) := by
  intro mods gs h
  induction h with
  | nil => rfl
  | cons hr _ ih => simp only [List.map_cons, gmod_oid hr, ih]

theorem sameObj_of_nodup_oid {gs : List (GMod Word)} (h : (gs.map (·.oid)).Nodup) : SameObj gs := by
  intro m hm m' hm' ho
  exact List.inj_on_of_nodup_map h hm hm' ho

/-- the triples of a chain -/
theorem chain_triples {mods mods' : List Ent} (hn : (mods.map (·.oid)).Nodup) (hn' : (mods'.map (·.oid)).Nodup) :
    ∀ (chain : List (GMod Word)) (s t : Word), IsPath s chain t →
    (∀ x ∈ chain, ∃ e ∈ mods, ∃ e' ∈ mods', (∃ a b c, ModRc e e' a b c) ∧ e.gmod = .ok x) →
    ∃ T : List (Word × Word × Word),
      chain.map (fun g => fragOfOid mods g.oid) = T.map (fun t => t.1 ++ t.2.1) ∧
      chain.map (fun g => fragOfOid mods' g.oid) = T.map (fun t => Moclo.rc t.2.2 ++ Moclo.rc t.2.1) ∧
      ∀ av cv, upperW av = s → upperW cv = t → LinkedNt av T cv := by
  intro chain
  induction chain with
  | nil =>
    intro s t hp _
    simp only [IsPath] at hp
    subst hp
    exact ⟨[], rfl, rfl, fun av cv h1 h2 => ntEq_of_upperW_eq (h1.trans h2.symm)⟩
  | cons x xs ih =>
    intro s t hp hall
    obtain ⟨hs, hp'⟩ := hp
    obtain ⟨e, he, e', he', ⟨a, b, c, hm⟩, hg⟩ := hall x (by simp)
    have hx : x = ⟨upperW a, upperW c, e.oid⟩ := by
      have := hm.gmod; rw [hg] at this; simpa using this
    obtain ⟨T, h1, h2, h3⟩ := ih x.stop t hp' (fun y hy => hall y (List.mem_cons_of_mem _ hy))
    refine ⟨(a, b, c) :: T, ?_, ?_, ?_⟩
    · simp only [List.map_cons, h1]
      congr 1
      have : x.oid = e.oid := by rw [hx]
      rw [this, fragOfOid_of_mem hn he, hm.frag]
    · simp only [List.map_cons, h2]
      congr 1
      have : x.oid = e'.oid := by rw [hx, hm.oid']
      rw [this, fragOfOid_of_mem hn' he', hm.frag']
    · intro av cv hav hcv
      refine ⟨ntEq_of_upperW_eq ?_, h3 c cv ?_ hcv⟩
      · rw [hav, ← hs, hx]
      · rw [hx]


theorem rc_rc_word (w : Word) : Moclo.rc (Moclo.rc w) = w := by
  unfold Moclo.rc
  rw [List.map_reverse, List.reverse_reverse, List.map_map]
  have : (Sym.compl ∘ Sym.compl) = id := by funext x; cases x; simp [Sym.compl, compl_compl]
  rw [this, List.map_id]

/-- **assembling the other strand**: if an assembly succeeds and uses every supplied module, and no two
downstream overhangs are reverse complements of each other, then assembling the twins of the inputs (records
that report the mirror image: `ModRc`, `VecRc`) succeeds as well, and its product is, up to letter case and
rotation, the reverse complement of the original product -/
theorem assemble_rc_twins {v v' : Ent} {mods mods' : List Ent} {pid pname : Nat} {p : Product} {after : List Rec}
    (h : assemble v mods pid pname = (.ok p, after)) (hun : p.unused = [])
    (hoid : (mods.map (·.oid)).Nodup)
    {av cv B : Word} (hv : VecRc v v' av cv B)
    (hm : List.Forall₂ (fun e e' => ∃ a b c, ModRc e e' a b c) mods mods')
    (hd : ∀ e ∈ mods', (derefRec e.rcd).isSome) (hdv : (derefRec v'.rcd).isSome)
    (hf : ∀ e ∈ mods', e.faulty = false) (hvf : v'.faulty = false)
    (hJ : ∀ e ∈ mods, ∀ e2 ∈ mods, ∀ g g2, e.gmod = .ok g → e2.gmod = .ok g2 → g2.stop ≠ Moclo.rc g.stop) :
    ∃ p', (assemble v' mods' pid pname).1 = .ok p' ∧
      ∃ r, NtEq p'.rcd.seq ((Moclo.rc p.rcd.seq).rotate r) := by
  obtain ⟨gv, gs, map, chain, rest, h1, h2, h3, h4, h5, h6, h7, h8, _⟩ := assemble_ok h
  -- everything is used
  have hrest : rest = [] := by
    rw [hun] at h8
    exact List.map_eq_nil_iff.mp h8.symm
  subst hrest
  have hgv : gv = ⟨upperW cv, upperW av, v.oid⟩ := by
    have := hv.gmod; rw [h1] at this; simpa using this
  have hF := (evalPrefix_ok_iff mods gs).mp h3
  have hF' := flip_gmods hm hF
  have hoid' : (mods'.map (·.oid)).Nodup := by
    rw [forall2_oids (R := fun e e' => ∃ a b c, ModRc e e' a b c) (fun e e' ⟨a, b, c, hx⟩ => hx.oid') hm]
    exact hoid
  have hgoid : (gs.map (·.oid)).Nodup := by rw [forall2_goids hF]; exact hoid
  have hid : SameObj gs := sameObj_of_nodup_oid hgoid
  have hga : gAssemble Moclo.rc gv.start gv.stop gs = .ok (chain, []) :=
    gAssemble_ok_iff.mpr ⟨h2, map, h4, h5, h6⟩
  have htw := twins_of_forall2 hm hF
  have hJ' : ∀ m ∈ gs, ∀ m' ∈ gs, m'.stop ≠ Moclo.rc m.stop := by
    intro m hm1 m' hm2
    obtain ⟨e, he, _, _, _, hg⟩ := htw m hm1
    obtain ⟨e2, he2, _, _, _, hg2⟩ := htw m' hm2
    exact hJ e he e2 he2 m m' hg hg2
  have hga' := gAssemble_rc (rc := Moclo.rc) rc_rc_word hid hga hJ'
  obtain ⟨hne', map', hb', hc', hw'⟩ := gAssemble_ok_iff.mp hga'
  obtain ⟨_, _, _, ⟨hpath, hin, _, _⟩, _, _⟩ := C03.ok_sound hid hga
  -- the twin of the vector
  set gv' : GMod Word := ⟨upperW (Moclo.rc av), upperW (Moclo.rc cv), v.oid⟩ with hgv'
  have hs1 : gv'.start = Moclo.rc gv.stop := by rw [hgv]; simp [hgv', upperW_rc]
  have hs2 : gv'.stop = Moclo.rc gv.start := by rw [hgv]; simp [hgv', upperW_rc]
  have hch : ∀ g ∈ chain.reverse.map (GMod.flip Moclo.rc), ∃ e m,
      mods'.find? (fun e => e.oid = g.oid) = some e ∧ e.faulty = false ∧ e.spec.matchSeq e.rcd.seq = .ok m := by
    intro g hg
    simp only [List.mem_map, List.mem_reverse] at hg
    obtain ⟨x, hx, rfl⟩ := hg
    obtain ⟨e, _, e', he', ⟨a, b, c, hmr⟩, hgx⟩ := htw x (hin x hx)
    obtain ⟨m, hmm⟩ := gmod_match hmr.gmod'
    refine ⟨e', m, ?_, hf e' he', hmm⟩
    have : (GMod.flip Moclo.rc x).oid = e'.oid := by
      show x.oid = e'.oid
      rw [gmod_oid hgx, hmr.oid']
    rw [this]
    exact find_of_nodup_oid mods' hoid' e' he'
  obtain ⟨p', hp'⟩ := assemble_succeeds (v := v') (mods := mods') pid pname (gv := gv')
    (gs := gs.map (GMod.flip Moclo.rc)) (map := map') (chain := chain.reverse.map (GMod.flip Moclo.rc)) (rest := [])
    hv.gmod' (by rw [hs1, hs2]; exact hne') ((evalPrefix_ok_iff _ _).mpr hF') hb' hc'
    (by rw [hs1, hs2]; exact hw') hd hdv hch hvf
  refine ⟨p', hp', ?_⟩
  -- the sequence of the twin product
  have hp'' : assemble v' mods' pid pname = (.ok p', (assemble v' mods' pid pname).2) := by
    rw [← hp']
  obtain ⟨gv2, gs2, map2, chain2, rest2, k1, _, k3, k4, _, k6, k7, _⟩ := assemble_ok hp''
  have e1 : gv2 = gv' := by
    have := hv.gmod'; rw [k1] at this; simpa [hgv'] using this
  have e3 : gs2 = gs.map (GMod.flip Moclo.rc) := by
    have := (evalPrefix_ok_iff _ _).mpr hF'
    rw [k3] at this
    exact (Prod.mk.injEq _ _ _ _ ▸ this).1
  subst e3
  have e4 : map2 = map' := by rw [hb'] at k4; simpa using k4.symm
  subst e4
  have e6 : chain2 = chain.reverse.map (GMod.flip Moclo.rc) := by
    rw [e1, hs1, hs2, hw'] at k6
    exact (Prod.mk.injEq _ _ _ _ ▸ k6).1.symm
  subst e6
  -- the triples of the chain
  obtain ⟨T, t1, t2, t3⟩ := chain_triples hoid hoid' chain gv.stop gv.start hpath
    (fun x hx => htw x (hin x hx))
  have hlink := t3 av cv (by rw [hgv]) (by rw [hgv])
  obtain ⟨r, hr⟩ := rc_product_rot T av cv B hlink
  refine ⟨r, ?_⟩
  rw [k7, h7, hv.frag, hv.frag', t1]
  have : (chain.reverse.map (GMod.flip Moclo.rc)).map (fun g => fragOfOid mods' g.oid) =
      T.reverse.map (fun t => Moclo.rc t.2.2 ++ Moclo.rc t.2.1) := by
    rw [List.map_map]
    have : ((fun g => fragOfOid mods' g.oid) ∘ GMod.flip Moclo.rc) = (fun g : GMod Word => fragOfOid mods' g.oid) := by
      funext g; rfl
    rw [this, List.map_reverse, t2, List.map_reverse]
  rw [this]
  exact hr

end Moclo
