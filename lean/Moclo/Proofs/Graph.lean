import Moclo.Model.Graph
import Mathlib.Data.List.Perm.Basic
import Mathlib.Data.List.Nodup
/-! The overhang graph: dictionary lemmas, map building, the pop-walk, permutation invariance. -/
namespace Moclo
variable {O : Type} [DecidableEq O]

def keys (map : List (GMod O)) : List O := map.map (·.start)

theorem gLookup_some {map : List (GMod O)} {k : O} {m : GMod O} (h : gLookup map k = some m) :
    m ∈ map ∧ m.start = k := by
  unfold gLookup at h
  exact ⟨List.mem_of_find?_eq_some h, by simpa using List.find?_some h⟩

theorem gLookup_none {map : List (GMod O)} {k : O} : gLookup map k = none ↔ ∀ m ∈ map, m.start ≠ k := by
  unfold gLookup; simp [List.find?_eq_none]

theorem gLookup_of_mem {map : List (GMod O)} (hn : (keys map).Nodup) {m : GMod O} (hm : m ∈ map) :
    gLookup map m.start = some m := by
  cases h : gLookup map m.start with
  | none => exact absurd rfl (gLookup_none.mp h m hm)
  | some m' =>
    obtain ⟨hm', hk⟩ := gLookup_some h
    rw [List.inj_on_of_nodup_map hn hm' hm hk]

theorem gLookup_perm {map map' : List (GMod O)} (hp : map.Perm map') (hn : (keys map).Nodup) (k : O) :
    gLookup map k = gLookup map' k := by
  have hn' : (keys map').Nodup := (hp.map _).nodup_iff.mp hn
  cases h : gLookup map k with
  | none =>
    symm; rw [gLookup_none] at h ⊢
    intro x hx; exact h x (hp.mem_iff.mpr hx)
  | some m =>
    obtain ⟨hm, hk⟩ := gLookup_some h
    rw [← hk]; symm
    exact gLookup_of_mem hn' (hp.mem_iff.mp hm)

/-! ## map building -/

/-- the same Python object is the same module -/
def SameObj (l : List (GMod O)) : Prop := ∀ m ∈ l, ∀ m' ∈ l, m.oid = m'.oid → m = m'

/-- no two *different* modules share a start overhang -/
def StartFree (l : List (GMod O)) : Prop := ∀ m ∈ l, ∀ m' ∈ l, m.start = m'.start → m = m'

theorem gBuild_ok {mods map map' : List (GMod O)} (hn : (keys map).Nodup)
    (h : gBuild mods map = .ok map') (hid : SameObj (map ++ mods)) :
    (keys map').Nodup ∧ (∀ m, m ∈ map' ↔ m ∈ map ∨ m ∈ mods) ∧ StartFree (map ++ mods) := by
  induction mods generalizing map with
  | nil =>
    simp only [gBuild, Except.ok.injEq] at h; subst h
    refine ⟨hn, by simp, ?_⟩
    intro m hm m' hm' hs
    simp only [List.append_nil] at hm hm'
    exact List.inj_on_of_nodup_map hn hm hm' hs
  | cons x xs ih =>
    simp only [gBuild] at h
    cases hl : gLookup map x.start with
    | some y =>
      rw [hl] at h; simp only [] at h
      split at h
      · rename_i hoid
        obtain ⟨hy, hys⟩ := gLookup_some hl
        have hxy : y = x := hid y (by simp [hy]) x (by simp) hoid
        subst hxy
        have hid' : SameObj (map ++ xs) := by
          intro m hm m' hm' ho
          exact hid m (by simp at hm ⊢; tauto) m' (by simp at hm' ⊢; tauto) ho
        obtain ⟨h1, h2, h3⟩ := ih hn h hid'
        refine ⟨h1, ?_, ?_⟩
        · intro m; rw [h2 m]; simp only [List.mem_cons]
          constructor
          · rintro (h | h) <;> tauto
          · rintro (h | h | h)
            · exact Or.inl h
            · subst h; exact Or.inl hy
            · exact Or.inr h
        · intro m hm m' hm' hs
          have conv : ∀ z, z ∈ map ++ y :: xs → z ∈ map ++ xs := by
            intro z hz; simp at hz ⊢
            rcases hz with h | h | h
            · exact Or.inl h
            · subst h; exact Or.inl hy
            · exact Or.inr h
          exact h3 m (conv m hm) m' (conv m' hm') hs
      · cases h
    | none =>
      rw [hl] at h; simp only [] at h
      have hn' : (keys (map ++ [x])).Nodup := by
        unfold keys; rw [List.map_append, List.nodup_append]
        refine ⟨hn, by simp, ?_⟩
        intro a ha b hb
        simp at hb; subst hb
        simp only [List.mem_map] at ha
        obtain ⟨m, hm, rfl⟩ := ha
        exact gLookup_none.mp hl m hm
      have hid' : SameObj (map ++ [x] ++ xs) := by
        intro m hm m' hm' ho
        exact hid m (by simp at hm ⊢; tauto) m' (by simp at hm' ⊢; tauto) ho
      obtain ⟨h1, h2, h3⟩ := ih hn' h hid'
      refine ⟨h1, ?_, ?_⟩
      · intro m; rw [h2 m]; simp only [List.mem_append, List.mem_cons, List.mem_singleton, List.not_mem_nil, or_false]
        tauto
      · intro m hm m' hm' hs
        exact h3 m (by simp at hm ⊢; tauto) m' (by simp at hm' ⊢; tauto) hs

theorem gBuild_error {mods map : List (GMod O)} {e : GErr O} (h : gBuild mods map = .error e) :
    e = .duplicate ∧ ¬ StartFree (map ++ mods) := by
  induction mods generalizing map with
  | nil => simp [gBuild] at h
  | cons x xs ih =>
    simp only [gBuild] at h
    cases hl : gLookup map x.start with
    | some y =>
      rw [hl] at h; simp only [] at h
      obtain ⟨hy, hys⟩ := gLookup_some hl
      split at h
      · obtain ⟨h1, h2⟩ := ih h
        refine ⟨h1, fun hs => h2 ?_⟩
        intro m hm m' hm' hst
        exact hs m (by simp at hm ⊢; tauto) m' (by simp at hm' ⊢; tauto) hst
      · rename_i hoid
        simp only [Except.error.injEq] at h
        refine ⟨h.symm, fun hs => hoid ?_⟩
        have := hs y (by simp [hy]) x (by simp) hys
        rw [this]
    | none =>
      rw [hl] at h; simp only [] at h
      obtain ⟨h1, h2⟩ := ih h
      refine ⟨h1, fun hs => h2 ?_⟩
      intro m hm m' hm' hst
      exact hs m (by simp at hm ⊢; tauto) m' (by simp at hm' ⊢; tauto) hst

/-- without any assumption on object identities: the built map has duplicate-free keys and contains only
supplied modules -/
theorem gBuild_basic : ∀ (ms acc out : List (GMod O)), (keys acc).Nodup →
    gBuild ms acc = .ok out → (keys out).Nodup ∧ ∀ g ∈ out, g ∈ acc ∨ g ∈ ms := by
  intro ms
  induction ms with
  | nil => intro acc out hn hb; simp only [gBuild, Except.ok.injEq] at hb; subst hb; exact ⟨hn, fun g hg => Or.inl hg⟩
  | cons x xs ih =>
    intro acc out hn hb
    simp only [gBuild] at hb
    cases hl : gLookup acc x.start with
    | some y =>
      rw [hl] at hb; simp only [] at hb
      split at hb
      · obtain ⟨a, b⟩ := ih acc out hn hb
        exact ⟨a, fun g hg => (b g hg).elim Or.inl (fun h => Or.inr (List.mem_cons_of_mem _ h))⟩
      · cases hb
    | none =>
      rw [hl] at hb; simp only [] at hb
      have hn' : (keys (acc ++ [x])).Nodup := by
        unfold keys; rw [List.map_append, List.nodup_append]
        refine ⟨hn, by simp, ?_⟩
        intro a ha b hb'
        simp at hb'; subst hb'
        simp only [List.mem_map] at ha
        obtain ⟨m, hm, rfl⟩ := ha
        exact gLookup_none.mp hl m hm
      obtain ⟨a, b⟩ := ih (acc ++ [x]) out hn' hb
      refine ⟨a, fun g hg => ?_⟩
      rcases b g hg with h | h
      · rcases List.mem_append.mp h with h | h
        · exact Or.inl h
        · simp at h; subst h; exact Or.inr (by simp)
      · exact Or.inr (List.mem_cons_of_mem _ h)

/-- map building succeeds exactly when no two different modules share a start overhang -/
theorem gBuild_ok_iff {mods : List (GMod O)} (hid : SameObj mods) :
    (∃ map, gBuild mods [] = .ok map) ↔ StartFree mods := by
  constructor
  · rintro ⟨map, h⟩
    have := (gBuild_ok (map := []) (by simp [keys]) h (by simpa using hid)).2.2
    simpa using this
  · intro hs
    cases h : gBuild mods [] with
    | ok map => exact ⟨map, rfl⟩
    | error e => exact absurd (by simpa using hs) (gBuild_error h).2

/-! ## the pop-walk -/

/-- the graph of the pop-walk, independent of fuel -/
inductive Walk (stop : O) : O → List (GMod O) → List (GMod O) → List (GMod O) → Option O → Prop
  | done {cur map} : cur = stop → Walk stop cur map [] map none
  | stall {cur map} : cur ≠ stop → gLookup map cur = none → Walk stop cur map [] map (some cur)
  | step {cur map m chain rest stall} : cur ≠ stop → gLookup map cur = some m →
      Walk stop m.stop (gErase map cur) chain rest stall → Walk stop cur map (m :: chain) rest stall

theorem gErase_length {map : List (GMod O)} {k : O} {m : GMod O} (h : gLookup map k = some m) :
    (gErase map k).length = map.length - 1 := by
  unfold gErase
  obtain ⟨hm, hk⟩ := gLookup_some h
  exact List.length_eraseP_of_mem hm (by simpa using hk)

/-- the walk never runs out of fuel when given one more than the size of the map -/
theorem gWalk_walk (stop : O) (fuel : Nat) (cur : O) (map : List (GMod O)) (h : map.length < fuel) :
    Walk stop cur map (gWalk stop fuel cur map).1 (gWalk stop fuel cur map).2.1 (gWalk stop fuel cur map).2.2 := by
  induction fuel generalizing cur map with
  | zero => omega
  | succ f ih =>
    unfold gWalk
    split
    · rename_i hc; exact Walk.done hc
    · rename_i hc
      split
      · rename_i hl; exact Walk.stall hc hl
      · rename_i m hl
        have hlen := gErase_length hl
        have hpos : 0 < map.length := List.length_pos_of_mem (gLookup_some hl).1
        exact Walk.step hc hl (ih m.stop (gErase map cur) (by omega))

/-- consecutive modules are linked by their overhangs, from `a` to `b` -/
def IsPath : O → List (GMod O) → O → Prop
  | a, [], b => a = b
  | a, m :: c, b => m.start = a ∧ IsPath m.stop c b

theorem gErase_perm {map : List (GMod O)} {k : O} {m : GMod O} (h : gLookup map k = some m) :
    map.Perm (m :: gErase map k) := by
  induction map with
  | nil => simp [gLookup] at h
  | cons x xs ih =>
    unfold gLookup at h
    simp only [List.find?_cons] at h
    by_cases hx : x.start = k
    · simp only [hx, decide_true] at h
      simp only [Option.some.injEq] at h; subst h
      simp [gErase, hx]
    · simp only [hx, decide_false] at h
      have := ih (by unfold gLookup; exact h)
      have e : gErase (x :: xs) k = x :: gErase xs k := by
        unfold gErase; exact List.eraseP_cons_of_neg (by simpa using hx)
      rw [e]
      exact (List.Perm.cons x this).trans (List.Perm.swap m x _)

theorem keys_nodup_of_perm {a b : List (GMod O)} (hp : a.Perm b) (hn : (keys a).Nodup) : (keys b).Nodup :=
  (hp.map _).nodup_iff.mp hn

/-- what the walk returns: the chain is a linked path from `cur`, it and the leftover partition the map,
no module of the chain starts at `stop`; on success the path ends at `stop`, on a stall at an overhang
different from `stop` that no leftover module starts with -/
theorem Walk.spec {stop cur : O} {map chain rest : List (GMod O)} {stall : Option O}
    (h : Walk stop cur map chain rest stall) (hn : (keys map).Nodup) :
    map.Perm (chain ++ rest) ∧ (∀ m ∈ chain, m.start ≠ stop) ∧
    (match stall with
     | none => IsPath cur chain stop
     | some o => IsPath cur chain o ∧ o ≠ stop ∧ ∀ m ∈ rest, m.start ≠ o) := by
  induction h with
  | done hc => exact ⟨List.Perm.refl _, by simp, hc⟩
  | stall hc hl => exact ⟨List.Perm.refl _, by simp, rfl, hc, gLookup_none.mp hl⟩
  | @step cur map m chain rest stall hc hl hw ih =>
    have hp := gErase_perm hl
    have hn' : (keys (gErase map cur)).Nodup := by
      have := keys_nodup_of_perm hp hn
      simp only [keys, List.map_cons, List.nodup_cons] at this
      exact this.2
    obtain ⟨h1, h2, h3⟩ := ih hn'
    obtain ⟨hm, hk⟩ := gLookup_some hl
    refine ⟨hp.trans (List.Perm.cons m h1), ?_, ?_⟩
    · intro x hx
      rcases List.mem_cons.mp hx with rfl | hx
      · rw [hk]; exact hc
      · exact h2 x hx
    · cases stall with
      | none => exact ⟨hk, h3⟩
      | some o => exact ⟨⟨hk, h3.1⟩, h3.2⟩

/-- a simple path inside the map that avoids `stop` is exactly what the walk follows -/
theorem Walk.of_path {stop : O} {map : List (GMod O)} (hn : (keys map).Nodup) :
    ∀ (chain : List (GMod O)) (cur : O), IsPath cur chain stop → (∀ m ∈ chain, m ∈ map) →
      (keys chain).Nodup → (∀ m ∈ chain, m.start ≠ stop) →
      ∃ rest, Walk stop cur map chain rest none := by
  intro chain
  induction chain generalizing map with
  | nil => intro cur hp _ _ _; exact ⟨map, Walk.done hp⟩
  | cons m c ih =>
    intro cur hp hmem hnd hns
    obtain ⟨hs, hp'⟩ := hp
    have hm : m ∈ map := hmem m (by simp)
    have hl : gLookup map cur = some m := hs ▸ gLookup_of_mem hn hm
    have hperm := gErase_perm hl
    have hn' : (keys (gErase map cur)).Nodup := by
      have := keys_nodup_of_perm hperm hn
      simp only [keys, List.map_cons, List.nodup_cons] at this
      exact this.2
    simp only [keys, List.map_cons, List.nodup_cons] at hnd
    have hmem' : ∀ x ∈ c, x ∈ gErase map cur := by
      intro x hx
      have hxm : x ∈ m :: gErase map cur := hperm.mem_iff.mp (hmem x (by simp [hx]))
      rcases List.mem_cons.mp hxm with rfl | h
      · exact absurd (List.mem_map_of_mem hx) hnd.1
      · exact h
    obtain ⟨rest, hw⟩ := ih hn' m.stop hp' hmem' hnd.2 (fun x hx => hns x (by simp [hx]))
    exact ⟨rest, Walk.step (hs ▸ hns m (by simp)) hl hw⟩

/-- the walk is deterministic -/
theorem Walk.det {stop cur : O} {map c1 r1 c2 r2 : List (GMod O)} {s1 s2 : Option O}
    (h1 : Walk stop cur map c1 r1 s1) (h2 : Walk stop cur map c2 r2 s2) : c1 = c2 ∧ r1 = r2 ∧ s1 = s2 := by
  induction h1 generalizing c2 r2 s2 with
  | done hc =>
    cases h2 with
    | done _ => exact ⟨rfl, rfl, rfl⟩
    | stall hc' _ => exact absurd hc hc'
    | step hc' _ _ => exact absurd hc hc'
  | stall hc hl =>
    cases h2 with
    | done hc' => exact absurd hc' hc
    | stall _ _ => exact ⟨rfl, rfl, rfl⟩
    | step _ hl' _ => rw [hl] at hl'; cases hl'
  | step hc hl hw ih =>
    cases h2 with
    | done hc' => exact absurd hc' hc
    | stall _ hl' => rw [hl] at hl'; cases hl'
    | step _ hl' hw' =>
      rw [hl] at hl'; cases hl'
      obtain ⟨a, b, c⟩ := ih hw'
      exact ⟨by rw [a], b, c⟩

/-! ## permutation invariance -/

theorem nodup_of_keys_nodup {map : List (GMod O)} (hn : (keys map).Nodup) : map.Nodup :=
  List.Nodup.of_map _ hn

theorem Walk.perm {stop cur : O} {map chain rest : List (GMod O)} {stall : Option O}
    (h : Walk stop cur map chain rest stall) (hn : (keys map).Nodup) :
    ∀ map', map.Perm map' → ∃ rest', Walk stop cur map' chain rest' stall ∧ rest.Perm rest' := by
  induction h with
  | done hc => intro map' hp; exact ⟨map', Walk.done hc, hp⟩
  | stall hc hl =>
    intro map' hp
    exact ⟨map', Walk.stall hc (by rw [← gLookup_perm hp hn]; exact hl), hp⟩
  | @step cur map m chain rest stall hc hl hw ih =>
    intro map' hp
    have hl' : gLookup map' cur = some m := by rw [← gLookup_perm hp hn]; exact hl
    have p1 := gErase_perm hl
    have p2 := gErase_perm hl'
    have hn1 : (keys (gErase map cur)).Nodup := by
      have := keys_nodup_of_perm p1 hn
      simp only [keys, List.map_cons, List.nodup_cons] at this
      exact this.2
    have pe : (gErase map cur).Perm (gErase map' cur) :=
      (List.perm_cons m).mp (p1.symm.trans (hp.trans p2))
    obtain ⟨rest', hw', hr⟩ := ih hn1 _ pe
    exact ⟨rest', Walk.step hc hl' hw', hr⟩

theorem gRcClash_iff (rc : O → O) (map : List (GMod O)) :
    gRcClash rc map = true ↔ ∃ m ∈ map, ∃ m' ∈ map, m'.start = rc m.start := by
  unfold gRcClash
  simp only [List.any_eq_true, Option.isSome_iff_exists]
  constructor
  · rintro ⟨m, hm, m', hl⟩
    obtain ⟨h1, h2⟩ := gLookup_some hl
    exact ⟨m, hm, m', h1, h2⟩
  · rintro ⟨m, hm, m', hm', hs⟩
    refine ⟨m, hm, ?_⟩
    cases hl : gLookup map (rc m.start) with
    | none => exact absurd hs (gLookup_none.mp hl m' hm')
    | some x => exact ⟨x, rfl⟩

theorem gRcClash_congr (rc : O → O) {map map' : List (GMod O)} (h : ∀ m, m ∈ map ↔ m ∈ map') :
    gRcClash rc map = gRcClash rc map' := by
  rw [Bool.eq_iff_iff, gRcClash_iff, gRcClash_iff]
  constructor
  · rintro ⟨m, hm, m', hm', hs⟩; exact ⟨m, (h m).mp hm, m', (h m').mp hm', hs⟩
  · rintro ⟨m, hm, m', hm', hs⟩; exact ⟨m, (h m).mpr hm, m', (h m').mpr hm', hs⟩

theorem SameObj.perm {a b : List (GMod O)} (hp : a.Perm b) (h : SameObj a) : SameObj b := by
  intro m hm m' hm' ho
  exact h m (hp.mem_iff.mpr hm) m' (hp.mem_iff.mpr hm') ho

theorem StartFree.perm {a b : List (GMod O)} (hp : a.Perm b) (h : StartFree a) : StartFree b := by
  intro m hm m' hm' ho
  exact h m (hp.mem_iff.mpr hm) m' (hp.mem_iff.mpr hm') ho

/-- the maps built from two orderings of the same modules are permutations of each other -/
theorem gBuild_perm {mods mods' map map' : List (GMod O)} (hp : mods.Perm mods') (hid : SameObj mods)
    (h : gBuild mods [] = .ok map) (h' : gBuild mods' [] = .ok map') : map.Perm map' := by
  obtain ⟨n1, m1, _⟩ := gBuild_ok (map := []) (by simp [keys]) h (by simpa using hid)
  obtain ⟨n2, m2, _⟩ := gBuild_ok (map := []) (by simp [keys]) h' (by simpa using hid.perm hp)
  refine (List.perm_ext_iff_of_nodup (nodup_of_keys_nodup n1) (nodup_of_keys_nodup n2)).mpr ?_
  intro m
  rw [m1 m, m2 m]; simp [hp.mem_iff]

end Moclo
