import Moclo.Proofs.Cut
/-! Narrowing a structure: replacing the wildcard letters of the overhang groups by a signature. -/
namespace Moclo

/-- every pattern letter only matches letters the wildcard `N` matches -/
theorem clsMatch_sub_N (u : Nt) (x : Sym) (h : clsMatch u x = true) : clsMatch .N x = true := by
  obtain ⟨nt, lo⟩ := x
  cases u <;> cases nt <;> simp_all [clsMatch, lettermap]

/-- a star-free, markless piece is run exactly when its letters match -/
theorem Run.of_matches {f : Pat} {xs : Word} (p : Nat) (hs : starFree f = true) (hm : markless f)
    (h : matchesAt (letters f) xs) : Run f xs p [] (p + width f) := by
  induction f generalizing xs p with
  | nil => exact Run.nil _ _
  | cons t ts ih =>
    cases t with
    | cls c =>
      obtain ⟨h1, h2⟩ := h
      cases xs with
      | nil => simp [letters] at h1
      | cons x xs =>
        have hc : clsMatch c x = true := by
          have := h2 0 (by simp [letters]) (by simp)
          simpa [letters] using this
        have ht : matchesAt (letters ts) xs := by
          refine ⟨by simp [letters] at h1; omega, fun j hj hj' => ?_⟩
          have := h2 (j + 1) (by simp [letters]; omega) (by simp; omega)
          simpa [letters] using this
        have := ih (p + 1) (by simpa [starFree] using hs) (fun t ht' => hm t (List.mem_cons_of_mem _ ht')) ht
        have e : p + 1 + width ts = p + width (Tok.cls c :: ts) := by simp [width]; omega
        rw [e] at this
        exact Run.cls hc this
    | star c g => simp [starFree] at hs
    | gopen => exact absurd (hm Tok.gopen (by simp)) (by simp [Tok.isMark])
    | gclose => exact absurd (hm Tok.gclose (by simp)) (by simp [Tok.isMark])

/-- replace a fixed piece `X` in the middle of a run by another fixed piece `X'` of the same width: the
position of the piece, what `X` matched there, and the run with `X'` as soon as `X'` matches there -/
theorem Run.replace_mid {A X X' R : Pat} {xs : Word} {p : Nat} {ms : List Nat} {e : Nat}
    (hX : starFree X = true ∧ markless X) (hX' : starFree X' = true ∧ markless X') (hw : width X = width X')
    (h : Run (A ++ X ++ R) xs p ms e) :
    ∃ mid msA msR, Run A xs p msA mid ∧ ms = msA ++ msR ∧ p ≤ mid ∧
      matchesAt (letters X) (xs.drop (mid - p)) ∧
      Run R (xs.drop (mid + width X - p)) (mid + width X) msR e ∧
      (matchesAt (letters X') (xs.drop (mid - p)) → Run (A ++ X' ++ R) xs p ms e) := by
  rw [List.append_assoc] at h
  obtain ⟨mid, msA, msXR, hA, hXR, hms, hle⟩ := h.split
  obtain ⟨mid2, msX, msR, hXr, hR, hms2, hle2⟩ := hXR.split
  have hmX := hXr.markless_ms hX.2; subst hmX
  obtain ⟨hend, hmatch⟩ := hXr.fixed hX.1
  subst hend
  simp only [List.nil_append] at hms2; subst hms2
  rw [List.drop_drop] at hR
  have e1 : mid - p + (mid + width X - mid) = mid + width X - p := by omega
  rw [e1] at hR
  refine ⟨mid, msA, msXR, hA, hms, hle, hmatch, hR, ?_⟩
  intro hm'
  have hX'r := Run.of_matches mid hX'.1 hX'.2 hm'
  rw [List.append_assoc]
  subst hms
  refine Run.join hA (by
    have := Run.join hX'r (by
      rw [List.drop_drop]
      have e2 : mid - p + (mid + width X' - mid) = mid + width X - p := by omega
      rw [e2, ← hw]; exact hR)
    simpa using this)

end Moclo

namespace Moclo

/-- the full pattern of a three-group structure -/
def threeGroup (pre g1 g2 g3 suf : Pat) : Pat :=
  pre ++ [.gopen] ++ g1 ++ [.gclose, .gopen] ++ g2 ++ [.gclose, .gopen] ++ g3 ++ [.gclose] ++ suf

/-- the pieces of a run of a three-group structure, including what the two overhang groups matched -/
theorem threeGroup_run {pre g1 g2 g3 suf : Pat} {k : Nat} {xs : Word} {ms : List Nat} {e : Nat}
    (hpre : markless pre) (hg2 : markless g2) (hsuf : markless suf)
    (h1 : isFixed k g1 = true) (h3 : isFixed k g3 = true)
    (h : Run (threeGroup pre g1 g2 g3 suf) xs 0 ms e) :
    ∃ a1 b2, ms = [a1, a1 + k, a1 + k, b2, b2, b2 + k] ∧ a1 + k ≤ b2 ∧ b2 + k ≤ e ∧
      Run pre xs 0 [] a1 ∧ matchesAt (letters g1) (xs.drop a1) ∧
      Run g2 (xs.drop (a1 + k)) (a1 + k) [] b2 ∧ matchesAt (letters g3) (xs.drop b2) ∧
      Run suf (xs.drop (b2 + k)) (b2 + k) [] e := by
  obtain ⟨sf1, w1, ml1⟩ := isFixed_spec h1
  obtain ⟨sf3, w3, ml3⟩ := isFixed_spec h3
  obtain ⟨a1, b2, hms, hle1, hle2, rpre, rg2, rsuf⟩ := structure_run hpre hg2 hsuf h1 h3 h
  refine ⟨a1, b2, hms, hle1, hle2, rpre, ?_, rg2, ?_, rsuf⟩
  · -- group 1: split the run right after `pre ++ [gopen]`
    have hreg : threeGroup pre g1 g2 g3 suf = (pre ++ [.gopen]) ++ g1 ++
        ([.gclose, .gopen] ++ g2 ++ [.gclose, .gopen] ++ g3 ++ [.gclose] ++ suf) := by
      simp [threeGroup, List.append_assoc]
    rw [hreg] at h
    obtain ⟨mid, msA, msR, hA, hmsA, _, hm, _, _⟩ := h.replace_mid ⟨sf1, ml1⟩ ⟨sf1, ml1⟩ rfl
    -- the mark recorded by the gopen is `mid`, and it is the first mark: `mid = a1`
    obtain ⟨m0, ms0, ms1, r0, r1, e01, _⟩ := hA.split
    have := r0.markless_ms hpre; subst this
    cases r1 with
    | gopen r1' =>
      cases r1' with
      | nil =>
        simp only [List.nil_append] at e01
        rw [e01, hms] at hmsA
        simp only [List.cons_append, List.nil_append, List.cons.injEq] at hmsA
        rw [hmsA.1]; simpa using hm
  · have hreg : threeGroup pre g1 g2 g3 suf = (pre ++ [.gopen] ++ g1 ++ [.gclose, .gopen] ++ g2 ++ [.gclose, .gopen]) ++ g3 ++
        ([.gclose] ++ suf) := by
      simp [threeGroup, List.append_assoc]
    rw [hreg] at h
    obtain ⟨mid, msA, msR, hA, hmsA, _, hm, hR, _⟩ := h.replace_mid ⟨sf3, ml3⟩ ⟨sf3, ml3⟩ rfl
    -- after the piece comes `gclose :: suf`: its mark is `mid + k = b2 + k`
    cases hR with
    | gclose hR' =>
      have := hR'.markless_ms hsuf; subst this
      rw [hms] at hmsA
      -- msA has five marks, the last appended one is mid + width g3
      have hl : msA.length = 5 := by
        have := congrArg List.length hmsA; simp at this; omega
      have : msA ++ [mid + width g3] = [a1, a1 + k, a1 + k, b2, b2] ++ [b2 + k] := by simpa using hmsA.symm
      have hlast := (List.append_inj this (by simp [hl])).2
      simp only [List.cons.injEq, and_true] at hlast
      rw [w3] at hlast
      have : mid = b2 := by omega
      rw [this] at hm; simpa using hm

/-- and conversely: such pieces assemble into a run of the structure -/
theorem threeGroup_join {pre g1 g2 g3 suf : Pat} {k : Nat} {xs : Word} {a1 b2 e : Nat}
    (h1 : isFixed k g1 = true) (h3 : isFixed k g3 = true)
    (rpre : Run pre xs 0 [] a1) (m1 : matchesAt (letters g1) (xs.drop a1))
    (rg2 : Run g2 (xs.drop (a1 + k)) (a1 + k) [] b2) (m3 : matchesAt (letters g3) (xs.drop b2))
    (rsuf : Run suf (xs.drop (b2 + k)) (b2 + k) [] e) :
    Run (threeGroup pre g1 g2 g3 suf) xs 0 [a1, a1 + k, a1 + k, b2, b2, b2 + k] e := by
  obtain ⟨sf1, w1, ml1⟩ := isFixed_spec h1
  obtain ⟨sf3, w3, ml3⟩ := isFixed_spec h3
  have hb := rg2.bounds.1
  have r1 := Run.of_matches a1 sf1 ml1 m1
  have r3 := Run.of_matches b2 sf3 ml3 m3
  rw [w1] at r1; rw [w3] at r3
  -- build from the right
  have s5 : Run ([Tok.gclose] ++ suf) (xs.drop (b2 + k)) (b2 + k) [b2 + k] e := Run.gclose rsuf
  have s4 : Run (g3 ++ ([Tok.gclose] ++ suf)) (xs.drop b2) b2 ([] ++ [b2 + k]) e :=
    Run.join r3 (by rw [List.drop_drop]; have : b2 + (b2 + k - b2) = b2 + k := by omega
                    rw [this]; exact s5)
  have s3 : Run ([Tok.gclose, Tok.gopen] ++ (g3 ++ ([Tok.gclose] ++ suf))) (xs.drop b2) b2 [b2, b2, b2 + k] e :=
    Run.gclose (Run.gopen (by simpa using s4))
  have s2 : Run (g2 ++ ([Tok.gclose, Tok.gopen] ++ (g3 ++ ([Tok.gclose] ++ suf)))) (xs.drop (a1 + k)) (a1 + k)
      ([] ++ [b2, b2, b2 + k]) e :=
    Run.join rg2 (by rw [List.drop_drop]; have : a1 + k + (b2 - (a1 + k)) = b2 := by omega
                     rw [this]; exact s3)
  have s1 : Run ([Tok.gclose, Tok.gopen] ++ (g2 ++ ([Tok.gclose, Tok.gopen] ++ (g3 ++ ([Tok.gclose] ++ suf)))))
      (xs.drop (a1 + k)) (a1 + k) [a1 + k, a1 + k, b2, b2, b2 + k] e :=
    Run.gclose (Run.gopen (by simpa using s2))
  have s0 : Run (g1 ++ ([Tok.gclose, Tok.gopen] ++ (g2 ++ ([Tok.gclose, Tok.gopen] ++ (g3 ++ ([Tok.gclose] ++ suf))))))
      (xs.drop a1) a1 ([] ++ [a1 + k, a1 + k, b2, b2, b2 + k]) e :=
    Run.join r1 (by rw [List.drop_drop]; have : a1 + (a1 + k - a1) = a1 + k := by omega
                    rw [this]; exact s1)
  have sg : Run ([Tok.gopen] ++ (g1 ++ ([Tok.gclose, Tok.gopen] ++ (g2 ++ ([Tok.gclose, Tok.gopen] ++ (g3 ++ ([Tok.gclose] ++ suf)))))))
      (xs.drop a1) a1 [a1, a1 + k, a1 + k, b2, b2, b2 + k] e := Run.gopen (by simpa using s0)
  have := Run.join rpre (by simpa using sg)
  have hreg : threeGroup pre g1 g2 g3 suf =
      pre ++ ([Tok.gopen] ++ (g1 ++ ([Tok.gclose, Tok.gopen] ++ (g2 ++ ([Tok.gclose, Tok.gopen] ++ (g3 ++ ([Tok.gclose] ++ suf))))))) := by
    simp [threeGroup, List.append_assoc]
  rw [hreg]; simpa using this

/-- **narrowing the overhang groups**: two structures that differ only in the (fixed-width) letters of
groups 1 and 3 — `g1'`, `g3'` at least as specific as `g1`, `g3` — have the same runs, up to the letters the
two groups must match -/
theorem threeGroup_narrow {pre g1 g1' g2 g3 g3' suf : Pat} {k : Nat} {xs : Word} {ms : List Nat} {e : Nat}
    (hpre : markless pre) (hg2 : markless g2) (hsuf : markless suf)
    (h1 : isFixed k g1 = true) (h3 : isFixed k g3 = true) (h1' : isFixed k g1' = true) (h3' : isFixed k g3' = true)
    (hsub1 : ∀ ys, matchesAt (letters g1') ys → matchesAt (letters g1) ys)
    (hsub3 : ∀ ys, matchesAt (letters g3') ys → matchesAt (letters g3) ys) :
    Run (threeGroup pre g1' g2 g3' suf) xs 0 ms e ↔
      Run (threeGroup pre g1 g2 g3 suf) xs 0 ms e ∧
        ∃ a1 b2, ms = [a1, a1 + k, a1 + k, b2, b2, b2 + k] ∧
          matchesAt (letters g1') (xs.drop a1) ∧ matchesAt (letters g3') (xs.drop b2) := by
  constructor
  · intro h
    obtain ⟨a1, b2, hms, _, _, rpre, m1, rg2, m3, rsuf⟩ := threeGroup_run hpre hg2 hsuf h1' h3' h
    refine ⟨?_, a1, b2, hms, m1, m3⟩
    rw [hms]
    exact threeGroup_join h1 h3 rpre (hsub1 _ m1) rg2 (hsub3 _ m3) rsuf
  · rintro ⟨h, a1', b2', hms', m1', m3'⟩
    obtain ⟨a1, b2, hms, _, _, rpre, _, rg2, _, rsuf⟩ := threeGroup_run hpre hg2 hsuf h1 h3 h
    rw [hms] at hms'
    simp only [List.cons.injEq, and_true] at hms'
    obtain ⟨ea, _, _, eb, _⟩ := hms'
    subst ea eb
    rw [hms]
    exact threeGroup_join h1' h3' rpre m1' rg2 m3' rsuf

end Moclo

namespace Moclo

theorem Run.toFits {ts : Pat} {xs : Word} {p : Nat} {ms : List Nat} {e : Nat} (h : Run ts xs p ms e) :
    Fits ts xs (e - p) := by
  induction h with
  | nil => simpa using Fits.nil _
  | @cls c x ts xs p ms e hc hr ih =>
    have := hr.bounds.1
    have e1 : e - p = (e - (p + 1)) + 1 := by omega
    rw [e1]; exact Fits.cls hc ih
  | gopen _ ih => exact Fits.gopen ih
  | gclose _ ih => exact Fits.gclose ih
  | @star c g ts xs p ms e j hj hall hr ih =>
    have := hr.bounds.1
    have e1 : e - p = j + (e - (p + j)) := by omega
    rw [e1]; exact Fits.star j hj hall ih

/-- a run exists exactly when the matcher succeeds -/
theorem relMatch_isSome_of_run {p : Pat} {xs : Word} {ms : List Nat} {e : Nat} (h : Run p xs 0 ms e) :
    ∃ rel, relMatch p xs = some rel := by
  cases hr : relMatch p xs with
  | some rel => exact ⟨rel, rfl⟩
  | none => exact absurd h.toFits (matchToks_complete p xs 0 [] hr _)

/-- the structure fits the record in exactly one way: one start, one choice of run lengths -/
def UniqueFit (p : Pat) (w : Word) : Prop :=
  ∃ i ms e, i < w.length ∧ Run p (window w i) 0 ms e ∧
    ∀ j ms' e', j < w.length → Run p (window w j) 0 ms' e' → j = i ∧ ms' = ms ∧ e' = e

/-- under a unique fit the search returns that fit -/
theorem search_of_uniqueFit {p : Pat} {w : Word} (h : UniqueFit p w) :
    ∃ i ms e rel, i < w.length ∧ Run p (window w i) 0 ms e ∧ relMatch p (window w i) = some rel ∧
      rel.reverse = ms ++ [e] ∧ search p w true = some ⟨i :: rel.reverse.map (· + i)⟩ ∧
      (∀ j ms' e', j < w.length → Run p (window w j) 0 ms' e' → j = i ∧ ms' = ms ∧ e' = e) := by
  obtain ⟨i, ms, e, hi, hr, hu⟩ := h
  obtain ⟨rel, hrel⟩ := relMatch_isSome_of_run hr
  obtain ⟨ms', e', hr', hrev⟩ := relMatch_run hrel
  obtain ⟨_, e1, e2⟩ := hu i ms' e' hi hr'
  subst e1 e2
  refine ⟨i, ms', e', rel, hi, hr, hrel, hrev, ?_, hu⟩
  apply search_circ_first hi hrel
  intro j hj
  cases hj' : relMatch p (window w j) with
  | none => rfl
  | some r =>
    obtain ⟨m2, e2, hr2, _⟩ := relMatch_run hj'
    have := (hu j m2 e2 (by omega) hr2).1
    omega

theorem matchesAt_take (cs : List Nt) (ys : Word) (m : Nat) (hm : cs.length ≤ m) :
    matchesAt cs (ys.take m) ↔ matchesAt cs ys := by
  unfold matchesAt
  constructor
  · rintro ⟨h1, h2⟩
    simp only [List.length_take] at h1
    refine ⟨by omega, fun j hj hj' => ?_⟩
    have := h2 j hj (by simp only [List.length_take]; omega)
    simpa [List.getElem_take] using this
  · rintro ⟨h1, h2⟩
    refine ⟨by simp only [List.length_take]; omega, fun j hj hj' => ?_⟩
    simp only [List.length_take] at hj'
    have := h2 j hj (by omega)
    simpa [List.getElem_take] using this

end Moclo
