import Moclo.Model.Assembly
import Moclo.Proofs.Word
import Moclo.Proofs.Graph
/-! Lemmas about the assembly pipeline: citation dereference / restore, fragments, concatenation. -/
namespace Moclo

/-! ## records under rotation and slicing: the sequence -/

theorem Rec.rotr_seq (r : Rec) (k : Int) : (r.rotr k).seq = rotrI r.seq k := by
  unfold Rec.rotr
  simp only []
  split
  · rename_i h; unfold rotrI; rw [h, rotr_zero]
  · rfl

theorem Rec.rotl_seq (r : Rec) (k : Int) : (r.rotl k).seq = rotlI r.seq k := by
  unfold Rec.rotl rotlI; exact Rec.rotr_seq r _

@[simp] theorem Rec.slice_seq (r : Rec) (a b : Nat) : (r.slice a b).seq = pySlice r.seq a b := rfl
@[simp] theorem Rec.append_seq (x y : Rec) : (x.append y).seq = x.seq ++ y.seq := rfl
@[simp] theorem addSource_seq (rid : Nat) (r : Rec) : (addSource rid r).seq = r.seq := rfl

/-- the retained fragment as a word: `(w << start)[: end-start]` for a module, `[end-start :]` for a vector -/
def targetWord (c : ClassSpec) (w : Word) (m : Match) : Word :=
  match c.kind with
  | .module => pySlice (rotlI w (m.span 1).1) 0 ((m.span 2).2 - (m.span 1).1)
  | .vector => pySlice (rotlI w (m.span 1).1) ((m.span 2).2 - (m.span 1).1) w.length

theorem targetOf_seq (c : ClassSpec) (r : Rec) (m : Match) : (c.targetOf r m).seq = targetWord c r.seq m := by
  unfold ClassSpec.targetOf targetWord
  cases c.kind <;> simp [Rec.rotl_seq]

/-- the fragment a record contributes under a class (empty when the record is not valid for it) -/
def fragmentOf (c : ClassSpec) (w : Word) : Word :=
  match c.matchSeq w with
  | .ok m => targetWord c w m
  | .error _ => []

def Ent.fragment (e : Ent) : Word := fragmentOf e.spec e.rcd.seq

theorem target_seq {c : ClassSpec} {r t : Rec} (h : c.target r = .ok t) : t.seq = fragmentOf c r.seq := by
  unfold ClassSpec.target at h
  unfold fragmentOf
  cases hm : c.matchSeq r.seq with
  | error e => rw [hm] at h; cases h
  | ok m =>
    rw [hm] at h
    simp only [Except.map] at h
    cases h
    exact targetOf_seq c r m

/-! ## citations: dereference, restore, re-reference -/

theorem mapM_option_length {α β : Type} (f : α → Option β) :
    ∀ (l : List α) (l' : List β), l.mapM f = some l' → l'.length = l.length
  | [], l', h => by simp at h; subst h; rfl
  | a :: as, l', h => by
    simp only [List.mapM_cons, Option.bind_eq_bind] at h
    cases ha : f a with
    | none => simp [ha] at h
    | some b =>
      simp only [ha, Option.bind_some] at h
      cases has : as.mapM f with
      | none => simp [has] at h
      | some bs =>
        simp [has] at h; subst h
        simp [mapM_option_length f as bs has]

theorem mapM_option_forall2 {α β : Type} (f : α → Option β) :
    ∀ (l : List α) (l' : List β), l.mapM f = some l' → List.Forall₂ (fun a b => f a = some b) l l'
  | [], l', h => by simp at h; subst h; exact List.Forall₂.nil
  | a :: as, l', h => by
    simp only [List.mapM_cons, Option.bind_eq_bind] at h
    cases ha : f a with
    | none => simp [ha] at h
    | some b =>
      simp only [ha, Option.bind_some] at h
      cases has : as.mapM f with
      | none => simp [has] at h
      | some bs =>
        simp [has] at h; subst h
        exact List.Forall₂.cons ha (mapM_option_forall2 f as bs has)

/-- dereferencing touches nothing but the citation entries -/
theorem derefFeature_fields {refs : List Nat} {f f' : Feature} (h : derefFeature refs f = some f') :
    f'.ftype = f.ftype ∧ f'.qual = f.qual ∧ f'.parts = f.parts := by
  unfold derefFeature at h
  cases hc : f.cites.mapM (derefCite refs) with
  | none => simp [hc] at h
  | some cs => simp [hc] at h; subst h; exact ⟨rfl, rfl, rfl⟩

theorem derefRec_fields {r r' : Rec} (h : derefRec r = some r') :
    r'.seq = r.seq ∧ r'.rid = r.rid ∧ r'.refs = r.refs ∧
    List.Forall₂ (fun f f' => derefFeature r.refs f = some f') r.feats r'.feats := by
  unfold derefRec at h
  cases hf : r.feats.mapM (derefFeature r.refs) with
  | none => simp [hf] at h
  | some fs =>
    simp [hf] at h; subst h
    exact ⟨rfl, rfl, rfl, mapM_option_forall2 _ _ _ hf⟩

/-- **restore ∘ dereference = identity**: putting the snapshotted citation lists back gives exactly the
record that went in -/
theorem restore_deref {r r' : Rec} (h : derefRec r = some r') : restore (snapshot r) r' = r := by
  obtain ⟨h1, h2, h3, h4⟩ := derefRec_fields h
  unfold restore snapshot
  cases r with | mk rid seq feats refs =>
  cases r' with | mk rid' seq' feats' refs' =>
  simp only [] at h1 h2 h3 h4
  subst h1 h2 h3
  simp only [Rec.mk.injEq, true_and, and_true]
  clear h
  induction h4 with
  | nil => rfl
  | @cons f f' fs fs' hf _ ih =>
    simp only [List.map_cons, List.zip_cons_cons]
    rw [ih]
    obtain ⟨a, b, c⟩ := derefFeature_fields hf
    cases f; cases f'
    simp only [] at a b c ⊢
    subst a b c; rfl

theorem restore_self (r : Rec) : restore (snapshot r) r = r := by
  unfold restore snapshot
  cases r with | mk rid seq feats refs =>
  simp only [Rec.mk.injEq, true_and, and_true]
  induction feats with
  | nil => rfl
  | cons f fs ih => simp only [List.map_cons, List.zip_cons_cons]; rw [ih]

/-! ## concatenation -/

theorem rerefFeatures_length (refs : List Nat) (fs : List Feature) :
    (rerefFeatures refs fs).2.length = fs.length := by
  induction fs generalizing refs with
  | nil => rfl
  | cons f fs ih => simp only [rerefFeatures, List.length_cons]; rw [ih]

@[simp] theorem rerefRec_seq (r : Rec) : (rerefRec r).seq = r.seq := rfl
@[simp] theorem rerefRec_rid (r : Rec) : (rerefRec r).rid = r.rid := rfl

theorem match_ok_of_target {c : ClassSpec} {r t : Rec} (h : c.target r = .ok t) :
    ∃ m, c.matchSeq r.seq = .ok m := by
  unfold ClassSpec.target at h
  cases hm : c.matchSeq r.seq with
  | error e => rw [hm] at h; cases h
  | ok m => exact ⟨m, rfl⟩

/-- the fragment of the supplied module with object id `oid` -/
def fragOfOid (ents : List Ent) (oid : Nat) : Word :=
  match ents.find? (fun e => e.oid = oid) with
  | some e => e.fragment
  | none => []

theorem extractChain_seq {ents : List Ent} {gs : List (GMod Word)} {acc r : Rec}
    (h : extractChain ents gs acc = .ok r) :
    r.seq = acc.seq ++ (gs.map (fun g => fragOfOid ents g.oid)).flatten ∧
    ∀ g ∈ gs, ∃ e t, ents.find? (fun e => e.oid = g.oid) = some e ∧ e.faulty = false ∧
      e.spec.target e.rcd = .ok t := by
  induction gs generalizing acc with
  | nil => simp only [extractChain, Except.ok.injEq] at h; subst h; simp
  | cons g gs ih =>
    simp only [extractChain] at h
    cases hf : ents.find? (fun e => e.oid = g.oid) with
    | none => rw [hf] at h; cases h
    | some e =>
      rw [hf] at h; simp only [] at h
      split at h
      · cases h
      · rename_i hfa
        cases ht : e.spec.target e.rcd with
        | error err => rw [ht] at h; cases h
        | ok t =>
          rw [ht] at h; simp only [] at h
          obtain ⟨h1, h2⟩ := ih h
          refine ⟨?_, ?_⟩
          · rw [h1]
            simp only [Rec.append_seq, List.map_cons, List.flatten_cons, List.append_assoc]
            congr 2
            unfold fragOfOid; rw [hf]; exact target_seq ht
          · intro g' hg'
            rcases List.mem_cons.mp hg' with rfl | hg'
            · exact ⟨e, t, hf, by simpa using hfa, ht⟩
            · exact h2 g' hg'

/-- the dereferenced copies of the entities: same identity, class, flag and sequence -/
def DerefOf (e d : Ent) : Prop :=
  d.oid = e.oid ∧ d.spec = e.spec ∧ d.faulty = e.faulty ∧ derefRec e.rcd = some d.rcd

theorem derefEnts_spec {mods dms : List Ent}
    (h : mods.mapM (fun e => (derefRec e.rcd).map (fun r => { e with rcd := r })) = some dms) :
    List.Forall₂ DerefOf mods dms := by
  have := mapM_option_forall2 _ _ _ h
  refine List.Forall₂.imp ?_ this
  intro e d hd
  cases hr : derefRec e.rcd with
  | none => simp [hr] at hd
  | some r => simp [hr] at hd; subst hd; exact ⟨rfl, rfl, rfl, hr⟩

theorem DerefOf.fragment {e d : Ent} (h : DerefOf e d) : d.fragment = e.fragment := by
  obtain ⟨_, h2, _, h4⟩ := h
  unfold Ent.fragment
  rw [h2, (derefRec_fields h4).1]

theorem fragOfOid_deref {mods dms : List Ent} (h : List.Forall₂ DerefOf mods dms) (oid : Nat) :
    fragOfOid dms oid = fragOfOid mods oid := by
  unfold fragOfOid
  induction h with
  | nil => rfl
  | @cons e d es ds hd _ ih =>
    simp only [List.find?_cons]
    rw [hd.1]
    by_cases ho : e.oid = oid
    · simp [ho, hd.fragment]
    · simp [ho]; exact ih

theorem find_deref {mods dms : List Ent} (h : List.Forall₂ DerefOf mods dms) (oid : Nat) {d : Ent}
    (hd : dms.find? (fun e => e.oid = oid) = some d) :
    ∃ e, mods.find? (fun e => e.oid = oid) = some e ∧ DerefOf e d := by
  induction h with
  | nil => simp at hd
  | @cons e d' es ds hde _ ih =>
    simp only [List.find?_cons] at hd ⊢
    rw [hde.1] at hd
    by_cases ho : e.oid = oid
    · simp only [ho, decide_true] at hd ⊢
      simp only [Option.some.injEq] at hd; subst hd
      exact ⟨e, rfl, hde⟩
    · simp only [ho, decide_false] at hd ⊢
      exact ih hd

theorem derefOf_isSome {mods dms : List Ent} (h : List.Forall₂ DerefOf mods dms) :
    ∀ e ∈ mods, (derefRec e.rcd).isSome := by
  induction h with
  | nil => intro e he; simp at he
  | @cons e0 d0 es ds hde _ ih =>
    intro e he
    rcases List.mem_cons.mp he with rfl | he
    · rw [hde.2.2.2]; rfl
    · exact ih e he

theorem restore_derefEnts {mods dms : List Ent} (h : List.Forall₂ DerefOf mods dms) :
    ((dms.map (·.rcd)).zip ((mods.map (·.rcd)).map snapshot)).map (fun p => restore p.2 p.1) = mods.map (·.rcd) := by
  induction h with
  | nil => rfl
  | @cons e d es ds hd _ ih =>
    simp only [List.map_cons, List.zip_cons_cons]
    rw [ih, restore_deref hd.2.2.2]

/-- every evaluated module comes from a supplied entity -/
theorem evalPrefix_src : ∀ (mods : List Ent) (gs : List (GMod Word)) (err : Option Err),
    evalPrefix mods = (gs, err) → ∀ g ∈ gs, ∃ e ∈ mods, e.oid = g.oid ∧ e.gmod = .ok g := by
  intro mods
  induction mods with
  | nil => intro gs err h; simp [evalPrefix] at h; obtain ⟨rfl, _⟩ := h; simp
  | cons e es ih =>
    intro gs err h
    simp only [evalPrefix] at h
    cases he : e.gmod with
    | error x => rw [he] at h; simp only [Prod.mk.injEq] at h; obtain ⟨rfl, _⟩ := h; simp
    | ok g0 =>
      rw [he] at h
      simp only [Prod.mk.injEq] at h
      obtain ⟨rfl, herr⟩ := h
      intro g hg
      rcases List.mem_cons.mp hg with rfl | hg
      · refine ⟨e, by simp, ?_, he⟩
        unfold Ent.gmod at he
        cases hm : e.spec.matchSeq e.rcd.seq with
        | error _ => rw [hm] at he; cases he
        | ok m => rw [hm] at he; simp [bind, Except.bind, pure, Except.pure] at he; rw [← he]
      · obtain ⟨e', he', h1', h2'⟩ := ih (evalPrefix es).1 (evalPrefix es).2 rfl g hg
        exact ⟨e', List.mem_cons_of_mem _ he', h1', h2'⟩

/-- **purity**: whatever the outcome — product, warning, or any failure at any point — the inputs come back
exactly as they went in -/
theorem assemble_inputs (v : Ent) (mods : List Ent) (pid pname : Nat) :
    (assemble v mods pid pname).2 = v.rcd :: mods.map (·.rcd) := by
  unfold assemble
  simp only []
  split
  · rfl
  · split
    · rfl
    · split
      · rfl
      · split
        · rfl
        · split
          · rfl
          · split
            · rename_i dms dv hdm hdv
              have hms := derefEnts_spec hdm
              cases hr : derefRec v.rcd with
              | none => simp [hr] at hdv
              | some r =>
                simp [hr] at hdv; subst hdv
                simp only [List.map_cons, List.zip_cons_cons]
                rw [restore_deref hr]
                congr 1
                have := restore_derefEnts hms
                simpa using this
            · rfl

/-- what a successful assembly is made of -/
theorem assemble_ok {v : Ent} {mods : List Ent} {pid pname : Nat} {p : Product} {after : List Rec}
    (h : assemble v mods pid pname = (.ok p, after)) :
    ∃ gv gs map chain rest,
      v.gmod = .ok gv ∧ gv.start ≠ gv.stop ∧ evalPrefix mods = (gs, none) ∧ gBuild gs [] = .ok map ∧
      gRcClash rc map = false ∧ gWalk gv.start (map.length + 1) gv.stop map = (chain, rest, none) ∧
      p.rcd.seq = (chain.map (fun g => fragOfOid mods g.oid)).flatten ++ v.fragment ∧
      p.unused = rest.map (·.oid) ∧ p.pid = pid ∧ p.pname = pname ∧ p.rcd.rid = pid ∧
      p.commentVector = v.rcd.rid ∧ p.commentModules = mods.map (·.rcd.rid) ∧
      (∀ g ∈ chain, ∃ e m, mods.find? (fun e => e.oid = g.oid) = some e ∧ e.faulty = false ∧
        e.spec.matchSeq e.rcd.seq = .ok m) ∧ v.faulty = false ∧
      (∀ e ∈ mods, (derefRec e.rcd).isSome) ∧ (derefRec v.rcd).isSome := by
  unfold assemble at h
  simp only [] at h
  split at h
  · cases h
  · rename_i gv hgv
    split at h
    · cases h
    · rename_i hne
      split at h
      · cases h
      · rename_i map hb
        split at h
        · cases h
        · rename_i herr
          split at h
          · cases h
          · rename_i hrc
            split at h
            · rename_i dms dv hdm hdv
              have hms := derefEnts_spec hdm
              cases hr : derefRec v.rcd with
              | none => simp [hr] at hdv
              | some r =>
                simp [hr] at hdv; subst hdv
                simp only [Prod.mk.injEq] at h
                obtain ⟨hcore, _⟩ := h
                unfold assembleCore at hcore
                simp only [] at hcore
                generalize hw : gWalk gv.start (map.length + 1) gv.stop map = w at hcore
                obtain ⟨chain, rest, stall⟩ := w
                simp only [] at hcore
                split at hcore
                · cases hcore
                · rename_i acc hex
                  split at hcore
                  · cases hcore
                  · split at hcore
                    · cases hcore
                    · rename_i hvf
                      split at hcore
                      · cases hcore
                      · rename_i vt hvt
                        simp only [Except.ok.injEq] at hcore
                        subst hcore
                        obtain ⟨hs, hall⟩ := extractChain_seq hex
                        have hgs : evalPrefix mods = ((evalPrefix mods).1, none) := by
                          rw [← herr]
                        refine ⟨gv, (evalPrefix mods).1, map, chain, rest, hgv, hne, hgs, hb, by simpa using hrc,
                          hw, ?_, rfl, rfl, rfl, rfl, rfl, rfl, ?_, by simpa using hvf, derefOf_isSome hms, rfl⟩
                        · simp only [rerefRec_seq, Rec.append_seq, hs, List.nil_append]
                          congr 1
                          · congr 1
                            apply List.map_congr_left
                            intro g _
                            exact fragOfOid_deref hms g.oid
                          · rw [target_seq hvt]
                            unfold Ent.fragment
                            simp [(derefRec_fields hr).1]
                        · intro g hg
                          obtain ⟨d, t, hd, hfd, htd⟩ := hall g hg
                          obtain ⟨e, he, hde⟩ := find_deref hms g.oid hd
                          obtain ⟨m, hm⟩ := match_ok_of_target htd
                          refine ⟨e, m, he, by rw [← hde.2.2.1]; exact hfd, ?_⟩
                          rw [← hde.2.1, ← (derefRec_fields hde.2.2.2).1]; exact hm
            · cases h

end Moclo

namespace Moclo

theorem find_deref' {mods dms : List Ent} (h : List.Forall₂ DerefOf mods dms) (oid : Nat) {e : Ent}
    (he : mods.find? (fun e => e.oid = oid) = some e) :
    ∃ d, dms.find? (fun e => e.oid = oid) = some d ∧ DerefOf e d := by
  induction h with
  | nil => simp at he
  | @cons e0 d0 es ds hde _ ih =>
    simp only [List.find?_cons] at he ⊢
    rw [hde.1]
    by_cases ho : e0.oid = oid
    · simp only [ho, decide_true] at he ⊢
      simp only [Option.some.injEq] at he; subst he
      exact ⟨d0, rfl, hde⟩
    · simp only [ho, decide_false] at he ⊢
      exact ih he

theorem target_ok_of_match {c : ClassSpec} {r : Rec} {m : Match} (h : c.matchSeq r.seq = .ok m) :
    c.target r = .ok (c.targetOf r m) := by
  unfold ClassSpec.target; rw [h]; rfl

theorem extractChain_ok {ents : List Ent} {gs : List (GMod Word)}
    (h : ∀ g ∈ gs, ∃ e m, ents.find? (fun e => e.oid = g.oid) = some e ∧ e.faulty = false ∧
      e.spec.matchSeq e.rcd.seq = .ok m) (acc : Rec) :
    ∃ r, extractChain ents gs acc = .ok r := by
  induction gs generalizing acc with
  | nil => exact ⟨acc, rfl⟩
  | cons g gs ih =>
    obtain ⟨e, m, hf, hfa, hm⟩ := h g (by simp)
    simp only [extractChain, hf, hfa, target_ok_of_match hm]
    exact ih (fun g' hg' => h g' (List.mem_cons_of_mem _ hg')) _

theorem derefEnts_some {mods : List Ent} (h : ∀ e ∈ mods, (derefRec e.rcd).isSome) :
    ∃ dms, mods.mapM (fun e => (derefRec e.rcd).map (fun r => { e with rcd := r })) = some dms := by
  induction mods with
  | nil => exact ⟨[], rfl⟩
  | cons e es ih =>
    obtain ⟨r, hr⟩ := Option.isSome_iff_exists.mp (h e (by simp))
    obtain ⟨ds, hds⟩ := ih (fun x hx => h x (List.mem_cons_of_mem _ hx))
    exact ⟨{ e with rcd := r } :: ds, by simp [List.mapM_cons, hr, hds]⟩

/-- the converse of `assemble_ok`: when the graph conditions hold, the citations are well formed and no
extraction is faulty, a product is returned -/
theorem assemble_succeeds {v : Ent} {mods : List Ent} (pid pname : Nat)
    {gv : GMod Word} {gs map chain rest : List (GMod Word)}
    (h1 : v.gmod = .ok gv) (h2 : gv.start ≠ gv.stop) (h3 : evalPrefix mods = (gs, none))
    (h4 : gBuild gs [] = .ok map) (h5 : gRcClash rc map = false)
    (h6 : gWalk gv.start (map.length + 1) gv.stop map = (chain, rest, none))
    (hd : ∀ e ∈ mods, (derefRec e.rcd).isSome) (hdv : (derefRec v.rcd).isSome)
    (hch : ∀ g ∈ chain, ∃ e m, mods.find? (fun e => e.oid = g.oid) = some e ∧ e.faulty = false ∧
      e.spec.matchSeq e.rcd.seq = .ok m)
    (hvf : v.faulty = false) :
    ∃ p, (assemble v mods pid pname).1 = .ok p := by
  obtain ⟨dms, hdms⟩ := derefEnts_some hd
  obtain ⟨r, hr⟩ := Option.isSome_iff_exists.mp hdv
  have hms := derefEnts_spec hdms
  obtain ⟨mv, hmv⟩ : ∃ m, v.spec.matchSeq v.rcd.seq = .ok m := by
    unfold Ent.gmod at h1
    cases hm : v.spec.matchSeq v.rcd.seq with
    | error e => rw [hm] at h1; simp [bind, Except.bind] at h1
    | ok m => exact ⟨m, rfl⟩
  have hseq := (derefRec_fields hr).1
  obtain ⟨acc, hacc⟩ := extractChain_ok (ents := dms) (gs := chain) (by
    intro g hg
    obtain ⟨e, m, hf, hfa, hm⟩ := hch g hg
    obtain ⟨d, hd', hde⟩ := find_deref' hms g.oid hf
    refine ⟨d, m, hd', by rw [hde.2.2.1]; exact hfa, ?_⟩
    rw [hde.2.1, (derefRec_fields hde.2.2.2).1]; exact hm) ⟨0, [], [], []⟩
  unfold assemble
  simp only [h1, h2, if_false, h3, h4, h5, Bool.false_eq_true, hdms, hr, Option.map_some]
  unfold assembleCore
  simp only [h6, hacc, hvf, Bool.false_eq_true, if_false]
  have : v.spec.target r = .ok (v.spec.targetOf r mv) := by
    apply target_ok_of_match; rw [hseq]; exact hmv
  rw [this]
  exact ⟨_, rfl⟩

end Moclo
