import Moclo.Proofs.Search
import Moclo.Proofs.Assembly
/-! The *view* of a structured record: the one-turn window the structure matched in and the recorded
marks relative to its start.  Everything a class reports is a function of the view. -/
namespace Moclo

theorem firstDown_mem {R} {k : Nat → Option R} {m : Nat} {r : R} (h : firstDown k m = some r) :
    ∃ j, k j = some r := by obtain ⟨j, _, hj⟩ := firstDown_some h; exact ⟨j, hj⟩

/-- every successful match records `nmarks + 1` new positions, all between the start and the end of the
match, in non-decreasing order (reading order) -/
theorem matchToks_marks : ∀ (ts : Pat) (xs : Word) (pos : Nat) (acc r : List Nat),
    matchToks ts xs pos acc = some r →
    ∃ new, r = new ++ acc ∧ new.length = nmarks ts + 1 ∧ new.Pairwise (· ≥ ·) ∧
      (∀ x ∈ new, pos ≤ x ∧ x ≤ pos + xs.length) := by
  intro ts
  induction ts with
  | nil =>
    intro xs pos acc r h
    simp only [matchToks, Option.some.injEq] at h; subst h
    exact ⟨[pos], rfl, rfl, by simp, by simp⟩
  | cons t ts ih =>
    intro xs pos acc r h
    cases t with
    | cls c =>
      cases xs with
      | nil => simp [matchToks] at h
      | cons x xs =>
        simp only [matchToks] at h
        split at h
        · obtain ⟨new, h1, h2, h3, h4⟩ := ih _ _ _ _ h
          refine ⟨new, h1, by simpa [nmarks] using h2, h3, ?_⟩
          intro y hy; have := h4 y hy; simp only [List.length_cons]; omega
        · cases h
    | gopen =>
      simp only [matchToks] at h
      obtain ⟨new, h1, h2, h3, h4⟩ := ih _ _ _ _ h
      refine ⟨new ++ [pos], by rw [h1]; simp, by simp [nmarks, h2], ?_, ?_⟩
      · rw [List.pairwise_append]
        exact ⟨h3, by simp, fun a ha b hb => by simp at hb; subst hb; exact (h4 a ha).1⟩
      · intro y hy
        rcases List.mem_append.mp hy with hy | hy
        · exact h4 y hy
        · simp at hy; subst hy; omega
    | gclose =>
      simp only [matchToks] at h
      obtain ⟨new, h1, h2, h3, h4⟩ := ih _ _ _ _ h
      refine ⟨new ++ [pos], by rw [h1]; simp, by simp [nmarks, h2], ?_, ?_⟩
      · rw [List.pairwise_append]
        exact ⟨h3, by simp, fun a ha b hb => by simp at hb; subst hb; exact (h4 a ha).1⟩
      · intro y hy
        rcases List.mem_append.mp hy with hy | hy
        · exact h4 y hy
        · simp at hy; subst hy; omega
    | star c g =>
      simp only [matchToks] at h
      have key : ∀ j, j ≤ runLen c xs → matchToks ts (xs.drop j) (pos + j) acc = some r →
          ∃ new, r = new ++ acc ∧ new.length = nmarks (Tok.star c g :: ts) + 1 ∧ new.Pairwise (· ≥ ·) ∧
            (∀ x ∈ new, pos ≤ x ∧ x ≤ pos + xs.length) := by
        intro j hj hk
        obtain ⟨new, h1, h2, h3, h4⟩ := ih _ _ _ _ hk
        refine ⟨new, h1, by simpa [nmarks] using h2, h3, ?_⟩
        intro y hy
        have := h4 y hy
        have hl := runLen_le c xs
        simp only [List.length_drop] at this
        omega
      split at h
      · obtain ⟨j, hj, hk⟩ := firstDown_some h
        exact key j hj hk
      · obtain ⟨j, _, hj, hk, _⟩ := firstUp_some h
        exact key j (by omega) hk

theorem relMatch_marks {p : Pat} {xs : Word} {rel : List Nat} (h : relMatch p xs = some rel) :
    rel.length = nmarks p + 1 ∧ rel.Pairwise (· ≥ ·) ∧ ∀ x ∈ rel, x ≤ xs.length := by
  obtain ⟨new, h1, h2, h3, h4⟩ := matchToks_marks p xs 0 [] rel h
  simp only [List.append_nil] at h1; subst h1
  exact ⟨h2, h3, fun x hx => by have := (h4 x hx).2; omega⟩

/-! ## groups read off the window -/

/-- the letters `[a, b)` of the window -/
def slice (text : Word) (a b : Nat) : Word := (text.drop a).take (b - a)

/-- for a match that starts at `i < n`, a span `[i+a, i+b)` with `a ≤ b ≤ n` is extracted as the letters
`[a, b)` of the window at `i` — wherever the origin falls -/
theorem group_window (w : Word) (i a b : Nat) (hi : i < w.length) (hab : a ≤ b) (hb : b ≤ w.length) :
    group w (i + a) (i + b) = slice (window w i) a b := by
  rw [group_spec w (i + a) (i + b) (by omega) (by omega) (by omega)]
  unfold slice window
  have e : i + b - (i + a) = b - a := by omega
  rw [e, List.drop_take, List.drop_drop, List.take_take]
  congr 1
  omega

end Moclo

namespace Moclo

theorem firstUp_first {R} {k : Nat → Option R} {j fuel i : Nat} {r : R} (h1 : j ≤ i) (h2 : i < j + fuel)
    (h3 : k i = some r) (h4 : ∀ i', j ≤ i' → i' < i → k i' = none) : firstUp k j fuel = some r := by
  induction fuel generalizing j with
  | zero => omega
  | succ f ih =>
    unfold firstUp
    by_cases e : i = j
    · subst e; rw [h3]
    · rw [h4 j (Nat.le_refl _) (by omega)]
      exact ih (by omega) (by omega) (fun i' a b => h4 i' (by omega) b)

theorem firstUp_all_none {R} {k : Nat → Option R} {j fuel : Nat}
    (h : ∀ i, j ≤ i → i < j + fuel → k i = none) : firstUp k j fuel = none := by
  induction fuel generalizing j with
  | zero => rfl
  | succ f ih =>
    unfold firstUp
    rw [h j (Nat.le_refl _) (by omega)]
    exact ih (fun i a b => h i (by omega) (by omega))

theorem textAt_circ (w : Word) (i : Nat) : textAt w true i = window w i := rfl

/-- the search on a circular word, as a function of the windows -/
theorem search_circ_first {p : Pat} {w : Word} {i : Nat} {rel : List Nat} (hi : i < w.length)
    (h : relMatch p (window w i) = some rel) (hfirst : ∀ j, j < i → relMatch p (window w j) = none) :
    search p w true = some ⟨i :: rel.reverse.map (· + i)⟩ := by
  unfold search
  simp only []
  have hk : ∀ j, matchToks p (List.take w.length (List.drop j (w ++ w))) j [j] =
      (relMatch p (window w j)).map (fun r => r.map (· + j) ++ [j]) := by
    intro j; rw [matchToks_shift]; rfl
  rw [firstUp_first (i := i) (r := rel.map (· + i) ++ [i]) (Nat.zero_le _) (by simpa using hi)
    (by simp only [if_true]; rw [hk, h]; rfl)
    (by intro j _ hj; simp only [if_true]; rw [hk, hfirst j hj]; rfl)]
  simp [List.reverse_append, List.map_reverse]

theorem search_circ_none {p : Pat} {w : Word} (h : ∀ j, j < w.length → relMatch p (window w j) = none) :
    search p w true = none := by
  unfold search
  simp only []
  rw [firstUp_all_none]
  · rfl
  · intro j _ hj
    simp only [if_true]
    rw [matchToks_shift]
    have := h j (by simpa using hj)
    unfold window at this
    rw [this]; rfl

/-- the record contains exactly one occurrence of the structure: there is exactly one start (below the
length) at which the pattern fits the one-turn window -/
def UniqueStart (p : Pat) (w : Word) : Prop :=
  ∃ i, i < w.length ∧ (relMatch p (window w i)).isSome ∧
    ∀ j, j < w.length → (relMatch p (window w j)).isSome → j = i

theorem add_mod_inj {n a b c : Nat} (ha : a < n) (hb : b < n) (h : (a + c) % n = (b + c) % n) : a = b := by
  have hn : 0 < n := by omega
  have hc := Nat.mod_lt c hn
  have ea : (a + c) % n = (a + c % n) % n := by rw [Nat.add_mod, Nat.mod_eq_of_lt ha]
  have eb : (b + c) % n = (b + c % n) % n := by rw [Nat.add_mod, Nat.mod_eq_of_lt hb]
  rw [ea, eb] at h
  have red : ∀ x, x < n → (x + c % n) % n = if x + c % n < n then x + c % n else x + c % n - n := by
    intro x hx
    split
    · rename_i hlt; exact Nat.mod_eq_of_lt hlt
    · rw [Nat.mod_eq_sub_mod (by omega), Nat.mod_eq_of_lt (by omega)]
  rw [red a ha, red b hb] at h
  split at h <;> split at h <;> omega

/-- the windows of a rotated record are the windows of the record, re-indexed -/
theorem window_rotr (w : Word) (k j : Nat) (hj : j < w.length) :
    window (rotr w k) j = window w ((j + (w.length - k % w.length)) % w.length) := by
  have hn : 0 < w.length := by omega
  have hl : (rotr w k).length = w.length := rotr_length w k
  rw [window_eq_rotate _ _ (by rw [hl]; omega), window_eq_rotate _ _ (Nat.le_of_lt (Nat.mod_lt _ hn)),
    rotr_eq_rotate, List.rotate_rotate, List.rotate_mod, Nat.add_comm]

/-- **rotation invariance of the search**: under a unique start the search on the rotated record succeeds
exactly when it does on the record, at the correspondingly shifted start, with the *same* window and the
same relative marks -/
theorem search_rotr {p : Pat} {w : Word} (k : Nat) (hu : UniqueStart p w) :
    ∃ i rel, i < w.length ∧ relMatch p (window w i) = some rel ∧
      search p w true = some ⟨i :: rel.reverse.map (· + i)⟩ ∧
      search p (rotr w k) true =
        some ⟨(i + k) % w.length :: rel.reverse.map (· + (i + k) % w.length)⟩ ∧
      window (rotr w k) ((i + k) % w.length) = window w i := by
  obtain ⟨i, hi, hs, huniq⟩ := hu
  obtain ⟨rel, hrel⟩ := Option.isSome_iff_exists.mp hs
  have hn : 0 < w.length := by omega
  have hl : (rotr w k).length = w.length := rotr_length w k
  have hnone : ∀ j, j < w.length → j ≠ i → relMatch p (window w j) = none := by
    intro j hj hne
    cases h : relMatch p (window w j) with
    | none => rfl
    | some r => exact absurd (huniq j hj (by rw [h]; rfl)) hne
  -- index arithmetic: the start on the rotated record
  have hidx : ((i + k) % w.length + (w.length - k % w.length)) % w.length = i := by
    have hk := Nat.mod_lt k hn
    have e : (i + k) % w.length = (i + k % w.length) % w.length := by
      rw [Nat.add_mod, Nat.mod_eq_of_lt hi]
    rw [e]
    by_cases hc : i + k % w.length < w.length
    · rw [Nat.mod_eq_of_lt hc]
      have : i + k % w.length + (w.length - k % w.length) = i + w.length := by omega
      rw [this, Nat.add_mod_right, Nat.mod_eq_of_lt hi]
    · have hin : (i + k % w.length) % w.length = i + k % w.length - w.length := by
        rw [Nat.mod_eq_sub_mod (by omega), Nat.mod_eq_of_lt (by omega)]
      rw [hin]
      have : i + k % w.length - w.length + (w.length - k % w.length) = i := by omega
      rw [this, Nat.mod_eq_of_lt hi]
  have hi' : (i + k) % w.length < w.length := Nat.mod_lt _ hn
  have hwin : window (rotr w k) ((i + k) % w.length) = window w i := by
    rw [window_rotr w k _ hi', hidx]
  refine ⟨i, rel, hi, hrel, search_circ_first hi hrel (fun j hj => hnone j (by omega) (by omega)), ?_, hwin⟩
  have := search_circ_first (p := p) (w := rotr w k) (i := (i + k) % w.length) (rel := rel)
    (by rw [hl]; exact hi') (by rw [hwin]; exact hrel) (by
      intro j hj
      have hjn : j < w.length := by omega
      rw [window_rotr w k j hjn]
      apply hnone _ (Nat.mod_lt _ hn)
      intro hcontra
      -- the re-indexing is injective on [0, n)
      have h1 : (j + (w.length - k % w.length)) % w.length =
          ((i + k) % w.length + (w.length - k % w.length)) % w.length := by rw [hcontra, hidx]
      have hk := Nat.mod_lt k hn
      have : j = (i + k) % w.length := add_mod_inj hjn hi' h1
      omega)
  exact this

/-- … and when the structure occurs nowhere, it occurs nowhere in any rotation -/
theorem search_rotr_none {p : Pat} {w : Word} (k : Nat) (hn : 0 < w.length)
    (h : ∀ j, j < w.length → relMatch p (window w j) = none) : search p (rotr w k) true = none := by
  apply search_circ_none
  intro j hj
  rw [rotr_length] at hj
  rw [window_rotr w k j hj]
  exact h _ (Nat.mod_lt _ hn)

end Moclo

namespace Moclo

/-- span of group `g` relative to the start of the match (`rs` = the relative marks in reading order) -/
def rspan (rs : List Nat) (g : Nat) : Nat × Nat :=
  if g = 0 then (0, rs.getLastD 0) else (rs.getD (2 * g - 2) 0, rs.getD (2 * g - 1) 0)

/-- text of group `g` read off the window -/
def vgroup (text : Word) (rs : List Nat) (g : Nat) : Word := slice text (rspan rs g).1 (rspan rs g).2

/-- group `g` exists in a match with relative marks `rs` -/
def HasGroup (rs : List Nat) (g : Nat) : Prop := g = 0 ∧ rs ≠ [] ∨ 1 ≤ g ∧ 2 * g - 1 < rs.length

theorem getD_map_add (rs : List Nat) (i j : Nat) (hj : j < rs.length) :
    (rs.map (· + i)).getD j 0 = rs.getD j 0 + i := by
  simp [List.getD, List.getElem?_map, hj]

theorem span_of_marks (rs : List Nat) (i g : Nat) (hg : HasGroup rs g) :
    (⟨i :: rs.map (· + i)⟩ : Match).span g = ((rspan rs g).1 + i, (rspan rs g).2 + i) := by
  unfold Match.span rspan Match.start Match.stop
  rcases hg with ⟨rfl, hne⟩ | ⟨h1, h2⟩
  · simp only [if_true, List.headD_cons, Nat.zero_add, Prod.mk.injEq, true_and]
    obtain ⟨l, x, rfl⟩ : ∃ l x, rs = l ++ [x] := by
      cases h : rs.reverse with
      | nil => exact absurd (List.reverse_eq_nil_iff.mp h) hne
      | cons x l => exact ⟨l.reverse, x, by rw [← List.reverse_reverse rs, h]; simp⟩
    simp only [List.getLastD_eq_getLast?, List.map_append, List.map_cons, List.map_nil]
    rw [show i :: (List.map (fun x => x + i) l ++ [x + i]) = (i :: List.map (fun x => x + i) l) ++ [x + i] by simp,
      List.getLast?_append]
    simp
  · have hg0 : g ≠ 0 := by omega
    simp only [hg0, if_false, Prod.mk.injEq]
    have e1 : 2 * g - 1 = (2 * g - 2) + 1 := by omega
    have e2 : 2 * g = (2 * g - 1) + 1 := by omega
    constructor
    · rw [e1, List.getD_cons_succ, getD_map_add _ _ _ (by omega)]
    · rw [e2, List.getD_cons_succ, getD_map_add _ _ _ h2]
      congr 2

theorem pairwise_reverse_le {l : List Nat} (h : l.Pairwise (· ≥ ·)) : l.reverse.Pairwise (· ≤ ·) := by
  rw [List.pairwise_reverse]; exact h.imp (fun h => h)

theorem getD_le_of_sorted {l : List Nat} (h : l.Pairwise (· ≤ ·)) {a b : Nat} (hab : a ≤ b) (hb : b < l.length) :
    l.getD a 0 ≤ l.getD b 0 := by
  have ha : a < l.length := by omega
  simp only [List.getD, List.getElem?_eq_getElem ha, List.getElem?_eq_getElem hb, Option.getD_some]
  rcases Nat.lt_or_ge a b with hlt | hge
  · exact List.pairwise_iff_getElem.mp h a b ha hb hlt
  · have : a = b := by omega
    subst this; exact Nat.le_refl _

/-- the relative span of an existing group is well formed inside the window -/
theorem rspan_ok {p : Pat} {text : Word} {rel : List Nat} (h : relMatch p text = some rel) (g : Nat)
    (hg : HasGroup rel.reverse g) :
    (rspan rel.reverse g).1 ≤ (rspan rel.reverse g).2 ∧ (rspan rel.reverse g).2 ≤ text.length := by
  obtain ⟨hlen, hsorted, hbound⟩ := relMatch_marks h
  have hs := pairwise_reverse_le hsorted
  have hb : ∀ j, j < rel.reverse.length → rel.reverse.getD j 0 ≤ text.length := by
    intro j hj
    simp only [List.getD, List.getElem?_eq_getElem hj, Option.getD_some]
    exact hbound _ (List.mem_reverse.mp (List.getElem_mem hj))
  unfold rspan
  rcases hg with ⟨rfl, hne⟩ | ⟨h1, h2⟩
  · simp only [if_true, Nat.zero_le, true_and]
    have hl : 0 < rel.reverse.length := List.length_pos_of_ne_nil hne
    have : rel.reverse.getLastD 0 = rel.reverse.getD (rel.reverse.length - 1) 0 := by
      simp [List.getLastD_eq_getLast?, List.getD, List.getLast?_eq_getElem?]
    rw [this]; exact hb _ (by omega)
  · have hg0 : g ≠ 0 := by omega
    simp only [hg0, if_false]
    exact ⟨getD_le_of_sorted hs (by omega) h2, hb _ h2⟩

/-- **every group is read off the window**: for a match found at start `i` of a circular record, the text
of group `g` is the slice of the window at `i` delimited by the relative marks -/
theorem match_group_view {p : Pat} {w : Word} {i : Nat} {rel : List Nat} (hi : i < w.length)
    (hrel : relMatch p (window w i) = some rel) (g : Nat) (hg : HasGroup rel.reverse g) :
    (⟨i :: rel.reverse.map (· + i)⟩ : Match).group w g = vgroup (window w i) rel.reverse g := by
  unfold Match.group vgroup
  rw [span_of_marks _ _ _ hg]
  obtain ⟨h1, h2⟩ := rspan_ok hrel g hg
  have hwl : (window w i).length = w.length := by
    unfold window; simp [List.length_take, List.length_drop]; omega
  rw [Nat.add_comm _ i, Nat.add_comm _ i]
  exact group_window w i _ _ hi h1 (by rw [← hwl]; exact h2)

end Moclo

namespace Moclo

theorem rotlI_natCast_eq_rotate (w : Word) (k : Nat) : rotlI w (k : Int) = w.rotate k := by
  have h1 : rotrI (w.rotate k) (k : Int) = w := by rw [rotrI_natCast]; exact rotr_rotate w k
  have h2 := rotlI_rotrI (w.rotate k) (k : Int)
  rw [h1] at h2; exact h2

/-- the retained fragment, read off the view -/
def vTarget (kind : Kind) (text : Word) (rs : List Nat) : Word :=
  match kind with
  | .module => slice text (rspan rs 1).1 (rspan rs 2).2
  | .vector => text.drop (rspan rs 2).2 ++ text.take (rspan rs 1).1

theorem window_length (w : Word) (i : Nat) (hi : i ≤ w.length) : (window w i).length = w.length := by
  unfold window; simp [List.length_take, List.length_drop]; omega

theorem targetWord_view {c : ClassSpec} {w : Word} {i : Nat} {rel : List Nat} (hi : i < w.length)
    (hrel : relMatch c.pat (window w i) = some rel) (h1 : HasGroup rel.reverse 1) (h2 : HasGroup rel.reverse 2) :
    targetWord c w ⟨i :: rel.reverse.map (· + i)⟩ = vTarget c.kind (window w i) rel.reverse := by
  obtain ⟨_, hsorted, _⟩ := relMatch_marks hrel
  have hs := pairwise_reverse_le hsorted
  obtain ⟨a1, a2⟩ := rspan_ok hrel 1 h1
  obtain ⟨b1, b2⟩ := rspan_ok hrel 2 h2
  have hwl := window_length w i (Nat.le_of_lt hi)
  rw [hwl] at a2 b2
  -- group 1 starts no later than group 2 ends
  have hord : (rspan rel.reverse 1).1 ≤ (rspan rel.reverse 2).2 := by
    rcases h2 with ⟨h, _⟩ | ⟨_, hlt⟩
    · omega
    · unfold rspan; simp only [show (1:Nat) ≠ 0 by omega, show (2:Nat) ≠ 0 by omega, if_false]
      exact getD_le_of_sorted hs (by omega) hlt
  unfold targetWord vTarget
  rw [span_of_marks _ _ _ h1, span_of_marks _ _ _ h2]
  simp only []
  set a := (rspan rel.reverse 1).1 with ha
  set b := (rspan rel.reverse 2).2 with hb
  have hrot : rotlI w ((a + i : Nat) : Int) = (window w i).rotate a := by
    rw [rotlI_natCast_eq_rotate, window_eq_rotate w i (Nat.le_of_lt hi), List.rotate_rotate, Nat.add_comm]
  have hcast : ((a + i : Nat) : Int) = ((a : Int) + (i : Int)) := by push_cast; rfl
  have e : b + i - (a + i) = b - a := by omega
  have hrot2 : (window w i).rotate a = (window w i).drop a ++ (window w i).take a :=
    List.rotate_eq_drop_append_take (by rw [hwl]; omega)
  cases c.kind
  · simp only [pySlice, slice, List.drop_zero, Nat.sub_zero]
    rw [show ((a + i : Nat) : Int) = _ from rfl] at hrot
    rw [hrot, hrot2, e, List.take_append_of_le_length (by simp [List.length_drop, hwl]; omega)]
  · simp only [pySlice]
    rw [hrot, hrot2, e, List.drop_append_of_le_length (by simp [List.length_drop, hwl]; omega), List.drop_drop]
    have : a + (b - a) = b := by omega
    rw [this, List.take_of_length_le]
    simp [List.length_drop, List.length_take, hwl]; omega

end Moclo
