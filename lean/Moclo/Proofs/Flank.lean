import Moclo.Proofs.Narrow
/-! A word flanked by a forward site on the left and a reverse site on the right, with wildcard-compatible
letters in between, is an exact fit of the generic module structure. -/
namespace Moclo

/-- a piece without wildcard run is run exactly when its letters match (marks included) -/
theorem Run.of_matches_marks {f : Pat} {xs : Word} (p : Nat) (hs : starFree f = true)
    (h : matchesAt (letters f) xs) : ∃ ms, Run f xs p ms (p + width f) := by
  induction f generalizing xs p with
  | nil => exact ⟨[], Run.nil _ _⟩
  | cons t ts ih =>
    cases t with
    | cls c =>
      obtain ⟨h1, h2⟩ := h
      cases xs with
      | nil => simp [letters] at h1
      | cons x xs =>
        have hc : clsMatch c x = true := by
          have := h2 0 (by simp [letters]) (by simp)
          simpa [letters] using this
        have ht : matchesAt (letters ts) xs := by
          refine ⟨by simp [letters] at h1; omega, fun j hj hj' => ?_⟩
          have := h2 (j + 1) (by simp [letters]; omega) (by simp; omega)
          simpa [letters] using this
        obtain ⟨ms, hr⟩ := ih (p + 1) (by simpa [starFree] using hs) ht
        have e : p + 1 + width ts = p + width (Tok.cls c :: ts) := by simp [width]; omega
        rw [e] at hr
        exact ⟨ms, Run.cls hc hr⟩
    | star c g => simp [starFree] at hs
    | gopen =>
      obtain ⟨ms, hr⟩ := ih p (by simpa [starFree] using hs) (by simpa [letters] using h)
      exact ⟨p :: ms, by simpa [width] using Run.gopen hr⟩
    | gclose =>
      obtain ⟨ms, hr⟩ := ih p (by simpa [starFree] using hs) (by simpa [letters] using h)
      exact ⟨p :: ms, by simpa [width] using Run.gclose hr⟩

/-- head and tail of the generic module structure around its wildcard run -/
def modHead (g : Geom) : Pat :=
  lits g.site ++ nRun g.off ++ [.gopen] ++ nRun g.k ++ [.gclose, .gopen, .cls .N]
def modTail (g : Geom) : Pat :=
  [.cls .N, .gclose, .gopen] ++ nRun g.k ++ [.gclose] ++ nRun g.off ++ lits (rcNt g.site)

theorem moduleStructure_eq (g : Geom) : moduleStructure g = modHead g ++ ([.star .N true] ++ modTail g) := by
  simp [moduleStructure, modHead, modTail, List.append_assoc]

theorem letters_single_gopen : letters [Tok.gopen] = [] := rfl
theorem letters_modHead (g : Geom) : letters (modHead g) = g.site ++ List.replicate (g.off + g.k + 1) .N := by
  have e3 : letters [Tok.gclose, Tok.gopen, Tok.cls Nt.N] = [Nt.N] := rfl
  simp only [modHead, letters_append, letters_lits, letters_nRun, letters_single_gopen, e3, List.append_nil,
    List.append_assoc]
  congr 1
  have : g.off + g.k + 1 = g.off + (g.k + 1) := by omega
  rw [this, List.replicate_add, List.replicate_add]; rfl

theorem letters_modTail (g : Geom) : letters (modTail g) = List.replicate (1 + g.k + g.off) .N ++ rcNt g.site := by
  have e3 : letters [Tok.cls Nt.N, Tok.gclose, Tok.gopen] = [Nt.N] := rfl
  have e1 : letters [Tok.gclose] = [] := rfl
  simp only [modTail, letters_append, letters_lits, letters_nRun, e3, e1, List.append_nil, List.append_assoc]
  have : 1 + g.k + g.off = 1 + (g.k + g.off) := by omega
  rw [this, List.replicate_add, List.replicate_add]
  simp only [List.append_assoc]; rfl

theorem width_modHead (g : Geom) : width (modHead g) = g.site.length + (g.off + g.k + 1) := by
  rw [← letters_length, letters_modHead]; simp

theorem width_modTail (g : Geom) : width (modTail g) = (1 + g.k + g.off) + g.site.length := by
  rw [← letters_length, letters_modTail]; simp [rcNt]

theorem starFree_modHead (g : Geom) : starFree (modHead g) = true := by
  simp [modHead, starFree_append, starFree_lits, starFree_nRun, starFree]

theorem starFree_modTail (g : Geom) : starFree (modTail g) = true := by
  simp [modTail, starFree_append, starFree_lits, starFree_nRun, starFree]

/-- **the documented module shape is accepted by the generic module structure**: a word
`S · A · M · B · S'` where `S` is recognised as the site, `S'` as its reverse complement, and `A`, `M`, `B`
consist of letters the wildcard accepts with `|A| = |B| = off + k + 1`, is an exact fit -/
theorem module_fits (g : Geom) (S A M B S' : Word)
    (hS : matchesAt g.site S) (hSl : S.length = g.site.length)
    (hS' : matchesAt (rcNt g.site) S') (hS'l : S'.length = g.site.length)
    (hA : ∀ x ∈ A, clsMatch .N x = true) (hAl : A.length = g.off + g.k + 1)
    (hM : ∀ x ∈ M, clsMatch .N x = true)
    (hB : ∀ x ∈ B, clsMatch .N x = true) (hBl : B.length = 1 + g.k + g.off) :
    ∃ ms, Run (moduleStructure g) (S ++ A ++ M ++ B ++ S') 0 ms (S ++ A ++ M ++ B ++ S').length := by
  have hhead : matchesAt (letters (modHead g)) (S ++ A ++ M ++ B ++ S') := by
    rw [letters_modHead, ← hAl]
    have := matchesAt_append hS hSl (matchesAt_replicate hA)
    simpa [List.append_assoc] using matchesAt_extend this (M ++ B ++ S')
  obtain ⟨msH, rH⟩ := Run.of_matches_marks 0 (starFree_modHead g) hhead
  have htail : matchesAt (letters (modTail g)) (B ++ S') := by
    rw [letters_modTail, ← hBl]
    exact matchesAt_append (matchesAt_replicate hB) (by simp) hS'
  obtain ⟨msT, rT⟩ := Run.of_matches_marks ((S ++ A ++ M).length) (starFree_modTail g) htail
  have rStar : Run ([Tok.star Nt.N true] ++ modTail g) (M ++ B ++ S') ((S ++ A).length) msT
      ((S ++ A ++ M).length + width (modTail g)) := by
    refine Run.star M.length (by simp) (by simpa using hM) ?_
    have : (M ++ B ++ S').drop M.length = B ++ S' := by simp [List.append_assoc]
    rw [this]
    have e : (S ++ A).length + M.length = (S ++ A ++ M).length := by simp only [List.length_append]
    rw [e]; exact rT
  refine ⟨msH ++ msT, ?_⟩
  rw [moduleStructure_eq]
  have hw : 0 + width (modHead g) = (S ++ A).length := by
    rw [width_modHead]; simp [hSl, hAl]
  rw [hw] at rH
  have := Run.join rH (by
    have : (S ++ A ++ M ++ B ++ S').drop ((S ++ A).length - 0) = M ++ B ++ S' := by
      simp [List.append_assoc]
    rw [this]; exact rStar)
  have he : (S ++ A ++ M).length + width (modTail g) = (S ++ A ++ M ++ B ++ S').length := by
    rw [width_modTail]; simp [hBl, hS'l, List.length_append]; omega
  rw [he] at this
  exact this

end Moclo

namespace Moclo

theorem moduleStructure_threeGroup (g : Geom) :
    moduleStructure g = threeGroup (lits g.site ++ nRun g.off) (nRun g.k) [.cls .N, .star .N true, .cls .N] (nRun g.k)
      (nRun g.off ++ lits (rcNt g.site)) := by
  simp [moduleStructure, threeGroup, List.append_assoc]

theorem isFixed_nRun' (k : Nat) : isFixed k (nRun k) = true := by simp [isFixed, nRun]

theorem markless_lits' (s : List Nt) : markless (lits s) := by
  intro t ht; simp only [lits, List.mem_map] at ht; obtain ⟨_, _, rfl⟩ := ht; rfl

theorem markless_nRun' (n : Nat) : markless (nRun n) := by
  intro t ht; simp only [nRun, List.mem_replicate] at ht; rw [ht.2]; rfl

theorem markless_append' {a b : Pat} (ha : markless a) (hb : markless b) : markless (a ++ b) := by
  intro t ht; rcases List.mem_append.mp ht with h | h
  · exact ha t h
  · exact hb t h

/-- the marks of *any* run of the generic module structure that ends at `e`: the groups sit right after
`site N^off` and right before `N^off rc(site)` -/
theorem module_run_marks (g : Geom) {xs : Word} {ms : List Nat} {e : Nat}
    (h : Run (moduleStructure g) xs 0 ms e) :
    ms = [g.site.length + g.off, g.site.length + g.off + g.k, g.site.length + g.off + g.k,
          e - (g.site.length + g.off + g.k), e - (g.site.length + g.off + g.k), e - (g.site.length + g.off)] ∧
    g.site.length + g.off + g.k + 2 + g.k + g.off + g.site.length ≤ e := by
  rw [moduleStructure_threeGroup] at h
  have mg2 : markless ([.cls .N, .star .N true, .cls .N] : Pat) := by
    intro t ht; simp at ht; rcases ht with rfl | rfl | rfl <;> rfl
  obtain ⟨a1, b2, hms, h1, h2, rpre, _, rg2, _, rsuf⟩ := threeGroup_run
    (markless_append' (markless_lits' _) (markless_nRun' _)) mg2
    (markless_append' (markless_nRun' _) (markless_lits' _)) (isFixed_nRun' g.k) (isFixed_nRun' g.k) h
  have ea := (rpre.fixed (by simp [starFree_append, starFree_lits, starFree_nRun])).1
  rw [width_append, width_lits, width_nRun] at ea
  have ee := (rsuf.fixed (by simp [starFree_append, starFree_lits, starFree_nRun])).1
  rw [width_append, width_lits, width_nRun] at ee
  simp only [rcNt, List.length_reverse, List.length_map] at ee
  -- group 2 consumes at least its two fixed letters
  have hg2 : a1 + g.k + 2 ≤ b2 := by
    have hsplit : ([.cls .N, .star .N true, .cls .N] : Pat) = [.cls .N] ++ ([.star .N true] ++ [.cls .N]) := rfl
    rw [hsplit] at rg2
    obtain ⟨mid, _, _, q1, q2, _, _⟩ := rg2.split
    have m1 := (q1.fixed rfl).1
    obtain ⟨mid2, _, _, _, q4, _, hle⟩ := q2.split
    have m2 := (q4.fixed rfl).1
    simp only [width] at m1 m2
    omega
  refine ⟨?_, by omega⟩
  rw [hms]
  simp only [List.cons.injEq, and_true]
  refine ⟨by omega, by omega, by omega, by omega, by omega, by omega⟩

end Moclo

namespace Moclo

/-! ## the generic vector structure -/

def vecHead (g : Geom) : Pat :=
  [.cls .N, .gopen] ++ nRun g.k ++ [.gclose, .gopen] ++ nRun g.off ++ lits (rcNt g.site)
def vecTail (g : Geom) : Pat :=
  lits g.site ++ nRun g.off ++ [.gclose, .gopen] ++ nRun g.k ++ [.gclose, .cls .N]

theorem vectorStructure_eq (g : Geom) : vectorStructure g = vecHead g ++ ([.star .N true] ++ vecTail g) := by
  simp [vectorStructure, vecHead, vecTail, List.append_assoc]

theorem letters_vecHead (g : Geom) : letters (vecHead g) = List.replicate (1 + g.k + g.off) .N ++ rcNt g.site := by
  have e1 : letters [Tok.cls Nt.N, Tok.gopen] = [Nt.N] := rfl
  have e2 : letters [Tok.gclose, Tok.gopen] = [] := rfl
  simp only [vecHead, letters_append, letters_lits, letters_nRun, e1, e2, List.append_nil, List.append_assoc]
  have : 1 + g.k + g.off = 1 + (g.k + g.off) := by omega
  rw [this, List.replicate_add, List.replicate_add]
  simp only [List.append_assoc]; rfl

theorem letters_vecTail (g : Geom) : letters (vecTail g) = g.site ++ List.replicate (g.off + g.k + 1) .N := by
  have e1 : letters [Tok.gclose, Tok.cls Nt.N] = [Nt.N] := rfl
  have e2 : letters [Tok.gclose, Tok.gopen] = [] := rfl
  simp only [vecTail, letters_append, letters_lits, letters_nRun, e1, e2, List.append_nil, List.append_assoc]
  congr 1
  have : g.off + g.k + 1 = g.off + (g.k + 1) := by omega
  rw [this, List.replicate_add, List.replicate_add]; rfl

theorem width_vecHead (g : Geom) : width (vecHead g) = (1 + g.k + g.off) + g.site.length := by
  rw [← letters_length, letters_vecHead]; simp [rcNt]

theorem width_vecTail (g : Geom) : width (vecTail g) = g.site.length + (g.off + g.k + 1) := by
  rw [← letters_length, letters_vecTail]; simp

theorem starFree_vecHead (g : Geom) : starFree (vecHead g) = true := by
  simp [vecHead, starFree_append, starFree_lits, starFree_nRun, starFree]

theorem starFree_vecTail (g : Geom) : starFree (vecTail g) = true := by
  simp [vecTail, starFree_append, starFree_lits, starFree_nRun, starFree]

/-- **the documented vector shape is accepted by the generic vector structure**: a word `A · S' · P · S · B`
with `S'` recognised as the reverse complement of the site, `S` as the site, `A`, `P`, `B` wildcard-compatible,
`|A| = 1 + k + off`, `|B| = off + k + 1`, is an exact fit -/
theorem vector_fits (g : Geom) (A S' P S B : Word)
    (hS : matchesAt g.site S) (hSl : S.length = g.site.length)
    (hS' : matchesAt (rcNt g.site) S') (hS'l : S'.length = g.site.length)
    (hA : ∀ x ∈ A, clsMatch .N x = true) (hAl : A.length = 1 + g.k + g.off)
    (hP : ∀ x ∈ P, clsMatch .N x = true)
    (hB : ∀ x ∈ B, clsMatch .N x = true) (hBl : B.length = g.off + g.k + 1) :
    ∃ ms, Run (vectorStructure g) (A ++ S' ++ P ++ S ++ B) 0 ms (A ++ S' ++ P ++ S ++ B).length := by
  have hrl : (rcNt g.site).length = g.site.length := by simp [rcNt]
  have hhead : matchesAt (letters (vecHead g)) (A ++ S' ++ P ++ S ++ B) := by
    rw [letters_vecHead, ← hAl]
    have := matchesAt_append (matchesAt_replicate hA) (by simp) hS'
    simpa [List.append_assoc] using matchesAt_extend this (P ++ S ++ B)
  obtain ⟨msH, rH⟩ := Run.of_matches_marks 0 (starFree_vecHead g) hhead
  have htail : matchesAt (letters (vecTail g)) (S ++ B) := by
    rw [letters_vecTail, ← hBl]
    exact matchesAt_append hS hSl (matchesAt_replicate hB)
  obtain ⟨msT, rT⟩ := Run.of_matches_marks ((A ++ S' ++ P).length) (starFree_vecTail g) htail
  have rStar : Run ([Tok.star Nt.N true] ++ vecTail g) (P ++ S ++ B) ((A ++ S').length) msT
      ((A ++ S' ++ P).length + width (vecTail g)) := by
    refine Run.star P.length (by simp) (by simpa using hP) ?_
    have : (P ++ S ++ B).drop P.length = S ++ B := by simp [List.append_assoc]
    rw [this]
    have e : (A ++ S').length + P.length = (A ++ S' ++ P).length := by simp only [List.length_append]
    rw [e]; exact rT
  refine ⟨msH ++ msT, ?_⟩
  rw [vectorStructure_eq]
  have hw : 0 + width (vecHead g) = (A ++ S').length := by
    rw [width_vecHead]; simp [hS'l, hAl]
  rw [hw] at rH
  have := Run.join rH (by
    have : (A ++ S' ++ P ++ S ++ B).drop ((A ++ S').length - 0) = P ++ S ++ B := by
      simp [List.append_assoc]
    rw [this]; exact rStar)
  have he : (A ++ S' ++ P).length + width (vecTail g) = (A ++ S' ++ P ++ S ++ B).length := by
    rw [width_vecTail]; simp [hBl, hSl, List.length_append]; omega
  rw [he] at this
  exact this

theorem vectorStructure_threeGroup (g : Geom) :
    vectorStructure g = threeGroup [.cls .N] (nRun g.k)
      (nRun g.off ++ lits (rcNt g.site) ++ [.star .N true] ++ lits g.site ++ nRun g.off) (nRun g.k) [.cls .N] := by
  simp [vectorStructure, threeGroup, List.append_assoc]

/-- the marks of any run of the generic vector structure that ends at `e` -/
theorem vector_run_marks (g : Geom) {xs : Word} {ms : List Nat} {e : Nat}
    (h : Run (vectorStructure g) xs 0 ms e) :
    ms = [1, 1 + g.k, 1 + g.k, e - (g.k + 1), e - (g.k + 1), e - 1] ∧
    1 + g.k + (g.off + g.site.length + g.site.length + g.off) + g.k + 1 ≤ e := by
  rw [vectorStructure_threeGroup] at h
  have m1 : markless ([.cls .N] : Pat) := by intro t ht; simp at ht; subst ht; rfl
  have mg2 : markless (nRun g.off ++ lits (rcNt g.site) ++ [.star .N true] ++ lits g.site ++ nRun g.off) := by
    refine markless_append' (markless_append' (markless_append' (markless_append' (markless_nRun' _) (markless_lits' _)) ?_)
      (markless_lits' _)) (markless_nRun' _)
    intro t ht; simp at ht; subst ht; rfl
  obtain ⟨a1, b2, hms, h1, h2, rpre, _, rg2, _, rsuf⟩ := threeGroup_run m1 mg2 m1
    (isFixed_nRun' g.k) (isFixed_nRun' g.k) h
  have ea := (rpre.fixed rfl).1
  have ee := (rsuf.fixed rfl).1
  simp only [width] at ea ee
  -- group 2 consumes at least its fixed letters
  have hg2 : a1 + g.k + (g.off + g.site.length + g.site.length + g.off) ≤ b2 := by
    have hsplit : nRun g.off ++ lits (rcNt g.site) ++ [.star .N true] ++ lits g.site ++ nRun g.off =
        (nRun g.off ++ lits (rcNt g.site)) ++ ([.star .N true] ++ (lits g.site ++ nRun g.off)) := by
      simp [List.append_assoc]
    rw [hsplit] at rg2
    obtain ⟨mid, _, _, q1, q2, _, _⟩ := rg2.split
    have w1 := (q1.fixed (by simp [starFree_append, starFree_lits, starFree_nRun])).1
    obtain ⟨mid2, _, _, _, q4, _, hle⟩ := q2.split
    have w2 := (q4.fixed (by simp [starFree_append, starFree_lits, starFree_nRun])).1
    rw [width_append, width_lits, width_nRun] at w1 w2
    simp only [rcNt, List.length_reverse, List.length_map] at w1
    omega
  refine ⟨?_, by omega⟩
  rw [hms]
  simp only [List.cons.injEq, and_true]
  refine ⟨by omega, by omega, by omega, by omega, by omega, by omega⟩

end Moclo
