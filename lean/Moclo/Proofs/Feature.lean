import Moclo.Model.Feature
import Moclo.Proofs.Word
/-! Denotation of feature locations (positions modulo the record length) under rotation and
reverse complement. -/
namespace Moclo

theorem emod_eq_iff (t : Int) (n x : Nat) (hx : x < n) :
    t.emod n = x ↔ ∃ q : Int, t = x + n * q := by
  constructor
  · intro h
    refine ⟨t / n, ?_⟩
    have := Int.emod_add_mul_ediv t n
    have h' : t % (n : Int) = x := h
    rw [h'] at this; omega
  · rintro ⟨q, rfl⟩
    show ((x : Int) + n * q) % n = x
    rw [Int.add_mul_emod_self_left]
    exact Int.emod_eq_of_lt (by omega) (by omega)

theorem covers_iff (n : Nat) (p : Part) (x : Nat) (hx : x < n) :
    p.covers n x ↔ ∃ t q : Int, p.s ≤ t ∧ t < p.e ∧ t = x + n * q := by
  unfold Part.covers
  constructor
  · rintro ⟨t, h1, h2, h3⟩
    obtain ⟨q, hq⟩ := (emod_eq_iff t n x hx).mp h3
    exact ⟨t, q, h1, h2, hq⟩
  · rintro ⟨t, q, h1, h2, h3⟩
    exact ⟨t, h1, h2, (emod_eq_iff t n x hx).mpr ⟨q, h3⟩⟩

/-- shifting a part by `k` moves its denotation by `k` (mod n) -/
theorem covers_shift (n : Nat) (k : Nat) (p : Part) (x : Nat) (hx : x < n) :
    (p.shift k).covers n ((x + k) % n) ↔ p.covers n x := by
  have hn : 0 < n := by omega
  have hy : (x + k) % n < n := Nat.mod_lt _ hn
  rw [covers_iff n _ _ hy, covers_iff n _ _ hx]
  have hdiv : ((x + k : Nat) : Int) = ((x + k) % n : Nat) + n * (((x + k) / n : Nat) : Int) := by
    have := Nat.mod_add_div (x + k) n
    exact_mod_cast this.symm
  simp only [Part.shift]
  constructor
  · rintro ⟨t, q, h1, h2, h3⟩
    refine ⟨t - k, q - ((x + k) / n : Nat), by omega, by omega, ?_⟩
    push_cast at hdiv h3 ⊢
    rw [Int.mul_sub]; omega
  · rintro ⟨t, q, h1, h2, h3⟩
    refine ⟨t + k, q + ((x + k) / n : Nat), by omega, by omega, ?_⟩
    push_cast at hdiv h3 ⊢
    rw [Int.mul_add]; omega

/-- renormalisation subtracts a multiple of `n`: same denotation -/
theorem covers_renorm (n : Nat) (p : Part) (x : Nat) (hx : x < n) :
    (p.renorm n).covers n x ↔ p.covers n x := by
  unfold Part.renorm
  split
  · rw [covers_iff n _ _ hx, covers_iff n _ _ hx]
    simp only []
    constructor
    · rintro ⟨t, q, h1, h2, h3⟩
      refine ⟨t + p.s / n * n, q + p.s / n, by omega, by omega, ?_⟩
      rw [Int.mul_add, Int.mul_comm (n : Int) (p.s / n)]; omega
    · rintro ⟨t, q, h1, h2, h3⟩
      refine ⟨t - p.s / n * n, q - p.s / n, by omega, by omega, ?_⟩
      rw [Int.mul_sub, Int.mul_comm (n : Int) (p.s / n)]; omega
  · rfl

/-- one part under `record >> k`: attached to the same nucleotides -/
theorem covers_rotr_part (n : Nat) (k : Nat) (p : Part) (x : Nat) (hx : x < n) :
    ((p.shift k).renorm n).covers n ((x + k) % n) ↔ p.covers n x := by
  have hn : 0 < n := by omega
  rw [covers_renorm n _ _ (Nat.mod_lt _ hn), covers_shift n k p x hx]

/-- the whole-length part denotes every position -/
theorem covers_whole (n : Nat) (p : Part) (hs : p.s = 0) (he : p.e = n) (x : Nat) (hx : x < n) :
    p.covers n x := by
  refine ⟨x, by omega, by omega, ?_⟩
  exact Int.emod_eq_of_lt (by omega) (by omega)

/-- flipping a part mirrors its denotation: position `x` ↦ `n - 1 - x` -/
theorem covers_flip (n : Nat) (p : Part) (x : Nat) (hx : x < n) :
    (p.flip n).covers n (n - 1 - x) ↔ p.covers n x := by
  have hy : n - 1 - x < n := by omega
  rw [covers_iff n _ _ hy, covers_iff n _ _ hx]
  simp only [Part.flip]
  have hc : ((n - 1 - x : Nat) : Int) = (n : Int) - 1 - x := by omega
  constructor
  · rintro ⟨t, q, h1, h2, h3⟩
    refine ⟨n - 1 - t, -q, by omega, by omega, ?_⟩
    rw [Int.mul_neg]; omega
  · rintro ⟨t, q, h1, h2, h3⟩
    refine ⟨n - 1 - t, -q, by omega, by omega, ?_⟩
    rw [Int.mul_neg]; omega

theorem flip_flip (n : Int) (p : Part) : (p.flip n).flip n = p := by
  cases p; simp [Part.flip]; constructor <;> omega

theorem flip_strand (n : Int) (p : Part) : (p.flip n).strand = -p.strand := rfl

end Moclo
