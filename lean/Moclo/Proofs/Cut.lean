import Moclo.Proofs.Run
/-! Cut-aligned structures: where the recognition sites sit relative to the overhang groups of a match. -/
namespace Moclo

def markless (p : Pat) : Prop := ∀ t ∈ p, t.isMark = false

theorem Run.markless_ms {f : Pat} {xs : Word} {p : Nat} {ms : List Nat} {e : Nat} (hf : markless f)
    (h : Run f xs p ms e) : ms = [] := by
  induction h with
  | nil => rfl
  | cls _ _ ih => exact ih (fun t ht => hf t (List.mem_cons_of_mem _ ht))
  | gopen _ _ => exact absurd (hf Tok.gopen (by simp)) (by simp [Tok.isMark])
  | gclose _ _ => exact absurd (hf Tok.gclose (by simp)) (by simp [Tok.isMark])
  | star _ _ _ _ ih => exact ih (fun t ht => hf t (List.mem_cons_of_mem _ ht))

theorem takeWhile_markless (p : Pat) : markless (p.takeWhile (fun t => !t.isMark)) := by
  induction p with
  | nil => intro t ht; simp at ht
  | cons x xs ih =>
    intro t ht
    simp only [List.takeWhile_cons] at ht
    split at ht
    · rename_i hx
      rcases List.mem_cons.mp ht with rfl | h
      · simpa using hx
      · exact ih t h
    · simp at ht

theorem splitGroups_sound {p pre g1 g2 g3 suf : Pat} (h : splitGroups p = some (pre, g1, g2, g3, suf)) :
    p = pre ++ [.gopen] ++ g1 ++ [.gclose, .gopen] ++ g2 ++ [.gclose, .gopen] ++ g3 ++ [.gclose] ++ suf ∧
    markless pre ∧ markless g1 ∧ markless g2 ∧ markless g3 ∧ markless suf := by
  unfold splitGroups at h
  simp only [] at h
  have e0 := List.takeWhile_append_dropWhile (p := fun t : Tok => !t.isMark) (l := p)
  split at h
  · rename_i r1 h1
    have e1 := List.takeWhile_append_dropWhile (p := fun t : Tok => !t.isMark) (l := r1)
    split at h
    · rename_i r2 h2
      have e2 := List.takeWhile_append_dropWhile (p := fun t : Tok => !t.isMark) (l := r2)
      split at h
      · rename_i r3 h3
        have e3 := List.takeWhile_append_dropWhile (p := fun t : Tok => !t.isMark) (l := r3)
        split at h
        · rename_i sf h4
          split at h
          · rename_i hall
            simp only [Option.some.injEq, Prod.mk.injEq] at h
            obtain ⟨rfl, rfl, rfl, rfl, rfl⟩ := h
            refine ⟨?_, takeWhile_markless p, takeWhile_markless r1, takeWhile_markless r2, takeWhile_markless r3, ?_⟩
            · rw [h4] at e3; rw [h3] at e2; rw [h2] at e1; rw [h1] at e0
              conv_lhs => rw [← e0, ← e1, ← e2, ← e3]
              simp [List.append_assoc]
            · intro t ht
              have := List.all_eq_true.mp hall t ht
              simpa using this
          · cases h
        · cases h
      · cases h
    · cases h
  · cases h

theorem isFixed_spec {n : Nat} {g : Pat} (h : isFixed n g = true) : starFree g = true ∧ width g = n ∧ markless g := by
  unfold isFixed at h
  simp only [Bool.and_eq_true, beq_iff_eq] at h
  obtain ⟨hl, hall⟩ := h
  subst hl
  induction g with
  | nil => exact ⟨rfl, rfl, fun t ht => by simp at ht⟩
  | cons t ts ih =>
    simp only [List.all_cons, Bool.and_eq_true] at hall
    obtain ⟨ht, hts⟩ := hall
    cases t with
    | cls c =>
      obtain ⟨a, b, c'⟩ := ih hts
      refine ⟨by simpa [starFree] using a, by simp [width, b], ?_⟩
      intro t ht'
      rcases List.mem_cons.mp ht' with rfl | h'
      · rfl
      · exact c' t h'
    | star c g => simp at ht
    | gopen => simp at ht
    | gclose => simp at ht

theorem matchesAt_append_left {a b : List Nt} {xs : Word} (h : matchesAt (a ++ b) xs) : matchesAt a xs := by
  obtain ⟨h1, h2⟩ := h
  refine ⟨by simp at h1; omega, fun j hj hj' => ?_⟩
  have := h2 j (by simp; omega) hj'
  rwa [List.getElem_append_left hj] at this

theorem matchesAt_append_right {a b : List Nt} {xs : Word} (h : matchesAt (a ++ b) xs) :
    matchesAt b (xs.drop a.length) := by
  obtain ⟨h1, h2⟩ := h
  refine ⟨by simp at h1 ⊢; omega, fun j hj hj' => ?_⟩
  simp only [List.length_drop] at hj'
  have := h2 (a.length + j) (by simp; omega) (by omega)
  rw [List.getElem_append_right (by omega)] at this
  simp only [Nat.add_sub_cancel_left] at this
  simpa [List.getElem_drop] using this

theorem letters_lits (s : List Nt) : letters (lits s) = s := by
  induction s with
  | nil => rfl
  | cons x xs ih => simp [lits, letters] at ih ⊢; exact ih

theorem letters_append (a b : Pat) : letters (a ++ b) = letters a ++ letters b := by
  induction a with
  | nil => rfl
  | cons t ts ih => cases t <;> simp [letters, ih]

theorem width_append (a b : Pat) : width (a ++ b) = width a + width b := by
  induction a with
  | nil => simp [width]
  | cons t ts ih => cases t <;> simp [width, ih] <;> omega

theorem width_lits (s : List Nt) : width (lits s) = s.length := by
  rw [← letters_length, letters_lits]

theorem width_nRun (n : Nat) : width (nRun n) = n := by
  induction n with
  | zero => rfl
  | succ n ih => simp [nRun, List.replicate_succ, width] at ih ⊢; exact ih

theorem starFree_append (a b : Pat) : starFree (a ++ b) = (starFree a && starFree b) := by
  induction a with
  | nil => simp [starFree]
  | cons t ts ih => cases t <;> simp [starFree, ih]

theorem starFree_lits (s : List Nt) : starFree (lits s) = true := by
  induction s with
  | nil => rfl
  | cons x xs ih => simpa [lits, starFree] using ih

theorem starFree_nRun (n : Nat) : starFree (nRun n) = true := by
  induction n with
  | zero => rfl
  | succ n ih => simpa [nRun, List.replicate_succ, starFree] using ih

theorem letters_nRun (k : Nat) : letters (nRun k) = List.replicate k .N := by
  induction k with
  | zero => rfl
  | succ n ih => simp [nRun, List.replicate_succ, letters] at ih ⊢; exact ih

theorem matchesAt_extend {cs : List Nt} {xs : Word} (h : matchesAt cs xs) (ys : Word) : matchesAt cs (xs ++ ys) := by
  obtain ⟨h1, h2⟩ := h
  refine ⟨by simp; omega, fun j hj hj' => ?_⟩
  have := h2 j hj (by omega)
  rwa [List.getElem_append_left (by omega)]

theorem matchesAt_append {a b : List Nt} {xs ys : Word} (ha : matchesAt a xs) (hl : xs.length = a.length)
    (hb : matchesAt b ys) : matchesAt (a ++ b) (xs ++ ys) := by
  obtain ⟨a1, a2⟩ := ha
  obtain ⟨b1, b2⟩ := hb
  refine ⟨by simp; omega, fun j hj hj' => ?_⟩
  by_cases hja : j < a.length
  · rw [List.getElem_append_left hja, List.getElem_append_left (by omega)]
    exact a2 j hja (by omega)
  · rw [List.getElem_append_right (by omega), List.getElem_append_right (by omega)]
    simp only [hl]
    exact b2 (j - a.length) (by simp at hj; omega) (by simp at hj'; omega)

theorem matchesAt_replicate {c : Nt} {A : Word} (h : ∀ x ∈ A, clsMatch c x = true) :
    matchesAt (List.replicate A.length c) A := by
  refine ⟨by simp, fun j hj hj' => ?_⟩
  simp only [List.getElem_replicate]
  exact h _ (List.getElem_mem hj')

/-- a fixed `site N^off` piece at the *front* of a run: the site's letters are matched right at the start -/
theorem Run.front_site {s : List Nt} {o : Nat} {rest : Pat} {xs : Word} {p : Nat} {ms : List Nat} {e : Nat}
    (h : Run (lits s ++ nRun o ++ rest) xs p ms e) : matchesAt s xs := by
  rw [List.append_assoc] at h
  obtain ⟨mid, msA, msB, h1, _, _, _⟩ := h.split
  have := (h1.fixed (starFree_lits s)).2
  rwa [letters_lits] at this

/-- a fixed `N^off site'` piece at the front: the site's letters sit `off` letters after the start -/
theorem Run.front_rev {s : List Nt} {o : Nat} {rest : Pat} {xs : Word} {p : Nat} {ms : List Nat} {e : Nat}
    (h : Run (nRun o ++ lits s ++ rest) xs p ms e) : matchesAt s (xs.drop o) := by
  rw [List.append_assoc] at h
  obtain ⟨mid, msA, msB, h1, h2, _, _⟩ := h.split
  have hm := (h1.fixed (starFree_nRun o)).1
  rw [width_nRun] at hm
  obtain ⟨mid2, _, _, h3, _, _, _⟩ := h2.split
  have := (h3.fixed (starFree_lits s)).2
  rw [letters_lits] at this
  have e1 : mid - p = o := by omega
  rwa [e1] at this

/-- a fixed `site N^off` piece at the *end* of a run ending at `e`: the site's letters end `off` letters
before `e` -/
theorem Run.back_site {front : Pat} {s : List Nt} {o : Nat} {xs : Word} {p : Nat} {ms : List Nat} {e : Nat}
    (h : Run (front ++ (lits s ++ nRun o)) xs p ms e) :
    p + s.length + o ≤ e ∧ matchesAt s (xs.drop (e - o - s.length - p)) := by
  obtain ⟨mid, msA, msB, _, h2, _, hle⟩ := h.split
  obtain ⟨mid2, _, _, h3, h4, _, _⟩ := h2.split
  have a := (h3.fixed (starFree_lits s))
  have b := (h4.fixed (starFree_nRun o)).1
  rw [width_lits] at a; rw [width_nRun] at b
  have hm := a.2; rw [letters_lits] at hm
  refine ⟨by omega, ?_⟩
  have : e - o - s.length - p = mid - p := by omega
  rwa [this]

/-- a fixed `N^off site'` piece at the end of a run ending at `e` -/
theorem Run.back_rev {front : Pat} {s : List Nt} {o : Nat} {xs : Word} {p : Nat} {ms : List Nat} {e : Nat}
    (h : Run (front ++ (nRun o ++ lits s)) xs p ms e) :
    p + s.length + o ≤ e ∧ matchesAt s (xs.drop (e - s.length - p)) := by
  obtain ⟨mid, msA, msB, _, h2, _, hle⟩ := h.split
  obtain ⟨mid2, _, _, h3, h4, _, hle2⟩ := h2.split
  have a := (h3.fixed (starFree_nRun o)).1
  have b := (h4.fixed (starFree_lits s))
  rw [width_nRun] at a; rw [width_lits] at b
  have hm := b.2; rw [letters_lits] at hm
  refine ⟨by omega, ?_⟩
  rw [List.drop_drop] at hm
  have : mid - p + (mid2 - mid) = e - s.length - p := by omega
  rwa [this] at hm

end Moclo

namespace Moclo

/-- the shape of a run of a three-group structure: the six marks and the three sub-runs -/
theorem structure_run {pre g1 g2 g3 suf : Pat} {k : Nat} {xs : Word} {ms : List Nat} {e : Nat}
    (hpre : markless pre) (hg2 : markless g2) (hsuf : markless suf)
    (h1 : isFixed k g1 = true) (h3 : isFixed k g3 = true)
    (h : Run (pre ++ [.gopen] ++ g1 ++ [.gclose, .gopen] ++ g2 ++ [.gclose, .gopen] ++ g3 ++ [.gclose] ++ suf) xs 0 ms e) :
    ∃ a1 b2, ms = [a1, a1 + k, a1 + k, b2, b2, b2 + k] ∧ a1 + k ≤ b2 ∧ b2 + k ≤ e ∧
      Run pre xs 0 [] a1 ∧ Run g2 (xs.drop (a1 + k)) (a1 + k) [] b2 ∧ Run suf (xs.drop (b2 + k)) (b2 + k) [] e := by
  obtain ⟨sf1, w1, ml1⟩ := isFixed_spec h1
  obtain ⟨sf3, w3, ml3⟩ := isFixed_spec h3
  -- regroup as  pre ++ (gopen :: g1 ++ (gclose :: gopen :: g2 ++ (gclose :: gopen :: g3 ++ (gclose :: suf))))
  have hreg : pre ++ [.gopen] ++ g1 ++ [.gclose, .gopen] ++ g2 ++ [.gclose, .gopen] ++ g3 ++ [.gclose] ++ suf =
      pre ++ (Tok.gopen :: (g1 ++ (Tok.gclose :: Tok.gopen :: (g2 ++ (Tok.gclose :: Tok.gopen :: (g3 ++ (Tok.gclose :: suf))))))) := by
    simp [List.append_assoc]
  rw [hreg] at h
  obtain ⟨a1, m0, mr, r0, r1, em, _⟩ := h.split
  have hm0 := r0.markless_ms hpre; subst hm0
  cases r1 with
  | gopen r1 =>
    obtain ⟨b1, m1, mr1, q1, r2, em1, hb1⟩ := r1.split
    have hm1 := q1.markless_ms ml1; subst hm1
    have hb1' := (q1.fixed sf1).1
    rw [w1] at hb1'
    cases r2 with
    | gclose r2 =>
      cases r2 with
      | gopen r2 =>
        obtain ⟨b2, m2, mr2, q2, r3, em2, hb2⟩ := r2.split
        have hm2 := q2.markless_ms hg2; subst hm2
        cases r3 with
        | gclose r3 =>
          cases r3 with
          | gopen r3 =>
            obtain ⟨b3, m3, mr3, q3, r4, em3, hb3⟩ := r3.split
            have hm3 := q3.markless_ms ml3; subst hm3
            have hb3' := (q3.fixed sf3).1
            rw [w3] at hb3'
            cases r4 with
            | gclose r4 =>
              have hm4 := r4.markless_ms hsuf; subst hm4
              subst hb1' hb3'
              refine ⟨a1, b2, ?_, hb2, r4.bounds.1, r0, ?_, ?_⟩
              · subst em em1 em2 em3; simp
              · simp only [Nat.sub_zero, List.drop_drop] at q2
                have : a1 + (a1 + k - a1) = a1 + k := by omega
                rw [this] at q2; exact q2
              · simp only [Nat.sub_zero, List.drop_drop] at r4
                have : a1 + (a1 + k - a1) + (b2 - (a1 + k)) + (b2 + k - b2) = b2 + k := by omega
                rw [this] at r4; exact r4

/-- **soundness of cut-alignment**: in any match of a cut-aligned structure, with `a1` the start of group 1
and `b2` the end of group 2 (so group 1 = `[a1, a1+k)`, group 3 = `[b2, b2+k)`):
* either the cutter's site is matched ending `off` letters before `a1` (the enzyme cuts the top strand right
  before group 1), or its reverse complement is matched starting `off` letters after the end of group 1 (the
  enzyme on the other strand cuts right after it) — so group 1 is the single-stranded overhang of a cut;
* and symmetrically for group 3. -/
theorem cutAligned_sound {g : Geom} {p : Pat} {xs : Word} {ms : List Nat} {e : Nat}
    (hca : cutAligned g p = true) (h : Run p xs 0 ms e) :
    ∃ a1 b2, ms = [a1, a1 + g.k, a1 + g.k, b2, b2, b2 + g.k] ∧ a1 + g.k ≤ b2 ∧ b2 + g.k ≤ e ∧
      ((g.site.length + g.off ≤ a1 ∧ matchesAt g.site (xs.drop (a1 - g.off - g.site.length))) ∨
        matchesAt (rcNt g.site) (xs.drop (a1 + g.k + g.off))) ∧
      (matchesAt (rcNt g.site) (xs.drop (b2 + g.k + g.off)) ∨
        (a1 + g.k + g.site.length + g.off ≤ b2 ∧ matchesAt g.site (xs.drop (b2 - g.off - g.site.length)))) := by
  unfold cutAligned at hca
  cases hs : splitGroups p with
  | none => rw [hs] at hca; simp at hca
  | some t =>
    obtain ⟨pre, g1, g2, g3, suf⟩ := t
    rw [hs] at hca
    simp only [Bool.and_eq_true, Bool.or_eq_true] at hca
    obtain ⟨⟨⟨hf1, hf3⟩, hleft⟩, hright⟩ := hca
    obtain ⟨hp, mpre, _, mg2, _, msuf⟩ := splitGroups_sound hs
    rw [hp] at h
    obtain ⟨a1, b2, hms, hle1, hle2, rpre, rg2, rsuf⟩ := structure_run mpre mg2 msuf hf1 hf3 h
    refine ⟨a1, b2, hms, hle1, hle2, ?_, ?_⟩
    · rcases hleft with hl | hl
      · left
        obtain ⟨front, hfront⟩ := List.isSuffixOf_iff_suffix.mp hl
        rw [← hfront] at rpre
        obtain ⟨h1, h2⟩ := rpre.back_site
        exact ⟨by omega, by simpa using h2⟩
      · right
        obtain ⟨rest, hrest⟩ := List.isPrefixOf_iff_prefix.mp hl
        rw [← hrest] at rg2
        have := rg2.front_rev
        rwa [List.drop_drop] at this
    · rcases hright with hr | hr
      · left
        obtain ⟨rest, hrest⟩ := List.isPrefixOf_iff_prefix.mp hr
        rw [← hrest] at rsuf
        have := rsuf.front_rev
        rwa [List.drop_drop] at this
      · right
        obtain ⟨front, hfront⟩ := List.isSuffixOf_iff_suffix.mp hr
        rw [← hfront] at rg2
        obtain ⟨h1, h2⟩ := rg2.back_site
        refine ⟨by omega, ?_⟩
        rw [List.drop_drop] at h2
        have : a1 + g.k + (b2 - g.off - g.site.length - (a1 + g.k)) = b2 - g.off - g.site.length := by omega
        rwa [this] at h2

end Moclo
