import Moclo.Model.Regex
import Moclo.Proofs.Word
/-! Soundness and completeness of the backtracking matcher against the declarative `Fits`,
position-independence of the matcher, leftmost search. -/
namespace Moclo

/-- declarative: pattern `ts` fits a prefix of `xs` consuming `len` letters -/
inductive Fits : Pat → Word → Nat → Prop
  | nil (xs) : Fits [] xs 0
  | cls {c x ts xs n} : clsMatch c x = true → Fits ts xs n → Fits (.cls c :: ts) (x :: xs) (n+1)
  | gopen {ts xs n} : Fits ts xs n → Fits (.gopen :: ts) xs n
  | gclose {ts xs n} : Fits ts xs n → Fits (.gclose :: ts) xs n
  | star {c g ts xs n} (j : Nat) : j ≤ xs.length → (∀ x ∈ xs.take j, clsMatch c x = true) →
      Fits ts (xs.drop j) n → Fits (.star c g :: ts) xs (j + n)

theorem Fits.le_length {ts xs n} (h : Fits ts xs n) : n ≤ xs.length := by
  induction h with
  | nil => exact Nat.zero_le _
  | cls _ _ ih => simp; omega
  | gopen _ ih => exact ih
  | gclose _ ih => exact ih
  | star j hj _ _ ih => simp [List.length_drop] at ih; omega

theorem firstDown_some {R} {k : Nat → Option R} {m : Nat} {r : R} (h : firstDown k m = some r) :
    ∃ j, j ≤ m ∧ k j = some r := by
  induction m with
  | zero => exact ⟨0, Nat.le_refl _, h⟩
  | succ m ih =>
    unfold firstDown at h
    split at h
    · exact ⟨m+1, Nat.le_refl _, by simp_all⟩
    · obtain ⟨j, hj, hk⟩ := ih h; exact ⟨j, Nat.le_succ_of_le hj, hk⟩

theorem firstDown_none {R} {k : Nat → Option R} {m : Nat} (h : firstDown k m = none) :
    ∀ j, j ≤ m → k j = none := by
  induction m with
  | zero => intro j hj; have : j = 0 := by omega
            subst this; exact h
  | succ m ih =>
    unfold firstDown at h
    split at h
    · simp at h
    · intro j hj
      by_cases hjm : j = m+1
      · subst hjm; assumption
      · exact ih h j (by omega)

theorem firstUp_some {R} {k : Nat → Option R} {j fuel : Nat} {r : R} (h : firstUp k j fuel = some r) :
    ∃ i, j ≤ i ∧ i < j + fuel ∧ k i = some r ∧ ∀ i', j ≤ i' → i' < i → k i' = none := by
  induction fuel generalizing j with
  | zero => simp [firstUp] at h
  | succ f ih =>
    unfold firstUp at h
    split at h
    · rename_i r' hk
      refine ⟨j, Nat.le_refl _, by omega, by simp_all, ?_⟩
      intro i' h1 h2; omega
    · rename_i hk
      obtain ⟨i, h1, h2, h3, h4⟩ := ih h
      refine ⟨i, by omega, by omega, h3, ?_⟩
      intro i' h5 h6
      by_cases e : i' = j
      · subst e; exact hk
      · exact h4 i' (by omega) h6

theorem firstUp_none {R} {k : Nat → Option R} {j fuel : Nat} (h : firstUp k j fuel = none) :
    ∀ i, j ≤ i → i < j + fuel → k i = none := by
  induction fuel generalizing j with
  | zero => intro i h1 h2; omega
  | succ f ih =>
    unfold firstUp at h
    split at h
    · simp at h
    · rename_i hk
      intro i h1 h2
      by_cases e : i = j
      · subst e; exact hk
      · exact ih h i (by omega) (by omega)

theorem firstDown_congr {R} {k k' : Nat → Option R} (m : Nat) (h : ∀ j, j ≤ m → k j = k' j) :
    firstDown k m = firstDown k' m := by
  induction m with
  | zero => simp [firstDown, h 0 (Nat.le_refl _)]
  | succ m ih =>
    unfold firstDown
    rw [h (m+1) (Nat.le_refl _), ih (fun j hj => h j (by omega))]

theorem firstUp_congr {R} {k k' : Nat → Option R} (j fuel : Nat) (h : ∀ i, j ≤ i → i < j + fuel → k i = k' i) :
    firstUp k j fuel = firstUp k' j fuel := by
  induction fuel generalizing j with
  | zero => rfl
  | succ f ih =>
    unfold firstUp
    rw [h j (Nat.le_refl _) (by omega), ih (j+1) (fun i h1 h2 => h i (by omega) (by omega))]

theorem firstDown_map {R S} (f : R → S) (k : Nat → Option R) (m : Nat) :
    firstDown (fun j => (k j).map f) m = (firstDown k m).map f := by
  induction m with
  | zero => rfl
  | succ m ih =>
    unfold firstDown
    cases h : k (m+1) <;> simp [ih]

theorem firstUp_map {R S} (f : R → S) (k : Nat → Option R) (j fuel : Nat) :
    firstUp (fun j => (k j).map f) j fuel = (firstUp k j fuel).map f := by
  induction fuel generalizing j with
  | zero => rfl
  | succ n ih =>
    unfold firstUp
    cases h : k j <;> simp [ih]

theorem runLen_le (c : Nt) (xs : Word) : runLen c xs ≤ xs.length := by
  induction xs with
  | nil => simp [runLen]
  | cons x xs ih => simp only [runLen]; split <;> simp <;> omega

theorem runLen_take (c : Nt) (xs : Word) : ∀ j, j ≤ runLen c xs → ∀ x ∈ xs.take j, clsMatch c x = true := by
  induction xs with
  | nil => intro j _ x hx; simp at hx
  | cons y ys ih =>
    intro j hj x hx
    cases j with
    | zero => simp at hx
    | succ j =>
      simp only [runLen] at hj
      split at hj
      · rename_i hy
        simp only [List.take_succ_cons, List.mem_cons] at hx
        rcases hx with rfl | hx
        · exact hy
        · exact ih j (by omega) x hx
      · omega

theorem le_runLen (c : Nt) (xs : Word) (j : Nat) (hj : j ≤ xs.length)
    (h : ∀ x ∈ xs.take j, clsMatch c x = true) : j ≤ runLen c xs := by
  induction xs generalizing j with
  | nil => simp at hj; omega
  | cons y ys ih =>
    cases j with
    | zero => omega
    | succ j =>
      have hy : clsMatch c y = true := h y (by simp)
      simp only [runLen, hy, if_true]
      have := ih j (by simpa using hj) (fun x hx => h x (by simp [hx]))
      omega

/-- soundness: a successful run yields a fit; the final position is start + consumed length -/
theorem matchToks_sound : ∀ (ts : Pat) (xs : Word) (pos : Nat) (acc r : List Nat),
    matchToks ts xs pos acc = some r → ∃ n, Fits ts xs n ∧ r.head? = some (pos + n) := by
  intro ts
  induction ts with
  | nil => intro xs pos acc r h; simp [matchToks] at h; exact ⟨0, .nil _, by simp [← h]⟩
  | cons t ts ih =>
    intro xs pos acc r h
    cases t with
    | cls c =>
      cases xs with
      | nil => simp [matchToks] at h
      | cons x xs =>
        simp only [matchToks] at h
        split at h
        · rename_i hc
          obtain ⟨n, hf, hr⟩ := ih _ _ _ _ h
          exact ⟨n+1, .cls hc hf, by rw [hr]; congr 1; omega⟩
        · simp at h
    | gopen =>
      simp only [matchToks] at h
      obtain ⟨n, hf, hr⟩ := ih _ _ _ _ h
      exact ⟨n, .gopen hf, hr⟩
    | gclose =>
      simp only [matchToks] at h
      obtain ⟨n, hf, hr⟩ := ih _ _ _ _ h
      exact ⟨n, .gclose hf, hr⟩
    | star c g =>
      simp only [matchToks] at h
      split at h
      · obtain ⟨j, hj, hk⟩ := firstDown_some h
        obtain ⟨n, hf, hr⟩ := ih _ _ _ _ hk
        have hjl := Nat.le_trans hj (runLen_le c xs)
        exact ⟨j + n, .star j hjl (runLen_take c xs j hj) hf, by rw [hr]; congr 1; omega⟩
      · obtain ⟨j, _, hj, hk, _⟩ := firstUp_some h
        obtain ⟨n, hf, hr⟩ := ih _ _ _ _ hk
        have hj' : j ≤ runLen c xs := by omega
        have hjl := Nat.le_trans hj' (runLen_le c xs)
        exact ⟨j + n, .star j hjl (runLen_take c xs j hj') hf, by rw [hr]; congr 1; omega⟩

/-- completeness: failure means no fit at all, whatever the run lengths -/
theorem matchToks_complete : ∀ (ts : Pat) (xs : Word) (pos : Nat) (acc : List Nat),
    matchToks ts xs pos acc = none → ∀ n, ¬ Fits ts xs n := by
  intro ts
  induction ts with
  | nil => intro xs pos acc h; simp [matchToks] at h
  | cons t ts ih =>
    intro xs pos acc h n hf
    cases hf with
    | cls hc hf' =>
      simp only [matchToks, hc, if_true] at h
      exact ih _ _ _ h _ hf'
    | gopen hf' => simp only [matchToks] at h; exact ih _ _ _ h _ hf'
    | gclose hf' => simp only [matchToks] at h; exact ih _ _ _ h _ hf'
    | star j hj hall hf' =>
      simp only [matchToks] at h
      have hjr := le_runLen _ xs j hj hall
      split at h
      · exact ih _ _ _ (firstDown_none h j hjr) _ hf'
      · exact ih _ _ _ (firstUp_none h j (Nat.zero_le _) (by omega)) _ hf'

theorem matchToks_isSome_iff (ts : Pat) (xs : Word) (pos : Nat) (acc : List Nat) :
    (matchToks ts xs pos acc).isSome ↔ ∃ n, Fits ts xs n := by
  constructor
  · intro h
    obtain ⟨r, hr⟩ := Option.isSome_iff_exists.mp h
    obtain ⟨n, hf, _⟩ := matchToks_sound _ _ _ _ _ hr
    exact ⟨n, hf⟩
  · rintro ⟨n, hf⟩
    cases h : matchToks ts xs pos acc with
    | none => exact absurd hf (matchToks_complete _ _ _ _ h n)
    | some r => rfl

/-! ## the matcher is a function of the text only: recorded positions are relative to the start -/

/-- the marks of an anchored match relative to its start (reversed, as recorded) -/
def relMatch (ts : Pat) (xs : Word) : Option (List Nat) := matchToks ts xs 0 []

theorem matchToks_shift : ∀ (ts : Pat) (xs : Word) (pos : Nat) (acc : List Nat),
    matchToks ts xs pos acc = (relMatch ts xs).map (fun r => r.map (· + pos) ++ acc) := by
  intro ts
  induction ts with
  | nil => intro xs pos acc; simp [relMatch, matchToks]
  | cons t ts ih =>
    intro xs pos acc
    cases t with
    | cls c =>
      cases xs with
      | nil => simp [relMatch, matchToks]
      | cons x xs =>
        simp only [relMatch, matchToks]
        split
        · rw [ih xs (pos+1) acc, ih xs (0+1) []]
          simp only [Option.map_map]
          congr 1; funext r; simp [List.map_map, Function.comp_def, Nat.add_assoc, Nat.add_comm 1 pos]
        · rfl
    | gopen =>
      simp only [relMatch, matchToks]
      rw [ih xs pos (pos :: acc), ih xs 0 [0]]
      simp only [Option.map_map]
      congr 1; funext r; simp [List.map_append]
    | gclose =>
      simp only [relMatch, matchToks]
      rw [ih xs pos (pos :: acc), ih xs 0 [0]]
      simp only [Option.map_map]
      congr 1; funext r; simp [List.map_append]
    | star c g =>
      simp only [relMatch, matchToks]
      have key : ∀ j, matchToks ts (xs.drop j) (pos + j) acc =
          (matchToks ts (xs.drop j) (0 + j) []).map (fun r => r.map (· + pos) ++ acc) := by
        intro j
        rw [ih (xs.drop j) (pos + j) acc, ih (xs.drop j) (0 + j) []]
        simp only [Option.map_map]
        congr 1; funext r
        simp [List.map_map, Function.comp_def, Nat.add_assoc, Nat.add_comm j pos]
      split
      · rw [← firstDown_map]; exact firstDown_congr _ (fun j _ => key j)
      · rw [← firstUp_map]; exact firstUp_congr _ _ (fun j _ _ => key j)

/-- the matcher only looks at the nucleotide codes, never at the case -/
theorem runLen_congr_nt (c : Nt) {xs ys : Word} (h : xs.map (·.nt) = ys.map (·.nt)) :
    runLen c xs = runLen c ys := by
  induction xs generalizing ys with
  | nil => cases ys with
    | nil => rfl
    | cons y ys => simp at h
  | cons x xs ih =>
    cases ys with
    | nil => simp at h
    | cons y ys =>
      simp only [List.map_cons, List.cons.injEq] at h
      simp [runLen, clsMatch, h.1, ih h.2]

theorem matchToks_congr_nt : ∀ (ts : Pat) (xs ys : Word) (pos : Nat) (acc : List Nat),
    xs.map (·.nt) = ys.map (·.nt) → matchToks ts xs pos acc = matchToks ts ys pos acc := by
  intro ts
  induction ts with
  | nil => intros; rfl
  | cons t ts ih =>
    intro xs ys pos acc h
    cases t with
    | cls c =>
      cases xs with
      | nil => cases ys with
        | nil => rfl
        | cons y ys => simp at h
      | cons x xs =>
        cases ys with
        | nil => simp at h
        | cons y ys =>
          simp only [List.map_cons, List.cons.injEq] at h
          simp [matchToks, clsMatch, h.1, ih xs ys _ _ h.2]
    | gopen => simp only [matchToks]; exact ih _ _ _ _ h
    | gclose => simp only [matchToks]; exact ih _ _ _ _ h
    | star c g =>
      simp only [matchToks]
      have hd : ∀ j, (xs.drop j).map (·.nt) = (ys.drop j).map (·.nt) := by
        intro j; rw [List.map_drop, List.map_drop, h]
      rw [runLen_congr_nt c h]
      split
      · exact firstDown_congr _ (fun j _ => ih _ _ _ _ (hd j))
      · exact firstUp_congr _ _ (fun j _ _ => ih _ _ _ _ (hd j))

end Moclo
