import Moclo.Proofs.Narrow
/-! `allRuns` enumerates exactly the runs; hence "exactly one fit" is checkable by computation. -/
namespace Moclo

theorem mem_allRuns : ∀ (ts : Pat) (xs : Word) (p : Nat) (ms : List Nat) (e : Nat),
    (ms, e) ∈ allRuns ts xs p ↔ Run ts xs p ms e := by
  intro ts
  induction ts with
  | nil =>
    intro xs p ms e
    simp only [allRuns, List.mem_singleton, Prod.mk.injEq]
    constructor
    · rintro ⟨rfl, rfl⟩; exact Run.nil _ _
    · intro h; cases h; exact ⟨rfl, rfl⟩
  | cons t ts ih =>
    intro xs p ms e
    cases t with
    | cls c =>
      cases xs with
      | nil =>
        simp only [allRuns, List.not_mem_nil, false_iff]
        intro h; cases h
      | cons x xs =>
        simp only [allRuns]
        by_cases hc : clsMatch c x = true
        · rw [if_pos hc, ih]
          constructor
          · intro h; exact Run.cls hc h
          · intro h; cases h with | cls _ h' => exact h'
        · rw [if_neg hc]
          simp only [List.not_mem_nil, false_iff]
          intro h; cases h with | cls h1 _ => exact hc h1
    | gopen =>
      simp only [allRuns, List.mem_map, Prod.mk.injEq, Prod.exists]
      constructor
      · rintro ⟨ms', e', hm, rfl, rfl⟩
        exact Run.gopen ((ih _ _ _ _).mp hm)
      · intro h
        cases h with
        | gopen h' => exact ⟨_, _, (ih _ _ _ _).mpr h', rfl, rfl⟩
    | gclose =>
      simp only [allRuns, List.mem_map, Prod.mk.injEq, Prod.exists]
      constructor
      · rintro ⟨ms', e', hm, rfl, rfl⟩
        exact Run.gclose ((ih _ _ _ _).mp hm)
      · intro h
        cases h with
        | gclose h' => exact ⟨_, _, (ih _ _ _ _).mpr h', rfl, rfl⟩
    | star c g =>
      simp only [allRuns, List.mem_flatMap, List.mem_range]
      constructor
      · rintro ⟨j, hj, hm⟩
        have hle := runLen_le c xs
        exact Run.star j (by omega) (runLen_take c xs j (by omega)) ((ih _ _ _ _).mp hm)
      · intro h
        cases h with
        | star j hj hall h' =>
          exact ⟨j, by have := le_runLen c xs j hj hall; omega, (ih _ _ _ _).mpr h'⟩

theorem mem_allFits (p : Pat) (w : Word) (i : Nat) (ms : List Nat) (e : Nat) :
    (i, ms, e) ∈ allFits p w ↔ i < w.length ∧ Run p (window w i) 0 ms e := by
  unfold allFits
  simp only [List.mem_flatMap, List.mem_range, List.mem_map, Prod.mk.injEq, Prod.exists]
  constructor
  · rintro ⟨j, hj, ms', e', hm, rfl, rfl, rfl⟩
    exact ⟨hj, (mem_allRuns _ _ _ _ _).mp hm⟩
  · rintro ⟨hi, hr⟩
    exact ⟨i, hi, ms, e, (mem_allRuns _ _ _ _ _).mpr hr, rfl, rfl, rfl⟩

/-- **"exactly one fit" is checkable**: when the enumeration of all fits has exactly one entry, the record
carries the structure in exactly one way -/
theorem uniqueFit_of_count {p : Pat} {w : Word} (h : (allFits p w).length = 1) : UniqueFit p w := by
  obtain ⟨⟨i, ms, e⟩, hl⟩ := List.length_eq_one_iff.mp h
  have hmem : (i, ms, e) ∈ allFits p w := by rw [hl]; simp
  obtain ⟨hi, hr⟩ := (mem_allFits p w i ms e).mp hmem
  refine ⟨i, ms, e, hi, hr, ?_⟩
  intro j ms' e' hj hr'
  have : (j, ms', e') ∈ allFits p w := (mem_allFits p w j ms' e').mpr ⟨hj, hr'⟩
  rw [hl] at this
  simp only [List.mem_singleton, Prod.mk.injEq] at this
  exact this

/-- conversely a unique fit is the only entry up to repetition -/
theorem allFits_of_uniqueFit {p : Pat} {w : Word} (h : UniqueFit p w) :
    ∃ i ms e, ∀ x ∈ allFits p w, x = (i, ms, e) := by
  obtain ⟨i, ms, e, _, _, hu⟩ := h
  refine ⟨i, ms, e, ?_⟩
  rintro ⟨j, ms', e'⟩ hx
  obtain ⟨hj, hr⟩ := (mem_allFits p w j ms' e').mp hx
  obtain ⟨rfl, rfl, rfl⟩ := hu j ms' e' hj hr
  rfl

end Moclo
