import Moclo.Proofs.AssembleRc
/-! Completeness of `assemble`: when the inputs are accepted by their classes and the overhang graph has the
specified chain, a product is returned — and it is the concatenation of the fragments along that chain. -/
namespace Moclo

theorem mem_of_forall2_right {α β} {R : α → β → Prop} {l1 : List α} {l2 : List β} (h : List.Forall₂ R l1 l2) :
    ∀ b ∈ l2, ∃ a ∈ l1, R a b := by
  induction h with
  | nil => intro b hb; simp at hb
  | @cons a b l1 l2 hab _ ih =>
    intro x hx
    rcases List.mem_cons.mp hx with rfl | hx
    · exact ⟨a, by simp, hab⟩
    · obtain ⟨y, hy, hr⟩ := ih x hx
      exact ⟨y, List.mem_cons_of_mem _ hy, hr⟩

/-- **completeness**: distinct module objects, all accepted by their classes (`gmod`), whose overhang keys
form a graph with the chain `chain` from the vector's downstream to its upstream overhang (no two modules
with the same start, no reverse-complementary starts), citations well formed, no injected fault: `assemble`
returns a product, and its sequence is the concatenation of the chain's fragments followed by the vector's -/
theorem assemble_complete {v : Ent} {mods : List Ent} (pid pname : Nat) {gv : GMod Word}
    {gs chain : List (GMod Word)}
    (h1 : v.gmod = .ok gv) (hF : List.Forall₂ (fun e g => e.gmod = .ok g) mods gs)
    (hoid : (mods.map (·.oid)).Nodup) (hne : gv.start ≠ gv.stop)
    (hsf : StartFree gs) (hrc : C03.NoRc Moclo.rc gs) (hc : C03.Chain gs gv.stop chain gv.start)
    (hd : ∀ e ∈ mods, (derefRec e.rcd).isSome) (hdv : (derefRec v.rcd).isSome)
    (hf : ∀ e ∈ mods, e.faulty = false) (hvf : v.faulty = false) :
    ∃ p, (assemble v mods pid pname).1 = .ok p ∧
      p.rcd.seq = (chain.map (fun g => fragOfOid mods g.oid)).flatten ++ v.fragment ∧
      (∀ o, o ∈ p.unused ↔ ∃ g ∈ gs, g ∉ chain ∧ g.oid = o) := by
  have hgoid : (gs.map (·.oid)).Nodup := by rw [forall2_goids hF]; exact hoid
  have hid : SameObj gs := sameObj_of_nodup_oid hgoid
  obtain ⟨rest, hga⟩ := C03.ok_complete (rc := Moclo.rc) hid hne hsf hrc hc
  obtain ⟨_, map, hb, hcl, hw⟩ := gAssemble_ok_iff.mp hga
  have hch : ∀ g ∈ chain, ∃ e m, mods.find? (fun e => e.oid = g.oid) = some e ∧ e.faulty = false ∧
      e.spec.matchSeq e.rcd.seq = .ok m := by
    intro g hg
    obtain ⟨e, he, heg⟩ := mem_of_forall2_right hF g (hc.2.1 g hg)
    obtain ⟨m, hm⟩ := gmod_match heg
    refine ⟨e, m, ?_, hf e he, hm⟩
    rw [gmod_oid heg]
    exact find_of_nodup_oid mods hoid e he
  obtain ⟨p, hp⟩ := assemble_succeeds pid pname h1 hne ((evalPrefix_ok_iff _ _).mpr hF) hb hcl hw hd hdv hch hvf
  obtain ⟨gv2, gs2, map2, chain2, rest2, k1, _, k3, k4, _, k6, k7, k8, _⟩ :=
    assemble_ok (show assemble v mods pid pname = (.ok p, (assemble v mods pid pname).2) from Prod.ext hp rfl)
  have e1 : gv2 = gv := by rw [h1] at k1; cases k1; rfl
  have e2 : gs2 = gs := by rw [(evalPrefix_ok_iff _ _).mpr hF] at k3; cases k3; rfl
  subst e1 e2
  have e3 : map2 = map := by rw [hb] at k4; cases k4; rfl
  subst e3
  rw [hw] at k6
  simp only [Prod.mk.injEq] at k6
  obtain ⟨e4, e5, _⟩ := k6
  subst e4 e5
  refine ⟨p, hp, k7, ?_⟩
  obtain ⟨_, _, _, _, _, hrest⟩ := C03.ok_sound hid hga
  intro o
  rw [k8]
  simp only [List.mem_map]
  constructor
  · rintro ⟨g, hg, rfl⟩
    obtain ⟨a, b⟩ := (hrest g).mp hg
    exact ⟨g, a, b, rfl⟩
  · rintro ⟨g, a, b, rfl⟩
    exact ⟨g, (hrest g).mpr ⟨a, b⟩, rfl⟩

end Moclo
