import Moclo.Props.C02
import Moclo.Proofs.Flank
import Moclo.Proofs.ScreenRc
/-! What the generic classes report about a record, read off the unique fit of their structure. -/
namespace Moclo
open Moclo.C02

theorem slice_take (text : Word) (e a b : Nat) (hb : b ≤ e) : slice (text.take e) a b = slice text a b := by
  unfold slice
  rw [List.drop_take, List.take_take]
  congr 1
  omega

theorem slice_append_left (X Y : Word) (a b : Nat) (hb : b ≤ X.length) : slice (X ++ Y) a b = slice X a b := by
  unfold slice
  by_cases hab : a ≤ b
  · rw [List.drop_append_of_le_length (by omega), List.take_append_of_le_length (by simp [List.length_drop]; omega)]
  · have : b - a = 0 := by omega
    rw [this]; simp

theorem slice_join (A : Word) (a b c : Nat) (hab : a ≤ b) (hbc : b ≤ c) : slice A a b ++ slice A b c = slice A a c := by
  unfold slice
  have e1 : c - a = (b - a) + (c - b) := by omega
  rw [e1, List.take_add, List.drop_drop]
  congr 3
  omega

theorem slice_zero (A : Word) (e : Nat) : slice A 0 e = A.take e := by simp [slice]

theorem rc_length'' (A : Word) : (rc A).length = A.length := rc_length' A

theorem rc_take_eq (A : Word) (q : Nat) (hq : q ≤ A.length) : (rc A).take q = rc (A.drop (A.length - q)) := by
  have h := slice_rc A (A.length - q) A.length (by omega) (Nat.le_refl _)
  unfold slice at h
  simp only [Nat.sub_self, List.drop_zero, Nat.sub_zero] at h
  have e1 : A.length - (A.length - q) = q := by omega
  rw [e1] at h
  rw [h, List.take_of_length_le (by rw [List.length_drop]; omega)]

theorem rc_drop_eq (A : Word) (q : Nat) (hq : q ≤ A.length) : (rc A).drop q = rc (A.take (A.length - q)) := by
  have h := slice_rc A 0 (A.length - q) (Nat.zero_le _) (by omega)
  unfold slice at h
  simp only [Nat.sub_zero, List.drop_zero] at h
  have e1 : A.length - (A.length - q) = q := by omega
  rw [e1] at h
  rw [← h, List.take_of_length_le (by simp [List.length_drop, rc_length'])]

/-- the marks a search reports under a unique fit -/
theorem report_of_uniqueFit {c : ClassSpec} {w : Word} {i : Nat} {ms : List Nat} {e : Nat} (h3 : ThreeGroups c.pat)
    (hi : i < w.length) (hr : Run c.pat (window w i) 0 ms e)
    (hu : ∀ j ms' e', j < w.length → Run c.pat (window w j) 0 ms' e' → j = i ∧ ms' = ms ∧ e' = e) :
    report c w =
      if validCuts c.geom (vgroup (window w i) (ms ++ [e]) 0) > 2 then .error .illegal
      else .ok (vgroup (window w i) (ms ++ [e]) c.upGroup, vgroup (window w i) (ms ++ [e]) c.downGroup,
                vTarget c.kind (window w i) (ms ++ [e]),
                vgroup (window w i) (ms ++ [e]) 1 ++ vgroup (window w i) (ms ++ [e]) 2) := by
  obtain ⟨i', ms', e', rel, hi', hr', hrel, hrev, hsearch, _⟩ := search_of_uniqueFit ⟨i, ms, e, hi, hr, hu⟩
  obtain ⟨ei, em, ee⟩ := hu i' ms' e' hi' hr'
  subst ei em ee
  rw [report_of_view h3 hi' hrel hsearch, hrev]

/-- **the generic module class, read off its unique fit**: with `A` the letters the structure consumes and
`p = |site| + off`, it reports `A[p:p+k]` upstream, `A[e-p-k:e-p]` downstream and `A[p:e-p-k]` as target -/
theorem module_report_of_fit (g : Geom) {w : Word} {i : Nat} {ms : List Nat} {e : Nat}
    (hi : i < w.length) (hr : Run (moduleStructure g) (window w i) 0 ms e)
    (hu : ∀ j ms' e', j < w.length → Run (moduleStructure g) (window w j) 0 ms' e' → j = i ∧ ms' = ms ∧ e' = e) :
    report { kind := .module, pat := moduleStructure g, geom := g } w =
      if validCuts g ((window w i).take e) > 2 then .error .illegal
      else .ok (slice ((window w i).take e) (g.site.length + g.off) (g.site.length + g.off + g.k),
                slice ((window w i).take e) (e - (g.site.length + g.off + g.k)) (e - (g.site.length + g.off)),
                slice ((window w i).take e) (g.site.length + g.off) (e - (g.site.length + g.off + g.k)),
                slice ((window w i).take e) (g.site.length + g.off) (e - (g.site.length + g.off + g.k))) := by
  set c : ClassSpec := { kind := .module, pat := moduleStructure g, geom := g } with hc
  have h3 : ThreeGroups c.pat := generic_three_groups .module g
  rw [report_of_uniqueFit (c := c) h3 hi hr hu]
  obtain ⟨hms, hlen⟩ := module_run_marks g hr
  set p := g.site.length + g.off with hp
  subst hms
  simp only [ClassSpec.upGroup, ClassSpec.downGroup, vgroup, vTarget, rspan, hc]
  simp only [show (1:Nat) ≠ 0 by omega, show (2:Nat) ≠ 0 by omega, show (3:Nat) ≠ 0 by omega, if_false, if_true,
    List.getD_cons_succ, List.getD_cons_zero, List.cons_append, List.nil_append, Nat.reduceMul, Nat.reduceSub]
  have hlast : ([p, p + g.k, p + g.k, e - (p + g.k), e - (p + g.k), e - p, e] : List Nat).getLastD 0 = e := by simp
  rw [hlast, slice_zero]
  rw [slice_take _ e _ _ (by omega), slice_take _ e _ _ (by omega), slice_take _ e _ _ (by omega)]
  rw [slice_join _ _ _ _ (by omega) (by omega)]

/-- **the generic vector class, read off its unique fit**: with `A` the consumed letters and `B` the rest of
the circle, it reports `A[e-k-1:e-1]` upstream, `A[1:1+k]` downstream, target
`A[e-k-1:e-1] · (A[e-1:] · B · A[:1])` and placeholder `A[1:e-k-1]` -/
theorem vector_report_of_fit (g : Geom) {w : Word} {i : Nat} {ms : List Nat} {e : Nat}
    (hi : i < w.length) (hr : Run (vectorStructure g) (window w i) 0 ms e)
    (hu : ∀ j ms' e', j < w.length → Run (vectorStructure g) (window w j) 0 ms' e' → j = i ∧ ms' = ms ∧ e' = e) :
    report { kind := .vector, pat := vectorStructure g, geom := g } w =
      if validCuts g ((window w i).take e) > 2 then .error .illegal
      else .ok (slice ((window w i).take e) (e - (g.k + 1)) (e - 1),
                slice ((window w i).take e) 1 (1 + g.k),
                slice ((window w i).take e) (e - (g.k + 1)) (e - 1) ++
                  (((window w i).take e).drop (e - 1) ++ (window w i).drop e ++ ((window w i).take e).take 1),
                slice ((window w i).take e) 1 (e - (g.k + 1))) := by
  set c : ClassSpec := { kind := .vector, pat := vectorStructure g, geom := g } with hc
  have h3 : ThreeGroups c.pat := generic_three_groups .vector g
  rw [report_of_uniqueFit (c := c) h3 hi hr hu]
  obtain ⟨hms, hlen⟩ := vector_run_marks g hr
  subst hms
  have hwl := window_length w i (Nat.le_of_lt hi)
  have he : e ≤ w.length := by have := hr.bounds.2.1; omega
  simp only [ClassSpec.upGroup, ClassSpec.downGroup, vgroup, vTarget, rspan, hc]
  simp only [show (1:Nat) ≠ 0 by omega, show (2:Nat) ≠ 0 by omega, show (3:Nat) ≠ 0 by omega, if_false, if_true,
    List.getD_cons_succ, List.getD_cons_zero, List.cons_append, List.nil_append, Nat.reduceMul, Nat.reduceSub]
  have hlast : ([1, 1 + g.k, 1 + g.k, e - (g.k + 1), e - (g.k + 1), e - 1, e] : List Nat).getLastD 0 = e := by simp
  rw [hlast, slice_zero]
  rw [slice_take _ e _ _ (by omega), slice_take _ e _ _ (by omega), slice_take _ e _ _ (by omega)]
  rw [slice_join _ _ _ _ (by omega) (by omega)]
  set text := window w i with htext
  have ht : text.drop (e - (g.k + 1)) ++ text.take 1 =
      slice text (e - (g.k + 1)) (e - 1) ++ ((text.take e).drop (e - 1) ++ text.drop e ++ (text.take e).take 1) := by
    have e1 : text.drop (e - (g.k + 1)) = slice text (e - (g.k + 1)) (e - 1) ++ text.drop (e - 1) := by
      unfold slice
      conv_lhs => rw [← List.take_append_drop (e - 1 - (e - (g.k + 1))) (text.drop (e - (g.k + 1)))]
      rw [List.drop_drop]
      congr 2; omega
    have e2 : text.drop (e - 1) = (text.take e).drop (e - 1) ++ text.drop e := by
      conv_lhs => rw [← List.take_append_drop e text]
      rw [List.drop_append_of_le_length (by simp [hwl]; omega)]
    have e3 : (text.take e).take 1 = text.take 1 := by rw [List.take_take]; congr 1; omega
    rw [e1, e2, e3]; simp [List.append_assoc]
  rw [ht]

end Moclo
