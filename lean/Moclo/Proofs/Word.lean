import Moclo.Model.Word
import Mathlib.Data.List.Rotate
import Mathlib.Data.List.Infix
/-! Helper lemmas on circular words: `rotr`/`rotl` in terms of Mathlib's `List.rotate`,
the one-turn window, `group` extraction, circular membership. -/
namespace Moclo
variable {α : Type}

theorem rotr_eq_rotate (w : List α) (k : Nat) : rotr w k = w.rotate (w.length - k % w.length) := by
  unfold rotr
  rw [List.rotate_eq_drop_append_take (Nat.sub_le _ _)]

@[simp] theorem rotr_length (w : List α) (k : Nat) : (rotr w k).length = w.length := by
  rw [rotr_eq_rotate, List.length_rotate]

@[simp] theorem rotr_nil (k : Nat) : rotr ([] : List α) k = [] := by simp [rotr]

theorem rotr_zero (w : List α) : rotr w 0 = w := by
  rw [rotr_eq_rotate]; simp

theorem rotr_mod (w : List α) (k : Nat) : rotr w (k % w.length) = rotr w k := by
  unfold rotr; simp

/-- moving the last `k` letters to the front -/
theorem rotr_spec (w : List α) (k : Nat) (hk : k ≤ w.length) :
    rotr w k = w.drop (w.length - k) ++ w.take (w.length - k) := by
  rcases Nat.lt_or_ge k w.length with h | h
  · unfold rotr; rw [Nat.mod_eq_of_lt h]
  · have : k = w.length := Nat.le_antisymm hk h
    subst this
    unfold rotr; simp

theorem rotate_rotr (w : List α) (k : Nat) : (rotr w k).rotate k = w := by
  rw [rotr_eq_rotate, List.rotate_rotate]
  rcases Nat.eq_zero_or_pos w.length with h0 | hpos
  · have : w = [] := List.length_eq_zero_iff.mp h0
    subst this; simp
  · rw [← List.rotate_mod]
    have : (w.length - k % w.length + k) % w.length = 0 := by
      have hlt := Nat.mod_lt k hpos
      have h1 : w.length - k % w.length + k = w.length + (k - k % w.length) := by
        have := Nat.mod_le k w.length; omega
      rw [h1]
      have h2 : k - k % w.length = w.length * (k / w.length) := by
        have := Nat.div_add_mod k w.length; omega
      rw [h2, Nat.add_mul_mod_self_left, Nat.mod_self]
    rw [this, List.rotate_zero]

theorem rotr_rotate (w : List α) (k : Nat) : rotr (w.rotate k) k = w := by
  rw [rotr_eq_rotate, List.rotate_rotate, List.length_rotate]
  rcases Nat.eq_zero_or_pos w.length with h0 | hpos
  · have : w = [] := List.length_eq_zero_iff.mp h0
    subst this; simp
  · rw [← List.rotate_mod]
    have : (k + (w.length - k % w.length)) % w.length = 0 := by
      have hlt := Nat.mod_lt k hpos
      have h1 : k + (w.length - k % w.length) = w.length + (k - k % w.length) := by
        have := Nat.mod_le k w.length; omega
      rw [h1]
      have h2 : k - k % w.length = w.length * (k / w.length) := by
        have := Nat.div_add_mod k w.length; omega
      rw [h2, Nat.add_mul_mod_self_left, Nat.mod_self]
    rw [this, List.rotate_zero]

/-- rotations compose additively -/
theorem rotr_add (w : List α) (a b : Nat) : rotr (rotr w a) b = rotr w (a + b) := by
  apply (List.rotate_eq_rotate (n := a + b)).mp
  rw [rotate_rotr, Nat.add_comm a b, ← List.rotate_rotate, rotate_rotr, rotate_rotr]

/-- a multiple of the length is the identity -/
theorem rotr_mul_length (w : List α) (m : Nat) : rotr w (m * w.length) = w := by
  unfold rotr; simp

theorem rotr_length_self (w : List α) : rotr w w.length = w := by
  simpa using rotr_mul_length w 1

/-- letter `i` ends up at `(i + k) % n` -/
theorem rotr_getElem (w : List α) (k i : Nat) (hi : i < w.length) :
    (rotr w k)[(i + k) % w.length]'(by rw [rotr_length]; exact Nat.mod_lt _ (by omega)) = w[i] := by
  have hpos : 0 < w.length := by omega
  simp only [rotr_eq_rotate]
  rw [List.getElem_rotate]
  congr 1
  have hlt := Nat.mod_lt k hpos
  have e : (i + k) % w.length = (i + k % w.length) % w.length := by
    rw [Nat.add_mod, Nat.mod_eq_of_lt hi]
  rw [e]
  by_cases h : i + k % w.length < w.length
  · rw [Nat.mod_eq_of_lt h]
    have : i + k % w.length + (w.length - k % w.length) = i + w.length := by omega
    rw [this, Nat.add_mod_right, Nat.mod_eq_of_lt hi]
  · have hin : (i + k % w.length) % w.length = i + k % w.length - w.length := by
      rw [Nat.mod_eq_sub_mod (by omega), Nat.mod_eq_of_lt (by omega)]
    rw [hin]
    have : i + k % w.length - w.length + (w.length - k % w.length) = i := by omega
    rw [this, Nat.mod_eq_of_lt hi]

/-! ## integer rotation amounts -/

theorem rotrI_natCast (w : List α) (k : Nat) : rotrI w (k : Int) = rotr w k := by
  unfold rotrI
  rcases Nat.eq_zero_or_pos w.length with h0 | hpos
  · have : w = [] := List.length_eq_zero_iff.mp h0
    subst this; simp
  · rw [← rotr_mod w k]
    rfl

theorem rotr_congr (w : List α) {a b : Nat} (h : a % w.length = b % w.length) : rotr w a = rotr w b := by
  rw [← rotr_mod w a, ← rotr_mod w b, h]

@[simp] theorem rotrI_length (w : List α) (k : Int) : (rotrI w k).length = w.length := by
  unfold rotrI; simp

theorem rotrI_nil (k : Int) : rotrI ([] : List α) k = [] := by simp [rotrI]

theorem toNat_emod_cast (k : Int) (n : Nat) (hn : 0 < n) :
    (((k.emod n).toNat : Nat) : Int) = k.emod n := by
  have h : 0 ≤ k.emod (n : Int) := Int.emod_nonneg _ (by omega)
  omega

/-- rotations by integers compose additively -/
theorem rotrI_add (w : List α) (a b : Int) : rotrI (rotrI w a) b = rotrI w (a + b) := by
  rcases Nat.eq_zero_or_pos w.length with h0 | hpos
  · have : w = [] := List.length_eq_zero_iff.mp h0
    subst this; simp [rotrI_nil]
  · unfold rotrI
    rw [rotr_length, rotr_add]
    apply rotr_congr
    have hn : (0 : Int) < w.length := by exact_mod_cast hpos
    have e1 := toNat_emod_cast a w.length hpos
    have e2 := toNat_emod_cast b w.length hpos
    have e3 := toNat_emod_cast (a + b) w.length hpos
    have key : ((((a.emod w.length).toNat + (b.emod w.length).toNat) % w.length : Nat) : Int)
        = ((((a + b).emod w.length).toNat % w.length : Nat) : Int) := by
      push_cast
      rw [e1, e2, e3]
      show (a % ↑w.length + b % ↑w.length) % ↑w.length = (a + b) % ↑w.length % ↑w.length
      rw [Int.emod_emod, ← Int.add_emod]
    exact_mod_cast key

theorem rotrI_zero (w : List α) : rotrI w 0 = w := by
  unfold rotrI; exact rotr_zero w

theorem rotrI_emod (w : List α) (k : Int) : rotrI w (k.emod w.length) = rotrI w k := by
  unfold rotrI
  congr 1
  show ((k % ↑w.length) % ↑w.length).toNat = (k % ↑w.length).toNat
  rw [Int.emod_emod]

theorem rotrI_congr (w : List α) {a b : Int} (h : a.emod w.length = b.emod w.length) :
    rotrI w a = rotrI w b := by
  unfold rotrI; rw [h]

theorem reverse_take_drop (l : List α) (m a : Nat) (h : m + a = l.length) :
    l.reverse.drop a = (l.take m).reverse ∧ l.reverse.take a = (l.drop m).reverse := by
  have hrev : l.reverse = (l.drop m).reverse ++ (l.take m).reverse := by
    rw [← List.reverse_append, List.take_append_drop]
  have hlen : ((l.drop m).reverse).length = a := by simp; omega
  constructor
  · rw [hrev]; exact List.drop_left' hlen
  · rw [hrev]; exact List.take_left' hlen

theorem rotlI_eq (w : List α) (k : Int) : rotlI w k = rotrI w (-k) := by
  unfold rotlI; exact rotrI_emod w (-k)

/-- left rotation undoes right rotation -/
theorem rotlI_rotrI (w : List α) (k : Int) : rotlI (rotrI w k) k = w := by
  rw [rotlI_eq, rotrI_add, Int.add_right_neg, rotrI_zero]

/-- right rotation undoes left rotation -/
theorem rotrI_rotlI (w : List α) (k : Int) : rotrI (rotlI w k) k = w := by
  rw [rotlI_eq, rotrI_add, Int.add_left_neg, rotrI_zero]

/-- any integer multiple of the length is the identity -/
theorem rotrI_mul_length (w : List α) (m : Int) : rotrI w (m * w.length) = w := by
  unfold rotrI
  have : (m * (w.length : Int)).emod w.length = 0 := Int.mul_emod_left _ _
  rw [this]; exact rotr_zero w

theorem rotrI_isRotated (w : List α) (k : Int) : rotrI w k ~r w := by
  unfold rotrI; rw [rotr_eq_rotate]; exact List.IsRotated.forall w _

/-! ## the one-turn window and group extraction -/

theorem window_eq_rotate (w : List α) (i : Nat) (hi : i ≤ w.length) : window w i = w.rotate i := by
  unfold window
  rw [List.rotate_eq_drop_append_take hi, List.drop_append_of_le_length hi, List.take_append]
  simp [List.length_drop, Nat.sub_sub_self hi]

/-- every reported group is exactly the text it matched in the doubled string -/
theorem group_spec (w : List α) (a b : Nat) (hab : a ≤ b) (hb : b < 2 * w.length)
    (hlen : b - a ≤ w.length) : group w a b = ((w ++ w).drop a).take (b - a) := by
  unfold group pySlice
  have hn : 0 < w.length := by omega
  split
  · rename_i h
    obtain ⟨_, han⟩ := h
    have e1 : a % w.length = a - w.length := by
      rw [Nat.mod_eq_sub_mod han, Nat.mod_eq_of_lt (by omega)]
    have e2 : b % w.length = b - w.length := by
      rw [Nat.mod_eq_sub_mod (by omega), Nat.mod_eq_of_lt (by omega)]
    rw [e1, e2, List.drop_append]
    have : List.drop a w = [] := List.drop_eq_nil_of_le han
    simp [this]; congr 1; omega
  · split
    · rename_i h1 h2
      obtain ⟨hbn, han⟩ := h2
      have e2 : b % w.length = b - w.length := by
        rw [Nat.mod_eq_sub_mod hbn, Nat.mod_eq_of_lt (by omega)]
      rw [e2, List.drop_append_of_le_length (by omega), List.take_append]
      simp [List.length_drop]
      congr 1
      · rw [List.take_of_length_le]; simp; omega
      · congr 1; omega
    · rename_i h1 h2
      have hbn : b ≤ w.length := by
        by_contra hc
        apply h2; constructor <;> [omega; skip]
        by_contra hc2; apply h1; constructor <;> omega
      rw [List.drop_append_of_le_length (by omega), List.take_append]
      simp [List.length_drop]; omega

/-! ## circular membership -/

theorem isInfixB_iff [BEq α] [LawfulBEq α] (q w : List α) : isInfixB q w = true ↔ q <:+: w := by
  induction w with
  | nil => simp [isInfixB, List.infix_nil]
  | cons x xs ih =>
    simp only [isInfixB, Bool.or_eq_true, ih, List.isPrefixOf_iff_prefix]
    exact (List.infix_cons_iff).symm

theorem rotate_infix_double (w : List α) (k : Nat) : w.rotate k <:+: w ++ w := by
  rw [← List.rotate_mod]
  rcases Nat.eq_zero_or_pos w.length with h0 | hpos
  · have : w = [] := List.length_eq_zero_iff.mp h0
    subst this; simp
  · have hk : k % w.length ≤ w.length := Nat.le_of_lt (Nat.mod_lt _ hpos)
    rw [List.rotate_eq_drop_append_take hk]
    refine ⟨w.take (k % w.length), w.drop (k % w.length), ?_⟩
    simp [List.append_assoc]
    rw [← List.append_assoc (List.take _ w), List.take_append_drop]

theorem infix_double_rotate (w q : List α) (hq : q.length ≤ w.length) (h : q <:+: w ++ w) :
    ∃ k, q <:+: w.rotate k := by
  obtain ⟨s, t, hst⟩ := h
  have hd : (w ++ w).drop s.length = q ++ t := by
    rw [← hst, List.append_assoc, List.drop_left]
  by_cases hi : s.length ≤ w.length
  · refine ⟨s.length, ?_⟩
    rw [← window_eq_rotate w _ hi]
    unfold window
    rw [hd]
    refine List.IsPrefix.isInfix ?_
    rw [List.prefix_take_iff]
    exact ⟨List.prefix_append _ _, hq⟩
  · refine ⟨0, ?_⟩
    rw [List.rotate_zero]
    have : (w ++ w).drop s.length = w.drop (s.length - w.length) := by
      rw [List.drop_append]
      have : List.drop s.length w = [] := List.drop_eq_nil_of_le (by omega)
      simp [this]
    rw [this] at hd
    exact (List.IsPrefix.isInfix ⟨t, hd.symm⟩).trans (List.drop_suffix _ _).isInfix

/-- `q in record` ⇔ `q` is no longer than the record and occurs in some rotation of it -/
theorem ccontains_iff [BEq α] [LawfulBEq α] (w q : List α) :
    ccontains w q = true ↔ q.length ≤ w.length ∧ ∃ k, q <:+: w.rotate k := by
  unfold ccontains
  simp only [Bool.and_eq_true, decide_eq_true_eq, isInfixB_iff]
  constructor
  · rintro ⟨h1, h2⟩; exact ⟨h1, infix_double_rotate w q h1 h2⟩
  · rintro ⟨h1, k, h2⟩; exact ⟨h1, h2.trans (rotate_infix_double w k)⟩

/-- the answer is the same for every rotation of the record -/
theorem ccontains_rotr [BEq α] [LawfulBEq α] (w q : List α) (k : Nat) :
    ccontains (rotr w k) q = ccontains w q := by
  rw [Bool.eq_iff_iff, ccontains_iff, ccontains_iff, rotr_length]
  constructor
  · rintro ⟨h1, j, h2⟩
    refine ⟨h1, w.length - k % w.length + j, ?_⟩
    rw [rotr_eq_rotate, List.rotate_rotate] at h2; exact h2
  · rintro ⟨h1, j, h2⟩
    refine ⟨h1, k + j, ?_⟩
    rw [← List.rotate_rotate, rotate_rotr]; exact h2

theorem ccontains_rotrI [BEq α] [LawfulBEq α] (w q : List α) (k : Int) :
    ccontains (rotrI w k) q = ccontains w q := by
  unfold rotrI; exact ccontains_rotr w q _

end Moclo
