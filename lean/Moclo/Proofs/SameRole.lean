import Moclo.Proofs.Assembly
/-! Inputs that play the same role: same position in the overhang graph, same retained fragment.  The outcome
of an assembly depends on its inputs only through these. -/
namespace Moclo

/-- `e'` plays the role of `e`: same object position, same overhang keys (or the same rejection), same
fault flag, citations well formed alike, same retained fragment -/
structure SameRole (e e' : Ent) : Prop where
  oid : e'.oid = e.oid
  gmod : e'.gmod = e.gmod
  faulty : e'.faulty = e.faulty
  deref : (derefRec e'.rcd).isSome = (derefRec e.rcd).isSome
  frag : e'.fragment = e.fragment

theorem SameRole.refl (e : Ent) : SameRole e e := ⟨rfl, rfl, rfl, rfl, rfl⟩

theorem SameRole.symm {e e' : Ent} (h : SameRole e e') : SameRole e' e :=
  ⟨h.oid.symm, h.gmod.symm, h.faulty.symm, h.deref.symm, h.frag.symm⟩

theorem evalPrefix_sameRole {ms ms' : List Ent} (h : List.Forall₂ SameRole ms ms') :
    evalPrefix ms' = evalPrefix ms := by
  induction h with
  | nil => rfl
  | cons he _ ih => simp only [evalPrefix, he.gmod, ih]

theorem find_sameRole {ms ms' : List Ent} (h : List.Forall₂ SameRole ms ms') (k : Nat) :
    (∀ e, ms.find? (fun e => e.oid = k) = some e → ∃ e', ms'.find? (fun e => e.oid = k) = some e' ∧ SameRole e e') ∧
    (ms.find? (fun e => e.oid = k) = none → ms'.find? (fun e => e.oid = k) = none) := by
  induction h with
  | nil => exact ⟨by simp, by simp⟩
  | @cons a a' as as' ha _ ih =>
    simp only [List.find?_cons, ha.oid]
    by_cases hk : a.oid = k
    · simp only [hk, decide_true, Option.some.injEq]
      exact ⟨fun e he => ⟨a', rfl, he ▸ ha⟩, by simp⟩
    · simp only [hk, decide_false]
      exact ih

theorem gmod_match' {e : Ent} {g : GMod Word} (h : e.gmod = .ok g) : ∃ m, e.spec.matchSeq e.rcd.seq = .ok m := by
  unfold Ent.gmod at h
  cases hm : e.spec.matchSeq e.rcd.seq with
  | error _ => rw [hm] at h; cases h
  | ok m => exact ⟨m, rfl⟩

theorem gmod_of_match {e : Ent} {m : Match} (h : e.spec.matchSeq e.rcd.seq = .ok m) : ∃ g, e.gmod = .ok g := by
  unfold Ent.gmod; rw [h]; exact ⟨_, rfl⟩

theorem fragOfOid_sameRole {ms ms' : List Ent} (h : List.Forall₂ SameRole ms ms') (k : Nat) :
    fragOfOid ms' k = fragOfOid ms k := by
  unfold fragOfOid
  obtain ⟨h1, h2⟩ := find_sameRole h k
  cases hf : ms.find? (fun e => e.oid = k) with
  | none => rw [h2 hf]
  | some e => obtain ⟨e', he', hr⟩ := h1 e hf; rw [he']; exact hr.frag

theorem mem_sameRole {ms ms' : List Ent} (h : List.Forall₂ SameRole ms ms') :
    ∀ e' ∈ ms', ∃ e ∈ ms, SameRole e e' := by
  induction h with
  | nil => intro e' he'; simp at he'
  | @cons a a' as as' ha _ ih =>
    intro e' he'
    rcases List.mem_cons.mp he' with rfl | hx
    · exact ⟨a, by simp, ha⟩
    · obtain ⟨x, hx1, hx2⟩ := ih e' hx
      exact ⟨x, List.mem_cons_of_mem _ hx1, hx2⟩

/-- **the outcome depends on the inputs only through their roles**: if an assembly succeeds, so does the
assembly of any inputs playing the same roles, with literally the same product sequence and the same unused
modules -/
theorem assemble_sameRole {v v' : Ent} {mods mods' : List Ent} {pid pname : Nat} {p : Product} {after : List Rec}
    (h : assemble v mods pid pname = (.ok p, after)) (hv : SameRole v v') (hm : List.Forall₂ SameRole mods mods') :
    ∃ p', (assemble v' mods' pid pname).1 = .ok p' ∧ p'.rcd.seq = p.rcd.seq ∧ p'.unused = p.unused := by
  obtain ⟨gv, gs, map, chain, rest, h1, h2, h3, h4, h5, h6, h7, h8, _, _, _, _, _, h9, h10, h11, h12⟩ := assemble_ok h
  have h1' : v'.gmod = .ok gv := by rw [hv.gmod]; exact h1
  have h3' : evalPrefix mods' = (gs, none) := by rw [evalPrefix_sameRole hm]; exact h3
  have hd' : ∀ e ∈ mods', (derefRec e.rcd).isSome := by
    intro e' he'
    obtain ⟨e, he, hr⟩ := mem_sameRole hm e' he'
    rw [hr.deref]; exact h11 e he
  have hch' : ∀ g ∈ chain, ∃ e m, mods'.find? (fun e => e.oid = g.oid) = some e ∧ e.faulty = false ∧
      e.spec.matchSeq e.rcd.seq = .ok m := by
    intro g hg
    obtain ⟨e, m, hf, hfa, hmm⟩ := h9 g hg
    obtain ⟨e', hf', hr⟩ := (find_sameRole hm g.oid).1 e hf
    obtain ⟨ge, hge⟩ := gmod_of_match hmm
    obtain ⟨m', hm'⟩ := gmod_match' (e := e') (by rw [hr.gmod]; exact hge)
    exact ⟨e', m', hf', by rw [hr.faulty]; exact hfa, hm'⟩
  obtain ⟨p', hp'⟩ := assemble_succeeds pid pname h1' h2 h3' h4 h5 h6 hd' (by rw [hv.deref]; exact h12) hch'
    (by rw [hv.faulty]; exact h10)
  obtain ⟨gv2, gs2, map2, chain2, rest2, k1, _, k3, k4, _, k6, k7, k8, _⟩ :=
    assemble_ok (show assemble v' mods' pid pname = (.ok p', (assemble v' mods' pid pname).2) from Prod.ext hp' rfl)
  have e1 : gv2 = gv := by rw [h1'] at k1; cases k1; rfl
  have e2 : gs2 = gs := by rw [h3'] at k3; cases k3; rfl
  subst e1 e2
  have e3 : map2 = map := by rw [h4] at k4; cases k4; rfl
  subst e3
  rw [h6] at k6
  simp only [Prod.mk.injEq] at k6
  obtain ⟨e4, e5, _⟩ := k6
  subst e4 e5
  refine ⟨p', hp', ?_, by rw [k8, h8]⟩
  rw [k7, h7, hv.frag]
  congr 2
  apply List.map_congr_left
  intro g _
  exact fragOfOid_sameRole hm g.oid

end Moclo

namespace Moclo

/-- outcomes that agree: the same error, or products with the same sequence and the same unused modules -/
def OutcomeSame : Except Err Product → Except Err Product → Prop
  | .error e, .error e' => e = e'
  | .ok p, .ok p' => p'.rcd.seq = p.rcd.seq ∧ p'.unused = p.unused
  | _, _ => False

/-- what two extractions have in common -/
def TargetSame : Except Err Rec → Except Err Rec → Prop
  | .error e, .error e' => e = e'
  | .ok t, .ok t' => t'.seq = t.seq
  | _, _ => False

/-- dereferenced inputs playing the same role -/
structure DSame (d d' : Ent) : Prop where
  oid : d'.oid = d.oid
  faulty : d'.faulty = d.faulty
  target : TargetSame (d.spec.target d.rcd) (d'.spec.target d'.rcd)

theorem gmod_error_iff {e : Ent} {x : Err} : e.gmod = .error x ↔ e.spec.matchSeq e.rcd.seq = .error x := by
  unfold Ent.gmod
  cases hm : e.spec.matchSeq e.rcd.seq with
  | error y => simp [bind, Except.bind]
  | ok m => simp [bind, Except.bind, pure, Except.pure]

theorem dSame_of_sameRole {e e' d d' : Ent} (h : SameRole e e') (hd : DerefOf e d) (hd' : DerefOf e' d') :
    DSame d d' := by
  obtain ⟨o1, s1, f1, r1⟩ := hd
  obtain ⟨o2, s2, f2, r2⟩ := hd'
  have q1 := (derefRec_fields r1).1
  have q2 := (derefRec_fields r2).1
  refine ⟨by rw [o2, o1, h.oid], by rw [f2, f1, h.faulty], ?_⟩
  unfold ClassSpec.target
  rw [s1, s2, q1, q2]
  cases hm : e.spec.matchSeq e.rcd.seq with
  | error x =>
    have : e'.spec.matchSeq e'.rcd.seq = .error x := by
      rw [← gmod_error_iff, h.gmod, gmod_error_iff]; exact hm
    rw [this]; exact rfl
  | ok m =>
    cases hm' : e'.spec.matchSeq e'.rcd.seq with
    | error x =>
      have : e.spec.matchSeq e.rcd.seq = .error x := by
        rw [← gmod_error_iff, ← h.gmod, gmod_error_iff]; exact hm'
      rw [this] at hm; cases hm
    | ok m' =>
      show (e'.spec.targetOf d'.rcd m').seq = (e.spec.targetOf d.rcd m).seq
      rw [targetOf_seq, targetOf_seq, q1, q2]
      have f := h.frag
      unfold Ent.fragment fragmentOf at f
      rw [hm, hm'] at f
      exact f

theorem find_dSame {ds ds' : List Ent} (h : List.Forall₂ DSame ds ds') (k : Nat) :
    (∀ d, ds.find? (fun e => e.oid = k) = some d → ∃ d', ds'.find? (fun e => e.oid = k) = some d' ∧ DSame d d') ∧
    (ds.find? (fun e => e.oid = k) = none → ds'.find? (fun e => e.oid = k) = none) := by
  induction h with
  | nil => exact ⟨by simp, by simp⟩
  | @cons a a' as as' ha _ ih =>
    simp only [List.find?_cons, ha.oid]
    by_cases hk : a.oid = k
    · simp only [hk, decide_true, Option.some.injEq]
      exact ⟨fun d hd => ⟨a', rfl, hd ▸ ha⟩, by simp⟩
    · simp only [hk, decide_false]
      exact ih

theorem extractChain_dSame {ds ds' : List Ent} (h : List.Forall₂ DSame ds ds') :
    ∀ (chain : List (GMod Word)) (acc acc' : Rec), acc'.seq = acc.seq →
      TargetSame (extractChain ds chain acc) (extractChain ds' chain acc') := by
  intro chain
  induction chain with
  | nil => intro acc acc' hs; exact hs
  | cons g gs ih =>
    intro acc acc' hs
    simp only [extractChain]
    obtain ⟨h1, h2⟩ := find_dSame h g.oid
    cases hf : ds.find? (fun e => e.oid = g.oid) with
    | none => rw [h2 hf]; exact rfl
    | some d =>
      obtain ⟨d', hf', hr⟩ := h1 d hf
      rw [hf']
      simp only []
      rw [hr.faulty]
      by_cases hfa : d.faulty = true
      · simp only [hfa, if_true]; exact rfl
      · simp only [hfa, Bool.false_eq_true, if_false]
        have ht := hr.target
        cases h1' : d.spec.target d.rcd with
        | error x =>
          cases h2' : d'.spec.target d'.rcd with
          | error y => rw [h1', h2'] at ht; simp only []; exact ht
          | ok t' => rw [h1', h2'] at ht; exact ht.elim
        | ok t =>
          cases h2' : d'.spec.target d'.rcd with
          | error y => rw [h1', h2'] at ht; exact ht.elim
          | ok t' =>
            rw [h1', h2'] at ht
            simp only []
            exact ih _ _ (by simp only [Rec.append_seq]; rw [hs]; congr 1)

end Moclo

namespace Moclo

theorem assembleCore_dSame {v v' : Ent} {mods mods' : List Ent} {pid pname : Nat} {dv dv' : Ent}
    {dms dms' : List Ent} (map : List (GMod Word)) (gv : GMod Word)
    (hdv : DSame dv dv') (hd : List.Forall₂ DSame dms dms') :
    OutcomeSame (assembleCore v mods pid pname dv dms map gv) (assembleCore v' mods' pid pname dv' dms' map gv) := by
  unfold assembleCore
  generalize gWalk gv.start (map.length + 1) gv.stop map = w
  obtain ⟨chain, rest, stall⟩ := w
  simp only []
  have hx := extractChain_dSame hd chain ⟨0, [], [], []⟩ ⟨0, [], [], []⟩ rfl
  cases h1 : extractChain dms chain ⟨0, [], [], []⟩ with
  | error x =>
    cases h2 : extractChain dms' chain ⟨0, [], [], []⟩ with
    | error y => rw [h1, h2] at hx; exact hx
    | ok a' => rw [h1, h2] at hx; exact hx.elim
  | ok acc =>
    cases h2 : extractChain dms' chain ⟨0, [], [], []⟩ with
    | error y => rw [h1, h2] at hx; exact hx.elim
    | ok acc' =>
      rw [h1, h2] at hx
      simp only []
      cases stall with
      | some o => exact rfl
      | none =>
        simp only []
        rw [hdv.faulty]
        by_cases hfa : dv.faulty = true
        · simp only [hfa, if_true]; exact rfl
        · simp only [hfa, Bool.false_eq_true, if_false]
          have ht := hdv.target
          cases t1 : dv.spec.target dv.rcd with
          | error x =>
            cases t2 : dv'.spec.target dv'.rcd with
            | error y => rw [t1, t2] at ht; exact ht
            | ok t' => rw [t1, t2] at ht; exact ht.elim
          | ok t =>
            cases t2 : dv'.spec.target dv'.rcd with
            | error y => rw [t1, t2] at ht; exact ht.elim
            | ok t' =>
              rw [t1, t2] at ht
              simp only [OutcomeSame, rerefRec_seq, Rec.append_seq]
              exact ⟨by rw [hx, ht], trivial⟩

theorem mapM_deref_sameRole {mods mods' : List Ent} (h : List.Forall₂ SameRole mods mods') :
    (∃ dms dms', mods.mapM (fun e => (derefRec e.rcd).map (fun r => { e with rcd := r })) = some dms ∧
        mods'.mapM (fun e => (derefRec e.rcd).map (fun r => { e with rcd := r })) = some dms' ∧
        List.Forall₂ DSame dms dms') ∨
    (mods.mapM (fun e => (derefRec e.rcd).map (fun r => { e with rcd := r })) = none ∧
     mods'.mapM (fun e => (derefRec e.rcd).map (fun r => { e with rcd := r })) = none) := by
  induction h with
  | nil => exact Or.inl ⟨[], [], rfl, rfl, List.Forall₂.nil⟩
  | @cons e e' es es' he _ ih =>
    simp only [List.mapM_cons]
    cases h1 : derefRec e.rcd with
    | none =>
      have : derefRec e'.rcd = none := by
        have := he.deref; rw [h1] at this
        cases h2 : derefRec e'.rcd with
        | none => rfl
        | some _ => rw [h2] at this; cases this
      right; simp [h1, this]
    | some r =>
      have hs : (derefRec e'.rcd).isSome = true := by rw [he.deref, h1]; rfl
      obtain ⟨r', h2⟩ := Option.isSome_iff_exists.mp hs
      rcases ih with ⟨dms, dms', a, b, c⟩ | ⟨a, b⟩
      · left
        refine ⟨{ e with rcd := r } :: dms, { e' with rcd := r' } :: dms', by simp [h1, a], by simp [h2, b], ?_⟩
        exact List.Forall₂.cons (dSame_of_sameRole he ⟨rfl, rfl, rfl, h1⟩ ⟨rfl, rfl, rfl, h2⟩) c
      · right; simp [h1, h2, a, b]

/-- **the whole outcome depends on the inputs only through their roles**: the same error, or products with
the same sequence and the same unused modules -/
theorem assemble_sameRole_outcome {v v' : Ent} {mods mods' : List Ent} (pid pname : Nat)
    (hv : SameRole v v') (hm : List.Forall₂ SameRole mods mods') :
    OutcomeSame (assemble v mods pid pname).1 (assemble v' mods' pid pname).1 := by
  unfold assemble
  simp only []
  rw [hv.gmod, evalPrefix_sameRole hm]
  cases hg : v.gmod with
  | error x => exact rfl
  | ok gv =>
    simp only []
    by_cases hne : gv.start = gv.stop
    · simp only [hne, if_true]; exact rfl
    · simp only [hne, if_false]
      generalize evalPrefix mods = ep
      obtain ⟨gs, err⟩ := ep
      simp only []
      cases hb : gBuild gs [] with
      | error x => exact rfl
      | ok map =>
        simp only []
        cases err with
        | some x => exact rfl
        | none =>
          simp only []
          cases hc : gRcClash rc map with
          | true => simp only [if_true]; exact rfl
          | false =>
            simp only [Bool.false_eq_true, if_false]
            rcases mapM_deref_sameRole hm with ⟨dms, dms', a, b, c⟩ | ⟨a, b⟩
            · rw [a, b]
              cases h1 : derefRec v.rcd with
              | none =>
                have : derefRec v'.rcd = none := by
                  have := hv.deref; rw [h1] at this
                  cases h2 : derefRec v'.rcd with
                  | none => rfl
                  | some _ => rw [h2] at this; cases this
                simp only [this, Option.map_none]; exact rfl
              | some r =>
                have hs : (derefRec v'.rcd).isSome = true := by rw [hv.deref, h1]; rfl
                obtain ⟨r', h2⟩ := Option.isSome_iff_exists.mp hs
                simp only [h2, Option.map_some]
                exact assembleCore_dSame map gv (dSame_of_sameRole hv ⟨rfl, rfl, rfl, h1⟩ ⟨rfl, rfl, rfl, h2⟩) c
            · rw [a, b]; exact rfl

end Moclo
