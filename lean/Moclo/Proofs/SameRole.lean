import Moclo.Proofs.Assembly
/-! Inputs that play the same role: same position in the overhang graph, same retained fragment.  The outcome
of an assembly depends on its inputs only through these. -/
namespace Moclo

/-- `e'` plays the role of `e`: same object position, same overhang keys (or the same rejection), same
fault flag, citations well formed alike, same retained fragment -/
structure SameRole (e e' : Ent) : Prop where
  oid : e'.oid = e.oid
  gmod : e'.gmod = e.gmod
  faulty : e'.faulty = e.faulty
  deref : (derefRec e'.rcd).isSome = (derefRec e.rcd).isSome
  frag : e'.fragment = e.fragment

theorem SameRole.refl (e : Ent) : SameRole e e := ⟨rfl, rfl, rfl, rfl, rfl⟩

theorem SameRole.symm {e e' : Ent} (h : SameRole e e') : SameRole e' e :=
  ⟨h.oid.symm, h.gmod.symm, h.faulty.symm, h.deref.symm, h.frag.symm⟩

theorem evalPrefix_sameRole {ms ms' : List Ent} (h : List.Forall₂ SameRole ms ms') :
    evalPrefix ms' = evalPrefix ms := by
  induction h with
  | nil => rfl
  | cons he _ ih => simp only [evalPrefix, he.gmod, ih]

theorem find_sameRole {ms ms' : List Ent} (h : List.Forall₂ SameRole ms ms') (k : Nat) :
    (∀ e, ms.find? (fun e => e.oid = k) = some e → ∃ e', ms'.find? (fun e => e.oid = k) = some e' ∧ SameRole e e') ∧
    (ms.find? (fun e => e.oid = k) = none → ms'.find? (fun e => e.oid = k) = none) := by
  induction h with
  | nil => exact ⟨by simp, by simp⟩
  | @cons a a' as as' ha _ ih =>
    simp only [List.find?_cons, ha.oid]
    by_cases hk : a.oid = k
    · simp only [hk, decide_true, Option.some.injEq]
      exact ⟨fun e he => ⟨a', rfl, he ▸ ha⟩, by simp⟩
    · simp only [hk, decide_false]
      exact ih

theorem gmod_match' {e : Ent} {g : GMod Word} (h : e.gmod = .ok g) : ∃ m, e.spec.matchSeq e.rcd.seq = .ok m := by
  unfold Ent.gmod at h
  cases hm : e.spec.matchSeq e.rcd.seq with
  | error _ => rw [hm] at h; cases h
  | ok m => exact ⟨m, rfl⟩

theorem gmod_of_match {e : Ent} {m : Match} (h : e.spec.matchSeq e.rcd.seq = .ok m) : ∃ g, e.gmod = .ok g := by
  unfold Ent.gmod; rw [h]; exact ⟨_, rfl⟩

theorem fragOfOid_sameRole {ms ms' : List Ent} (h : List.Forall₂ SameRole ms ms') (k : Nat) :
    fragOfOid ms' k = fragOfOid ms k := by
  unfold fragOfOid
  obtain ⟨h1, h2⟩ := find_sameRole h k
  cases hf : ms.find? (fun e => e.oid = k) with
  | none => rw [h2 hf]
  | some e => obtain ⟨e', he', hr⟩ := h1 e hf; rw [he']; exact hr.frag

theorem mem_sameRole {ms ms' : List Ent} (h : List.Forall₂ SameRole ms ms') :
    ∀ e' ∈ ms', ∃ e ∈ ms, SameRole e e' := by
  induction h with
  | nil => intro e' he'; simp at he'
  | @cons a a' as as' ha _ ih =>
    intro e' he'
    rcases List.mem_cons.mp he' with rfl | hx
    · exact ⟨a, by simp, ha⟩
    · obtain ⟨x, hx1, hx2⟩ := ih e' hx
      exact ⟨x, List.mem_cons_of_mem _ hx1, hx2⟩

/-- **the outcome depends on the inputs only through their roles**: if an assembly succeeds, so does the
assembly of any inputs playing the same roles, with literally the same product sequence and the same unused
modules -/
theorem assemble_sameRole {v v' : Ent} {mods mods' : List Ent} {pid pname : Nat} {p : Product} {after : List Rec}
    (h : assemble v mods pid pname = (.ok p, after)) (hv : SameRole v v') (hm : List.Forall₂ SameRole mods mods') :
    ∃ p', (assemble v' mods' pid pname).1 = .ok p' ∧ p'.rcd.seq = p.rcd.seq ∧ p'.unused = p.unused := by
  obtain ⟨gv, gs, map, chain, rest, h1, h2, h3, h4, h5, h6, h7, h8, _, _, _, _, _, h9, h10, h11, h12⟩ := assemble_ok h
  have h1' : v'.gmod = .ok gv := by rw [hv.gmod]; exact h1
  have h3' : evalPrefix mods' = (gs, none) := by rw [evalPrefix_sameRole hm]; exact h3
  have hd' : ∀ e ∈ mods', (derefRec e.rcd).isSome := by
    intro e' he'
    obtain ⟨e, he, hr⟩ := mem_sameRole hm e' he'
    rw [hr.deref]; exact h11 e he
  have hch' : ∀ g ∈ chain, ∃ e m, mods'.find? (fun e => e.oid = g.oid) = some e ∧ e.faulty = false ∧
      e.spec.matchSeq e.rcd.seq = .ok m := by
    intro g hg
    obtain ⟨e, m, hf, hfa, hmm⟩ := h9 g hg
    obtain ⟨e', hf', hr⟩ := (find_sameRole hm g.oid).1 e hf
    obtain ⟨ge, hge⟩ := gmod_of_match hmm
    obtain ⟨m', hm'⟩ := gmod_match' (e := e') (by rw [hr.gmod]; exact hge)
    exact ⟨e', m', hf', by rw [hr.faulty]; exact hfa, hm'⟩
  obtain ⟨p', hp'⟩ := assemble_succeeds pid pname h1' h2 h3' h4 h5 h6 hd' (by rw [hv.deref]; exact h12) hch'
    (by rw [hv.faulty]; exact h10)
  obtain ⟨gv2, gs2, map2, chain2, rest2, k1, _, k3, k4, _, k6, k7, k8, _⟩ :=
    assemble_ok (show assemble v' mods' pid pname = (.ok p', (assemble v' mods' pid pname).2) from Prod.ext hp' rfl)
  have e1 : gv2 = gv := by rw [h1'] at k1; cases k1; rfl
  have e2 : gs2 = gs := by rw [h3'] at k3; cases k3; rfl
  subst e1 e2
  have e3 : map2 = map := by rw [h4] at k4; cases k4; rfl
  subst e3
  rw [h6] at k6
  simp only [Prod.mk.injEq] at k6
  obtain ⟨e4, e5, _⟩ := k6
  subst e4 e5
  refine ⟨p', hp', ?_, by rw [k8, h8]⟩
  rw [k7, h7, hv.frag]
  congr 2
  apply List.map_congr_left
  intro g _
  exact fragOfOid_sameRole hm g.oid

end Moclo
