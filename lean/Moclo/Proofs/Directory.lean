import Moclo.Model.Directory
/-!
# Directory registries: iteration and lookup agree

Lemmas about `Dir.splitExt`, `Dir.glob`, `Dir.key` and the coherence theorems used by `Props/C20.lean`.
-/
namespace Moclo.Dir

theorem rsplitDot_spec : ∀ (n p e : Name), rsplitDot n = some (p, e) → n = p ++ dotC :: e ∧ dotC ∉ e
  | [], p, e, h => by simp [rsplitDot] at h
  | c :: cs, p, e, h => by
    unfold rsplitDot at h
    cases hr : rsplitDot cs with
    | some pe =>
      obtain ⟨p', e'⟩ := pe
      rw [hr] at h
      simp only [Option.some.injEq, Prod.mk.injEq] at h
      obtain ⟨rfl, rfl⟩ := h
      obtain ⟨h1, h2⟩ := rsplitDot_spec cs p' e' hr
      exact ⟨by rw [h1]; rfl, h2⟩
    | none =>
      rw [hr] at h
      by_cases hc : c = dotC
      · simp only [hc, if_true, Option.some.injEq, Prod.mk.injEq] at h
        obtain ⟨rfl, rfl⟩ := h
        refine ⟨by simp [hc], ?_⟩
        -- no dot in `cs`, otherwise the recursive call would have split there
        have : ∀ (m : Name), rsplitDot m = none → dotC ∉ m := by
          intro m
          induction m with
          | nil => intro _; simp
          | cons d ds ih =>
            intro hm
            unfold rsplitDot at hm
            cases hd : rsplitDot ds with
            | some q => rw [hd] at hm; simp at hm
            | none =>
              rw [hd] at hm
              by_cases hdd : d = dotC
              · simp [hdd] at hm
              · have := ih hd
                simp only [List.mem_cons, not_or]
                exact ⟨fun h => hdd h.symm, this⟩
        exact this cs hr
      · simp [hc] at h

/-- the extension part of `splitExt` is empty or starts with the dot -/
theorem splitExt_ext (n : Name) : (splitExt n).2 = [] ∨ ∃ e, (splitExt n).2 = dotC :: e := by
  unfold splitExt
  split
  · exact Or.inl rfl
  · split
    · exact Or.inl rfl
    · exact Or.inr ⟨_, rfl⟩

theorem glob_of_suffix (ci : Bool) (k e : Name) : glob ci e (k ++ dotC :: e) = true := by
  unfold glob
  cases ci
  · simp only [Bool.false_eq_true, if_false, beq_iff_eq]
    rw [List.reverse_append, List.take_left' (by simp)]
  · simp only [if_true, beq_iff_eq]
    rw [List.map_append, List.reverse_append, List.take_left' (by simp)]

/-- a key is only ever given to a name without `/` that is spelt `key ++ "." ++ ext` with a listed extension -/
theorem key_spec {exts : List Name} (hne : [] ∉ exts) {n k : Name} (h : key exts n = some k) :
    slashC ∉ n ∧ ∃ e ∈ exts, n = k ++ dotC :: e := by
  unfold key at h
  split at h
  · cases h
  · rename_i hs
    split at h
    · rename_i hk
      simp only [Option.some.injEq] at h
      subst h
      refine ⟨hs, ?_⟩
      rcases splitExt_ext n with h0 | ⟨e, he⟩
      · rw [h0] at hk
        exact absurd hk.1 (by simpa using hne)
      · refine ⟨e, by simpa [he] using hk.1, ?_⟩
        rw [← he]
        exact hk.2.symm
    · cases h

theorem mem_listing {ci : Bool} {exts : List Name} {dir : List Entry} {f : Entry} :
    f ∈ listing ci exts dir ↔ f ∈ dir ∧ f.isFile = true ∧ ∃ e ∈ exts, glob ci e f.name = true := by
  simp [listing, List.mem_filter, List.any_eq_true]

theorem mem_keys {ci : Bool} {exts : List Name} {dir : List Entry} {k : Name} :
    k ∈ keys ci exts dir ↔ ∃ f ∈ listing ci exts dir, key exts f.name = some k := by
  simp [keys, List.mem_filterMap]

/-- what the filesystem's wildcard matching lets through beyond the exact extension never gets a key, and
every file that gets a key is matched: the keys do not depend on the case sensitivity of the listing -/
theorem mem_keys_iff {ci : Bool} {exts : List Name} (hne : [] ∉ exts) {dir : List Entry} {k : Name} :
    k ∈ keys ci exts dir ↔ ∃ f ∈ dir, f.isFile = true ∧ key exts f.name = some k := by
  rw [mem_keys]
  constructor
  · rintro ⟨f, hf, hk⟩
    exact ⟨f, (mem_listing.mp hf).1, (mem_listing.mp hf).2.1, hk⟩
  · rintro ⟨f, hf, hfile, hk⟩
    obtain ⟨_, e, he, hn⟩ := key_spec hne hk
    exact ⟨f, mem_listing.mpr ⟨hf, hfile, e, he, by rw [hn]; exact glob_of_suffix ci k e⟩, hk⟩

theorem isFile_iff {dir : List Entry} {n : Name} :
    isFile dir n = true ↔ ∃ f ∈ dir, f.isFile = true ∧ f.name = n := by
  simp [isFile, List.any_eq_true]

theorem lookup_spec {exts : List Name} {dir : List Entry} {k n : Name} (h : lookup exts dir k = some n) :
    (∃ e ∈ exts, n = k ++ dotC :: e) ∧ key exts n = some k ∧ isFile dir n = true := by
  unfold lookup at h
  have hm := List.mem_of_find?_eq_some h
  have hp := List.find?_some h
  simp only [Bool.and_eq_true, beq_iff_eq] at hp
  simp only [List.mem_map] at hm
  obtain ⟨e, he, rfl⟩ := hm
  exact ⟨⟨e, he, rfl⟩, hp.1, hp.2⟩

end Moclo.Dir

namespace Moclo.Dir

theorem rsplitDot_none_of_not_mem : ∀ (e : Name), dotC ∉ e → rsplitDot e = none
  | [], _ => rfl
  | c :: cs, h => by
    have hc : c ≠ dotC := fun hh => h (by simp [hh])
    have hcs : dotC ∉ cs := fun hh => h (List.mem_cons_of_mem _ hh)
    unfold rsplitDot
    rw [rsplitDot_none_of_not_mem cs hcs]
    simp [hc]

theorem rsplitDot_append : ∀ (k e : Name), dotC ∉ e → rsplitDot (k ++ dotC :: e) = some (k, e)
  | [], e, h => by
    show rsplitDot (dotC :: e) = some ([], e)
    unfold rsplitDot
    rw [rsplitDot_none_of_not_mem e h]
    simp
  | c :: k, e, h => by
    show rsplitDot (c :: (k ++ dotC :: e)) = some (c :: k, e)
    unfold rsplitDot
    rw [rsplitDot_append k e h]

/-- a name spelt `stem.ext` with a listed, dot-free extension, a non-empty stem that is not the single dot,
and no `/`, is a plasmid file, and its key is the stem -/
theorem key_of_plasmid_name {exts : List Name} {k e : Name} (he : e ∈ exts) (hd : dotC ∉ e) (hk : k ≠ [])
    (hk1 : k ≠ [dotC]) (hs : slashC ∉ k ++ dotC :: e) : key exts (k ++ dotC :: e) = some k := by
  have hsplit : splitExt (k ++ dotC :: e) = (k, dotC :: e) := by
    unfold splitExt
    have hnot : ¬ ((k ++ dotC :: e).head? = some dotC ∧ (k ++ dotC :: e).count dotC = 1) := by
      rintro ⟨hh, hc⟩
      cases k with
      | nil => exact hk rfl
      | cons c k' =>
        simp only [List.cons_append, List.head?_cons, Option.some.injEq] at hh
        subst hh
        simp only [List.cons_append, List.count_cons_self, List.count_append] at hc
        omega
    rw [if_neg hnot, rsplitDot_append k e hd]
    simp [hk1]
  unfold key
  rw [if_neg hs, hsplit]
  simp [he]

end Moclo.Dir
