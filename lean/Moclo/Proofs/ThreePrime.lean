import Moclo.Model.ThreePrime
import Moclo.Props.C02
/-!
# 3'-overhang cutters: the screen is the same function, the fragments are read off the same view
-/
namespace Moclo

/-- the two cut positions of a site are the same pair of numbers whichever strand keeps the overhang, and the
validity rule is symmetric in them: a 3' cutter and a 5' cutter with the same `(site, off, k)` have valid
cuts at exactly the same sites -/
theorem cutAt3_eq (g : Geom) (text : Word) (i : Nat) : cutAt3 g text i = cutAt g text i := by
  unfold cutAt3 cutAt
  simp only []
  split
  · rw [decide_eq_decide]; constructor <;> intro h <;> omega
  · split
    · rw [decide_eq_decide]; constructor <;> intro h <;> omega
    · rfl

theorem validCuts3_eq (g : Geom) (text : Word) : validCuts3 g text = validCuts g text := by
  unfold validCuts3 validCuts
  congr 2
  funext i
  exact cutAt3_eq g text i

/-- acceptance does not depend on the overhang side -/
theorem matchSeq3_eq (c : ClassSpec) (w : Word) : c.matchSeq3 w = c.matchSeq w := by
  unfold ClassSpec.matchSeq3 ClassSpec.matchSeq
  cases search c.pat w true with
  | none => rfl
  | some m => simp only [validCuts3_eq]

/-- the retained fragment on the 3' branch, as a word -/
def targetWord3 (c : ClassSpec) (w : Word) (m : Match) : Word :=
  match c.kind with
  | .module => pySlice (rotlI w (m.span 2).1) 0 ((m.span 3).2 - (m.span 2).1)
  | .vector => pySlice (rotlI w (m.span 2).1) ((m.span 3).2 - (m.span 2).1) w.length

theorem targetOf3_seq (c : ClassSpec) (r : Rec) (m : Match) : (c.targetOf3 r m).seq = targetWord3 c r.seq m := by
  unfold ClassSpec.targetOf3 targetWord3
  cases c.kind <;> simp [Rec.rotl_seq]

/-- the 3' fragment read off the view -/
def vTarget3 (kind : Kind) (text : Word) (rs : List Nat) : Word :=
  match kind with
  | .module => slice text (rspan rs 2).1 (rspan rs 3).2
  | .vector => text.drop (rspan rs 3).2 ++ text.take (rspan rs 2).1

theorem targetWord3_view {c : ClassSpec} {w : Word} {i : Nat} {rel : List Nat} (hi : i < w.length)
    (hrel : relMatch c.pat (window w i) = some rel) (h2 : HasGroup rel.reverse 2) (h3 : HasGroup rel.reverse 3) :
    targetWord3 c w ⟨i :: rel.reverse.map (· + i)⟩ = vTarget3 c.kind (window w i) rel.reverse := by
  obtain ⟨_, hsorted, _⟩ := relMatch_marks hrel
  have hs := pairwise_reverse_le hsorted
  obtain ⟨a1, a2⟩ := rspan_ok hrel 2 h2
  obtain ⟨b1, b2⟩ := rspan_ok hrel 3 h3
  have hwl := window_length w i (Nat.le_of_lt hi)
  rw [hwl] at a2 b2
  have hord : (rspan rel.reverse 2).1 ≤ (rspan rel.reverse 3).2 := by
    rcases h3 with ⟨h, _⟩ | ⟨_, hlt⟩
    · omega
    · unfold rspan; simp only [show (2:Nat) ≠ 0 by omega, show (3:Nat) ≠ 0 by omega, if_false]
      exact getD_le_of_sorted hs (by omega) hlt
  unfold targetWord3 vTarget3
  rw [span_of_marks _ _ _ h2, span_of_marks _ _ _ h3]
  simp only []
  set a := (rspan rel.reverse 2).1 with ha
  set b := (rspan rel.reverse 3).2 with hb
  have hrot : rotlI w ((a + i : Nat) : Int) = (window w i).rotate a := by
    rw [rotlI_natCast_eq_rotate, window_eq_rotate w i (Nat.le_of_lt hi), List.rotate_rotate, Nat.add_comm]
  have e : b + i - (a + i) = b - a := by omega
  have hrot2 : (window w i).rotate a = (window w i).drop a ++ (window w i).take a :=
    List.rotate_eq_drop_append_take (by rw [hwl]; omega)
  cases c.kind
  · simp only [pySlice, slice, List.drop_zero, Nat.sub_zero]
    rw [show ((a + i : Nat) : Int) = _ from rfl] at hrot
    rw [hrot, hrot2, e, List.take_append_of_le_length (by simp [List.length_drop, hwl]; omega)]
  · simp only [pySlice]
    rw [hrot, hrot2, e, List.drop_append_of_le_length (by simp [List.length_drop, hwl]; omega), List.drop_drop]
    have : a + (b - a) = b := by omega
    rw [this, List.take_of_length_le]
    simp [List.length_drop, List.length_take, hwl]; omega

/-- everything a class over a 3'-overhang cutter reports: overhangs, target, placeholder (group 2 followed by
the upstream overhang; meaningful for vectors) -/
def report3 (c : ClassSpec) (w : Word) : Except Err (Word × Word × Word × Word) :=
  (c.matchSeq3 w).map (fun m => (m.group w c.upGroup, m.group w c.downGroup, targetWord3 c w m,
    m.group w 2 ++ m.group w c.upGroup))

theorem report3_of_view {c : ClassSpec} {w : Word} {i : Nat} {rel : List Nat} (h3 : C02.ThreeGroups c.pat)
    (hi : i < w.length) (hrel : relMatch c.pat (window w i) = some rel)
    (hs : search c.pat w true = some ⟨i :: rel.reverse.map (· + i)⟩) :
    report3 c w =
      if validCuts c.geom (vgroup (window w i) rel.reverse 0) > 2 then .error .illegal
      else .ok (vgroup (window w i) rel.reverse c.upGroup, vgroup (window w i) rel.reverse c.downGroup,
                vTarget3 c.kind (window w i) rel.reverse,
                vgroup (window w i) rel.reverse 2 ++ vgroup (window w i) rel.reverse c.upGroup) := by
  have hg := fun g hg => C02.hasGroup_of_three h3 hrel g hg
  unfold report3
  rw [matchSeq3_eq]
  unfold ClassSpec.matchSeq
  rw [hs]
  simp only []
  rw [match_group_view hi hrel 0 (hg 0 (by omega))]
  split
  · rfl
  · simp only [Except.map]
    have hu : c.upGroup ≤ 3 := by unfold ClassSpec.upGroup; cases c.kind <;> simp
    have hd : c.downGroup ≤ 3 := by unfold ClassSpec.downGroup; cases c.kind <;> simp
    rw [match_group_view hi hrel 2 (hg 2 (by omega)),
      targetWord3_view hi hrel (hg 2 (by omega)) (hg 3 (by omega)),
      match_group_view hi hrel _ (hg _ hu), match_group_view hi hrel _ (hg _ hd)]

end Moclo
