import Moclo.Proofs.Layout
/-! Features with their citation entries erased: every step of the pipeline commutes with the erasure, and
dereferencing / re-referencing are invisible through it. -/
namespace Moclo

/-- a feature without its citation entries -/
def Feature.erase (f : Feature) : Feature := { f with cites := [] }

def Rec.erase (r : Rec) : Rec := { r with feats := r.feats.map Feature.erase, refs := [] }

@[simp] theorem Feature.erase_lo (f : Feature) : f.erase.lo = f.lo := rfl
@[simp] theorem Feature.erase_hi (f : Feature) : f.erase.hi = f.hi := rfl
@[simp] theorem Feature.erase_shift (f : Feature) (d : Int) : (f.shift d).erase = f.erase.shift d := rfl

theorem Feature.erase_rotr (n k : Nat) (f : Feature) : (f.rotr n k).erase = f.erase.rotr n k := by
  unfold Feature.rotr
  show (if f.ftype = 0 ∧ f.parts.length = 1 ∧ f.lo = 0 ∧ f.hi = n then f else _).erase =
    if f.ftype = 0 ∧ f.parts.length = 1 ∧ f.lo = 0 ∧ f.hi = n then f.erase else _
  split <;> rfl

@[simp] theorem Rec.erase_seq (r : Rec) : r.erase.seq = r.seq := rfl
@[simp] theorem Rec.erase_rid (r : Rec) : r.erase.rid = r.rid := rfl

theorem Rec.erase_rotr (r : Rec) (k : Int) : (r.rotr k).erase = r.erase.rotr k := by
  obtain ⟨rid, seq, feats, refs⟩ := r
  unfold Rec.rotr
  show (if (k.emod (seq.length : Int)).toNat = 0 then _ else _ : Rec).erase =
    if (k.emod (seq.length : Int)).toNat = 0 then _ else _
  by_cases hk : (k.emod (seq.length : Int)).toNat = 0
  · rw [if_pos hk, if_pos hk]
  · rw [if_neg hk, if_neg hk]
    simp only [Rec.erase, List.map_map]
    congr 1
    apply List.map_congr_left
    intro f _
    exact Feature.erase_rotr _ _ f

theorem Rec.erase_rotl (r : Rec) (k : Int) : (r.rotl k).erase = r.erase.rotl k := by
  unfold Rec.rotl; rw [Rec.erase_rotr]; rfl

theorem Rec.erase_slice (r : Rec) (a b : Nat) : (r.slice a b).erase = r.erase.slice a b := by
  unfold Rec.slice Rec.erase
  simp only [List.map_map, List.filter_map]
  congr 1

theorem Rec.erase_append (x y : Rec) : (x.append y).erase = x.erase.append y.erase := by
  unfold Rec.append Rec.erase
  simp only [List.map_append, List.map_map]
  congr 1

theorem erase_addSource (rid : Nat) (r : Rec) : (addSource rid r).erase = addSource rid r.erase := by
  unfold addSource Rec.erase
  simp only [List.map_append, List.map_cons, List.map_nil]
  rfl

theorem erase_targetOf (c : ClassSpec) (r : Rec) (m : Match) : (c.targetOf r m).erase = c.targetOf r.erase m := by
  unfold ClassSpec.targetOf
  simp only []
  rw [erase_addSource]
  cases c.kind
  · simp only []; rw [Rec.erase_slice, Rec.erase_rotl]; rfl
  · simp only []; rw [Rec.erase_slice, Rec.erase_rotl]; rfl

theorem derefFeature_erase {refs : List Nat} {f f' : Feature} (h : derefFeature refs f = some f') : f'.erase = f.erase := by
  unfold derefFeature at h
  cases hc : f.cites.mapM (derefCite refs) with
  | none => simp [hc] at h
  | some cs => simp [hc] at h; subst h; rfl

theorem forall2_deref_erase {refs : List Nat} {fs fs' : List Feature}
    (h : List.Forall₂ (fun f f' => derefFeature refs f = some f') fs fs') :
    fs'.map Feature.erase = fs.map Feature.erase := by
  induction h with
  | nil => rfl
  | cons hd _ ih => simp only [List.map_cons, derefFeature_erase hd, ih]

/-- dereferencing is invisible once citations are erased -/
theorem derefRec_erase {r r' : Rec} (h : derefRec r = some r') : r'.erase = r.erase := by
  obtain ⟨h1, h2, h3, h4⟩ := derefRec_fields h
  unfold Rec.erase
  have := forall2_deref_erase h4
  rw [this, h1, h2]

/-- … and so is re-referencing -/
theorem rerefFeatures_erase (refs : List Nat) (fs : List Feature) :
    (rerefFeatures refs fs).2.map Feature.erase = fs.map Feature.erase := by
  induction fs generalizing refs with
  | nil => rfl
  | cons f fs ih =>
    simp only [rerefFeatures, List.map_cons]
    rw [ih]
    rfl

theorem rerefRec_erase_feats (r : Rec) : (rerefRec r).feats.map Feature.erase = r.feats.map Feature.erase := by
  unfold rerefRec
  exact rerefFeatures_erase _ _

theorem foldl_append_erase (ts : List Rec) (acc : Rec) :
    (ts.foldl Rec.append acc).erase = (ts.map Rec.erase).foldl Rec.append acc.erase := by
  induction ts generalizing acc with
  | nil => rfl
  | cons t ts ih => simp only [List.foldl_cons, List.map_cons, ih, Rec.erase_append]

end Moclo
