import Moclo.Model.Entity
import Moclo.Model.Graph
/-!
# Assembly

Mirrors `AssemblyManager` (`__init__`, `assemble`, `_generate_modules_map`, `_generate_assembly`,
`_deref_citations`, `_ref_citations`, `_annotate_assembly`) and `AbstractVector.assemble`.
Overhang keys are compared upper-cased; the citation lists of the inputs are snapshotted before they
are dereferenced and restored on every exit path.
-/
namespace Moclo

/-- A structured record handed to an assembly: Python object identity, class, record, and whether the
harness made its `target_sequence` raise (fault injection for C07). -/
structure Ent where
  oid : Nat
  spec : ClassSpec
  rcd : Rec
  faulty : Bool := false
deriving DecidableEq, Repr, Inhabited

/-! ## citations -/

/-- `_deref_citations` on one qualifier entry: `"[i]"` ↦ `references[i-1]`; an entry that already is a
reference (the same record object supplied twice) is left alone.  (Python's negative index for `"[0]"`
and `IndexError` past the end are outside the properties' scope: `none`.) -/
def derefCite (refs : List Nat) : Cite → Option Cite
  | .idx i => if i = 0 then none else (refs[i-1]?).map Cite.ref
  | .ref r => some (.ref r)

def derefFeature (refs : List Nat) (f : Feature) : Option Feature :=
  (f.cites.mapM (derefCite refs)).map (fun cs => { f with cites := cs })

/-- `_deref_citations(record)` -/
def derefRec (r : Rec) : Option Rec :=
  (r.feats.mapM (derefFeature r.refs)).map (fun fs => { r with feats := fs })

/-- the snapshot taken before dereferencing: every feature's citation list -/
def snapshot (r : Rec) : List (List Cite) := r.feats.map (·.cites)

/-- restoring a snapshot: `feature.qualifiers["citation"][:] = saved` -/
def restore (snap : List (List Cite)) (r : Rec) : Rec :=
  { r with feats := (r.feats.zip snap).map (fun (f, cs) => { f with cites := cs }) }

/-- `_ref_citations` on the product: walk features in order, append unseen references, replace each
entry by its 1-based index in the list. -/
def rerefCites (refs : List Nat) : List Cite → List Nat × List Cite
  | [] => (refs, [])
  | .ref r :: cs =>
    let refs' := if refs.contains r then refs else refs ++ [r]
    let (refs'', cs') := rerefCites refs' cs
    (refs'', .idx (refs'.idxOf r + 1) :: cs')
  | .idx i :: cs =>          -- a string "[i]" is compared with the references like any object
    let (refs'', cs') := rerefCites refs cs
    (refs'', .idx i :: cs')

def rerefFeatures (refs : List Nat) : List Feature → List Nat × List Feature
  | [] => (refs, [])
  | f :: fs =>
    let (refs', cs) := rerefCites refs f.cites
    let (refs'', fs') := rerefFeatures refs' fs
    (refs'', { f with cites := cs } :: fs')

def rerefRec (r : Rec) : Rec :=
  let (refs, fs) := rerefFeatures r.refs r.feats
  { r with refs := refs, feats := fs }

/-! ## evaluation of the inputs -/

/-- overhangs of an entity as the graph sees them (upper-cased keys) -/
def Ent.gmod (e : Ent) : Except Err (GMod Word) := do
  let m ← e.spec.matchSeq e.rcd.seq
  pure { start := upperW (m.group e.rcd.seq e.spec.upGroup),
         stop := upperW (m.group e.rcd.seq e.spec.downGroup), oid := e.oid }

/-- evaluate modules in argument order up to the first invalid one -/
def evalPrefix : List Ent → List (GMod Word) × Option Err
  | [] => ([], none)
  | e :: es =>
    match e.gmod with
    | .error err => ([], some err)
    | .ok g => let (gs, err) := evalPrefix es; (g :: gs, err)

/-- The product of a successful assembly. -/
structure Product where
  rcd : Rec                 -- sequence, features (citations as indices), reference list
  pid : Nat                 -- requested id
  pname : Nat               -- requested name
  commentVector : Nat       -- record id named on the "Vector:" comment line
  commentModules : List Nat -- record ids named on the "Modules:" comment line
  unused : List Nat         -- object ids named by the UnusedModules warning (none if empty)
deriving DecidableEq, Repr, Inhabited

/-- concatenate the targets of the chain, stopping at the first faulty extraction -/
def extractChain (ents : List Ent) : List (GMod Word) → Rec → Except Err Rec
  | [], acc => .ok acc
  | g :: gs, acc =>
    match ents.find? (fun e => e.oid = g.oid) with
    | none => .error .internal
    | some e =>
      if e.faulty then .error .injected
      else match e.spec.target e.rcd with
        | .error err => .error err
        | .ok t => extractChain ents gs (acc.append t)

/-- `AssemblyManager(vector, modules, id, name).assemble()` on dereferenced inputs `dv`, `dms`. -/
def assembleCore (v : Ent) (mods : List Ent) (pid pname : Nat) (dv : Ent) (dms : List Ent)
    (map : List (GMod Word)) (gv : GMod Word) : Except Err Product :=
  let (chain, rest, stall) := gWalk gv.start (map.length + 1) gv.stop map
  match extractChain dms chain { rid := 0, seq := [], feats := [], refs := [] } with
  | .error e => .error e
  | .ok acc =>
    match stall with
    | some o => .error (.missing o)
    | none =>
      if dv.faulty then .error .injected
      else match dv.spec.target dv.rcd with
        | .error e => .error e
        | .ok vt =>
          let prod := rerefRec { (acc.append vt) with rid := pid, refs := [] }
          .ok { rcd := prod, pid := pid, pname := pname, commentVector := v.rcd.rid,
                commentModules := mods.map (·.rcd.rid), unused := rest.map (·.oid) }

/-- The whole call, returning the outcome and the state of the inputs afterwards
(vector first, then the modules in argument order). -/
def assemble (v : Ent) (mods : List Ent) (pid pname : Nat) : Except Err Product × List Rec :=
  let inputs := v.rcd :: mods.map (·.rcd)
  match v.gmod with
  | .error e => (.error e, inputs)
  | .ok gv =>
    if gv.start = gv.stop then (.error .invalid, inputs)
    else
      let (gs, err) := evalPrefix mods
      match gBuild gs [] with
      | .error _ => (.error .duplicate, inputs)
      | .ok map =>
        match err with
        | some e => (.error e, inputs)
        | none =>
          if gRcClash rc map then (.error .duplicate, inputs)
          else
            -- snapshot, dereference (modules first, then the vector), run, restore
            let snaps := inputs.map snapshot
            match mods.mapM (fun e => (derefRec e.rcd).map (fun r => { e with rcd := r })),
                  (derefRec v.rcd).map (fun r => { v with rcd := r }) with
            | some dms, some dv =>
              let out := assembleCore v mods pid pname dv dms map gv
              let after := ((dv.rcd :: dms.map (·.rcd)).zip snaps).map (fun (r, s) => restore s r)
              (out, after)
            | _, _ => (.error .internal, inputs)

end Moclo
