import Moclo.Model.Entity
/-!
# Cutters that leave a 3' overhang

Signature-typed part classes (`AbstractPart.structure`) also work over a Type IIS cutter whose
`elucidate()` is `site N^off _ N^k ^ N`: the derived structure is the same pattern as for a 5' cutter with the
same `(site, off, k)` (re-checked for every such enzyme on the regenerated table `Generated/Enzymes3.lean`),
while `target_sequence()` and `placeholder_sequence()` take the other branch
(`cutter.is_3overhang()`): the retained fragment runs from the start of group 2 to the end of group 3, and
a vector's placeholder is group 2 followed by the upstream overhang.  `Bio.Restriction` places the cuts at
`fst5 = |site| + off + k` and `fst3 = off`, with `crick = watson - k`.
-/
namespace Moclo

/-- `cutAt` for a 3'-overhang cutter -/
def cutAt3 (g : Geom) (text : Word) (i : Nat) : Bool :=
  let len : Int := text.length
  let ok := fun (w : Int) => decide (1 < w ∧ w ≤ len ∧ 1 < w - g.k ∧ w - g.k ≤ len)
  if siteAt g.site text i then ok ((i:Int) + 1 + g.site.length + g.off + g.k)
  else if siteAt (rcNt g.site) text i then ok ((i:Int) + 1 - g.off)
  else false

/-- `len(cutter.catalyse(text)) - 1` for a 3'-overhang cutter -/
def validCuts3 (g : Geom) (text : Word) : Nat :=
  ((List.range text.length).filter (cutAt3 g text)).length

/-- `_match` of a class over a 3'-overhang cutter -/
def ClassSpec.matchSeq3 (c : ClassSpec) (w : Word) : Except Err Match :=
  match search c.pat w true with
  | none => .error .invalid
  | some m => if validCuts3 c.geom (m.group w 0) > 2 then .error .illegal else .ok m

/-- `target_sequence()` on the `is_3overhang()` branch: `start = span(2).start`, `end = span(3).end` -/
def ClassSpec.targetOf3 (c : ClassSpec) (r : Rec) (m : Match) : Rec :=
  let s := (m.span 2).1
  let e := (m.span 3).2
  let rot := r.rotl s
  let cut := match c.kind with
    | .module => rot.slice 0 (e - s)
    | .vector => rot.slice (e - s) r.seq.length
  addSource r.rid cut

def ClassSpec.target3 (c : ClassSpec) (r : Rec) : Except Err Rec :=
  (c.matchSeq3 r.seq).map (c.targetOf3 r)

/-- `placeholder_sequence()` on the `is_3overhang()` branch: group 2 followed by `overhang_start()` -/
def ClassSpec.placeholder3 (c : ClassSpec) (w : Word) : Except Err Word :=
  (c.matchSeq3 w).map (fun m => m.group w 2 ++ m.group w c.upGroup)

end Moclo
