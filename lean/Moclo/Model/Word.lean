/-!
# Circular words

Mirrors `moclo/record.py`: `CircularRecord.__rshift__`, `__lshift__`, `__contains__`,
`__getitem__(slice)` on the sequence, and the one-turn window used by `DNARegex.search`.
Everything is parametric in the letter type.
-/
namespace Moclo
variable {α : Type}

/-- `seq[a:b]` for `0 ≤ a`, `0 ≤ b` (Python slice with non-negative bounds). -/
def pySlice (w : List α) (a b : Nat) : List α := (w.drop a).take (b - a)

/-- `record >> k` for a natural `k` on the sequence: `k %= n; seq[-k:] + seq[:-k]`
(`k % n = 0` returns the record itself).  Python raises `ZeroDivisionError` when `n = 0`; the model is
total and returns the word, the driver reports the error. -/
def rotr (w : List α) (k : Nat) : List α :=
  w.drop (w.length - k % w.length) ++ w.take (w.length - k % w.length)

/-- `record >> k` for any integer `k` (Python `%` is `Int.emod` for a positive modulus). -/
def rotrI (w : List α) (k : Int) : List α := rotr w (k.emod w.length).toNat

/-- `record << k` is `record >> (-k % n)`. -/
def rotlI (w : List α) (k : Int) : List α := rotrI w ((-k).emod w.length)

def rotl (w : List α) (k : Nat) : List α := rotlI w k

/-- The text `DNARegex.search` hands to `re.match` at start `i` of a circular target:
`(w*2)[i : i+n]`. -/
def window (w : List α) (i : Nat) : List α := ((w ++ w).drop i).take w.length

/-- `q in s` for Python strings. -/
def isInfixB [BEq α] (q : List α) : List α → Bool
  | [] => q.isEmpty
  | x :: xs => q.isPrefixOf (x :: xs) || isInfixB q xs

/-- `CircularRecord.__contains__`: `len(q) <= len(self) and q in str(self.seq) * 2`. -/
def ccontains [BEq α] (w q : List α) : Bool :=
  decide (q.length ≤ w.length) && isInfixB q (w ++ w)

/-- `SeqMatch.group` on the sequence: absolute span `[a, b)` in the doubled text back to the record
(three branches of the implementation, with the straddling branch in reading order). -/
def group (w : List α) (a b : Nat) : List α :=
  if b ≥ a ∧ a ≥ w.length then pySlice w (a % w.length) (b % w.length)
  else if b ≥ w.length ∧ w.length > a then w.drop a ++ w.take (b % w.length)
  else pySlice w a b

end Moclo
