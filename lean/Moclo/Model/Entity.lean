import Moclo.Model.Structure
import Moclo.Model.Feature
/-!
# Structured records: validity, overhangs, target, placeholder

Mirrors `StructuredRecord._match / is_valid`, `AbstractModule` and `AbstractVector`
(`overhang_start`, `overhang_end`, `target_sequence`, `placeholder_sequence`, the illegal-site
screen `len(cutter.catalyse(group0)) > 3`) and `add_as_source`, for 5'-overhang cutters.
`Bio.Restriction`'s linear `catalyse` is modelled by its cut-validity rule (see `validCuts`).
-/
namespace Moclo

inductive Err where
  | invalid            -- InvalidSequence
  | illegal            -- IllegalSite (a subclass of InvalidSequence)
  | duplicate          -- DuplicateModules
  | missing (o : Word) -- MissingModule(overhang)
  | injected           -- an exception raised by a faulty fragment extraction (harness)
  | internal           -- anything else (malformed citation index …): never expected
deriving DecidableEq, Repr, Inhabited

/-- A concrete class: kind, compiled structure, cutter geometry. -/
structure ClassSpec where
  kind : Kind
  pat : Pat
  geom : Geom
deriving DecidableEq, Repr, Inhabited

/-- does the (unambiguous) site occur in `text` at offset `i`? (`Bio.Restriction` upper-cases) -/
def siteAt (site : List Nt) (text : Word) (i : Nat) : Bool :=
  let seg := ((text.drop i).take site.length).map (·.nt)
  seg == site

/-- Is there a valid cut for a site starting at 0-based offset `i` of a linear `text`?
`Bio.Restriction`: a forward site at 1-based `L` cuts the watson strand before `L + fst5`, a reverse
site before `L - fst3`; crick = watson + k; the cut is kept iff `1 < watson ≤ len ∧ 1 < crick ≤ len`.
Here `fst5 = |site| + off`, `fst3 = off + k`.  The forward alternative is tried first. -/
def cutAt (g : Geom) (text : Word) (i : Nat) : Bool :=
  let len : Int := text.length
  let ok := fun (w : Int) => decide (1 < w ∧ w ≤ len ∧ 1 < w + g.k ∧ w + g.k ≤ len)
  if siteAt g.site text i then ok ((i:Int) + 1 + g.site.length + g.off)
  else if siteAt (rcNt g.site) text i then ok ((i:Int) + 1 - (g.off + g.k))
  else false

/-- `len(cutter.catalyse(text)) - 1` -/
def validCuts (g : Geom) (text : Word) : Nat :=
  ((List.range text.length).filter (cutAt g text)).length

/-- `_match`: circular search for the class structure, then the illegal-site screen on group 0. -/
def ClassSpec.matchSeq (c : ClassSpec) (w : Word) : Except Err Match :=
  match search c.pat w true with
  | none => .error .invalid
  | some m => if validCuts c.geom (m.group w 0) > 2 then .error .illegal else .ok m

def ClassSpec.isValid (c : ClassSpec) (w : Word) : Bool :=
  match c.matchSeq w with
  | .ok _ => true
  | .error _ => false

def ClassSpec.upGroup (c : ClassSpec) : Nat := match c.kind with | .module => 1 | .vector => 3
def ClassSpec.downGroup (c : ClassSpec) : Nat := match c.kind with | .module => 3 | .vector => 1

/-- `overhang_start()` -/
def ClassSpec.overhangStart (c : ClassSpec) (w : Word) : Except Err Word :=
  (c.matchSeq w).map (fun m => m.group w c.upGroup)
/-- `overhang_end()` -/
def ClassSpec.overhangEnd (c : ClassSpec) (w : Word) : Except Err Word :=
  (c.matchSeq w).map (fun m => m.group w c.downGroup)

/-- `add_as_source(src, dst)` -/
def sourceFeature (rid : Nat) (len : Nat) : Feature :=
  { ftype := 0, qual := .src rid, parts := [{ s := 0, e := len, strand := 0 }], cites := [] }

def addSource (rid : Nat) (dst : Rec) : Rec :=
  { dst with feats := dst.feats ++ [sourceFeature rid dst.seq.length] }

/-- `target_sequence()` given the match: `(record << start)[: end-start]` for a module,
`(record << start)[end-start :]` for a vector, with `start = span(1).start`, `end = span(2).end`. -/
def ClassSpec.targetOf (c : ClassSpec) (r : Rec) (m : Match) : Rec :=
  let s := (m.span 1).1
  let e := (m.span 2).2
  let rot := r.rotl s
  let cut := match c.kind with
    | .module => rot.slice 0 (e - s)
    | .vector => rot.slice (e - s) r.seq.length
  addSource r.rid cut

def ClassSpec.target (c : ClassSpec) (r : Rec) : Except Err Rec :=
  (c.matchSeq r.seq).map (c.targetOf r)

/-- `placeholder_sequence()` of a vector: downstream overhang followed by group 2. -/
def ClassSpec.placeholder (c : ClassSpec) (w : Word) : Except Err Word :=
  (c.matchSeq w).map (fun m => m.group w 1 ++ m.group w 2)

/-- `AbstractPart.characterize(record)`: the first candidate type (direct subclasses in definition order,
then the class itself when concrete) whose `is_valid()` is true; `none` = `RuntimeError` -/
def characterize (cands : List ClassSpec) (w : Word) : Option Nat := cands.findIdx? (fun c => c.isValid w)

end Moclo
