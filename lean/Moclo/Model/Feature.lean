import Moclo.Model.Alphabet
import Moclo.Model.Word
/-!
# Feature locations and annotated circular records

Mirrors `moclo/record.py` (`__rshift__`, `__lshift__`, `__getitem__(slice)`,
`reverse_complement`) together with the Biopython rules they delegate to
(`SimpleLocation._shift/_flip`, `CompoundLocation._flip`, `SeqRecord.__getitem__`'s raw
`start ≤ f.start ∧ f.end ≤ stop` test, `SeqRecord.__add__`).  Coordinates are `Int`: rotation leaves
them past the end, reverse complement can make them negative.
-/
namespace Moclo

/-- One `SimpleLocation`: `[s, e)`, strand `1`, `-1` or `0` (= `None`). -/
structure Part where
  s : Int
  e : Int
  strand : Int
deriving DecidableEq, Repr, Inhabited

/-- A citation qualifier entry: at rest an index `"[i]"` into the record's reference list; while an
assembly runs it is dereferenced to the reference itself. -/
inductive Cite where
  | idx (i : Nat)
  | ref (r : Nat)
deriving DecidableEq, Repr, Inhabited

/-- Qualifiers other than `citation`, as an opaque identity; `src rid` is the qualifier set that
`add_as_source` generates for the plasmid `rid`. -/
inductive Qual where
  | user (q : Nat)
  | src (rid : Nat)
deriving DecidableEq, Repr, Inhabited

/-- A `SeqFeature`.  `ftype = 0` is the type `"source"`. -/
structure Feature where
  ftype : Nat
  qual : Qual
  parts : List Part
  cites : List Cite
deriving DecidableEq, Repr, Inhabited

def Part.shift (k : Int) (p : Part) : Part := { p with s := p.s + k, e := p.e + k }

/-- `__rshift__`: a shifted part is renormalised only when both ends are `≥ n`. -/
def Part.renorm (n : Int) (p : Part) : Part :=
  if p.e ≥ n ∧ p.s ≥ n then
    let r := p.s / n
    { p with s := p.s - r * n, e := p.e - r * n }
  else p

/-- `SimpleLocation._flip(n)` -/
def Part.flip (n : Int) (p : Part) : Part := { s := n - p.e, e := n - p.s, strand := -p.strand }

def minI : List Int → Int
  | [] => 0
  | [x] => x
  | x :: xs => min x (minI xs)
def maxI : List Int → Int
  | [] => 0
  | [x] => x
  | x :: xs => max x (maxI xs)

/-- `location.start` / `location.end` (min / max over the parts of a compound location) -/
def Feature.lo (f : Feature) : Int := minI (f.parts.map (·.s))
def Feature.hi (f : Feature) : Int := maxI (f.parts.map (·.e))

def Feature.shift (k : Int) (f : Feature) : Feature := { f with parts := f.parts.map (Part.shift k) }

/-- One feature under `record >> k` with `0 < k < n`: the whole-length single-part `source` feature
is kept as is, every other location is shifted part by part. -/
def Feature.rotr (n : Nat) (k : Nat) (f : Feature) : Feature :=
  if f.ftype = 0 ∧ f.parts.length = 1 ∧ f.lo = 0 ∧ f.hi = n then f
  else { f with parts := f.parts.map (fun p => (p.shift k).renorm n) }

/-- `CompoundLocation._flip`: part order is reversed only when every part is strandless. -/
def Feature.flip (n : Nat) (f : Feature) : Feature :=
  let ps := f.parts.map (Part.flip n)
  { f with parts := if f.parts.length > 1 ∧ f.parts.all (·.strand = 0) then ps.reverse else ps }

/-- stable insertion sort by `location.start` (Biopython re-sorts features after flipping) -/
def insertByLo (f : Feature) : List Feature → List Feature
  | [] => [f]
  | g :: gs => if f.lo < g.lo then f :: g :: gs else g :: insertByLo f gs
def sortByLo (fs : List Feature) : List Feature := fs.foldr insertByLo []

/-- An annotated record: identity, sequence, feature table, reference list. -/
structure Rec where
  rid : Nat
  seq : Word
  feats : List Feature
  refs : List Nat
deriving DecidableEq, Repr, Inhabited

/-- `record >> k`, any integer `k`, `n ≥ 1`. -/
def Rec.rotr (r : Rec) (k : Int) : Rec :=
  let n := r.seq.length
  let k' := (k.emod n).toNat
  if k' = 0 then r
  else { r with seq := Moclo.rotr r.seq k', feats := r.feats.map (Feature.rotr n k') }

/-- `record << k` -/
def Rec.rotl (r : Rec) (k : Int) : Rec := r.rotr ((-k).emod r.seq.length)

/-- `record[a:b]` for `0 ≤ a ≤ b ≤ n`: Biopython keeps a feature iff `a ≤ start ∧ end ≤ b` on the raw
coordinates and shifts it by `-a`. -/
def Rec.slice (r : Rec) (a b : Nat) : Rec :=
  { r with seq := pySlice r.seq a b,
           feats := (r.feats.filter (fun f => decide ((a:Int) ≤ f.lo ∧ f.hi ≤ (b:Int)))).map (Feature.shift (-(a:Int))) }

/-- `SeqRecord.__add__` on sequence and features. -/
def Rec.append (x y : Rec) : Rec :=
  { x with seq := x.seq ++ y.seq, feats := x.feats ++ y.feats.map (Feature.shift x.seq.length) }

/-- `CircularRecord.reverse_complement()` (id/name/annotations are dropped by Biopython's defaults,
hence the empty reference list). -/
def Rec.rc (r : Rec) : Rec :=
  { rid := r.rid, seq := Moclo.rc r.seq,
    feats := sortByLo (r.feats.map (Feature.flip r.seq.length)), refs := [] }

/-- the positions (mod `n`) a part denotes -/
def Part.covers (n : Nat) (p : Part) (x : Nat) : Prop := ∃ t : Int, p.s ≤ t ∧ t < p.e ∧ t.emod n = x

end Moclo
