import Moclo.Model.Alphabet
import Moclo.Model.Word
/-!
# DNA regular expressions

Mirrors `moclo/regex.py`: `DNARegex._transcribe` + Python's `re` on the fragment
letters / capture groups (non-nested) / `X*` / `X*?`, `DNARegex.search`, `SeqMatch.span/group`.
Python's `re` is a priority backtracker: a greedy run tries the longest length first, a lazy run the
shortest first; earlier choices have priority.
-/
namespace Moclo

inductive Tok where
  | cls (c : Nt)
  | star (c : Nt) (greedy : Bool)
  | gopen
  | gclose
deriving DecidableEq, Repr, Inhabited

abbrev Pat := List Tok

/-- length of the maximal run of letters matching `p` at the head of `xs` -/
def runLen (p : Nt) : Word → Nat
  | [] => 0
  | x :: xs => if clsMatch p x then runLen p xs + 1 else 0

/-- try `k m, k (m-1), …, k 0` (greedy) -/
def firstDown {R : Type} (k : Nat → Option R) : Nat → Option R
  | 0 => k 0
  | j+1 => match k (j+1) with
    | some r => some r
    | none => firstDown k j

/-- try `k j, k (j+1), …` for `fuel` candidates (lazy run; leftmost start) -/
def firstUp {R : Type} (k : Nat → Option R) (j : Nat) : Nat → Option R
  | 0 => none
  | fuel+1 => match k j with
    | some r => some r
    | none => firstUp k (j+1) fuel

/-- Anchored backtracking match of `ts` on `xs`; `pos` is the absolute offset of the head of `xs`,
`acc` the (reversed) list of recorded positions: start, every group boundary in pattern order,
and finally the end of the match. -/
def matchToks : Pat → Word → Nat → List Nat → Option (List Nat)
  | [], _, pos, acc => some (pos :: acc)
  | .cls c :: ts, x :: xs, pos, acc => if clsMatch c x then matchToks ts xs (pos+1) acc else none
  | .cls _ :: _, [], _, _ => none
  | .gopen :: ts, xs, pos, acc => matchToks ts xs pos (pos :: acc)
  | .gclose :: ts, xs, pos, acc => matchToks ts xs pos (pos :: acc)
  | .star c g :: ts, xs, pos, acc =>
      let m := runLen c xs
      if g then firstDown (fun j => matchToks ts (xs.drop j) (pos+j) acc) m
      else firstUp (fun j => matchToks ts (xs.drop j) (pos+j) acc) 0 (m+1)

/-- The positions recorded by a successful match, in reading order:
`[start, b₁, b₂, …, end]` where `bᵢ` are the group boundaries. -/
structure Match where
  marks : List Nat
deriving DecidableEq, Repr

def Match.start (m : Match) : Nat := m.marks.headD 0
def Match.stop (m : Match) : Nat := m.marks.getLastD 0
/-- `span(i)`: `span(0)` is the whole match; group `i ≥ 1` of a pattern with non-nested groups is
delimited by the marks `2i-1`, `2i`. -/
def Match.span (m : Match) (i : Nat) : Nat × Nat :=
  if i = 0 then (m.start, m.stop) else (m.marks.getD (2*i-1) 0, m.marks.getD (2*i) 0)
def Match.ngroups (m : Match) : Nat := (m.marks.length - 2) / 2

/-- `DNARegex.search(string, pos, endpos, linear)`; `circular` is
`not linear or isinstance(string, CircularRecord)`. -/
def search (p : Pat) (w : Word) (circular : Bool) (pos : Nat := 0) (endpos : Option Nat := none) :
    Option Match :=
  let n := w.length
  let data := if circular then w ++ w else w
  let hi := match endpos with | none => n | some e => min n e
  (firstUp (fun i => matchToks p ((data.drop i).take n) i [i]) pos (hi - pos)).map
    (fun r => ⟨r.reverse⟩)

/-- `SeqMatch.group(i)` as a sequence. -/
def Match.group (m : Match) (w : Word) (i : Nat) : Word :=
  let sp := m.span i
  Moclo.group w sp.1 sp.2

/-- groups are well formed for `span`: every `gopen` is closed before the next one opens -/
def flatGroups : Pat → Bool → Bool
  | [], inG => !inG
  | .gopen :: ts, inG => !inG && flatGroups ts true
  | .gclose :: ts, inG => inG && flatGroups ts false
  | _ :: ts, inG => flatGroups ts inG

/-- number of group boundaries a pattern records (each capture group contributes two) -/
def nmarks : Pat → Nat
  | [] => 0
  | .gopen :: ts => nmarks ts + 1
  | .gclose :: ts => nmarks ts + 1
  | _ :: ts => nmarks ts

end Moclo

namespace Moclo

/-- every way the pattern fits the text (not only the one the backtracker reports): group boundaries and end
position of each fit — the executable counterpart of `Run`, used to *check* the "exactly one fit" hypotheses -/
def allRuns : Pat → Word → Nat → List (List Nat × Nat)
  | [], _, p => [([], p)]
  | .cls c :: ts, x :: xs, p => if clsMatch c x then allRuns ts xs (p+1) else []
  | .cls _ :: _, [], _ => []
  | .gopen :: ts, xs, p => (allRuns ts xs p).map (fun r => (p :: r.1, r.2))
  | .gclose :: ts, xs, p => (allRuns ts xs p).map (fun r => (p :: r.1, r.2))
  | .star c _ :: ts, xs, p => (List.range (runLen c xs + 1)).flatMap (fun j => allRuns ts (xs.drop j) (p + j))

/-- all fits of a pattern on a circular record: start below the length, one-turn window -/
def allFits (p : Pat) (w : Word) : List (Nat × List Nat × Nat) :=
  (List.range w.length).flatMap (fun i => (allRuns p (window w i) 0).map (fun r => (i, r.1, r.2)))

end Moclo
