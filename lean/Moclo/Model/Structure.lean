import Moclo.Model.Regex
/-!
# Structures derived from an enzyme geometry

Mirrors `AbstractModule.structure`, `AbstractVector.structure`, `AbstractPart.structure` for a cutter
whose `elucidate()` is `site N^off ^ N^k _ N` (every single-cut, non-palindromic, downstream,
5'-overhang enzyme; re-checked for each of them on every run by the generated table
`Generated/Enzymes.lean`).
-/
namespace Moclo

structure Geom where
  site : List Nt
  off : Nat
  k : Nat
deriving DecidableEq, Repr, Inhabited

inductive Kind | module | vector
deriving DecidableEq, Repr, Inhabited

def lits (s : List Nt) : Pat := s.map Tok.cls
def nRun (n : Nat) : Pat := List.replicate n (Tok.cls .N)

/-- `site N^off (N^k)(N N* N)(N^k) N^off rc(site)` -/
def moduleStructure (g : Geom) : Pat :=
  lits g.site ++ nRun g.off ++ [.gopen] ++ nRun g.k ++ [.gclose, .gopen, .cls .N, .star .N true, .cls .N,
    .gclose, .gopen] ++ nRun g.k ++ [.gclose] ++ nRun g.off ++ lits (rcNt g.site)

/-- `N (N^k)(N^off rc(site) N* site N^off)(N^k) N` -/
def vectorStructure (g : Geom) : Pat :=
  [.cls .N, .gopen] ++ nRun g.k ++ [.gclose, .gopen] ++ nRun g.off ++ lits (rcNt g.site) ++
    [.star .N true] ++ lits g.site ++ nRun g.off ++ [.gclose, .gopen] ++ nRun g.k ++ [.gclose, .cls .N]

/-- module part: `site N^off (upsig)(N N* N)(downsig) N^off rc(site)` -/
def modulePartStructure (g : Geom) (up down : List Nt) : Pat :=
  lits g.site ++ nRun g.off ++ [.gopen] ++ lits up ++ [.gclose, .gopen, .cls .N, .star .N true, .cls .N,
    .gclose, .gopen] ++ lits down ++ [.gclose] ++ nRun g.off ++ lits (rcNt g.site)

/-- vector part: `N (downsig)(N^off rc(site) N* site N^off)(upsig) N` -/
def vectorPartStructure (g : Geom) (up down : List Nt) : Pat :=
  [.cls .N, .gopen] ++ lits down ++ [.gclose, .gopen] ++ nRun g.off ++ lits (rcNt g.site) ++
    [.star .N true] ++ lits g.site ++ nRun g.off ++ [.gclose, .gopen] ++ lits up ++ [.gclose, .cls .N]

def genericStructure : Kind → Geom → Pat
  | .module, g => moduleStructure g
  | .vector, g => vectorStructure g

def partStructure : Kind → Geom → List Nt → List Nt → Pat
  | .module, g, u, d => modulePartStructure g u d
  | .vector, g, u, d => vectorPartStructure g u d

end Moclo
