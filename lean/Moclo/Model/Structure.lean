import Moclo.Model.Regex
/-!
# Structures derived from an enzyme geometry

Mirrors `AbstractModule.structure`, `AbstractVector.structure`, `AbstractPart.structure` for a cutter
whose `elucidate()` is `site N^off ^ N^k _ N` (every single-cut, non-palindromic, downstream,
5'-overhang enzyme; re-checked for each of them on every run by the generated table
`Generated/Enzymes.lean`).
-/
namespace Moclo

structure Geom where
  site : List Nt
  off : Nat
  k : Nat
deriving DecidableEq, Repr, Inhabited

inductive Kind | module | vector
deriving DecidableEq, Repr, Inhabited

def lits (s : List Nt) : Pat := s.map Tok.cls
def nRun (n : Nat) : Pat := List.replicate n (Tok.cls .N)

/-- `site N^off (N^k)(N N* N)(N^k) N^off rc(site)` -/
def moduleStructure (g : Geom) : Pat :=
  lits g.site ++ nRun g.off ++ [.gopen] ++ nRun g.k ++ [.gclose, .gopen, .cls .N, .star .N true, .cls .N,
    .gclose, .gopen] ++ nRun g.k ++ [.gclose] ++ nRun g.off ++ lits (rcNt g.site)

/-- `N (N^k)(N^off rc(site) N* site N^off)(N^k) N` -/
def vectorStructure (g : Geom) : Pat :=
  [.cls .N, .gopen] ++ nRun g.k ++ [.gclose, .gopen] ++ nRun g.off ++ lits (rcNt g.site) ++
    [.star .N true] ++ lits g.site ++ nRun g.off ++ [.gclose, .gopen] ++ nRun g.k ++ [.gclose, .cls .N]

/-- module part: `site N^off (upsig)(N N* N)(downsig) N^off rc(site)` -/
def modulePartStructure (g : Geom) (up down : List Nt) : Pat :=
  lits g.site ++ nRun g.off ++ [.gopen] ++ lits up ++ [.gclose, .gopen, .cls .N, .star .N true, .cls .N,
    .gclose, .gopen] ++ lits down ++ [.gclose] ++ nRun g.off ++ lits (rcNt g.site)

/-- vector part: `N (downsig)(N^off rc(site) N* site N^off)(upsig) N` -/
def vectorPartStructure (g : Geom) (up down : List Nt) : Pat :=
  [.cls .N, .gopen] ++ lits down ++ [.gclose, .gopen] ++ nRun g.off ++ lits (rcNt g.site) ++
    [.star .N true] ++ lits g.site ++ nRun g.off ++ [.gclose, .gopen] ++ lits up ++ [.gclose, .cls .N]

def genericStructure : Kind → Geom → Pat
  | .module, g => moduleStructure g
  | .vector, g => vectorStructure g

def partStructure : Kind → Geom → List Nt → List Nt → Pat
  | .module, g, u, d => modulePartStructure g u d
  | .vector, g, u, d => vectorPartStructure g u d

end Moclo

namespace Moclo

/-- is the token a group boundary? -/
def Tok.isMark : Tok → Bool
  | .gopen => true
  | .gclose => true
  | _ => false

/-- split a pattern with three non-nested groups into `pre (g1)(g2)(g3) suf` -/
def splitGroups (p : Pat) : Option (Pat × Pat × Pat × Pat × Pat) :=
  let pre := p.takeWhile (fun t => !t.isMark)
  match p.dropWhile (fun t => !t.isMark) with
  | .gopen :: r1 =>
    let g1 := r1.takeWhile (fun t => !t.isMark)
    match r1.dropWhile (fun t => !t.isMark) with
    | .gclose :: .gopen :: r2 =>
      let g2 := r2.takeWhile (fun t => !t.isMark)
      match r2.dropWhile (fun t => !t.isMark) with
      | .gclose :: .gopen :: r3 =>
        let g3 := r3.takeWhile (fun t => !t.isMark)
        match r3.dropWhile (fun t => !t.isMark) with
        | .gclose :: suf => if suf.all (fun t => !t.isMark) then some (pre, g1, g2, g3, suf) else none
        | _ => none
      | _ => none
    | _ => none
  | _ => none

/-- a piece made of exactly `n` letter tokens -/
def isFixed (n : Nat) (g : Pat) : Bool :=
  g.length == n && g.all (fun t => match t with | .cls _ => true | _ => false)

/-- **cut-aligned**: both overhang groups have the cutter's overhang length, group 1 is either immediately
preceded by `site N^off` (the enzyme, reading forward, cuts right before it) or immediately followed by
`N^off rc(site)` (the enzyme on the other strand cuts right after it), and symmetrically for group 3 -/
def cutAligned (g : Geom) (p : Pat) : Bool :=
  match splitGroups p with
  | none => false
  | some (pre, g1, g2, g3, suf) =>
    let fwd := lits g.site ++ nRun g.off
    let rev := nRun g.off ++ lits (rcNt g.site)
    isFixed g.k g1 && isFixed g.k g3 &&
    (fwd.isSuffixOf pre || rev.isPrefixOf g2) &&
    (rev.isPrefixOf suf || fwd.isSuffixOf g2)

end Moclo

namespace Moclo

/-- **next-level layout** of a vector structure with overhang length `k`, relative to the next level's cutter
geometry `g'`: both overhang groups are plain `N^k`, and the structure starts with `site' N^off'` and ends
with `N^off' rc(site')` — either directly around the overhang groups (which then double as the next level's
overhangs, `k = k'`), or with the next level's own `k'`-letter overhangs in between -/
def nextLevelOK (g' : Geom) (k : Nat) (p : Pat) : Bool :=
  match splitGroups p with
  | none => false
  | some (pre, g1, _, g3, suf) =>
    g1 == nRun k && g3 == nRun k &&
    ((pre == lits g'.site ++ nRun g'.off && suf == nRun g'.off ++ lits (rcNt g'.site) && k == g'.k) ||
     (pre == lits g'.site ++ nRun g'.off ++ nRun g'.k && suf == nRun g'.k ++ nRun g'.off ++ lits (rcNt g'.site)))

/-- `YTKProduct.structure()` in closed form: `CGTCTC N (NNGG)(TCTC N NNNN N*? NNNN N GA)(GACC) N GAGACG` — the
BsaI site of the next level is spelt half by the product's upstream overhang, half by its target -/
def ytkProductPat : Pat :=
  (lits [.C, .G, .T, .C, .T, .C] ++ nRun 1) ++ [.gopen] ++ [.cls .N, .cls .N, .cls .G, .cls .G] ++ [.gclose, .gopen] ++
    ((lits [.T, .C, .T, .C] ++ nRun 5) ++ [.star .N false] ++ (nRun 5 ++ lits [.G, .A])) ++ [.gclose, .gopen] ++
    lits [.G, .A, .C, .C] ++ [.gclose] ++ (nRun 1 ++ lits [.G, .A, .G, .A, .C, .G])

/-- BsaI, the cutter of the YTK next level -/
def bsaI : Geom := { site := [.G, .G, .T, .C, .T, .C], off := 1, k := 4 }

end Moclo
