import Moclo.Model.Assembly
import Moclo.Model.Cache
import Moclo.Model.Registry
import Moclo.Model.Directory
import Moclo.Model.ThreePrime
/-!
# Line protocol of the correspondence check

One operation per line, TAB-separated fields, one reply line per operation.  Not covered by
theorems; covered by every correspondence run (a parsing or printing error shows up as a
disagreement with the implementation).
-/
namespace Moclo.Wire
open Moclo

def ntOfChar (c : Char) : Option Nt :=
  match c.toUpper with
  | 'A' => some .A | 'C' => some .C | 'G' => some .G | 'T' => some .T
  | 'R' => some .R | 'Y' => some .Y | 'S' => some .S | 'W' => some .W
  | 'K' => some .K | 'M' => some .M | 'B' => some .B | 'D' => some .D
  | 'H' => some .H | 'V' => some .V | 'N' => some .N
  | _ => none

def charOfNt : Nt → Char
  | .A => 'A' | .C => 'C' | .G => 'G' | .T => 'T' | .R => 'R' | .Y => 'Y' | .S => 'S' | .W => 'W'
  | .K => 'K' | .M => 'M' | .B => 'B' | .D => 'D' | .H => 'H' | .V => 'V' | .N => 'N'

def symOfChar (c : Char) : Option Sym := (ntOfChar c).map (fun n => ⟨n, c.isLower⟩)
def charOfSym (x : Sym) : Char := if x.lower then (charOfNt x.nt).toLower else charOfNt x.nt

def parseWord (s : String) : Option Word := if s == "." then some [] else s.toList.mapM symOfChar
def parseNts (s : String) : Option (List Nt) := if s == "." then some [] else s.toList.mapM ntOfChar
def showWord (w : Word) : String := if w.isEmpty then "." else String.ofList (w.map charOfSym)
def showNts (w : List Nt) : String := if w.isEmpty then "." else String.ofList (w.map charOfNt)

def parsePatChars : List Char → Option Pat
  | [] => some []
  | '(' :: cs => (parsePatChars cs).map (Tok.gopen :: ·)
  | ')' :: cs => (parsePatChars cs).map (Tok.gclose :: ·)
  | c :: '*' :: '?' :: cs => do let n ← ntOfChar c; let r ← parsePatChars cs; pure (.star n false :: r)
  | c :: '*' :: cs => do let n ← ntOfChar c; let r ← parsePatChars cs; pure (.star n true :: r)
  | c :: cs => do let n ← ntOfChar c; let r ← parsePatChars cs; pure (.cls n :: r)

def parsePat (s : String) : Option Pat := if s == "." then some [] else parsePatChars s.toList

def showTok : Tok → String
  | .cls c => String.singleton (charOfNt c)
  | .star c true => String.singleton (charOfNt c) ++ "*"
  | .star c false => String.singleton (charOfNt c) ++ "*?"
  | .gopen => "("
  | .gclose => ")"
def showPat (p : Pat) : String := if p.isEmpty then "." else String.join (p.map showTok)

def sepList (sep : String) (xs : List String) : String :=
  if xs.isEmpty then "." else sep.intercalate xs
def splitList (sep : String) (s : String) : List String :=
  if s == "." then [] else s.splitOn sep

def parseNats (s : String) : Option (List Nat) := (splitList "," s).mapM String.toNat?
def showNats (xs : List Nat) : String := sepList "," (xs.map toString)

def parseCite (s : String) : Option Cite :=
  match s.toList with
  | 'i' :: r => (String.ofList r).toNat?.map Cite.idx
  | 'r' :: r => (String.ofList r).toNat?.map Cite.ref
  | _ => none
def showCite : Cite → String
  | .idx i => "i" ++ toString i
  | .ref r => "r" ++ toString r

def parseQual (s : String) : Option Qual :=
  match s.toList with
  | 'u' :: r => (String.ofList r).toNat?.map Qual.user
  | 's' :: r => (String.ofList r).toNat?.map Qual.src
  | _ => none
def showQual : Qual → String
  | .user q => "u" ++ toString q
  | .src r => "s" ++ toString r

def parsePart (s : String) : Option Part :=
  match s.splitOn "," with
  | [a, b, c] => do pure { s := ← a.toInt?, e := ← b.toInt?, strand := ← c.toInt? }
  | _ => none
def showPart (p : Part) : String := s!"{p.s},{p.e},{p.strand}"

def parseFeature (s : String) : Option Feature :=
  match s.splitOn "|" with
  | hd :: parts =>
    match hd.splitOn "," with
    | [t, q, cs] => do
      pure { ftype := ← t.toNat?, qual := ← parseQual q,
             cites := ← (splitList "+" cs).mapM parseCite, parts := ← parts.mapM parsePart }
    | _ => none
  | [] => none
def showFeature (f : Feature) : String :=
  "|".intercalate (s!"{f.ftype},{showQual f.qual},{sepList "+" (f.cites.map showCite)}" :: f.parts.map showPart)

def parseFeatures (s : String) : Option (List Feature) := (splitList ";" s).mapM parseFeature
def showFeatures (fs : List Feature) : String := sepList ";" (fs.map showFeature)

def parseKind (s : String) : Option Kind :=
  if s == "M" then some .module else if s == "V" then some .vector else none

/-- `rid^word^feats^refs` -/
def parseRec (fs : List String) : Option Rec :=
  match fs with
  | [rid, w, feats, refs] => do
    pure { rid := ← rid.toNat?, seq := ← parseWord w, feats := ← parseFeatures feats, refs := ← parseNats refs }
  | _ => none
def showRec (r : Rec) : String := s!"{r.rid}^{showWord r.seq}^{showFeatures r.feats}^{showNats r.refs}"

/-- `oid^kind^pat^site^off^k^faulty^rid^word^feats^refs` -/
def parseEnt (s : String) : Option Ent :=
  match s.splitOn "^" with
  | oid :: kind :: pat :: site :: off :: k :: faulty :: rest => do
    let spec : ClassSpec := { kind := ← parseKind kind, pat := ← parsePat pat,
                              geom := { site := ← parseNts site, off := ← off.toNat?, k := ← k.toNat? } }
    pure { oid := ← oid.toNat?, spec := spec, rcd := ← parseRec rest, faulty := faulty == "1" }
  | _ => none

/-- `kind^pat^site^off^k` -/
def parseSpec (s : String) : Option ClassSpec :=
  match s.splitOn "^" with
  | [kind, pat, site, off, k] => do
    pure { kind := ← parseKind kind, pat := ← parsePat pat,
           geom := { site := ← parseNts site, off := ← off.toNat?, k := ← k.toNat? } }
  | _ => none

def showErr : Err → String
  | .invalid => "invalid" | .illegal => "illegal" | .duplicate => "duplicate"
  | .missing o => "missing:" ++ showWord o | .injected => "injected" | .internal => "internal"

def parseGMod (s : String) : Option (GMod Word) :=
  match s.splitOn ":" with
  | [a, b, c] => do pure { start := ← parseWord a, stop := ← parseWord b, oid := ← c.toNat? }
  | _ => none

def tab (xs : List String) : String := "\t".intercalate xs

def step (line : String) : String :=
  match line.splitOn "\t" with
  | ["LM", p, x] =>
    match parseNts p, parseWord x with
    | some [p], some [x] => if clsMatch p x then "1" else "0"
    | _, _ => "bad-op"
  | ["SEARCH", pat, w, circ, pos, endpos] =>
    match parsePat pat, parseWord w, pos.toNat? with
    | some p, some w, some pos =>
      let ep : Option Nat := if endpos == "-" then none else endpos.toNat?
      match search p w (circ == "1") pos ep with
      | none => "none"
      | some m =>
        tab ("some" :: showNats m.marks :: (List.range (m.ngroups + 1)).map (fun i => showWord (m.group w i)))
    | _, _, _ => "bad-op"
  | ["FITS", pat, w] =>
    match parsePat pat, parseWord w with
    | some p, some w => toString (allFits p w).length
    | _, _ => "bad-op"
  | ["ROT", w, k, feats, track] =>
    match parseWord w, k.toInt?, parseFeatures feats, parseNats track with
    | some w, some k, some fs, some tr =>
      if w.isEmpty then "zerodiv"
      else
        let r : Rec := { rid := 0, seq := w, feats := fs, refs := [] }
        let r' := r.rotr k
        tab ["ok", showWord r'.seq, showFeatures r'.feats, showNats (rotrI tr k)]
    | _, _, _, _ => "bad-op"
  | ["ROTL", w, k, feats, track] =>
    match parseWord w, k.toInt?, parseFeatures feats, parseNats track with
    | some w, some k, some fs, some tr =>
      if w.isEmpty then "zerodiv"
      else
        let r : Rec := { rid := 0, seq := w, feats := fs, refs := [] }
        let r' := r.rotl k
        tab ["ok", showWord r'.seq, showFeatures r'.feats, showNats (rotlI tr k)]
    | _, _, _, _ => "bad-op"
  | ["RC", w, feats] =>
    match parseWord w, parseFeatures feats with
    | some w, some fs =>
      let r' := ({ rid := 0, seq := w, feats := fs, refs := [] } : Rec).rc
      tab ["ok", showWord r'.seq, showFeatures r'.feats]
    | _, _ => "bad-op"
  | ["IN", w, q] =>
    match parseWord w, parseWord q with
    | some w, some q => if ccontains w q then "1" else "0"
    | _, _ => "bad-op"
  | ["SLICE", w, a, b, feats] =>
    match parseWord w, a.toNat?, b.toNat?, parseFeatures feats with
    | some w, some a, some b, some fs =>
      let r' := ({ rid := 0, seq := w, feats := fs, refs := [] } : Rec).slice a b
      tab ["ok", showWord r'.seq, showFeatures r'.feats]
    | _, _, _, _ => "bad-op"
  | ["GROUP", w, a, b] =>
    match parseWord w, a.toNat?, b.toNat? with
    | some w, some a, some b => showWord (group w a b)
    | _, _, _ => "bad-op"
  | ["STRUCT", kind, site, off, k, up, down] =>
    match parseKind kind, parseNts site, off.toNat?, k.toNat? with
    | some kind, some site, some off, some k =>
      let g : Geom := { site := site, off := off, k := k }
      if up == "-" then showPat (genericStructure kind g)
      else match parseNts up, parseNts down with
        | some u, some d => showPat (partStructure kind g u d)
        | _, _ => "bad-op"
    | _, _, _, _ => "bad-op"
  | ["EVAL", kind, pat, site, off, k, w, feats] =>
    match parseKind kind, parsePat pat, parseNts site, off.toNat?, k.toNat?, parseWord w, parseFeatures feats with
    | some kind, some p, some site, some off, some k, some w, some fs =>
      let c : ClassSpec := { kind := kind, pat := p, geom := { site := site, off := off, k := k } }
      let r : Rec := { rid := 0, seq := w, feats := fs, refs := [] }
      match c.matchSeq w with
      | .error e => showErr e
      | .ok m =>
        let t := c.targetOf r m
        tab ["ok", showNats m.marks, showWord (m.group w c.upGroup), showWord (m.group w c.downGroup),
             showWord t.seq, showFeatures t.feats,
             (match kind with | .vector => showWord (m.group w 1 ++ m.group w 2) | .module => "-")]
    | _, _, _, _, _, _, _ => "bad-op"
  | ["EVAL3", kind, pat, site, off, k, w, feats] =>
    -- a class over a cutter leaving a 3' overhang (`off` = fst3, `k` = overhang length)
    match parseKind kind, parsePat pat, parseNts site, off.toNat?, k.toNat?, parseWord w, parseFeatures feats with
    | some kind, some p, some site, some off, some k, some w, some fs =>
      let c : ClassSpec := { kind := kind, pat := p, geom := { site := site, off := off, k := k } }
      let r : Rec := { rid := 0, seq := w, feats := fs, refs := [] }
      match c.matchSeq3 w with
      | .error e => showErr e
      | .ok m =>
        let t := c.targetOf3 r m
        tab ["ok", showNats m.marks, showWord (m.group w c.upGroup), showWord (m.group w c.downGroup),
             showWord t.seq, showFeatures t.feats,
             (match kind with | .vector => showWord (m.group w 2 ++ m.group w c.upGroup) | .module => "-")]
    | _, _, _, _, _, _, _ => "bad-op"
  | ["GRAPH", vup, vdown, mods] =>
    match parseWord vup, parseWord vdown, (splitList "," mods).mapM parseGMod with
    | some vu, some vd, some ms =>
      match gAssemble rc vu vd ms with
      | .error .invalidVector => "invalid"
      | .error .duplicate => "duplicate"
      | .error (.missing o) => "missing:" ++ showWord o
      | .ok (chain, rest) => tab ["ok", showNats (chain.map (·.oid)), showNats (rest.map (·.oid))]
    | _, _, _ => "bad-op"
  | "ASM" :: pid :: pname :: v :: mods =>
    match pid.toNat?, pname.toNat?, parseEnt v, mods.mapM parseEnt with
    | some pid, some pname, some v, some ms =>
      let (out, after) := assemble v ms pid pname
      let o := match out with
        | .error e => ["err", showErr e]
        | .ok p => ["ok", showRec p.rcd, toString p.pid, toString p.pname, toString p.commentVector,
                    showNats p.commentModules, showNats p.unused]
      tab (o ++ ["INPUTS"] ++ after.map showRec)
    | _, _, _, _ => "bad-op"
  | ["HIST", classes, queries] =>
    match (splitList "|" classes).mapM parseSpec,
          (splitList ";" queries).mapM (fun q => match q.splitOn ":" with
            | [i, w] => do pure ((← i.toNat?), (← parseWord w), true)
            | [i, w, t] => do pure ((← i.toNat?), (← parseWord w), t != "L")
            | _ => none) with
    | some specs, some qs =>
      let spec := fun (i : Nat) => specs.getD i default
      String.ofList ((histVerdicts spec [] qs).map (fun b => if b then '1' else '0'))
    | _, _ => "bad-op"
  | ["COMBINE", members] =>
    let parseMember := fun (m : String) => (splitList "," m).mapM (fun e => match e.splitOn ":" with
      | [k, v] => do pure ((← k.toNat?), (← v.toNat?))
      | _ => none)
    match (splitList "|" members).mapM parseMember with
    | some ms =>
      let r : Reg Nat Nat := Reg.combine ms
      sepList "," (r.map (fun e => s!"{e.1}:{e.2}"))
    | none => "bad-op"
  | ["DKEY", exts, names] =>
    -- `_key` of each name: `n…` codes, or `-` for "not a plasmid file"
    let parseName := fun (n : String) =>
      if n.startsWith "n" then ((n.drop 1).toString.splitOn "," |>.filter (· != "")).mapM String.toNat? else none
    match (splitList ";" exts).mapM parseName, (splitList ";" names).mapM parseName with
    | some xs, some ns =>
      sepList ";" (ns.map (fun n => match Dir.key xs n with
        | some k => "n" ++ ",".intercalate (k.map toString)
        | none => "-"))
    | _, _ => "bad-op"
  | ["DIR", ci, exts, entries, probes] =>
    -- names are `n` followed by comma-separated character codes; entries `name:1` (regular file) / `name:0`
    let parseName := fun (n : String) =>
      if n.startsWith "n" then ((n.drop 1).toString.splitOn "," |>.filter (· != "")).mapM String.toNat? else none
    let parseEntry := fun (e : String) => match e.splitOn ":" with
      | [n, f] => do pure ({ name := ← parseName n, isFile := f == "1" } : Dir.Entry)
      | _ => none
    match (splitList ";" exts).mapM parseName, (splitList ";" entries).mapM parseEntry,
          (splitList ";" probes).mapM parseName with
    | some xs, some dir, some ps =>
      let ks := Dir.keys (ci == "1") xs dir
      tab ["ok", sepList ";" (ks.map (fun k => "n" ++ ",".intercalate (k.map toString))),
           String.ofList (ps.map (fun k => if (Dir.lookup xs dir k).isSome then '1' else '0'))]
    | _, _, _ => "bad-op"
  | ["RESIST", table, feats] =>
    let parsePair := fun (e : String) => match e.splitOn ":" with
      | [k, v] => do pure ((← k.toNat?), (← v.toNat?))
      | _ => none
    match (splitList "," table).mapM parsePair, (splitList "|" feats).mapM (fun f => (splitList "," f).mapM String.toNat?) with
    | some t, some fs =>
      match findResistance t fs with
      | .ok r => s!"ok:{r}"
      | .error .multiple => "multiple"
      | .error .notFound => "notfound"
    | _, _ => "bad-op"
  | ["CHAR", classes, w] =>
    match (splitList "|" classes).mapM parseSpec, parseWord w with
    | some specs, some w =>
      match characterize specs w with
      | some i => toString i
      | none => "none"
    | _, _ => "bad-op"
  | _ => "bad-op"

end Moclo.Wire
