/-!
# A directory of GenBank files as a registry

Mirrors `FilesystemRegistry` (`moclo/registry/base.py`): `_files`, `_key`, `__iter__`, `__len__`,
`__getitem__`.  A directory is a listing of entries (name, regular file or not); names and extensions are
lists of character codes.  PyFilesystem's `filterdir(files=["*.ext", …], exclude_dirs=["*"])` is modelled by
its contract for literal extensions: the regular files of the directory itself whose name ends with
`"." ++ ext` for one of the extensions — compared case-insensitively when the filesystem says it is
case-insensitive (an `OSFS` says so on every platform).  `fs.path.splitext` is modelled on plain file names.
-/
namespace Moclo.Dir

abbrev Name := List Nat

def dotC : Nat := 46
def slashC : Nat := 47

/-- ASCII lower-casing of one character code -/
def lowerC (c : Nat) : Nat := if 65 ≤ c ∧ c ≤ 90 then c + 32 else c

structure Entry where
  name : Name
  isFile : Bool
deriving DecidableEq, Repr, Inhabited

/-- split at the last dot: `some (pre, ext)` with `name = pre ++ '.' :: ext` and no dot in `ext` -/
def rsplitDot : Name → Option (Name × Name)
  | [] => none
  | c :: cs =>
    match rsplitDot cs with
    | some (p, e) => some (c :: p, e)
    | none => if c = dotC then some ([], cs) else none

/-- `fs.path.splitext` on a plain file name: a name that starts with its only dot, or has no dot, has no
extension; otherwise the extension starts at the last dot (and `join` normalises a stem `"."` away) -/
def splitExt (n : Name) : Name × Name :=
  if n.head? = some dotC ∧ n.count dotC = 1 then (n, [])
  else match rsplitDot n with
    | none => (n, [])
    | some (p, e) => (if p = [dotC] then [] else p, dotC :: e)

/-- `FilesystemRegistry._key(filename)`: the key under which a file is registered, if it is a plasmid file -/
def key (exts : List Name) (n : Name) : Option Name :=
  if slashC ∈ n then none
  else
    if (splitExt n).2.tail ∈ exts ∧ (splitExt n).1 ++ (splitExt n).2 = n then some (splitExt n).1 else none

/-- the wildcard `*.ext` against a name (`ci`: the filesystem matches case-insensitively) -/
def glob (ci : Bool) (ext n : Name) : Bool :=
  if ci then (n.map lowerC).reverse.take (ext.length + 1) == ((dotC :: ext).map lowerC).reverse
  else n.reverse.take (ext.length + 1) == (dotC :: ext).reverse

/-- `fs.filterdir("/", files=_files, exclude_dirs=["*"])` -/
def listing (ci : Bool) (exts : List Name) (dir : List Entry) : List Entry :=
  dir.filter (fun f => f.isFile && exts.any (fun e => glob ci e f.name))

/-- `__iter__` -/
def keys (ci : Bool) (exts : List Name) (dir : List Entry) : List Name :=
  (listing ci exts dir).filterMap (fun f => key exts f.name)

/-- `fs.isfile(name)` for a name without `/` -/
def isFile (dir : List Entry) (n : Name) : Bool := dir.any (fun f => f.isFile && f.name == n)

/-- `__getitem__`: the file that is opened for `k`, `none` = `KeyError` -/
def lookup (exts : List Name) (dir : List Entry) (k : Name) : Option Name :=
  (exts.map (fun e => k ++ dotC :: e)).find? (fun n => key exts n == some k && isFile dir n)

end Moclo.Dir
