import Moclo.Model.Entity
/-!
# The class-level pattern cache

Mirrors `StructuredRecord._get_regex`: the compiled pattern is cached **on the class that was asked**
(`cls.__dict__`), never found through a parent.  A state is the list of classes that own a cached
pattern.  Generic in the class-id type `C` and the pattern type `P`.
-/
namespace Moclo
variable {C P : Type} [DecidableEq C]

abbrev CState (C P : Type) := List (C × P)

def cacheGet (st : CState C P) (c : C) : Option P := (st.find? (fun e => e.1 = c)).map (·.2)

/-- `cls._get_regex()`: the class's own cached pattern, else compile `cls.structure()` and store it -/
def cacheQuery (struc : C → P) (st : CState C P) (c : C) : CState C P × P :=
  match cacheGet st c with
  | some p => (st, p)
  | none => ((c, struc c) :: st, struc c)

/-- the state after a history of queries -/
def cacheRun (struc : C → P) (st : CState C P) (h : List C) : CState C P :=
  h.foldl (fun s c => (cacheQuery struc s c).1) st

/-- the variant that resolves the cache through the parents (`mro c` = the class followed by its
ancestors): the shape of the defect the property excludes — kept for the counterexample theorem -/
def cacheQueryInherited (struc : C → P) (mro : C → List C) (st : CState C P) (c : C) : CState C P × P :=
  match (mro c).findSome? (cacheGet st) with
  | some p => (st, p)
  | none => ((c, struc c) :: st, struc c)

/-- `is_valid()` of a structured record over a circular record (`circular = true`) or over a plain
`SeqRecord` whose annotations declare a linear topology (`circular = false`) -/
def ClassSpec.isValidC (c : ClassSpec) (w : Word) (circular : Bool) : Bool :=
  match search c.pat w circular with
  | none => false
  | some m => !decide (validCuts c.geom (m.group w 0) > 2)

/-- verdicts of a history of validation calls `(class, record, circular?)` (what `is_valid()` answers) -/
def histVerdicts (spec : C → ClassSpec) : CState C Pat → List (C × Word × Bool) → List Bool
  | _, [] => []
  | st, (c, w, circ) :: rest =>
    let (st', p) := cacheQuery (fun c => (spec c).pat) st c
    ({ (spec c) with pat := p } : ClassSpec).isValidC w circ :: histVerdicts spec st' rest

/-- `Family.characterize(record)` run against the cache: the candidates (direct subclasses in definition order,
then the class itself when concrete) are asked one after the other, each through its own cached pattern; the
answer is the position of the first that accepts (`none` = `RuntimeError`), `i` = positions already passed -/
def charRun (spec : C → ClassSpec) : CState C Pat → List C → Word → Nat → CState C Pat × Option Nat
  | st, [], _, _ => (st, none)
  | st, c :: cs, w, i =>
    if ({ (spec c) with pat := (cacheQuery (fun c => (spec c).pat) st c).2 } : ClassSpec).isValidC w true
    then ((cacheQuery (fun c => (spec c).pat) st c).1, some i)
    else charRun spec (cacheQuery (fun c => (spec c).pat) st c).1 cs w (i + 1)

end Moclo
