/-!
# The overhang graph of an assembly

Mirrors the control flow of `AssemblyManager._generate_modules_map` and `_generate_assembly`
on abstract overhangs: dictionary in insertion order, `setdefault`, the reverse-complement scan,
the `pop` walk.  Generic in the overhang type `O`.
-/
namespace Moclo
variable {O : Type} [DecidableEq O]

/-- A module as the graph sees it: start / end overhang (already normalised) and object identity. -/
structure GMod (O : Type) where
  start : O
  stop : O
  oid : Nat
deriving DecidableEq, Repr

inductive GErr (O : Type) where
  | invalidVector
  | duplicate
  | missing (o : O)
deriving DecidableEq, Repr

/-- `modmap.get(k)` on the insertion-ordered association list -/
def gLookup (map : List (GMod O)) (k : O) : Option (GMod O) := map.find? (fun m => m.start = k)

/-- first loop of `_generate_modules_map`: `setdefault(start, mod)`, another object under the same key
is a duplicate (the very same object passed twice is not). -/
def gBuild : List (GMod O) → List (GMod O) → Except (GErr O) (List (GMod O))
  | [], map => .ok map
  | m :: ms, map =>
    match gLookup map m.start with
    | some m' => if m'.oid = m.oid then gBuild ms map else .error .duplicate
    | none => gBuild ms (map ++ [m])

/-- second loop: some key whose reverse complement is also a key (itself included) -/
def gRcClash (rc : O → O) (map : List (GMod O)) : Bool :=
  map.any (fun m => (gLookup map (rc m.start)).isSome)

/-- `modmap.pop(k)` -/
def gErase (map : List (GMod O)) (k : O) : List (GMod O) := map.eraseP (fun m => m.start = k)

/-- The `while` loop of `_generate_assembly`: returns the chain consumed, the modules left in the map,
and `some o` when the walk stalls at overhang `o` (`KeyError`).  `fuel` bounds the number of pops. -/
def gWalk (stop : O) : Nat → O → List (GMod O) → List (GMod O) × List (GMod O) × Option O
  | 0, cur, map => ([], map, if cur = stop then none else some cur)
  | fuel+1, cur, map =>
    if cur = stop then ([], map, none)
    else match gLookup map cur with
      | none => ([], map, some cur)
      | some m =>
        let (chain, rest, stall) := gWalk stop fuel m.stop (gErase map cur)
        (m :: chain, rest, stall)

/-- Outcome of the graph part of an assembly. -/
def gAssemble (rc : O → O) (vUp vDown : O) (mods : List (GMod O)) :
    Except (GErr O) (List (GMod O) × List (GMod O)) :=
  if vUp = vDown then .error .invalidVector
  else match gBuild mods [] with
    | .error e => .error e
    | .ok map =>
      if gRcClash rc map then .error .duplicate
      else match gWalk vUp (map.length + 1) vDown map with
        | (chain, rest, none) => .ok (chain, rest)
        | (_, _, some o) => .error (.missing o)

end Moclo
