/-!
# Registries as association lists

Mirrors `moclo/registry/base.py`: a registry is a read-only mapping; `CombinedRegistry.add_registry`
is `setdefault(item.id, item)` per item of the member, in the member's iteration order.
-/
namespace Moclo
variable {K V : Type} [DecidableEq K]

abbrev Reg (K V : Type) := List (K × V)

def Reg.keys (r : Reg K V) : List K := r.map (·.1)
def Reg.lookup (r : Reg K V) (k : K) : Option V := (r.find? (fun e => e.1 = k)).map (·.2)

/-- `self._data.setdefault(k, v)` -/
def Reg.setdefault (r : Reg K V) (k : K) (v : V) : Reg K V :=
  if (r.lookup k).isSome then r else r ++ [(k, v)]

/-- `CombinedRegistry.add_registry(member)` -/
def Reg.add (acc member : Reg K V) : Reg K V := member.foldl (fun a e => a.setdefault e.1 e.2) acc

/-- a `CombinedRegistry` after `<<`-ing the members in order -/
def Reg.combine (members : List (Reg K V)) : Reg K V := members.foldl Reg.add []


/-! ## resistance of a plasmid -/

inductive ResErr where
  | multiple     -- "multiple resistance cassettes detected"
  | notFound     -- "could not find the resistance of …"
deriving DecidableEq, Repr

/-- `moclo.registry._utils.find_resistance(record)`: features in order; the set of a feature's labels is
intersected with the cassette tags; two tags on one feature are an error, one tag decides, none moves on -/
def findResistance (table : List (Nat × Nat)) : List (List Nat) → Except ResErr Nat
  | [] => .error .notFound
  | labels :: rest =>
    match (labels.eraseDups).filter (fun l => table.any (fun e => e.1 == l)) with
    | [] => findResistance table rest
    | [c] => match table.find? (fun e => e.1 == c) with
      | some e => .ok e.2
      | none => .error .notFound
    | _ => .error .multiple

end Moclo
