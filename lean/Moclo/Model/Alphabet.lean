/-!
# Alphabet: IUPAC nucleotide codes, case, complement, pattern-letter classes

Mirrors: `moclo/regex.py` (`DNARegex._lettermap`, `(?i)`), Biopython's ambiguous DNA complement
table (used by `Seq.reverse_complement`).  Import-free so that the driver links without Mathlib.
-/
namespace Moclo

/-- The 15 IUPAC nucleotide codes. -/
inductive Nt | A | C | G | T | R | Y | S | W | K | M | B | D | H | V | N
deriving DecidableEq, Repr, Inhabited

def Nt.all : List Nt := [.A, .C, .G, .T, .R, .Y, .S, .W, .K, .M, .B, .D, .H, .V, .N]

/-- A letter of a record: a code and its case. -/
structure Sym where
  nt : Nt
  lower : Bool
deriving DecidableEq, Repr, Inhabited

abbrev Word := List Sym

/-- Biopython's `ambiguous_dna_complement`. -/
def Nt.compl : Nt → Nt
  | .A => .T | .T => .A | .C => .G | .G => .C
  | .R => .Y | .Y => .R | .K => .M | .M => .K
  | .B => .V | .V => .B | .D => .H | .H => .D
  | .S => .S | .W => .W | .N => .N

def Sym.compl (x : Sym) : Sym := { x with nt := x.nt.compl }
def Sym.upper (x : Sym) : Sym := { x with lower := false }

/-- `Seq.reverse_complement()` on letters (case is kept). -/
def rc (w : Word) : Word := (w.map Sym.compl).reverse
def rcNt (w : List Nt) : List Nt := (w.map Nt.compl).reverse
def upperW (w : Word) : Word := w.map Sym.upper

/-- `DNARegex._lettermap`: the set a pattern letter stands for (a letter not in the map is copied
verbatim into the regular expression, i.e. stands for itself). -/
def lettermap : Nt → List Nt
  | .B => [.C, .G, .T] | .D => [.A, .G, .T] | .H => [.A, .C, .T]
  | .K => [.G, .T] | .M => [.A, .C] | .N => [.A, .C, .G, .T, .N]
  | .R => [.A, .G] | .S => [.C, .G] | .V => [.A, .C, .G]
  | .W => [.A, .T] | .Y => [.C, .T]
  | .A => [.A] | .C => [.C] | .G => [.G] | .T => [.T]

/-- Does pattern letter `p` match record letter `x`?  (`(?i)`: case of `x` is irrelevant.) -/
def clsMatch (p : Nt) (x : Sym) : Bool := (lettermap p).contains x.nt

/-- The IUPAC meaning of a code on the four nucleotides (the specification of C16). -/
def iupac : Nt → List Nt
  | .A => [.A] | .C => [.C] | .G => [.G] | .T => [.T]
  | .R => [.A, .G] | .Y => [.C, .T] | .S => [.C, .G] | .W => [.A, .T]
  | .K => [.G, .T] | .M => [.A, .C]
  | .B => [.C, .G, .T] | .D => [.A, .G, .T] | .H => [.A, .C, .T] | .V => [.A, .C, .G]
  | .N => [.A, .C, .G, .T]

def Nt.isBase : Nt → Bool
  | .A | .C | .G | .T => true
  | _ => false

end Moclo
