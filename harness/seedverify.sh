#!/bin/sh
# usage: seedverify.sh <PROP> <n>   — confirm a sub-agent's mutant in its scratch worktree:
#   demo passes on the clean tree, fails with the patch, whole test suite passes with the patch.
P=$1; N=$2; W=/tmp/mut-$P; M=$W/mutants/$N; LOG=/tmp/mutverify/$P-$N.log
cd $W || exit 2
git checkout -q -- . 
{
echo "== clean demo"; MOCLO_ROOT=$W /venv/bin/python $M/demo.py >/dev/null 2>&1; echo "clean_demo_exit=$?"
git apply $M/patch.diff || { echo "apply_failed=1"; exit 0; }
echo "== patched demo"; MOCLO_ROOT=$W /venv/bin/python $M/demo.py >/dev/null 2>&1; echo "patched_demo_exit=$?"
echo "== tests"; /venv/bin/python -m pytest -q -p no:cacheprovider --timeout=900 2>&1 | tail -1
git checkout -q -- .
echo "done"
} > $LOG 2>&1
