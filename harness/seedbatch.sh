#!/bin/sh
# usage: seedbatch.sh C13 C15 ...  — verify, ingest and run the target check for both mutants of each property
for P in "$@"; do
  for N in ${NS:-1 2}; do
    [ -d /tmp/mut-$P/mutants/$N ] || { echo "$P-$N missing"; continue; }
    /verif/harness/seedverify.sh $P $N
    /venv/bin/python /verif/harness/seedingest.py $P $N 2>&1 | grep -v WARNING | tail -1
    [ -d /verif/seeded/$P-$N ] && /venv/bin/python /verif/harness/seedrun.py $P-$N 2>&1 | grep -v WARNING | tail -1
  done
done
