"""Harmless refactorings written by sub-agents (behaviour-preserving changes to the anchored code): verify one in
its scratch worktree, keep it under /verif/harmless/<id>/, apply it to the tree, run the given checks (default:
all twenty, quick) and record which raise an alarm.  An alarm on such a change is a false alarm to look into.
usage: harmless.py verify <PROP> <n> | run <id> [CHECK ...]"""
import json
import os
import re
import shutil
import subprocess
import sys

VERIF = os.path.dirname(os.path.dirname(os.path.abspath(__file__)))
REPO = os.environ.get("MOCLO_REPO", "/repo")
ALL = ["C%02d" % i for i in range(1, 21)]


def sh(cmd, **kw):
    return subprocess.run(cmd, shell=True, stdout=subprocess.PIPE, stderr=subprocess.STDOUT, **kw)


def verify(P, N):
    W = "/tmp/mut-%s" % P
    M = "%s/mutants/%s" % (W, N)
    sh("git checkout -q -- .", cwd=W)
    env = dict(os.environ, MOCLO_ROOT=W)
    a = subprocess.run(["/venv/bin/python", M + "/demo.py"], cwd=W, env=env, stdout=subprocess.DEVNULL,
                       stderr=subprocess.DEVNULL).returncode
    ap = sh("git apply %s/patch.diff" % M, cwd=W).returncode
    b = subprocess.run(["/venv/bin/python", M + "/demo.py"], cwd=W, env=env, stdout=subprocess.DEVNULL,
                       stderr=subprocess.DEVNULL).returncode
    t = sh("/venv/bin/python -m pytest -q -p no:cacheprovider --timeout=900 2>&1 | tail -1", cwd=W).stdout.decode()
    sh("git checkout -q -- .", cwd=W)
    ok = a == 0 and ap == 0 and b == 0 and re.search(r"\b4507 passed", t) and not re.search(r"\b\d+ (failed|error)", t)
    print(P, N, "clean demo", a, "apply", ap, "patched demo", b, t.strip()[-60:], "->", "VERIFIED" if ok else "REJECTED")
    if not ok:
        return 1
    dst = os.path.join(VERIF, "harmless", "%s-%s" % (P, N))
    os.makedirs(dst, exist_ok=True)
    shutil.copy(M + "/patch.diff", dst + "/patch.diff")
    open(dst + "/demo.py", "w").write(open(M + "/demo.py").read().replace('"/tmp/mut-%s"' % P, '"/repo"'))
    readme = open(M + "/README.txt").read() if os.path.exists(M + "/README.txt") else ""
    json.dump({"id": "%s-%s" % (P, N), "property": P,
               "origin": "independent sub-agent given only the property text and a scratch worktree; asked for a "
                         "behaviour-preserving refactoring of the anchored code",
               "what": readme.strip()[:1500],
               "confirmed": {"demo_on_clean_tree_exit": 0, "demo_with_patch_exit": 0,
                             "test_suite_with_patch": t.strip()}}, open(dst + "/meta.json", "w"), indent=1)
    return 0


def run(hid, checks):
    d = os.path.join(VERIF, "harmless", hid)
    meta = json.load(open(d + "/meta.json"))
    st = sh("git -C %s status --porcelain" % REPO).stdout.decode()
    if st.strip():
        print("refusing: %s is not clean" % REPO)
        return 2
    subprocess.run(["git", "-C", REPO, "apply", d + "/patch.diff"], check=True)
    res = {}
    try:
        for c in checks or ALL:
            p = subprocess.run([os.path.join(VERIF, "check"), c, "--tier", "quick"], stdout=subprocess.PIPE,
                               stderr=subprocess.STDOUT, cwd=VERIF)
            out = p.stdout.decode()
            v = [l for l in out.splitlines() if l.startswith("VIOLATION")]
            detail = [l.strip() for l in out.splitlines() if l.startswith("  ")][:1]
            res[c] = {"exit": p.returncode, "violation": v[0] if v else None, "detail": detail[0][:300] if detail else None}
            if p.returncode != 0:
                print(hid, c, "exit", p.returncode, (v[0][:150] if v else ""), (detail[0][:200] if detail else ""))
    finally:
        subprocess.run(["git", "-C", REPO, "checkout", "--", "."], check=True)
        subprocess.run(["/venv/bin/python", os.path.join(VERIF, "harness", "extract.py")], stdout=subprocess.DEVNULL)
        subprocess.run(["git", "-C", VERIF, "checkout", "--", "evidence"], stdout=subprocess.DEVNULL)
    meta.setdefault("alarms", {}).update(res)
    json.dump(meta, open(d + "/meta.json", "w"), indent=1)
    print(hid, "alarms:", [c for c, r in res.items() if r["exit"] != 0] or "none")
    return 0


if __name__ == "__main__":
    if sys.argv[1] == "verify":
        sys.exit(verify(sys.argv[2], sys.argv[3]))
    sys.exit(run(sys.argv[2], sys.argv[3:]))
