"""./check Cxx [--tier quick|thorough] [--replay file]

exit 0: property held on everything explored; exit 1: VIOLATION line(s) printed; exit 2: the
machinery itself failed (never a verdict)."""
import argparse
import importlib
import json
import os
import sys
import time
import traceback

HERE = os.path.dirname(os.path.abspath(__file__))
sys.path.insert(0, HERE)
import core  # noqa: E402
from core import Ctx, Infra, VERIF, LEAN  # noqa: E402

TRUSTED = [
    "Lean 4.33.0 kernel; axioms allowed in property theorems: propext, Classical.choice, Quot.sound (audited per theorem on every run)",
    "no sorry/admit/own axiom/native_decide/bv_decide (grep on every run); decide +kernel only over regenerated finite tables",
    "hand-written Lean model (lean/Moclo/Model) tied to /repo by harness/extract.py (regenerated tables) and by the correspondence check (harness/impl.py vs lean driver) on every run",
    "modelled rather than verified: Python re on the fragment letters/groups/X*/X*?, Biopython SeqRecord slicing/addition, location shift/flip, Bio.Restriction cut rule and elucidate() format, Reference.__eq__",
    "harness: extract.py, impl.py canonicalisation, oracles, Model/Wire.lean protocol; /venv Python 3.12 + Biopython 1.88",
]


def load_prop(pid):
    return importlib.import_module("props." + pid.lower())


def extract_tables(tables):
    """regenerate the tables in a process of their own: the process that runs the cases has then asked the library
    nothing yet (no class-level memo or cache is warm when the first case starts)"""
    import ast
    import subprocess
    if not tables:
        return []
    p = subprocess.run([sys.executable, os.path.join(os.path.dirname(os.path.abspath(__file__)), "extract.py")] + list(tables),
                       stdout=subprocess.PIPE, stderr=subprocess.PIPE, text=True, env=dict(os.environ))
    if p.returncode != 0:
        raise Infra("table extraction failed:\n" + (p.stderr or p.stdout)[-3000:])
    for ln in reversed(p.stdout.splitlines()):
        if ln.startswith("changed:"):
            return list(ast.literal_eval(ln[len("changed:"):].strip()))
    return []


def stage_build(prop, ctx):
    with core.Lock("build.lock"):
        changed = extract_tables(getattr(prop, "TABLES", []))
        targets = ["moclo-driver"] + list(prop.LAKE_TARGETS)
        ok, out, failed = core.lake_build(targets)
        if not ok:
            tables = [m for m in failed if m.startswith("Moclo.Tables.")]
            if not tables:
                raise Infra("lake build failed:\n" + out[-4000:])
            # a theorem over a regenerated table no longer checks: proof obligation broken by the tree
            ctx.broken = tables
            ctx.extra["build_output"] = out[-3000:]
            ok2, out2, _ = core.lake_build(["moclo-driver"])
            if not ok2:
                raise Infra("driver build failed:\n" + out2[-4000:])
        ctx.extra["tables_regenerated"] = changed
        bad = core.grep_forbidden()
        if bad:
            raise Infra("forbidden construct in Lean sources: " + "; ".join(bad))
        # audit
        theorems = list(prop.THEOREMS)
        imports = [t for t in prop.LAKE_TARGETS if t not in ctx.broken and not any(
            t.startswith("Moclo.Props") and ctx.broken for _ in [0])]
        if ctx.broken:
            # property module may import the broken table module; audit only what still builds
            imports = [t for t in prop.LAKE_TARGETS if t.startswith("Moclo.Proofs")]
            theorems = []
        res, raw = core.audit(theorems, imports) if theorems else ({}, "")
        ctx.extra["audit"] = res
        discharged = 0
        for t in prop.THEOREMS:
            ax = res.get(t)
            if ax is None:
                if not ctx.broken:
                    raise Infra("theorem not found by audit: {}\n{}".format(t, raw[-2000:]))
                continue
            extra = set(ax) - core.ALLOWED_AXIOMS
            if extra:
                raise Infra("theorem {} depends on disallowed axioms {}".format(t, sorted(extra)))
            discharged += 1
        ctx.extra["obligations"] = len(prop.THEOREMS)
        ctx.extra["discharged"] = discharged
        if ctx.tier == "thorough" and not ctx.broken:
            # independent re-check of the compiled proofs by the toolchain's external checker
            mods = [t for t in prop.LAKE_TARGETS]
            rc, out = core.sh(["lake", "env", "leanchecker"] + mods, cwd=LEAN)
            if rc != 0:
                raise Infra("leanchecker rejected {}:\n{}".format(mods, out[-2000:]))
            ctx.extra["cov_leanchecker"] = "ok: " + " ".join(mods)


def replays_alone(pid, path):
    """does the recorded case fail when a fresh process runs nothing but it?"""
    import subprocess
    p = subprocess.run([sys.executable, os.path.abspath(__file__), pid, "--replay", path], stdout=subprocess.DEVNULL,
                       stderr=subprocess.DEVNULL, env=dict(os.environ, VERIF_NO_HISTORY="1"), timeout=600, cwd=VERIF)
    return p.returncode == 1


def with_history(pid, obj, path, before):
    """A failure may depend on what the same process did earlier (a cache keyed by a record's name, a pattern
    compiled for another class …).  When the failing case passes on its own in a fresh process, the replay is
    given the shortest suffix (by doubling) of the cases that ran before it with which it fails again."""
    t0 = time.time()
    try:
        if replays_alone(pid, path):
            return path
        k = 1
        while time.time() - t0 < 300:
            hist = before[-k:] if k < len(before) else list(before)
            p2 = core.write_replay(pid, dict(obj, history=hist, history_note="the case fails only after the listed "
                                             "cases have run in the same process (it passes on its own)"))
            if replays_alone(pid, p2):
                os.remove(path)
                return p2
            os.remove(p2)
            if k >= len(before):
                break
            k *= 2
    except Exception:  # noqa
        pass
    obj = dict(obj, history_note="the case failed in the run but passes on its own in a fresh process, and no "
                                 "suffix of the run's earlier cases made it fail again there")
    os.remove(path)
    return core.write_replay(pid, obj)


def finish(prop, ctx, tie_broken_search_done):
    pid = ctx.pid
    lines = []
    code = 0
    ctx.drain({"note": "noticed outside a case"})
    for key, n in sorted(ctx.known_hits.items()):
        lines.append("KNOWN-FINDING: property={} {} [{} case(s) this run]".format(pid, ctx.known[(pid, key)], n))
    # known findings that are listed are always announced, hit or not
    for (p, key), text in sorted(ctx.known.items()):
        if p == pid and key not in ctx.known_hits:
            lines.append("KNOWN-FINDING: property={} {}".format(pid, text))
    violations = 0
    if ctx.failures:
        f = ctx.failures[0]
        small, what, tries = f["case"], f["what"], 0
        if hasattr(prop, "check_case") and isinstance(f["case"], dict):
            import shrink
            try:
                small, what, tries = shrink.shrink(prop, lambda: Ctx(pid, ctx.tier, ctx.seed, quiet=True), f["case"], f["what"])
            except Exception:  # noqa
                small, what = f["case"], f["what"]
        at = f.get("at", 0)
        f = {"what": what, "case": small, "key": f.get("key")}
        obj = {"property": pid, "kind": "oracle", "what": f["what"], "case": f["case"],
               "seed": ctx.seed, "tier": ctx.tier, "others": len(ctx.failures) - 1, "shrink_attempts": tries}
        path = core.write_replay(pid, obj)
        if hasattr(prop, "check_case") and isinstance(small, dict) and not os.environ.get("VERIF_NO_HISTORY"):
            path = with_history(pid, obj, path, ctx.history[:max(0, at - 1)])
        lines.append("VIOLATION property={} replay={}".format(pid, path))
        lines.append("  " + f["what"])
        violations = len(ctx.failures)
        code = 1
    elif ctx.broken or ctx.corr_diffs:
        obj = {"property": pid, "kind": "tie-broken", "seed": ctx.seed, "tier": ctx.tier,
               "broken_theorem_modules": ctx.broken,
               "correspondence_diffs": ctx.corr_diffs[:5], "n_diffs": len(ctx.corr_diffs),
               "note": "the model/table no longer matches the implementation and the widened search found no "
                       "input on which the property itself fails; the property is no longer shown to hold"}
        path = core.write_replay(pid, obj)
        lines.append("VIOLATION property={} replay={} no-failing-input-found".format(pid, path))
        violations = 1
        code = 1
    return code, lines, violations


def write_evidence(prop, ctx, violations):
    cov = {
        "obligations": ctx.extra.get("obligations", 0),
        "discharged": ctx.extra.get("discharged", 0),
        "checker_cmd": "cd /verif/lean && lake build {} && lake env lean <#print axioms of the theorems>".format(
            " ".join(prop.LAKE_TARGETS)),
        "trusted_base": TRUSTED,
        "theorems": {t: ctx.extra.get("audit", {}).get(t) for t in prop.THEOREMS},
        "broken_table_theorems": ctx.broken,
        "evaluations": ctx.evaluations,
        "distinct_nontrivial": len(ctx.nontrivial),
        "rule": getattr(prop, "RULE", ""),
        "samples": ctx.samples[:3] if ctx.samples else [{"note": "no non-trivial sample recorded"}],
        "correspondence_ops": ctx.corr_checked,
        "correspondence_disagreements": len(ctx.corr_diffs),
        "distribution": dict(sorted(ctx.stats.items())),
        "known_findings_hit": dict(ctx.known_hits),
        "exhaustive": bool(ctx.extra.get("exhaustive", False)),
    }
    for k, v in ctx.extra.items():
        if k.startswith("cov_"):
            cov[k[4:]] = v
    ev = {
        "property_id": ctx.pid, "tier": ctx.tier, "seed": ctx.seed, "level": "proof",
        "coverage": cov,
        "assumptions": getattr(prop, "ASSUMPTIONS", []),
        "wall_s": round(time.time() - ctx.t0, 2),
        "violations": violations,
    }
    os.makedirs(os.path.join(VERIF, "evidence"), exist_ok=True)
    with open(os.path.join(VERIF, "evidence", ctx.pid + ".json"), "w") as f:
        json.dump(ev, f, indent=1, default=str)


def main():
    ap = argparse.ArgumentParser()
    ap.add_argument("pid")
    ap.add_argument("--tier", default=os.environ.get("VERIF_TIER", "quick"), choices=["quick", "thorough"])
    ap.add_argument("--replay")
    ap.add_argument("--no-build", action="store_true")
    a = ap.parse_args()
    pid = a.pid.upper()
    seed = int(os.environ.get("VERIF_SEED", "0") or 0)
    prop = load_prop(pid)
    ctx = Ctx(pid, a.tier, seed)
    try:
        if a.replay:
            obj = json.load(open(a.replay))
            print(json.dumps({k: v for k, v in obj.items() if k != "case"}, indent=1)[:3000])
            if obj.get("kind") == "oracle":
                core.lake_build(["moclo-driver"])
                for h in obj.get("history", []):
                    try:
                        q = Ctx(pid, a.tier, seed, quiet=True)
                        q.guard(prop.check_case, h)
                    except Exception:  # noqa
                        pass
                ctx.guard(prop.check_case, obj["case"])
                ctx.correspond()
                for f in ctx.failures:
                    print("FAILS on the implementation:", f["what"])
                for d in ctx.corr_diffs:
                    print("model/implementation differ:\n  line  {line}\n  impl  {impl}\n  model {model}".format(**d))
                if not ctx.failures:
                    print("the recorded case passes on this tree")
                return 1 if ctx.failures else 0
            return 0
        if not a.no_build:
            stage_build(prop, ctx)
        prop.run(ctx)
        ctx.correspond()
        if (ctx.broken or ctx.corr_diffs) and not ctx.failures:
            # the tie broke: widened search for an input on which the property itself fails
            ctx.scale = 8
            ctx.stats["widened_search"] = 1
            keep = ctx.ops
            ctx.ops = []
            prop.run(ctx)
            ctx.ops = keep
        code, lines, violations = finish(prop, ctx, True)
        write_evidence(prop, ctx, violations)
        for ln in lines:
            print(ln)
        print("{} {}: {} cases ({} distinct non-trivial), {} correspondence ops, {} theorems, {:.1f}s -> {}".format(
            pid, a.tier, ctx.evaluations, len(ctx.nontrivial), ctx.corr_checked,
            ctx.extra.get("discharged", 0), time.time() - ctx.t0, "FAIL" if code else "ok"))
        return code
    except Infra as e:
        print("INFRA-ERROR property={}: {}".format(pid, e))
        return 2
    except Exception:
        traceback.print_exc()
        print("INFRA-ERROR property={}: harness crashed".format(pid))
        return 2


if __name__ == "__main__":
    sys.exit(main())
