"""Check orchestration: build + audit of the Lean side, case loop, correspondence, verdict,
evidence, replays, known findings."""
import fcntl
import hashlib
import json
import os
import random
import re
import subprocess
import sys
import time
from collections import Counter

HERE = os.path.dirname(os.path.abspath(__file__))
VERIF = os.path.dirname(HERE)
LEAN = os.path.join(VERIF, "lean")
ALLOWED_AXIOMS = {"propext", "Classical.choice", "Quot.sound"}
FORBIDDEN = re.compile(r"\bsorry\b|\badmit\b|^axiom |native_decide|bv_decide|implemented_by|unsafe |maxHeartbeats 0",
                       re.M)


class Infra(Exception):
    """the machinery itself failed (exit 2) — never a verdict about the property"""


def sh(cmd, cwd=None, timeout=3600):
    p = subprocess.run(cmd, cwd=cwd, stdout=subprocess.PIPE, stderr=subprocess.STDOUT, timeout=timeout)
    return p.returncode, p.stdout.decode(errors="replace")


def pick(case, n):
    """a deterministic 1-in-n choice that depends on the case only (so that a replay makes the same choice)"""
    import zlib
    return zlib.crc32(json.dumps(case, sort_keys=True, default=str).encode()) % n == 0


class Lock(object):
    def __init__(self, name):
        d = os.path.join(VERIF, ".locks")
        os.makedirs(d, exist_ok=True)
        self.path = os.path.join(d, name)

    def __enter__(self):
        self.f = open(self.path, "w")
        fcntl.flock(self.f, fcntl.LOCK_EX)
        return self

    def __exit__(self, *a):
        fcntl.flock(self.f, fcntl.LOCK_UN)
        self.f.close()


def strip_comments(src):
    src = re.sub(r"/-.*?-/", "", src, flags=re.S)
    return re.sub(r"--.*", "", src)


def grep_forbidden():
    bad = []
    for root, _, files in os.walk(os.path.join(LEAN, "Moclo")):
        for f in files:
            if f.endswith(".lean"):
                p = os.path.join(root, f)
                m = FORBIDDEN.search(strip_comments(open(p).read()))
                if m:
                    bad.append("{}: {}".format(os.path.relpath(p, LEAN), m.group(0)))
    return bad


def lake_build(targets):
    """build the given targets; returns (ok, output, failed_modules)"""
    rc, out = sh(["lake", "build"] + targets, cwd=LEAN)
    failed = re.findall(r"^- (\S+)", out, flags=re.M)
    return rc == 0, out, failed


def audit(theorems, imports):
    """`#print axioms` for each theorem; returns {name: [axioms]} — missing name = not proved"""
    if not theorems:
        return {}
    src = "".join("import {}\n".format(i) for i in imports)
    src += "".join("#print axioms {}\n".format(t) for t in theorems)
    d = os.path.join(LEAN, ".lake", "audit")
    os.makedirs(d, exist_ok=True)
    path = os.path.join(d, "Audit_{}.lean".format(os.getpid()))
    with open(path, "w") as f:
        f.write(src)
    try:
        rc, out = sh(["lake", "env", "lean", path], cwd=LEAN)
    finally:
        os.unlink(path)
    res = {}
    for m in re.finditer(r"'([^']+)' depends on axioms: \[([^\]]*)\]", out, flags=re.S):
        res[m.group(1)] = [a.strip() for a in m.group(2).replace("\n", " ").split(",") if a.strip()]
    for m in re.finditer(r"'([^']+)' does not depend on any axioms", out):
        res[m.group(1)] = []
    return res, out


def load_known():
    """known_findings.txt: `known: property=C17 key=<key> <text>` and `fixed: property=.. <commit> <text>`"""
    known = {}
    fixed = []
    p = os.path.join(VERIF, "known_findings.txt")
    if os.path.exists(p):
        for ln in open(p):
            ln = ln.strip()
            m = re.match(r"known: property=(\S+) key=(\S+) (.*)", ln)
            if m:
                known[(m.group(1), m.group(2))] = m.group(3)
            elif ln.startswith("fixed:"):
                fixed.append(ln)
    return known, fixed


def jhash(obj):
    return hashlib.sha1(json.dumps(obj, sort_keys=True, default=str).encode()).hexdigest()[:12]


class Ctx(object):
    def __init__(self, pid, tier, seed, quiet=False):
        self.pid = pid
        self.tier = tier
        self.seed = seed
        self.rng = random.Random("{}-{}".format(pid, seed))
        self.t0 = time.time()
        self.stats = Counter()
        self.evaluations = 0
        self.nontrivial = set()
        self.samples = []
        self.failures = []      # oracle failures: dict(what, key, case)
        self.history = []       # the cases run so far, in order (a failure may depend on what the process did before)
        self._depth = 0
        self.known_hits = Counter()
        self.ops = []           # (op, case) pairs for the correspondence
        self.corr_diffs = []
        self.corr_checked = 0
        self.quiet = quiet
        self.known, self.fixed = load_known()
        self.broken = []        # names of table theorems / modules that no longer check
        self.extra = {}
        self.scale = 1

    # ---- bookkeeping used by the property modules
    def budget(self, quick, thorough):
        return (thorough if self.tier == "thorough" else quick) * self.scale

    def note(self, key, n=1):
        self.stats[key] += n

    def case(self, case, nontrivial, key=None):
        """count one evaluated case; `nontrivial` by the property's rule; distinct by content"""
        self.drain(case)
        self.evaluations += 1
        if nontrivial:
            self.nontrivial.add(jhash(case if key is None else key))
        if len(self.samples) < 3 and nontrivial:
            self.samples.append(case)

    def drain(self, case):
        """inconsistencies noticed by the shared evaluation helpers while this case was being evaluated"""
        import typing_h
        while typing_h.PENDING:
            self.fail(typing_h.PENDING.pop(0), case)

    def fail(self, what, case, key=None):
        """the property fails on `case` on the real implementation"""
        if key is not None and (self.pid, key) in self.known:
            self.known_hits[key] += 1
            return
        self.failures.append({"what": what if len(what) <= 400 else what[:400] + " …", "key": key, "case": case,
                              "at": len(self.history)})

    def guard(self, fn, case, *a):
        """run one case; an exception escaping from the implementation (innermost frame inside /repo or
        Biopython) is a failure of the property on that case, an exception of the harness is re-raised"""
        import traceback
        if self._depth == 0 and isinstance(case, dict):
            self.history.append(case)
        self._depth += 1
        try:
            return fn(self, case, *a)
        except Exception as e:  # noqa
            tb = traceback.extract_tb(e.__traceback__)
            inner = tb[-1].filename if tb else ""
            repo = os.environ.get("MOCLO_REPO", "/repo")
            if inner.startswith(repo) or "/site-packages/" in inner or inner.startswith("<frozen"):
                where = next((f for f in reversed(tb) if f.filename.startswith(repo)), tb[-1])
                self.fail("the implementation raised {}: {} (at {}:{})".format(
                    type(e).__name__, str(e)[:120], os.path.relpath(where.filename, repo), where.lineno), case)
                return None
            raise
        finally:
            self._depth -= 1

    def op(self, op, case=None, reply=None):
        """register an operation for the correspondence; `reply` = the implementation's reply when the
        property module already computed it from the real code"""
        self.ops.append((op, case, reply))

    # ---- correspondence
    def correspond(self):
        import impl
        import wire
        if not self.ops:
            return
        drv = wire.Driver()
        lines = []
        for op, _, _ in self.ops:
            lines.append(impl.line(op))
        replies = drv.run(lines)
        for (op, case, pre), ln, mr in zip(self.ops, lines, replies):
            try:
                ir = pre if pre is not None else impl.run(op)
            except Exception as e:  # noqa
                ir = "raised:" + type(e).__name__
            self.corr_checked += 1
            self.stats["corr:" + op[0]] += 1
            try:
                same = impl.parse_reply(op, ir) == impl.parse_reply(op, mr)
            except Exception:
                same = ir == mr
            if not same:
                self.corr_diffs.append({"line": ln, "impl": ir, "model": mr, "case": case})


def write_replay(pid, obj):
    d = os.path.join(VERIF, "replays")
    os.makedirs(d, exist_ok=True)
    path = os.path.join(d, "{}-{}.json".format(pid, jhash(obj)))
    with open(path, "w") as f:
        json.dump(obj, f, indent=1, default=str)
    return path
