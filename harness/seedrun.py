"""Apply a kept seeded change to /repo, run the given checks (quick), undo it, and record the verdicts.
usage: seedrun.py <seed-id> [CHECK ...]   (default: the property the change targets)"""
import json
import os
import re
import subprocess
import sys

VERIF = os.path.dirname(os.path.dirname(os.path.abspath(__file__)))
REPO = os.environ.get("MOCLO_REPO", "/repo")     # a scratch worktree when the sweep runs beside other work


def main():
    sid = sys.argv[1]
    d = os.path.join(VERIF, "seeded", sid)
    meta = json.load(open(os.path.join(d, "meta.json")))
    checks = sys.argv[2:] or [meta["property"]]
    patch = os.path.join(d, "patch.diff")
    st = subprocess.run(["git", "-C", REPO, "status", "--porcelain"], stdout=subprocess.PIPE).stdout.decode()
    if st.strip():
        print("refusing: " + REPO + " is not clean\n" + st)
        return 2
    subprocess.run(["git", "-C", REPO, "apply", patch], check=True)
    results = {}
    try:
        seeds = os.environ.get("SEEDS", "").split()
        for c in checks:
            for sd in seeds:
                env = dict(os.environ, VERIF_SEED=sd)
                q = subprocess.run([os.path.join(VERIF, "check"), c, "--tier", "quick"], stdout=subprocess.PIPE,
                                   stderr=subprocess.STDOUT, cwd=VERIF, env=env)
                meta.setdefault("detection_by_seed", {}).setdefault(c, {})[sd] = q.returncode
                print(sid, c, "seed", sd, "exit", q.returncode)
            p = subprocess.run([os.path.join(VERIF, "check"), c, "--tier", "quick"], stdout=subprocess.PIPE,
                               stderr=subprocess.STDOUT, cwd=VERIF)
            out = p.stdout.decode()
            v = [l for l in out.splitlines() if l.startswith("VIOLATION")]
            detail = [l.strip() for l in out.splitlines() if l.startswith("  ")][:1]
            results[c] = {"exit": p.returncode, "violation": v[0] if v else None, "detail": detail[0][:300] if detail else None}
            print(sid, c, "exit", p.returncode, (v[0][:140] if v else ""), (detail[0][:160] if detail else ""))
            m = re.search(r"replay=(\S+)", v[0]) if v else None
            if m and os.path.exists(m.group(1)) and "no-failing-input-found" not in v[0]:
                q = subprocess.run([os.path.join(VERIF, "check"), c, "--replay", m.group(1)], stdout=subprocess.PIPE,
                                   stderr=subprocess.STDOUT, cwd=VERIF)
                again = "FAILS on the implementation" in q.stdout.decode()
                results[c]["replay_fails_with_the_change"] = again
                if not again:
                    print(sid, c, "WARNING: the replay does not reproduce the failure with the change applied")
    finally:
        subprocess.run(["git", "-C", REPO, "checkout", "--", "."], check=True)
        # regenerated tables belong to the clean tree again
        subprocess.run(["/venv/bin/python", os.path.join(VERIF, "harness", "extract.py")], stdout=subprocess.DEVNULL)
        # the evidence files describe the unchanged tree, not this excursion
        subprocess.run(["git", "-C", VERIF, "checkout", "--", "evidence"], stdout=subprocess.DEVNULL)
    # a replay must be a genuine witness: the recorded case fails with the change and passes on the clean tree
    for c, r in results.items():
        m = re.search(r"replay=(\S+)", r.get("violation") or "")
        if m and os.path.exists(m.group(1)) and "no-failing-input-found" not in (r.get("violation") or ""):
            q = subprocess.run([os.path.join(VERIF, "check"), c, "--replay", m.group(1)], stdout=subprocess.PIPE,
                               stderr=subprocess.STDOUT, cwd=VERIF, env=dict(os.environ, MOCLO_REPO=REPO))
            ok = "passes on this tree" in q.stdout.decode()
            r["replay_passes_on_clean_tree"] = ok
            if not ok:
                print(sid, c, "WARNING: the replay also fails on the clean tree (not a genuine witness)")
    meta.setdefault("detection", {}).update(results)
    json.dump(meta, open(os.path.join(d, "meta.json"), "w"), indent=1)
    return 0


if __name__ == "__main__":
    sys.exit(main())
