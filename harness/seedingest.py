"""Copy a verified sub-agent mutant into /verif/seeded/<PROP>-<n>/ with a meta.json."""
import json, os, re, shutil, sys
P, N = sys.argv[1], sys.argv[2]
src = "/tmp/mut-%s/mutants/%s" % (P, N)
log = open("/tmp/mutverify/%s-%s.log" % (P, N)).read()
ok = "clean_demo_exit=0" in log and re.search(r"patched_demo_exit=[1-9]", log) and re.search(r"\b4507 passed", log) and not re.search(r"\b\d+ (failed|error)", log)
if not ok:
    print("NOT VERIFIED", P, N, log[-300:]); sys.exit(1)
dst = "/verif/seeded/%s-%s" % (P, N)
os.makedirs(dst, exist_ok=True)
shutil.copy(src + "/patch.diff", dst + "/patch.diff")
demo = open(src + "/demo.py").read().replace('"/tmp/mut-%s"' % P, '"/repo"')
open(dst + "/demo.py", "w").write(demo)
readme = open(src + "/README.txt").read() if os.path.exists(src + "/README.txt") else ""
meta = {"id": "%s-%s" % (P, N), "property": P, "origin": "independent sub-agent given only the property text and a scratch worktree",
        "needs_to_manifest": readme.strip()[:1500],
        "confirmed": {"where": "scratch worktree /tmp/mut-%s (removed afterwards)" % P,
                      "demo_on_clean_tree_exit": 0, "demo_with_patch_exit": "non-zero",
                      "test_suite_with_patch": re.search(r"\d+ passed[^\n]*", log).group(0),
                      "commands": ["git apply mutants/%s/patch.diff" % N, "MOCLO_ROOT=<worktree> /venv/bin/python demo.py",
                                   "/venv/bin/python -m pytest -q -p no:cacheprovider --timeout=900", "git checkout -- ."]}}
json.dump(meta, open(dst + "/meta.json", "w"), indent=1)
print("ingested", dst)
