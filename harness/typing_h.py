"""Shared helpers for the typing properties (C02, C04, C05, C12, C17, C18): evaluation of a class on a
word with the real code, independent occurrence counting, instance generation for kit classes."""
import re

import boot
import gen
import impl
from wire import CRec

_rx_cache = {}


def ref_regex(pat):
    """the class structure transcribed independently of moclo's letter table"""
    if pat not in _rx_cache:
        out = ["(?i)"]
        for t in gen.tokens(pat):
            if t[0] == "open":
                out.append("(")
            elif t[0] == "close":
                out.append(")")
            else:
                cls = "ACGTN" if t[1] == "N" else gen.IUPAC[t[1]]
                s = "[" + cls + "]"
                if t[0] == "star":
                    s += "*" if t[2] else "*?"
                out.append(s)
        _rx_cache[pat] = re.compile("".join(out))
    return _rx_cache[pat]


def match_starts(pat, wd):
    """starts i < n at which the structure fits the one-turn window of the circular word"""
    rx = ref_regex(pat)
    n = len(wd)
    d = wd * 2
    return [i for i in range(n) if rx.match(d, i, i + n) is not None]


PENDING = []       # inconsistencies met by `evaluate`; drained into failures by Ctx.case / Ctx.drain


def evaluate(cls, wd, feats=(), topology=None, container=None):
    """(verdict, up, down, target, placeholder, target-features) on the real code; verdict in
    valid / invalid / illegal / exc:<name>.  The same entity object is then asked again: its answers must not
    drift (an object that says invalid and then hands out overhangs, or whose second target differs from its
    first, is recorded in PENDING and becomes a failure of the case being evaluated)."""
    rec = impl.mk_record(CRec(0, wd, list(feats), []))
    if topology is not None:
        rec.annotations["topology"] = topology        # "circular" in any letter case is what GenBank files may say
    if len(wd) % 3 == 1:
        # a sequence-verified clone: per-letter qualities travel with the record
        rec.letter_annotations["phred_quality"] = [20 + (i * 7) % 21 for i in range(len(wd))]
    if container == "seqrecord":
        # the plasmid as Bio.SeqIO hands it over: a plain SeqRecord that declares its topology
        rec = impl.SeqRecord(rec.seq, id=rec.id, name=rec.name, features=list(rec.features),
                             annotations=dict(rec.annotations, topology=topology or "circular"))
    ent = cls(rec)
    try:
        ok = ent.is_valid()
    except Exception as e:  # noqa
        return ("exc:" + type(e).__name__,)
    if not ok:
        try:
            ent.overhang_start()
            res = ("invalid-but-overhang-returned",)
            PENDING.append("{} on {!r}: is_valid() is False but overhang_start() returns a value".format(
                cls.__name__, wd))
        except boot.errors.IllegalSite:
            res = ("illegal",)
        except boot.errors.InvalidSequence:
            res = ("invalid",)
        except Exception as e:  # noqa
            res = ("exc:" + type(e).__name__,)
        try:
            again = ent.is_valid()
        except Exception as e:  # noqa
            again = "raises " + type(e).__name__
        if again is not False:
            PENDING.append("{} on {!r}: is_valid() answers False, then {} when the same object is asked again".format(
                cls.__name__, wd, again))
        return res

    def look():
        t = ent.target_sequence()
        ph = str(ent.placeholder_sequence().seq) if isinstance(ent, boot.AbstractVector) else None
        return ("valid" if ent.is_valid() else "invalid", str(ent.overhang_start()), str(ent.overhang_end()),
                str(t.seq), ph, [impl.canon_feature(f) for f in t.features])
    res = look()
    try:
        res2 = look()
    except Exception as e:  # noqa
        res2 = ("raises " + type(e).__name__,)
    if res2 != res:
        i = next((j for j in range(min(len(res), len(res2))) if res[j] != res2[j]), 0)
        what = ["verdict", "upstream overhang", "downstream overhang", "target", "placeholder", "target features"][i]
        PENDING.append("{} on {!r}: asking the same object twice gives a different {}: {!r} then {!r}".format(
            cls.__name__, wd, what, res[i] if i < len(res) else None, res2[i] if i < len(res2) else None))
    return res


def inner_site_instance(rng, cls, lower=None):
    """an instance of the class structure with a further recognition site of its own cutter placed inside
    the wildcard run (i.e. inside the target of a module / the placeholder of a vector), optionally spelt
    in lower case"""
    pat = cls.structure()
    site = cls.cutter.site
    extra = rng.choice([site, gen.rc(site)])
    mode = lower if lower is not None else rng.choice(["upper", "site-lower", "all-lower", "mixed"])
    out = []
    done = False
    for t in gen.tokens(pat):
        if t[0] in ("open", "close"):
            continue
        if t[0] == "cls":
            out.append(rng.choice(gen.IUPAC[t[1]]))
        else:
            run = gen.rnd(rng, rng.randint(0, 6), gen.IUPAC[t[1]])
            if not done and t[1] == "N":
                e = extra.lower() if mode == "site-lower" else extra
                run = gen.rnd(rng, rng.randint(2, 5)) + e + gen.rnd(rng, rng.randint(2 + abs(cls.cutter.ovhg) + 14, 24))
                done = True
            out.append(run)
    wd = "".join(out) + gen.rnd_avoid(rng, rng.randint(0, 8), (site, gen.rc(site)))
    if mode == "all-lower":
        wd = wd.lower()
    elif mode == "mixed":
        wd = gen.recase(rng, wd, "mixed")
    return wd


def kit_instance(rng, cls, extra_sites=False, runlen=None):
    """a plasmid built around an instance of the class structure"""
    pat = cls.structure()
    inst, groups = gen.instantiate(rng, pat, runlen=runlen)
    site = cls.cutter.site
    back = gen.rnd_avoid(rng, rng.randint(0, 12), (site, gen.rc(site)))
    if extra_sites:
        back += rng.choice([site, gen.rc(site)]) + gen.rnd(rng, rng.randint(0, 6))
    return inst + back, groups


def mutate(rng, wd):
    i = rng.randrange(len(wd))
    return wd[:i] + rng.choice([c for c in "ACGT" if c != wd[i].upper()]) + wd[i + 1:]


def critical_rotations(n, cls, every=60):
    cut = cls.cutter
    flank = 2 * (len(cut.site) + (cut.fst5 - len(cut.site)) + abs(cut.ovhg)) + 2
    if n <= every:
        return list(range(n))
    return sorted(set(list(range(0, min(n, flank))) + list(range(max(0, n - flank), n))))


def cut_positions(cls, wd):
    """start positions (mod n) of the single-stranded overhangs the cutter leaves in the circular word,
    found by plain string search from (site, offset, overhang length)"""
    cut = cls.cutter
    site = cut.site.upper()
    off = cut.fst5 - len(site)
    k = abs(cut.ovhg)
    n = len(wd)
    u = wd.upper()
    d = u + u[:len(site) - 1]
    out = set()
    for i in range(n):
        if d.startswith(site, i):
            out.add((i + len(site) + off) % n)
        if d.startswith(gen.rc(site), i):
            out.add((i - off - k) % n)
    return out, k


def circ_slice(wd, a, b):
    """letters a, a+1, …, b-1 (mod n); the whole circle when a == b is never asked"""
    n = len(wd)
    L = (b - a) % n
    return (wd * 2)[a:a + L]
