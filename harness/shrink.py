"""Greedy, time-boxed minimisation of a failing case (a JSON-able value): drop list elements, cut chunks
out of sequence strings, move integers towards zero — keeping a candidate whenever the property's own
check_case still reports the same kind of failure on it."""
import copy
import time


def _paths(x, path=()):
    """all (path, value) pairs of a nested JSON-able value"""
    yield path, x
    if isinstance(x, dict):
        for k, v in x.items():
            yield from _paths(v, path + (k,))
    elif isinstance(x, list):
        for i, v in enumerate(x):
            yield from _paths(v, path + (i,))


def _get(x, path):
    for p in path:
        x = x[p]
    return x


def _set(x, path, v):
    x = copy.deepcopy(x)
    if not path:
        return v
    y = x
    for p in path[:-1]:
        y = y[p]
    y[path[-1]] = v
    return x


def candidates(case, policy):
    """reductions the property declares safe for its cases (`SHRINK` in the property module): names of lists whose
    elements may be dropped (never below one element for the lists a call needs), whether DNA strings may be cut,
    names of integers that may be moved towards zero.  A case that carries data *derived* from its other fields
    (an expected product, a positional expectation) declares nothing and is not shrunk: a reduced case must still
    be a case of the property, otherwise its "failure" would be the harness's, not the implementation's."""
    lists = set(policy.get("lists", ()))
    keep_one = set(policy.get("keep_one", ("mods", "cassettes", "entries", "history")))
    ints = set(policy.get("ints", ()))
    for path, v in list(_paths(case)):
        name = path[-1] if path else None
        if isinstance(v, list) and v and name in lists:
            if len(v) == 1 and name in keep_one:
                continue
            for i in range(len(v)):
                yield _set(case, path, v[:i] + v[i + 1:])
        elif policy.get("strings") and isinstance(v, str) and len(v) > 3 and v.isalpha() \
                and set(v.upper()) <= set("ACGTRYSWKMBDHVN") and name in policy.get("string_keys", ("word", "query")):
            n = len(v)
            for size in (n // 2, n // 4, 3, 1):
                if size < 1:
                    continue
                for start in range(0, n - size + 1, max(1, size)):
                    yield _set(case, path, v[:start] + v[start + size:])
        elif isinstance(v, bool):
            continue
        elif isinstance(v, int) and v not in (0, 1) and name in ints:
            yield _set(case, path, v // 2)
            yield _set(case, path, 0)


def kind_of(what):
    """the kind of a failure: its message with numbers and sequence / identifier literals masked"""
    import re
    s = re.sub(r"'[^']*'|\"[^\"]*\"", "'…'", what)
    s = re.sub(r"-?\d+", "#", s)
    s = re.sub(r"\b[ACGTNacgtn]{2,}\b", "…", s)
    return s[:160]


def shrink(prop, ctx_factory, case, what, budget_s=15.0, max_tries=400):
    policy = getattr(prop, "SHRINK", None)
    if not policy:
        return case, what, 0
    if isinstance(case, dict) and any(case.get(k) for k in policy.get("freeze_if", ())):
        return case, what, 0       # this case's fields are derived from one another (a built plasmid): not reducible
    kind = kind_of(what)
    t0 = time.time()
    tries = 0
    improved = True
    while improved and time.time() - t0 < budget_s and tries < max_tries:
        improved = False
        for cand in candidates(case, policy):
            if time.time() - t0 > budget_s or tries >= max_tries:
                break
            tries += 1
            c2 = ctx_factory()
            try:
                prop.check_case(c2, copy.deepcopy(cand))
            except Exception:  # noqa  (a malformed candidate is simply not a reduction)
                continue
            hit = [f for f in c2.failures if kind_of(f["what"]) == kind]
            if hit:
                case, what = cand, hit[0]["what"]
                improved = True
                break
    return case, what, tries
