"""Greedy, time-boxed minimisation of a failing case (a JSON-able value): drop list elements, cut chunks
out of sequence strings, move integers towards zero — keeping a candidate whenever the property's own
check_case still reports the same kind of failure on it."""
import copy
import time


def _paths(x, path=()):
    """all (path, value) pairs of a nested JSON-able value"""
    yield path, x
    if isinstance(x, dict):
        for k, v in x.items():
            yield from _paths(v, path + (k,))
    elif isinstance(x, list):
        for i, v in enumerate(x):
            yield from _paths(v, path + (i,))


def _get(x, path):
    for p in path:
        x = x[p]
    return x


def _set(x, path, v):
    x = copy.deepcopy(x)
    if not path:
        return v
    y = x
    for p in path[:-1]:
        y = y[p]
    y[path[-1]] = v
    return x


def candidates(case):
    for path, v in list(_paths(case)):
        if isinstance(v, list) and len(v) > 0 and path and path[-1] not in ("parts",):
            # drop one element (largest structures first)
            for i in range(len(v)):
                yield _set(case, path, v[:i] + v[i + 1:])
        elif isinstance(v, str) and len(v) > 3 and v.isalpha() and set(v.upper()) <= set("ACGTRYSWKMBDHVN"):
            n = len(v)
            for size in (n // 2, n // 4, 3, 1):
                if size < 1:
                    continue
                for start in range(0, n - size + 1, max(1, size)):
                    yield _set(case, path, v[:start] + v[start + size:])
        elif isinstance(v, bool):
            continue
        elif isinstance(v, int) and v not in (0, 1) and path and path[-1] in ("k", "k2", "m", "rot", "rv", "a", "b", "pos"):
            yield _set(case, path, v // 2)
            yield _set(case, path, 0)


def shrink(prop, ctx_factory, case, what, budget_s=15.0, max_tries=400):
    kind = what[:25]
    t0 = time.time()
    tries = 0
    improved = True
    while improved and time.time() - t0 < budget_s and tries < max_tries:
        improved = False
        for cand in candidates(case):
            if time.time() - t0 > budget_s or tries >= max_tries:
                break
            tries += 1
            c2 = ctx_factory()
            try:
                prop.check_case(c2, copy.deepcopy(cand))
            except Exception:  # noqa  (a malformed candidate is simply not a reduction)
                continue
            hit = [f for f in c2.failures if f["what"][:25] == kind]
            if hit:
                case, what = cand, hit[0]["what"]
                improved = True
                break
    return case, what, tries
