"""Shared helpers for the assembly-level properties: JSON-able assembly cases, class naming,
conversion to protocol operations, the documented product formula computed by string operations."""
import boot
import gen
import impl
from impl import EntSpec
from wire import CRec, feats_to_json, feats_from_json

_enz = {}
_part_cache = {}


def enzyme(name):
    if not _enz:
        for e in boot.Restriction.AllEnzymes:
            _enz[str(e)] = e
    return _enz[name]


def cls_by_name(name):
    p = name.split(":")
    if p[0] == "generic":
        M, V = impl.generic_classes(enzyme(p[2]))
        return M if p[1] == "M" else V
    if p[0] == "kit":
        mod, cls = p[1].split(".")
        return getattr(boot.kit_modules()[mod], cls)
    if p[0] == "part":
        key = tuple(p)
        if key not in _part_cache:
            base = boot.AbstractModule if p[1] == "M" else boot.AbstractVector
            _part_cache[key] = type("Part_" + "_".join(p[1:]), (boot.AbstractPart, base),
                                    {"cutter": enzyme(p[2]), "signature": (p[3], p[4])})
        return _part_cache[key]
    raise ValueError(name)


def cls_name(cls):
    if cls.__module__.startswith("moclo.kits."):
        return "kit:{}.{}".format(cls.__module__.split(".")[-1], cls.__name__)
    raise ValueError(cls)


def ent_json(oid, cls, word, feats=(), refs=(), faulty=False, rid=None):
    return {"oid": oid, "rid": oid if rid is None else rid, "cls": cls, "word": word,
            "feats": feats_to_json(feats), "refs": list(refs), "faulty": bool(faulty)}


def ent_spec(j):
    return EntSpec(j["oid"], cls_by_name(j["cls"]),
                   CRec(j["rid"], j["word"], feats_from_json(j["feats"]), list(j["refs"])), j.get("faulty", False))


def asm_op(case):
    return ("ASM", case.get("pid", 1), case.get("pname", 2), ent_spec(case["vector"]),
            [ent_spec(m) for m in case["mods"]])


def gen_wellformed(rng, enz, nmods=None):
    """a well-formed assembly (C01's input space): vector + chain, every plasmid with exactly the two sites,
    at a random rotation, modules in random argument order; returns the case and the expected product"""
    nmods = nmods or rng.randint(1, 5)
    g = gen.gen_assembly(rng, enz, nmods)
    if g is None:
        return None
    (vw, vd), mods, expected = g
    name = str(enz)
    site, off, k = gen.geom(enz)
    flank = len(site) + off + k
    def rotated(wd):
        n = len(wd)
        r = rng.random()
        if r < 0.5:
            # origin inside the flanking structure (the rotations registry authors avoid)
            return rng.randrange(0, min(n, 2 * flank + 4))
        return rng.randrange(n)
    v = ent_json(0, "generic:V:" + name, gen.rot(vw, -rotated(vw)))
    ms = [ent_json(i + 1, "generic:M:" + name, gen.rot(mw, -rotated(mw))) for i, (mw, md) in enumerate(mods)]
    order = list(range(len(ms)))
    rng.shuffle(order)
    case = {"enz": name, "vector": v, "mods": [ms[i] for i in order], "pid": rng.randrange(100),
            "pname": rng.randrange(100)}
    info = {"expected": expected, "vparts": vd, "mparts": [md for _, md in mods], "chain": [i + 1 for i in range(len(ms))]}
    return case, info


def pick_enzymes(rng, count):
    """every distinct geometry is visited before any repeats"""
    enzs = boot.supported_enzymes()
    by_geom = {}
    for e in enzs:
        by_geom.setdefault(gen.geom(e)[1:] + (len(e.site),), []).append(e)
    geoms = sorted(by_geom)
    out = []
    while len(out) < count:
        rng.shuffle(geoms)
        for g in geoms:
            out.append(rng.choice(by_geom[g]))
    return out[:count]


def canon_rot(s):
    s = s.upper()
    return min(s[i:] + s[:i] for i in range(len(s))) if s else s
