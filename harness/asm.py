"""Shared helpers for the assembly-level properties: JSON-able assembly cases, class naming,
conversion to protocol operations, the documented product formula computed by string operations."""
import boot
import gen
import impl
from impl import EntSpec
from wire import CRec, feats_to_json, feats_from_json

_enz = {}
_part_cache = {}


def enzyme(name):
    if not _enz:
        for e in boot.Restriction.AllEnzymes:
            _enz[str(e)] = e
    return _enz[name]


def cls_by_name(name):
    p = name.split(":")
    if p[0] == "generic":
        M, V = impl.generic_classes(enzyme(p[2]))
        return M if p[1] == "M" else V
    if p[0] == "kit":
        mod, cls = p[1].split(".")
        return getattr(boot.kit_modules()[mod], cls)
    if p[0] == "part":
        key = tuple(p)
        if key not in _part_cache:
            base = boot.AbstractModule if p[1] == "M" else boot.AbstractVector
            _part_cache[key] = type("Part_" + "_".join(p[1:]), (boot.AbstractPart, base),
                                    {"cutter": enzyme(p[2]), "signature": (p[3], p[4])})
        return _part_cache[key]
    raise ValueError(name)


def cls_name(cls):
    if cls.__module__.startswith("moclo.kits."):
        return "kit:{}.{}".format(cls.__module__.split(".")[-1], cls.__name__)
    raise ValueError(cls)


def ent_json(oid, cls, word, feats=(), refs=(), faulty=False, rid=None):
    return {"oid": oid, "rid": oid if rid is None else rid, "cls": cls, "word": word,
            "feats": feats_to_json(feats), "refs": list(refs), "faulty": bool(faulty)}


def ent_spec(j):
    return EntSpec(j["oid"], cls_by_name(j["cls"]),
                   CRec(j["rid"], j["word"], feats_from_json(j["feats"]), list(j["refs"])), j.get("faulty", False), j.get("topo"))


def asm_op(case):
    return ("ASM", case.get("pid", 1), case.get("pname", 2), ent_spec(case["vector"]),
            [ent_spec(m) for m in case["mods"]])


def gen_wellformed(rng, enz, nmods=None, closing=None):
    """a well-formed assembly (C01's input space): vector + chain, every plasmid with exactly the two sites,
    at a random rotation, modules in random argument order; returns the case and the expected product"""
    nmods = nmods or rng.randint(1, 5)
    # one case in five carries ambiguous base calls (N) outside its sites and overhangs
    g = gen.gen_assembly(rng, enz, nmods, closing=closing, ns=rng.choice([0.1, 0.3]) if rng.random() < 0.2 else 0.0)
    if g is None:
        return None
    (vw, vd), mods, expected = g
    name = str(enz)
    site, off, k = gen.geom(enz)
    flank = len(site) + off + k
    def rotated(wd):
        n = len(wd)
        r = rng.random()
        if r < 0.5:
            # origin inside the flanking structure (the rotations registry authors avoid)
            return rng.randrange(0, min(n, 2 * flank + 4))
        return rng.randrange(n)
    v = ent_json(0, "generic:V:" + name, gen.rot(vw, -rotated(vw)))
    ms = [ent_json(i + 1, "generic:M:" + name, gen.rot(mw, -rotated(mw))) for i, (mw, md) in enumerate(mods)]
    order = list(range(len(ms)))
    rng.shuffle(order)
    case = {"enz": name, "vector": v, "mods": [ms[i] for i in order], "pid": rng.randrange(100),
            "pname": rng.randrange(100)}
    if rng.random() < 0.3:
        # the topology a GenBank file declares, in the spellings CircularRecord accepts
        for e in [v] + ms:
            if rng.random() < 0.7:
                e["topo"] = rng.choice(["circular", "Circular", "CIRCULAR", "cIrCuLaR"])
    if rng.random() < 0.3:
        # documented inputs: feature tables, reference lists and citations (a property module that generates its own
        # annotations overwrites these)
        for e in [v] + ms:
            if rng.random() < 0.7:
                n = len(e["word"])
                refs = rng.sample(range(100, 120), rng.choice([0, 1, 2, 3, 11, 13]))
                feats = [f for f in gen.gen_features(rng, n, rng.choice([1, 2, 4]), allow_cites=len(refs))
                         if all(0 <= p[0] <= p[1] <= n for p in f.parts)]
                e["refs"] = refs
                e["feats"] = feats_to_json(feats)
    info = {"expected": expected, "vparts": vd, "mparts": [md for _, md in mods], "chain": [i + 1 for i in range(len(ms))]}
    return case, info


def pick_enzymes(rng, count):
    """every distinct geometry is visited before any repeats"""
    enzs = boot.supported_enzymes()
    by_geom = {}
    for e in enzs:
        by_geom.setdefault(gen.geom(e)[1:] + (len(e.site),), []).append(e)
    geoms = sorted(by_geom)
    out = []
    while len(out) < count:
        rng.shuffle(geoms)
        for g in geoms:
            out.append(rng.choice(by_geom[g]))
    return out[:count]


def canon_rot(s):
    s = s.upper()
    return min(s[i:] + s[:i] for i in range(len(s))) if s else s


def _outcome(reply):
    f = reply.split("\t")
    return tuple(f[:f.index("INPUTS")])


def lifecycle(ctx, case, pretouch=False, edit=False):
    """the same entity objects used over time: (pretouch) the public `target_sequence()` is asked before the
    first assembly; the assembly is run twice on the same objects; (edit) a module's feature table is curated
    in place and the same objects are assembled again.  Every outcome must equal that of a first call on fresh
    objects holding the same data (product compared with all its features and references)."""
    import copy
    op = asm_op(case)
    ents = impl.build_entities(op[3], op[4])
    vec, ms, objs = ents
    if pretouch:
        for e in [vec] + ms:
            try:
                e.target_sequence()
            except Exception:  # noqa
                pass
    fresh, _, _ = impl.run_asm(op)
    r1, _, _ = impl.run_asm(op, entities=ents)
    if _outcome(r1) != _outcome(fresh):
        ctx.fail("assembling objects whose target_sequence() was looked at beforehand gives {} but fresh objects "
                 "give {}".format(_outcome(r1)[:2], _outcome(fresh)[:2]) if pretouch else
                 "the first assembly differs between two sets of fresh objects", case)
        return
    r2, _, _ = impl.run_asm(op, entities=ents)
    if _outcome(r2) != _outcome(fresh):
        ctx.fail("assembling the same objects a second time gives a different product (features, references or "
                 "sequence): {} vs {}".format(_outcome(r2)[1][:200], _outcome(fresh)[1][:200]), case)
        return
    if edit and case["mods"]:
        import random
        rng = random.Random(repr(sorted((m["oid"], m["word"]) for m in case["mods"])))   # same choices on replay
        i = rng.randrange(len(case["mods"]) + 1)        # a module, or (last index) the vector
        case2 = copy.deepcopy(case)
        m = case2["mods"][i] if i < len(case["mods"]) else case2["vector"]
        n = len(m["word"])
        feats = list(m["feats"])
        if feats:
            del feats[rng.randrange(len(feats))]
        a = rng.randrange(n)
        feats.append([1, "u97", [], [[a, rng.randint(a + 1, n), rng.choice([1, -1])]]])
        m["feats"] = feats
        op2 = asm_op(case2)
        spec = op2[4][i] if i < len(case["mods"]) else op2[3]
        live = objs[spec.oid].record
        live.features[:] = impl.mk_record(spec.crec).features
        r3, _, _ = impl.run_asm(op2, entities=ents)
        fresh3, _, _ = impl.run_asm(op2)
        if _outcome(r3) != _outcome(fresh3):
            ctx.fail("after curating the feature table of input {} in place, assembling the same objects again "
                     "does not reflect the edit: {} vs {}".format(m["oid"], _outcome(r3)[1][:200],
                                                                  _outcome(fresh3)[1][:200]), case)
    ctx.note("lifecycle" + ("+pretouch" if pretouch else "") + ("+edit" if edit else ""))
