"""Put /repo's moclo (core + the five kit distributions) on the import path, the way
/repo/tests/__init__.py does.  MOCLO_REPO selects the tree (default /repo)."""
import os
import sys
import warnings

warnings.filterwarnings("ignore")
REPO = os.environ.get("MOCLO_REPO", "/repo")
os.environ.setdefault("MOCLO_VERIF", "1")  # hook guard (no hooks are needed; recorded in MANIFEST)
sys.dont_write_bytecode = True
sys.path.insert(0, os.path.join(REPO, "moclo"))
import moclo.kits  # noqa: E402
import moclo.registry  # noqa: E402

for _ext in ["cidar", "ytk", "ecoflex", "moclo", "plant"]:
    _d = os.path.join(REPO, "moclo-{}".format(_ext))
    moclo.kits.__path__.append(os.path.join(_d, "moclo", "kits"))
    moclo.registry.__path__.append(os.path.join(_d, "moclo", "registry"))

from Bio.Seq import Seq  # noqa: E402,F401
from Bio.SeqRecord import SeqRecord  # noqa: E402,F401
from Bio.SeqFeature import (  # noqa: E402,F401
    SeqFeature, FeatureLocation, CompoundLocation, SimpleLocation, Reference)
from Bio import Restriction  # noqa: E402,F401
from moclo.record import CircularRecord  # noqa: E402,F401
from moclo.regex import DNARegex  # noqa: E402,F401
from moclo import errors  # noqa: E402,F401
from moclo.core import (  # noqa: E402,F401
    AbstractModule, AbstractVector, AbstractPart)

KIT_NAMES = ["cidar", "ytk", "ecoflex", "moclo", "plant"]


def kit_modules():
    import importlib
    return {k: importlib.import_module("moclo.kits." + k) for k in KIT_NAMES}


def kit_classes():
    """The concrete classes of the five kits (have a cutter and a usable structure)."""
    import inspect
    out = []
    seen = set()
    for kname, mod in sorted(kit_modules().items()):
        for name, obj in sorted(vars(mod).items()):
            if not inspect.isclass(obj) or obj.__module__ != mod.__name__:
                continue
            if not issubclass(obj, (AbstractModule, AbstractVector)):
                continue
            if getattr(obj, "cutter", NotImplemented) is NotImplemented:
                continue
            try:
                obj.structure()
            except Exception:
                continue
            if obj in seen:
                continue
            seen.add(obj)
            out.append(obj)
    return out


def supported_enzymes():
    """single-cut, non-palindromic, unambiguous site, downstream cut, 5' overhang"""
    import re
    out = []
    for e in sorted(Restriction.AllEnzymes, key=str):
        try:
            if (e.is_blunt() or e.is_unknown() or not e.is_5overhang()
                    or e.is_palindromic() or e.cut_twice()):
                continue
        except Exception:
            continue
        if not re.fullmatch("[ACGT]+", e.site):
            continue
        if e.fst5 - len(e.site) < 0:
            continue
        out.append(e)
    return out


def three_prime_enzymes():
    """single-cut, non-palindromic, unambiguous site, both cuts downstream of the site, 3' overhang: the cutters
    signature-typed part classes support but the generic classes do not (known finding F9)"""
    import re
    out = []
    for e in sorted(Restriction.AllEnzymes, key=str):
        try:
            if (e.is_blunt() or e.is_unknown() or not e.is_3overhang() or e.is_palindromic() or e.cut_twice()):
                continue
        except Exception:
            continue
        if not re.fullmatch("[ACGT]+", e.site):
            continue
        if e.fst5 - len(e.site) < 0 or e.fst3 is None:
            continue
        out.append(e)
    return out


def degenerate_site_enzymes():
    """single-cut, non-palindromic Type IIS cutters whose recognition site contains an ambiguity code (Eco57MI
    CTGRAG, MmeI TCCRAC …), either overhang side: signature-typed part classes accept them"""
    import re
    out = []
    for e in sorted(Restriction.AllEnzymes, key=str):
        try:
            if e.is_blunt() or e.is_unknown() or e.is_palindromic() or e.cut_twice():
                continue
        except Exception:
            continue
        if re.fullmatch("[ACGT]+", e.site) or not re.fullmatch("[ACGTRYSWKMBDHV]+", e.site):
            continue
        if e.fst5 - len(e.site) < 0 or e.fst3 is None or abs(e.ovhg) < 1:
            continue
        out.append(e)
    return out
