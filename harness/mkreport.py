"""Print markdown tables for DESIGN.md: theorems per property, seeded changes and which check caught them."""
import glob, importlib, json, os, sys
HERE = os.path.dirname(os.path.abspath(__file__)); sys.path.insert(0, HERE)
VERIF = os.path.dirname(HERE)
props = [json.loads(l) for l in open(os.path.join(VERIF, "properties.jsonl"))]
print("| id | Lean theorems (namespace `Moclo.Cxx`) | table theorems it depends on |\n|---|---|---|")
for p in props:
    m = importlib.import_module("props." + p["id"].lower())
    th = ", ".join("`" + t.split(".")[-1] + "`" for t in m.THEOREMS)
    tb = ", ".join(t for t in m.LAKE_TARGETS if t.startswith("Moclo.Tables")) or "–"
    print("| {} | {} | {} |".format(p["id"], th, tb))
print()
print("| seeded change | what it needs to manifest (from the author's README, abridged) | caught by | first report |\n|---|---|---|---|")
for d in sorted(glob.glob(os.path.join(VERIF, "seeded", "*"))):
    meta = json.load(open(os.path.join(d, "meta.json")))
    need = " ".join(meta["needs_to_manifest"].split())[:230].replace("|", "/")
    det = meta.get("detection", {})
    caught = [c for c, r in det.items() if r["exit"] == 1]
    first = next((r["detail"] or r["violation"] for c, r in det.items() if r["exit"] == 1), "")
    print("| {} | {} | {} | {} |".format(meta["id"], need, ", ".join(caught) or "MISSED", (first or "")[:150].replace("|", "/")))
