"""Protocol encoding shared by the implementation side and the model side, plus the
client that pipes operation lines through the compiled Lean driver."""
import os
import subprocess
from collections import namedtuple

HERE = os.path.dirname(os.path.abspath(__file__))
VERIF = os.path.dirname(HERE)
LEAN = os.path.join(VERIF, "lean")
DRIVER = os.path.join(LEAN, ".lake", "build", "bin", "moclo-driver")

LETTERS = "ACGTRYSWKMBDHVN"

# canonical feature: ftype int (0 = source), qual 'u<n>' | 's<rid>' | 'x<repr>', cites tuple of
# 'i<n>' | 'r<n>', parts tuple of (s, e, strand)
Feat = namedtuple("Feat", "ftype qual cites parts")
CRec = namedtuple("CRec", "rid seq feats refs")


def w(s):
    return s if s else "."


def unw(s):
    return "" if s == "." else s


def enc_list(sep, xs):
    xs = list(xs)
    return sep.join(str(x) for x in xs) if xs else "."


def dec_list(sep, s):
    return [] if s == "." else s.split(sep)


def enc_feat(f):
    head = "{},{},{}".format(f.ftype, f.qual, enc_list("+", f.cites))
    return "|".join([head] + ["{},{},{}".format(*p) for p in f.parts])


def dec_feat(s):
    hd, *parts = s.split("|")
    t, q, cs = hd.split(",")
    return Feat(int(t), q, tuple(dec_list("+", cs)),
                tuple(tuple(int(x) for x in p.split(",")) for p in parts))


def enc_feats(fs):
    return enc_list(";", [enc_feat(f) for f in fs])


def dec_feats(s):
    return [dec_feat(x) for x in dec_list(";", s)]


def enc_rec(r):
    return "^".join([str(r.rid), w(r.seq), enc_feats(r.feats), enc_list(",", r.refs)])


def dec_rec(s):
    rid, seq, feats, refs = s.split("^")
    return CRec(int(rid), unw(seq), dec_feats(feats), [int(x) for x in dec_list(",", refs)])


def canon_feats(fs):
    """order-insensitive view of a feature table (Biopython re-sorts, dicts do not leak)"""
    return sorted((f.ftype, f.qual, tuple(f.cites), tuple(f.parts)) for f in fs)


def positions(parts, n):
    """denotation of a location: the multiset of (position mod n, strand)"""
    out = []
    for (s, e, st) in parts:
        for t in range(s, e):
            out.append((t % n, st))
    return sorted(out)


def reading(parts, n):
    """the nucleotides of a location in the order the feature reads them (its own 5'->3'): parts in listed order,
    a minus-strand part from its end to its start; None when a part has no strand (no reading direction)"""
    if not parts or any(st not in (1, -1) for (_, _, st) in parts):
        return None
    out = []
    for (s, e, st) in parts:
        rng_ = range(s, e) if st == 1 else range(e - 1, s - 1, -1)
        out.extend((t % n, st) for t in rng_)
    if len(parts) == 1 and len(out) == n and n > 0:
        # one whole turn: a circle has no first nucleotide (the library keeps a whole-plasmid `source` at [0:n])
        return min(out[i:] + out[:i] for i in range(n))
    return out


def site_positions(parts, n):
    """zero-width parts (between-bases sites): (boundary position mod n, strand)"""
    return sorted((s % n, st) for (s, e, st) in parts if s == e)


class Driver(object):
    """Batch client: run(lines) -> replies (same length)."""

    def __init__(self):
        if not os.path.exists(DRIVER):
            raise RuntimeError("driver not built: " + DRIVER)

    def run(self, lines):
        if not lines:
            return []
        data = "".join(l + "\n" for l in lines)
        p = subprocess.run([DRIVER], input=data.encode(), stdout=subprocess.PIPE,
                           stderr=subprocess.PIPE, check=False)
        if p.returncode != 0:
            raise RuntimeError("driver failed: " + p.stderr.decode()[-2000:])
        out = p.stdout.decode().split("\n")
        if out and out[-1] == "":
            out.pop()
        if len(out) != len(lines):
            raise RuntimeError("driver returned {} lines for {} ops".format(len(out), len(lines)))
        return out


def feat_to_json(f):
    return [f.ftype, f.qual, list(f.cites), [list(p) for p in f.parts]]


def feat_from_json(j):
    return Feat(int(j[0]), j[1], tuple(j[2]), tuple(tuple(int(x) for x in p) for p in j[3]))


def feats_to_json(fs):
    return [feat_to_json(f) for f in fs]


def feats_from_json(js):
    return [feat_from_json(j) for j in js]
