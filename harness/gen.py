"""Seeded generators.  Every random choice comes from the one `random.Random` passed in."""
import re
from wire import Feat, CRec

IUPAC = {"A": "A", "C": "C", "G": "G", "T": "T", "R": "AG", "Y": "CT", "S": "CG", "W": "AT", "K": "GT",
         "M": "AC", "B": "CGT", "D": "AGT", "H": "ACT", "V": "ACG", "N": "ACGT"}
COMP = str.maketrans("ACGTRYSWKMBDHVNacgtryswkmbdhvn", "TGCAYRSWMKVHDBNtgcayrswmkvhdbn")


def rc(s):
    return s.translate(COMP)[::-1]


def rot(s, k):
    if not s:
        return s
    k %= len(s)
    return s[-k:] + s[:-k] if k else s


def rnd(rng, n, alphabet="ACGT"):
    return "".join(rng.choice(alphabet) for _ in range(n))


def rnd_avoid(rng, n, forbid):
    """random ACGT word of length n containing none of the `forbid` words"""
    out = ""
    guard = 0
    while len(out) < n:
        c = rng.choice("ACGT")
        cand = out + c
        if any(cand.endswith(f) for f in forbid if f):
            guard += 1
            if guard > 50:
                out = out[:-1] if out else out
                guard = 0
            continue
        out = cand
    return out


def circ_count(wd, s):
    d = (wd + wd[:len(s) - 1]).upper()
    s = s.upper()
    return sum(1 for i in range(len(wd)) if d.startswith(s, i))


def recase(rng, s, mode=None):
    mode = mode or rng.choice(["lower", "upper", "mixed"])
    if mode == "lower":
        return s.lower()
    if mode == "upper":
        return s.upper()
    if mode == "regional":
        # soft-masking as sequence editors export it: one contiguous stretch (of the circle) in the other case
        n = len(s)
        if n < 2:
            return s.lower()
        a = rng.randrange(n)
        L = rng.randint(1, n - 1)
        inside = set((a + i) % n for i in range(L))
        up_inside = rng.random() < 0.5
        return "".join((c.upper() if (i in inside) == up_inside else c.lower()) for i, c in enumerate(s))
    return "".join(c.lower() if rng.random() < 0.5 else c.upper() for c in s)


def small_len(rng, lo=1, hi=40, tail=400):
    r = rng.random()
    if r < 0.9:
        return rng.randint(lo, hi)
    return rng.randint(hi, tail)


def word(rng, n=None):
    """85 % ACGT upper, 10 % mixed case, 5 % with ambiguity codes"""
    n = small_len(rng) if n is None else n
    r = rng.random()
    if r < 0.85:
        return rnd(rng, n)
    if r < 0.95:
        return recase(rng, rnd(rng, n))
    return recase(rng, rnd(rng, n, "ACGTRYSWKMBDHVN"), rng.choice(["upper", "mixed"]))


def malformed(rng, n=None):
    n = small_len(rng, 1, 30, 80) if n is None else n
    return rnd(rng, n, "ACGTRYSWKMBDHVNacgtryswkmbdhvn")


def geom(enz):
    return enz.site, enz.fst5 - len(enz.site), abs(enz.ovhg)


def with_ns(rng, s, ns):
    """some letters replaced by the ambiguous base call `N` (legal anywhere outside the recognition sites)"""
    if not ns:
        return s
    return "".join("N" if rng.random() < ns else c for c in s)


def gen_module(rng, enz, o5, o3, tlen=None, blen=None, tries=2000, ns=0.0):
    """plasmid  site·x·o5·t·o3·y·rc(site)·b  carrying exactly the two sites"""
    site, off, k = geom(enz)
    for _ in range(tries):
        fb = (site, rc(site))
        x = with_ns(rng, rnd_avoid(rng, off, fb), ns)
        y = with_ns(rng, rnd_avoid(rng, off, fb), ns)
        t = with_ns(rng, rnd_avoid(rng, tlen if tlen is not None else rng.randint(2, 12), fb), ns)
        b = with_ns(rng, rnd_avoid(rng, blen if blen is not None else rng.randint(0, 10), fb), ns)
        wd = site + x + o5 + t + o3 + y + rc(site) + b
        if circ_count(wd, site) == 1 and circ_count(wd, rc(site)) == 1:
            return wd, dict(x=x, y=y, t=t, b=b, o5=o5, o3=o3)
    raise RuntimeError("gen_module failed")


def gen_vector(rng, enz, o5, o3, plen=None, blen=None, tries=2000, ns=0.0):
    """plasmid  o3·b·o5·y·rc(site)·p·site·x  (o3 = upstream overhang, o5 = downstream overhang)"""
    site, off, k = geom(enz)
    for _ in range(tries):
        fb = (site, rc(site))
        x = with_ns(rng, rnd_avoid(rng, off, fb), ns)
        y = with_ns(rng, rnd_avoid(rng, off, fb), ns)
        p = with_ns(rng, rnd_avoid(rng, plen if plen is not None else rng.randint(0, 10), fb), ns)
        b = with_ns(rng, rnd_avoid(rng, blen if blen is not None else rng.randint(2, 12), fb), ns)
        wd = o3 + b + o5 + y + rc(site) + p + site + x
        if circ_count(wd, site) == 1 and circ_count(wd, rc(site)) == 1:
            return wd, dict(x=x, y=y, p=p, b=b, o5=o5, o3=o3)
    raise RuntimeError("gen_vector failed")


def ovh(rng, enz):
    site, off, k = geom(enz)
    return rnd_avoid(rng, k, (site, rc(site)))


def distinct_overhangs(rng, k, count, forbid=()):
    """`count` overhangs, pairwise distinct, none the rc of another or of itself"""
    cap = {1: 2, 2: 4}.get(k, 99)
    count = min(count, cap)
    ovs = []
    while len(ovs) < count:
        o = rnd_avoid(rng, k, forbid)
        if o in ovs or rc(o) in ovs or rc(o) == o:
            continue
        ovs.append(o)
    return ovs


def gen_assembly(rng, enz, nmods, closing=None, ns=0.0):
    """vector + chain of modules with the expected product (documented formula).  `closing`: the overhang on which
    the chain closes (the vector's upstream overhang) is the reverse complement of an inner junction ("rc") or its
    own reverse complement ("pal") — legal: only the modules' *start* overhangs must not pair up"""
    site, off, k = geom(enz)
    ovs = distinct_overhangs(rng, k, nmods + 1, (site, rc(site)))
    nmods = len(ovs) - 1
    if nmods < 1:
        return None
    if closing == "rc" and nmods >= 2:
        cand = rc(ovs[rng.randrange(1, nmods)])
        if cand not in ovs and site not in cand and rc(site) not in cand:
            ovs[nmods] = cand
    elif closing == "pal" and k % 2 == 0 and k >= 2:
        half = rnd_avoid(rng, k // 2, (site, rc(site)))
        cand = half + rc(half)
        if cand not in ovs and all(rc(o) != cand for o in ovs[:nmods]) and site not in cand and rc(site) not in cand:
            ovs[nmods] = cand
    vec = gen_vector(rng, enz, o5=ovs[0], o3=ovs[nmods], ns=ns)
    mods = [gen_module(rng, enz, ovs[i], ovs[i + 1], ns=ns) for i in range(nmods)]
    expected = vec[1]["o3"] + vec[1]["b"] + "".join(d["o5"] + d["t"] for _, d in mods)
    return vec, mods, expected


# ---------------------------------------------------------------- feature tables
def gen_part(rng, n, shape=None, sites=False):
    shape = shape or rng.choice(["simple", "simple", "simple", "edge", "over", "neg", "whole"] + (["site"] if sites else []))
    st = rng.choice([1, -1, 0])
    if shape == "site":        # a zero-width location: the GenBank between-bases site `p^p+1` (a cut site)
        s = e = rng.randint(0, n)
    elif shape == "simple" or n < 2:
        s = rng.randrange(0, n)
        e = rng.randint(s + 1, n)
    elif shape == "edge":
        s = rng.choice([0, rng.randrange(0, n)])
        e = n if rng.random() < 0.5 else rng.randint(s + 1, n)
    elif shape == "over":      # as left by a previous rotation: s < n < e <= s + n
        s = rng.randrange(1, n)
        e = rng.randint(n + 1, s + n)
    elif shape == "neg":       # as left by reverse complement of the former: -n < s < 0 < e
        s = -rng.randrange(1, n)
        e = rng.randint(1, s + n)
    else:
        s, e = 0, n
    return (s, e, st)


def gen_feature(rng, n, allow_cites=0, sites=False):
    r = rng.random()
    if r < 0.65:
        parts = (gen_part(rng, n, sites=sites),)
    elif r < 0.8 and n >= 3:   # origin-spanning join, GenBank style
        a = rng.randrange(1, n)
        b = rng.randint(1, a)
        st = rng.choice([1, -1, 0])
        parts = ((a, n, st), (0, b, st)) if st != -1 else ((0, b, st), (a, n, st))
    else:
        st = rng.choice([1, -1, 0])
        mixed = rng.random() < 0.35      # parts on different strands (trans-splicing style joins)
        parts = tuple((p[0], p[1], rng.choice([1, -1]) if mixed else st)
                      for p in (gen_part(rng, n, "simple") for _ in range(rng.randint(2, 3))))
    ftype = rng.choice([0, 1, 1, 2, 3, 4, 5, 6, 7])
    if ftype == 0 and rng.random() < 0.5:
        parts = ((0, n, rng.choice([0, 1])),)
    cites = ()
    if allow_cites and rng.random() < 0.5:
        cites = tuple("i{}".format(allow_cites if rng.random() < 0.3 else rng.randint(1, allow_cites))
                      for _ in range(rng.randint(1, 3)))
    return Feat(ftype, "u{}".format(rng.randrange(0, 50)), cites, parts)


def gen_features(rng, n, count=None, allow_cites=0, sites=False):
    count = rng.choice([0, 1, 2, 3, 5, 8]) if count is None else count
    return [gen_feature(rng, n, allow_cites, sites=sites) for _ in range(count)]


def features_inside(rng, lo, hi, count, n, allow_cites=0):
    """features whose single part lies inside [lo, hi) of a word of length n (boundary-touching ones
    included)"""
    out = []
    for _ in range(count):
        if hi - lo < 1:
            break
        s = rng.choice([lo, rng.randrange(lo, hi)])
        e = rng.choice([hi, rng.randint(s + 1, hi)])
        cites = ()
        if allow_cites and rng.random() < 0.6:
            cites = tuple("i{}".format(allow_cites if rng.random() < 0.3 else rng.randint(1, allow_cites))
                          for _ in range(rng.randint(1, 2)))
        out.append(Feat(rng.randrange(1, 8), "u{}".format(rng.randrange(0, 50)), cites,
                        ((s, e, rng.choice([1, -1, 0])),)))
    return out


def rotate_feats(feats, n, k):
    """reference rotation of GenBank-style features by k (used only to *place* generated inputs;
    the properties about rotation use the implementation's own operator)"""
    out = []
    for f in feats:
        ps = []
        for (s, e, st) in f.parts:
            s2, e2 = s + k, e + k
            if s2 >= n:
                s2 -= n
                e2 -= n
            ps.append((s2, e2, st))
        out.append(f._replace(parts=tuple(ps)))
    return out


def site_instance(rng, site):
    """a concrete spelling of a (possibly degenerate) recognition site"""
    return "".join(rng.choice(IUPAC[c]) for c in site)


def real_part_word(rng, enz, kind, up, down, tries=200):
    """A plasmid that is, by the enzyme's own geometry, a part with upstream overhang `up` and downstream overhang
    `down` for cutter `enz` — built from Bio.Restriction's numbers only (site, fst5/fst3, overhang length and side),
    never from a structure pattern of the library: a concrete spelling of the site, the cut `off` letters further,
    the overhangs where the enzyme leaves them, the second site on the other strand.  Exactly two sites (counted
    by Bio.Restriction's own search, which knows the ambiguity codes).  None if no such word is found."""
    from Bio.Seq import Seq
    site = enz.site
    off = (enz.fst5 - len(site)) if enz.is_5overhang() else enz.fst3
    if off < 0:
        return None
    for _ in range(tries):
        f = site_instance(rng, site)
        r = rc(site_instance(rng, site))
        if kind == "M":
            wd = f + rnd(rng, off) + up + rnd(rng, rng.randint(2, 12)) + down + rnd(rng, off) + r + rnd(rng, rng.randint(2, 10))
        else:
            wd = rnd(rng, 1) + down + rnd(rng, off) + r + rnd(rng, rng.randint(0, 8)) + f + rnd(rng, off) + up + \
                rnd(rng, rng.randint(3, 12))
        if len(enz.search(Seq(wd), linear=False)) == 2:
            return wd
    return None


# ---------------------------------------------------------------- patterns
def tokens(pat):
    """DNA regex syntax -> list of ('cls', c) | ('star', c, greedy) | ('open',) | ('close',).
    Equivalent spellings are normalised: `X+` = `X X*`, `X+?` = `X X*?`, `X{n}` = n times `X`, `X{m,}` = m times `X` then `X*`."""
    out = []
    i = 0
    while i < len(pat):
        c = pat[i]
        if c == "(":
            out.append(("open",))
            i += 1
        elif c == ")":
            out.append(("close",))
            i += 1
        elif pat[i + 1:i + 3] == "*?":
            out.append(("star", c, False))
            i += 3
        elif pat[i + 1:i + 2] == "*":
            out.append(("star", c, True))
            i += 2
        elif pat[i + 1:i + 3] == "+?":
            out += [("cls", c), ("star", c, False)]
            i += 3
        elif pat[i + 1:i + 2] == "+":
            out += [("cls", c), ("star", c, True)]
            i += 2
        elif pat[i + 1:i + 2] == "{" and "}" in pat[i + 2:] and pat[i + 2:pat.index("}", i + 2)].endswith(",") \
                and pat[i + 2:pat.index("}", i + 2)][:-1].isdigit():
            # `X{m,}` = m times `X` then `X*` (lazy with a trailing `?`)
            j = pat.index("}", i + 2)
            lazy = pat[j + 1:j + 2] == "?"
            out += [("cls", c)] * int(pat[i + 2:j - 1]) + [("star", c, not lazy)]
            i = j + (2 if lazy else 1)
        elif pat[i + 1:i + 2] == "{" and "}" in pat[i + 2:] and pat[i + 2:pat.index("}", i + 2)].isdigit():
            j = pat.index("}", i + 2)
            out += [("cls", c)] * int(pat[i + 2:j])
            i = j + 1
        else:
            out.append(("cls", c))
            i += 1
    return out


def canon_pat(pat):
    """the pattern in the one spelling the model's protocol reads (letters, `X*`, `X*?`, groups): equivalent
    spellings of a structure (`N{4}`, `N+`) are not differences"""
    out = []
    for t in tokens(pat):
        if t[0] == "open":
            out.append("(")
        elif t[0] == "close":
            out.append(")")
        elif t[0] == "cls":
            out.append(t[1])
        else:
            out.append(t[1] + ("*" if t[2] else "*?"))
    return "".join(out)


def instantiate(rng, pat, runlen=None, forbid=()):
    """a word fitting the pattern, with the text of each group"""
    for _ in range(500):
        s = []
        groups = []
        cur = None
        for t in tokens(pat):
            if t[0] == "open":
                cur = len(s)
            elif t[0] == "close":
                groups.append("".join(s[cur:]))
            elif t[0] == "cls":
                s.append(rng.choice(IUPAC[t[1]]))
            else:
                m = runlen if runlen is not None else rng.choice([0, 1, 2, 3, 5, 8, 13, 30])
                s.append(rnd(rng, m, IUPAC[t[1]]))
        s = "".join(s)
        return s, groups
    raise RuntimeError("instantiate failed")


def random_pattern(rng, max_items=6):
    """random pattern of the supported fragment: letters incl. ambiguity codes, flat groups,
    greedy / lazy runs of any class"""
    items = []
    depth = 0
    for _ in range(rng.randint(1, max_items)):
        r = rng.random()
        if r < 0.55:
            items.append(rng.choice("ACGTACGTACGTNNRYSWKMBDHV"))
        elif r < 0.75:
            items.append(rng.choice("NNNACGTRYSW") + rng.choice(["*", "*?"]))
        elif depth == 0:
            items.append("(")
            depth = 1
        else:
            items.append(")")
            depth = 0
    if depth:
        items.append(")")
    return "".join(items)


def source_lookalikes(n):
    """three-part locations whose first listed part starts at 0 and whose last listed part ends at n (overlapping,
    gapped, summing to n or not): everything a hasty test for "the whole-plasmid source feature" could mistake for it"""
    for a in range(1, n + 1):
        for b in range(0, n):
            for c in range(b + 1, n + 1):
                for d in range(0, n):
                    yield ((0, a), (b, c), (d, n))
