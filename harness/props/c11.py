"""C11 — products of one level are valid modules of the next level"""
import asm
import boot
import gen
import impl
import typing_h as T

TABLES = ["Kits"]
LAKE_TARGETS = ["Moclo.Props.C11", "Moclo.Tables.Kits"]
THEOREMS = ["Moclo.C11." + t for t in ["kit_vectors_next_level", "vector_flanks", "product_shape", "ytk_structures", "ytk_product_layout", "ytk_pair", "product_enters_next_level"]] + ["Moclo.C01.module_canonical"]
RULE = ("for each (vector class, module class, next-level class) triple of the kits: vectors instantiating the vector "
        "structure with random letters, chains of 1-3 inserts of the module class, all at random rotations, such "
        "that each plasmid has exactly its two sites and the product exactly the two next-level sites; the product "
        "must be accepted by the next-level class with the whole insert inside its target; two-level compositions "
        "where the kit provides them. non-trivial = the first-level assembly succeeds and the product carries "
        "exactly two next-level sites; distinct by content")
ASSUMPTIONS = ["inserts of at least two nucleotides", "the product contains no next-level site other than the two the "
               "design provides (checked, other products are skipped)"]

TRIPLES = [("cidar.CIDAREntryVector", "cidar.CIDARProduct", "cidar.CIDAREntry"),
           ("cidar.CIDARCassetteVector", "cidar.CIDAREntry", "cidar.CIDARCassette"),
           ("cidar.CIDARDeviceVector", "cidar.CIDARCassette", "cidar.CIDARDevice"),
           ("ecoflex.EcoFlexCassetteVector", "ecoflex.EcoFlexEntry", "ecoflex.EcoFlexCassette"),
           ("ecoflex.EcoFlexDeviceVector", "ecoflex.EcoFlexCassette", "ecoflex.EcoFlexDevice"),
           ("moclo.MoCloEntryVector", "moclo.MoCloProduct", "moclo.MoCloEntry"),
           ("moclo.MoCloCassetteVector", "moclo.MoCloEntry", "moclo.MoCloCassette"),
           ("ytk.YTKEntryVector", "ytk.YTKProduct", "ytk.YTKEntry"),
           # the kits' levels form a loop: a device is itself a module of the cassette level
           ("cidar.CIDARCassetteVector", "cidar.CIDARDevice", "cidar.CIDARCassette"),
           ("ecoflex.EcoFlexCassetteVector", "ecoflex.EcoFlexDevice", "ecoflex.EcoFlexCassette")]


def sites(wd, enz):
    wd = wd.upper()
    return gen.circ_count(wd, enz.site) + gen.circ_count(wd, gen.rc(enz.site))


def inst_with(rng, pat, g1, g3, runlen, forbid):
    """instance of the pattern with groups 1 and 3 forced"""
    s = []
    spans = []
    cur = None
    for t in gen.tokens(pat):
        if t[0] == "open":
            cur = len("".join(s))
        elif t[0] == "close":
            spans.append((cur, len("".join(s))))
        elif t[0] == "cls":
            s.append(rng.choice(gen.IUPAC[t[1]]))
        else:
            s.append(gen.rnd_avoid(rng, runlen if runlen is not None else rng.randint(0, 10), forbid))
    s = "".join(s)
    for gi, val in ((0, g1), (2, g3)):
        if val is not None:
            a, b = spans[gi]
            if b - a != len(val):
                return None, None
            s = s[:a] + val + s[b:]
    return s, [s[a:b] for a, b in spans]


def build(rng, triple):
    V = asm.cls_by_name("kit:" + triple[0])
    M = asm.cls_by_name("kit:" + triple[1])
    Nx = asm.cls_by_name("kit:" + triple[2])
    ytk = triple[0].startswith("ytk.")
    k = abs(V.cutter.ovhg)
    forbid = tuple({V.cutter.site, gen.rc(V.cutter.site), Nx.cutter.site, gen.rc(Nx.cutter.site),
                    M.cutter.site, gen.rc(M.cutter.site)})
    if ytk:
        nm = 1
        # the product's own overhangs are whatever its live structure spells (NNGG / GACC as the kit is now)
        toks = gen.tokens(M.structure())
        g1 = [x[1] for x in toks[toks.index(("open",)) + 1:toks.index(("close",))]]
        closes = [i for i, x in enumerate(toks) if x == ("close",)]
        opens = [i for i, x in enumerate(toks) if x == ("open",)]
        g3 = [x[1] for x in toks[opens[2] + 1:closes[2]]]
        for _ in range(200):
            oo = "".join(rng.choice(gen.IUPAC[c]) for c in g1)
            o3 = "".join(rng.choice(gen.IUPAC[c]) for c in g3)
            if gen.rc(oo) != oo and oo != o3 and gen.rc(oo) != o3:
                break
        ovs = [oo, o3]
    else:
        nm = rng.randint(1, 3) if rng.random() < 0.85 else rng.choice([4, 5, 6, 7, 9, 12])     # a kit fixes no number of positions
        ovs = gen.distinct_overhangs(rng, k, nm + 1, forbid)
        if len(ovs) == nm + 1 and nm >= 2 and rng.random() < 0.3:
            # the vector closes on the reverse complement of an inner junction (legal: only start overhangs pair up)
            cand = gen.rc(ovs[rng.randrange(1, nm)])
            if cand not in ovs and not any(x in cand for x in forbid):
                ovs[nm] = cand
    for _ in range(200):
        vs, vg = inst_with(rng, V.structure(), ovs[0], ovs[nm], None, forbid)
        if vs is None:
            return None
        vs += gen.rnd_avoid(rng, rng.randint(2, 10), forbid)
        # the vector is whatever the live structure says; the next-level sites it provides are counted on the
        # product (fewer than two there is a failure of the design, not a reason to skip)
        if sites(vs, V.cutter) == 2 and sites(vs, Nx.cutter) <= (0 if ytk else 2):
            break
    else:
        return None
    ms = []
    for i in range(nm):
        for _ in range(200):
            # YTK: the next-level insert is the lazy run inside group 2; the property asks for >= 2 nt
            s, g = inst_with(rng, M.structure(), ovs[i], ovs[i + 1], rng.randint(2, 10) if ytk else None, forbid)
            if s is None:
                return None
            s += gen.rnd_avoid(rng, rng.randint(0, 8), forbid)
            # (YTK: the two next-level sites come from the product itself; fewer than two on the product is a
            # failure of the design and is reported by check_case, not filtered out here)
            if sites(s, M.cutter) == 2 and (sites(g[0] + g[1] + g[2], Nx.cutter) <= 2 if ytk
                                             else sites(g[0] + g[1] + g[2], Nx.cutter) == 0):
                break
        else:
            return None
        ms.append((s, g))
    vent = asm.ent_json(0, "kit:" + triple[0], gen.rot(vs, rng.randrange(len(vs))))
    ments = [asm.ent_json(i + 1, "kit:" + triple[1], gen.rot(s, rng.randrange(len(s)))) for i, (s, g) in enumerate(ms)]
    rng.shuffle(ments)
    if ytk:
        # a YTK product carries the next level's two BsaI sites inside its own target
        # (TCTC N o1 <template> o2 N GA): what the next level retains is o1 + template
        insert = "".join(g[1][5:-7] for s, g in ms)
    else:
        insert = "".join(g[0] + g[1] for s, g in ms)
    return {"triple": list(triple), "vector": vent, "mods": ments, "insert": insert,
            "pid": 1, "pname": 2}


def materialise(case):
    """A case is a *recipe* (which kit classes, which random choices): the plasmids are instances of whatever the
    classes' structures spell on the tree being checked, so they are built from the recipe each time the case is
    run — a replay must not carry plasmids built from another tree's structures."""
    import random
    kind, arg, rs = case["recipe"]
    r = random.Random(rs)
    fresh = build_two_level(r, arg) if kind == "two" else build(r, tuple(arg))
    if fresh is None:
        return None
    for k in ("swap", "cited", "recipe", "twice", "lower", "manyrefs"):
        if k in case:
            fresh[k] = case[k]
    if case.get("twice") and fresh.get("mods"):
        # a module listed twice (the same object, as in a pooled parts list): it is one module
        import copy
        fresh["mods"] = fresh["mods"] + [copy.deepcopy(fresh["mods"][0])]
    return fresh


def check_case(ctx, case):
    if "recipe" in case:
        case = materialise(case)
        if case is None:
            ctx.note("recipe-not-buildable-on-this-tree")
            return
    if "cassettes" in case:
        return check_two_level(ctx, case)
    Nx = asm.cls_by_name("kit:" + case["triple"][2])
    reply, prod, _ = impl.run_asm(asm.asm_op(case))
    f = reply.split("\t")
    if f[0] != "ok":
        ctx.fail("{}: first-level assembly fails: {}".format(case["triple"][0], f[1]), case)
        return
    pseq = str(prod.seq)
    if sites(pseq, Nx.cutter) > 2:
        ctx.note("skipped-extra-next-level-site")
        return
    if sites(pseq, Nx.cutter) < 2:
        ctx.fail("the product of a {} assembly carries {} {} site(s): the vector structure does not provide the two "
                 "next-level sites".format(case["triple"][0], sites(pseq, Nx.cutter), Nx.cutter), case)
        return
    res = T.evaluate(Nx, pseq)
    insert = case["insert"]
    if res[0] != "valid":
        ctx.fail("the product of a {} assembly is not accepted by {} ({}): {}".format(
            case["triple"][0], Nx.__name__, res[0], pseq), case)
    elif len(insert) >= 2 and insert not in res[3]:
        ctx.fail("{} accepts the product but its target {!r} does not contain the whole insert {!r}".format(
            Nx.__name__, res[3], insert), case)
    else:
        # it can itself be used: at any rotation the verdict stays
        r = (case["recipe"][2] if "recipe" in case else ctx.rng.randrange(len(pseq))) % len(pseq)
        if T.evaluate(Nx, gen.rot(pseq, r))[0] != "valid":
            ctx.fail("the product is accepted by {} but not after rotation by {}".format(Nx.__name__, r), case)
    ctx.note("triple:" + case["triple"][0])
    ctx.case(case, nontrivial=True)
    ctx.op(asm.asm_op(case), None, reply=reply)
    ctx.op(("EVAL", Nx, pseq, []), case)


def build_two_level(rng, kit):
    """entries -> two cassettes -> device, the cassettes keeping the id assemble() gives them by default"""
    names = {"cidar": ("cidar.CIDARCassetteVector", "cidar.CIDAREntry", "cidar.CIDARCassette",
                       "cidar.CIDARDeviceVector", "cidar.CIDARDevice"),
             "ecoflex": ("ecoflex.EcoFlexCassetteVector", "ecoflex.EcoFlexEntry", "ecoflex.EcoFlexCassette",
                         "ecoflex.EcoFlexDeviceVector", "ecoflex.EcoFlexDevice")}[kit]
    CV, E, C, DV, D = [asm.cls_by_name("kit:" + n) for n in names]
    forbid = tuple({x.cutter.site for x in (CV, DV)} | {gen.rc(x.cutter.site) for x in (CV, DV)})
    k = abs(CV.cutter.ovhg)
    ov = gen.distinct_overhangs(rng, k, 5, forbid)       # A, B, C level-2 junctions; X1, X2 inner junctions
    if len(ov) < 5:
        return None
    A, B, Cc, X1, X2 = ov
    cassettes = []
    for (lo, hi, mid) in ((A, B, X1), (B, Cc, X2)):
        for _ in range(100):
            vs, vg = inst_with(rng, CV.structure(), lo, hi, None, forbid)
            if vs is None:
                return None
            vs += gen.rnd_avoid(rng, rng.randint(2, 8), forbid)
            if sites(vs, CV.cutter) == 2 and sites(vs, DV.cutter) <= 2:
                break
        else:
            return None
        chain = [(lo, mid), (mid, hi)] if rng.random() < 0.6 else [(lo, hi)]
        ents = []
        for (a, b) in chain:
            for _ in range(100):
                s, g = inst_with(rng, E.structure(), a, b, None, forbid)
                if s is None:
                    return None
                s += gen.rnd_avoid(rng, rng.randint(0, 6), forbid)
                if sites(s, E.cutter) == 2 and sites(g[0] + g[1] + g[2], DV.cutter) == 0:
                    break
            else:
                return None
            ents.append(s)
        cassettes.append({"vector": gen.rot(vs, rng.randrange(len(vs))),
                          "entries": [gen.rot(s, rng.randrange(len(s))) for s in ents]})
    for _ in range(100):
        ds, dg = inst_with(rng, DV.structure(), A, Cc, None, forbid)
        if ds is None:
            return None
        ds += gen.rnd_avoid(rng, rng.randint(2, 8), forbid)
        if sites(ds, DV.cutter) == 2:
            break
    else:
        return None
    return {"kit": kit, "names": list(names), "cassettes": cassettes, "device_vector": gen.rot(ds, rng.randrange(len(ds)))}


def check_two_level(ctx, case):
    import warnings
    CV, E, C, DV, D = [asm.cls_by_name("kit:" + n) for n in case["names"]]

    papers = {}

    def rec(word, rid):
        if rid in case.get("lower", ()):
            word = word.lower()                 # a soft-masked export of the same plasmid
        r = impl.CircularRecord(impl.Seq(word), id=rid, name=rid)
        if case.get("cited"):
            # documented inputs: a reference and small cited features all along the record (those inside the kept
            # stretch travel with the product into the next level)
            nper = 60 if case.get("manyrefs") else 4
            base = 300 + 100 * papers.setdefault(rid, len(papers))         # every record its own papers
            r.annotations["references"] = [impl.mk_ref(base + q_) for q_ in range(nper)]  # ≥ 10 (≥ 100) papers by level 2
            for p in range(0, len(word) - 1):
                cs = ("i%d" % (1 + p % 4),) if nper == 4 else tuple("i%d" % (1 + (3 * p + d_) % nper) for d_ in range(3))
                r.features.append(impl.mk_feature(impl.Feat(1, "u7", cs, ((p, p + 1, 1),))))
        return r
    prods = []
    with warnings.catch_warnings():
        warnings.simplefilter("ignore")
        for i, c in enumerate(case["cassettes"]):
            v = CV(rec(c["vector"], "cv%d" % i))
            es = [E(rec(w_, "e%d_%d" % (i, j))) for j, w_ in enumerate(c["entries"])]
            try:
                prods.append(v.assemble(*es))           # default id and name
            except Exception as e:  # noqa
                ctx.fail("two-level {}: cassette assembly {} fails: {}".format(case["kit"], i, type(e).__name__), case)
                return
        cas = [C(p) for p in prods]
        if any(sites(str(p.seq), C.cutter) != 2 for p in prods):
            # a junction happened to spell a site of the next level's cutter: outside the hypothesis (exactly two sites)
            ctx.note("two-level-skipped-extra-site")
            return
        if not all(c.is_valid() for c in cas):
            ctx.fail("two-level {}: a cassette product is not accepted by {}".format(case["kit"], C.__name__), case)
            return
        targets = [str(c.target_sequence().seq) for c in cas]
        dv = DV(rec(case["device_vector"], "dv"))
        order = list(cas)
        if case.get("swap"):
            order.reverse()
        if case.get("twice"):
            order.append(order[0])          # the same cassette object listed twice: one module
        try:
            dev = dv.assemble(*order)
        except Exception as e:  # noqa
            ctx.fail("two-level {}: the cassettes cannot be assembled into the device vector: {}: {}".format(
                case["kit"], type(e).__name__, str(e)[:80]), case)
            return
        dseq = str(dev.seq)
        if sites(dseq, D.cutter) > 2:
            ctx.note("two-level-skipped-extra-site")
            return
        res = T.evaluate(D, dseq)
        joined = "".join(targets)
        if res[0] != "valid":
            ctx.fail("two-level {}: the device product is not accepted by {} ({})".format(case["kit"], D.__name__, res[0]), case)
        elif joined.upper() not in res[3].upper():
            ctx.fail("two-level {}: the target of the {} does not contain both cassette targets in chain order "
                     "(target {!r}, cassette targets {})".format(case["kit"], D.__name__, res[3], targets), case)
    ctx.note("two-level:" + case["kit"])
    ctx.case(case, nontrivial=True)


def run(ctx):
    rng = ctx.rng
    for kit in ("cidar",):   # CIDAR: the next-level overhangs are the cassette vector's own (G1, G3)
        made = 0
        for _ in range(ctx.budget(40, 1500) * 3):
            import random
            rs = rng.getrandbits(48)
            if build_two_level(random.Random(rs), kit) is None:
                ctx.note("two-level-build-failed:" + kit)
                continue
            many = made == 1
            ctx.guard(check_case, {"recipe": ["two", kit, rs], "swap": rng.random() < 0.5, "cited": many or rng.random() < 0.4,
                                   "manyrefs": many,
                                   "twice": rng.random() < 0.25,
                                   "lower": [x for x in ("cv0", "cv1", "e0_0", "e0_1", "e1_0", "e1_1", "dv")
                                             if rng.random() < 0.5] if rng.random() < 0.3 else []})
            made += 1
            if made >= ctx.budget(40, 1500):
                break
    per = ctx.budget(30, 1500)
    for triple in TRIPLES:
        made = 0
        for _ in range(per * 3):
            import random
            rs = rng.getrandbits(48)
            if build(random.Random(rs), triple) is None:
                ctx.note("build-failed:" + triple[0])
                continue
            ctx.guard(check_case, {"recipe": ["one", list(triple), rs], "twice": rng.random() < 0.25})
            made += 1
            if made >= per:
                break
