"""C12 — strand symmetry: reverse-complemented inputs give the reverse complement"""
import asm
import boot
import gen
import impl
import typing_h as T

TABLES = ["Enzymes"]
LAKE_TARGETS = ["Moclo.Props.C12", "Moclo.Tables.Enzymes"]
THEOREMS = ["Moclo.C12." + t for t in ["generic_structures_self_rc", "live_structures_self_rc", "fits_rc", "fits_rc_on_circle", "generic_occurs_iff", "mirrored_group_text", "mirrored_marks", "screen_rc", "live_sites_nonpalindromic", "report_rc", "valid_rc", "graph_rc", "ent_of_report", "assemble_rc", "unique_fit_checkable"]]
# reductions under which a failing case stays a case of this property (see shrink.py)
SHRINK = {"strings": True, "freeze_if": ["real", "user"]}
RULE = ("well-formed generic modules/vectors over every enzyme geometry (exactly the two sites) at a random rotation: "
        "valid iff the reverse complement (computed by the implementation) is, overhangs exchanged and "
        "reverse-complemented, body reverse-complemented; assemblies of the reverse complements compared (up to "
        "rotation) with the reverse complement of the original product; thorough adds the generic-typed plasmids of "
        "the registries. non-trivial = the record is accepted / a product is returned; distinct by content")
ASSUMPTIONS = ["the record carries exactly the two recognition sites of the definition"]


def geom_part(wd, site, kind):
    """the plasmid reads, from some position on: the site, two letters or more, the site on the other strand, two
    letters or more (a vector: the two sites exchanged) — each site once"""
    n, r_ = len(wd), gen.rc(site)
    d = wd * 2
    i = [p for p in range(n) if d[p:p + len(site)] == site]
    j = [p for p in range(n) if d[p:p + len(r_)] == r_]
    if len(i) != 1 or len(j) != 1:
        return False
    first, second = (i[0], j[0]) if kind == "M" else (j[0], i[0])
    gap = (second - first - len(site)) % n
    return gap >= 2 and gap + 2 * len(site) + 2 <= n


def check_typing(ctx, case):
    cls = asm.cls_by_name(case["cls"])
    wd = case["word"]
    a = T.evaluate(cls, wd)
    rw = gen.rc(wd)               # the other strand, spelt by the harness (C14 is about reverse_complement itself)
    # a signature-typed part reads the other strand with the mirrored signature
    b = T.evaluate(asm.cls_by_name(case["cls_rc"]) if case.get("cls_rc") else cls, rw)
    site = cls.cutter.site
    if case.get("real"):
        two_sites = True          # built with exactly two sites of the (possibly degenerate-site) cutter
        if a[0] != "valid":
            ctx.fail("{} rejects a plasmid that is, by the geometry of {}, a part with its own signature: {!r} ({})".format(
                cls.__name__, cls.cutter, wd, a[0]), case)
    else:
        two_sites = gen.circ_count(wd.upper(), site) == 1 and gen.circ_count(wd.upper(), gen.rc(site)) == 1
    if case.get("geom") and two_sites and geom_part(wd.upper(), site, case["cls"].split(":")[1]) and a[0] != "valid":
        ctx.fail("{} rejects a plasmid made of the site of {}, an insert and the site on the other strand: {!r} ({})".format(
            cls.__name__, cls.cutter, wd, a[0]), case)
    if not two_sites:
        # outside the property's hypothesis (a mutation created or destroyed a site: with several fits the
        # leftmost one on each strand need not be mirror images); correspondence only
        ctx.note("not-exactly-two-sites")
    elif (a[0] == "valid") != (b[0] == "valid"):
        ctx.fail("{}: {!r} is {} but its reverse complement is {}".format(cls.__name__, wd, a[0], b[0]), case)
    elif a[0] == "valid":
        k = len(a[1])
        if b[1].upper() != gen.rc(a[2]).upper() or b[2].upper() != gen.rc(a[1]).upper():
            ctx.fail("{}: overhangs {}/{} become {}/{} on the reverse complement".format(
                cls.__name__, a[1], a[2], b[1], b[2]), case)
        if case.get("real"):
            pass
        elif case["cls"].startswith("generic:M"):
            # target = up + body ; on the other strand  up' + rc(body)
            if b[3][k:].upper() != gen.rc(a[3][k:]).upper():
                ctx.fail("{}: target body is not reverse-complemented".format(cls.__name__), case)
        else:
            if gen.rc(b[3][k:]).upper() != a[3][k:].upper():
                ctx.fail("{}: vector backbone is not reverse-complemented".format(cls.__name__), case)
    ctx.note("verdict:" + a[0])
    ctx.case(case, nontrivial=a[0] == "valid", key=[case["cls"], wd])
    if case.get("insite"):
        ctx.note("cutter-cutting-inside-its-site")
        return          # a negative offset is outside the model's geometries: strand symmetry by the oracle only
    if case.get("real"):
        ctx.note("part-over-" + ("degenerate-site" if set(site) - set("ACGT") else "plain-site") + "-cutter")
        return          # sites with ambiguity codes and 3' geometries: oracle only here (the model covers them in C04/C05)
    ctx.op(("EVAL", cls, rw, []), case)
    ctx.op(("RC", wd, []), case)
    # the hypotheses of `report_rc`, measured: exactly one fit on each strand
    if two_sites and len(wd) <= 64 and ctx.evaluations % 4 == 0:
        c1, c2 = impl.count_fits(cls.structure(), wd), impl.count_fits(cls.structure(), rw)
        ctx.note("unique-fit-both-strands:" + str(c1 == 1 and c2 == 1))
        ctx.op(("FITS", cls.structure(), wd), case, reply=str(c1))
        ctx.op(("FITS", cls.structure(), rw), case, reply=str(c2))


def user_enzyme(site):
    """a Type IIS enzyme that is not in Biopython's copy of REBASE, declared the way Bio.Restriction declares its own:
    the geometry of BsaI, N(1/5), with another recognition site (any IUPAC codes)"""
    from Bio.Restriction import BsaI
    from Bio.Restriction.Restriction_Dictionary import rest_dict
    name = "Usr" + site
    fw = "".join(c_ if c_ in "ACGT" else "[" + gen.IUPAC[c_] + "]" for c_ in site)
    rv = "".join(c_ if c_ in "ACGT" else "[" + gen.IUPAC[c_] + "]" for c_ in gen.rc(site))
    spec = dict(rest_dict["BsaI"])
    spec.update(site=site, charac=(len(site) + 1, 5, None, None, site), suppl=(), id=None, uri=None,
                compsite="(?=(?P<{0}>{1}))|(?=(?P<{0}_as>{2}))".format(name, fw, rv), freq=4096.0)
    return type(BsaI)(name, BsaI.__bases__, spec)


def check_user_enzyme(ctx, case):
    """generic classes over a user-declared cutter whose site carries ambiguity codes: the structure they derive reads
    both strands alike (every code has its complement: R/Y, K/M, B/V, D/H; S, W, N are their own)"""
    enz = user_enzyme(case["site"])
    base = boot.AbstractModule if case["kind"] == "M" else boot.AbstractVector
    cls = type("UserGeneric", (base,), {"cutter": enz})
    wd = case["word"]
    a, b = T.evaluate(cls, wd), T.evaluate(cls, gen.rc(wd))
    if a[0] != "valid":
        ctx.fail("the generic {} class over the user-declared cutter {} rejects a plasmid built with two of its sites: {!r} ({})".format(
            "module" if case["kind"] == "M" else "vector", case["site"], wd, a[0]), case)
    elif b[0] != "valid":
        ctx.fail("generic class over the user-declared cutter {}: {!r} is valid but its reverse complement is {}".format(
            case["site"], wd, b[0]), case)
    elif b[1].upper() != gen.rc(a[2]).upper() or b[2].upper() != gen.rc(a[1]).upper():
        ctx.fail("generic class over the user-declared cutter {}: overhangs {}/{} become {}/{} on the reverse complement".format(
            case["site"], a[1], a[2], b[1], b[2]), case)
    ctx.note("user-declared-cutter")
    ctx.case(case, nontrivial=a[0] == "valid", key=["user", case["site"], case["kind"], wd])


def check_assembly(ctx, case):
    r0, p0, _ = impl.run_asm(asm.asm_op(case))
    rcase = dict(case)
    def rcw(w):
        return gen.rc(w)          # the other strand, spelt by the harness
    rcase["vector"] = dict(case["vector"], word=rcw(case["vector"]["word"]))
    rcase["mods"] = [dict(m, word=rcw(m["word"])) for m in case["mods"]]
    r1, p1, _ = impl.run_asm(asm.asm_op(rcase))
    f0, f1 = r0.split("\t"), r1.split("\t")
    if f0[0] != f1[0]:
        # known finding: map building only screens the modules' *start* overhangs for reverse-complementary
        # pairs, so a clash that involves the vector's upstream overhang is seen on one strand only
        key = None
        if {f0[0], f1[0]} == {"ok", "err"} and "duplicate" in (f0[1], f1[1]) and case.get("clash") == "vector-upstream":
            key = "rc-screen-ignores-vector-upstream-overhang"
        ctx.fail("the assembly gives {} but the assembly of the reverse complements gives {}".format(f0[:2], f1[:2]),
                 case, key=key)
    elif f0[0] == "ok":
        if asm.canon_rot(str(p1.seq)) != asm.canon_rot(gen.rc(str(p0.seq))):
            ctx.fail("assembling the reverse complements yields {} which is not the reverse complement of {}".format(
                p1.seq, p0.seq), case)
    # the same with the records turned over by the library itself, everything carried along (features, annotations
    # with the reference list, identifiers): documented inputs stay documented on the other strand
    op0 = asm.asm_op(case)
    v_, ms_, objs = impl.build_entities(op0[3], op0[4])
    flipped = {}
    for oid, ent in objs.items():
        flipped[oid] = type(ent)(ent.record.reverse_complement(
            id=True, name=True, description=True, features=True, annotations=True, letter_annotations=True, dbxrefs=True))
    r2, p2, _ = impl.run_asm(op0, entities=(flipped[op0[3].oid], [flipped[m.oid] for m in op0[4]], flipped))
    f2 = r2.split("\t")
    if f2[0] != f1[0] or (f2[0] == "err" and f2[1] != f1[1]):
        ctx.fail("records turned over with reverse_complement(features=True, annotations=True, …) give {} where the other "
                 "strand spelt out gives {}".format(f2[:2], f1[:2]), case)
    elif f2[0] == "ok" and asm.canon_rot(str(p2.seq)) != asm.canon_rot(str(p1.seq)):
        ctx.fail("records turned over with reverse_complement(...) assemble to another product than the other strand "
                 "spelt out", case)
    # … and turned over with the defaults of reverse_complement(): sequence only, every record left without a name
    # (the defaults keep the features and drop the reference list: only for inputs whose features cite nothing)
    cited = any(f[2] for e in [case["vector"]] + case["mods"] for f in e.get("feats", []))
    bare = {}
    for oid, ent in objs.items():
        bare[oid] = type(ent)(ent.record.reverse_complement())
    r3, p3, _ = (r1, p1, None) if cited else impl.run_asm(op0, entities=(bare[op0[3].oid], [bare[m.oid] for m in op0[4]], bare))
    f3 = r3.split("\t")
    if f3[0] != f1[0] or (f3[0] == "err" and f3[1] != f1[1]):
        ctx.fail("records turned over with reverse_complement() (defaults: no identifiers kept) give {} where the other "
                 "strand spelt out gives {}".format(f3[:2], f1[:2]), case)
    elif f3[0] == "ok" and asm.canon_rot(str(p3.seq)) != asm.canon_rot(str(p1.seq)):
        ctx.fail("records turned over with reverse_complement() assemble to another product than the other strand "
                 "spelt out", case)
    ctx.case({k: v for k, v in case.items() if k != "info"}, nontrivial=f0[0] == "ok")
    ctx.op(asm.asm_op(rcase), None, reply=r1)


def run(ctx):
    rng = ctx.rng
    for enz in asm.pick_enzymes(rng, ctx.budget(400, 15000)):
        kind = rng.choice("MV")
        if kind == "M":
            wd, _ = gen.gen_module(rng, enz, gen.ovh(rng, enz), gen.ovh(rng, enz))
        else:
            wd, _ = gen.gen_vector(rng, enz, gen.ovh(rng, enz), gen.ovh(rng, enz))
        if rng.random() < 0.15:
            wd = T.mutate(rng, wd)
        if rng.random() < 0.15:
            # an ambiguous base call somewhere in the record (any IUPAC code): read alike on both strands
            i_ = rng.randrange(len(wd))
            wd = wd[:i_] + rng.choice("RYSWKMBDHVN") + wd[i_ + 1:]
        ctx.guard(check_typing, {"cls": "generic:{}:{}".format(kind, enz), "word": gen.rot(wd, rng.randrange(len(wd)))})
    # signature-typed parts over every kind of cutter a kit may declare — sites with ambiguity codes, overhangs on
    # either side — on plasmids built from the enzyme's geometry alone: accepted, and on the other strand accepted
    # with the overhangs exchanged and reverse-complemented (the part of the other strand has the mirrored signature)
    import boot
    pool = boot.degenerate_site_enzymes() + boot.three_prime_enzymes() + boot.supported_enzymes()
    pool = [e for e in pool if (e.is_5overhang() or (e.fst3 is not None and e.fst3 >= 0))]
    for _ in range(ctx.budget(80, 2500)):
        enz = rng.choice(pool[:len(boot.degenerate_site_enzymes())]) if rng.random() < 0.6 else rng.choice(pool)
        if not (enz.is_5overhang() or (enz.fst3 is not None and enz.fst3 >= 0)):
            continue
        k = abs(enz.ovhg)
        kind = rng.choice("MV")
        up, down = gen.rnd(rng, k), gen.rnd(rng, k)
        if up == down or gen.rc(up) == down:
            continue
        wd = gen.real_part_word(rng, enz, kind, up, down)
        if wd is None:
            continue
        sig = rng.choice([(up, down), ("N" * k, "N" * k), (up, "N" * k)])
        ctx.guard(check_typing, {"cls": "part:{}:{}:{}:{}".format(kind, enz, sig[0], sig[1]), "real": True,
                                 "cls_rc": "part:{}:{}:{}:{}".format(kind, enz, gen.rc(sig[1]), gen.rc(sig[0])),
                                 "word": gen.rot(wd, rng.randrange(len(wd)))})
    # cutters declared by the user (not in Biopython's catalogue), with every ambiguity code in their site in turn
    for code, kind in [(c_, k_) for c_ in "RYSWKMBDHVN" for k_ in "MV"]:
        for _ in range(ctx.budget(4, 30)):
            site = "GGT" + code + "TC" if rng.random() < 0.5 else "G" + code + "TCTC"
            enz = user_enzyme(site)
            up, down = gen.rnd(rng, 4), gen.rnd(rng, 4)
            if up == down or gen.rc(up) == down:
                continue
            wd = gen.real_part_word(rng, enz, kind, up, down)
            if wd is None:
                continue
            ctx.guard(check_user_enzyme, {"site": site, "kind": kind, "word": gen.rot(wd, rng.randrange(len(wd))), "user": True})
    # cutters the library accepts although they cut inside their own site (BbvCI, AciI, BssSI …): whatever structure the
    # generic classes derive for them, a plasmid with exactly the two sites is read alike on both strands
    from Bio import Restriction
    insite = []
    for e in sorted(Restriction.AllEnzymes, key=str):
        try:
            if e.is_blunt() or e.is_unknown() or e.is_palindromic() or e.cut_twice() or not e.is_5overhang():
                continue
        except Exception:  # noqa
            continue
        if e.fst5 - len(e.site) < 0 and set(e.site) <= set("ACGT"):
            insite.append(e)
    ctx.extra["cov_insite_cutters"] = [str(e) for e in insite]
    for _ in range(ctx.budget(60, 1500)):
        enz = rng.choice(insite)
        kind = rng.choice("MV")
        cls = asm.cls_by_name("generic:{}:{}".format(kind, enz))
        try:
            inst, _ = gen.instantiate(rng, cls.structure(), runlen=rng.choice([2, 5, 9]), forbid=(enz.site, gen.rc(enz.site)))
        except Exception:  # noqa
            continue
        wd = inst + gen.rnd_avoid(rng, rng.randint(2, 8), (enz.site, gen.rc(enz.site)))
        if rng.random() < 0.5:
            wd = gen.rc(wd)
        ctx.guard(check_typing, {"cls": "generic:{}:{}".format(kind, enz), "insite": True,
                                 "word": gen.rot(wd, rng.randrange(len(wd)))})
        # … and a plasmid made from the site alone, without asking the class what it wants: the site, an insert, the
        # site on the other strand (a vector: the other way round) is a part of that cutter's generic class
        s_, r_ = str(enz.site), gen.rc(str(enz.site))
        body = gen.rnd_avoid(rng, rng.randint(2, 9), (s_, r_))     # a cut at the very end of the site asks for a letter beyond it
        rest = gen.rnd_avoid(rng, rng.randint(2, 8), (s_, r_))
        wd = (s_ + body + r_ + rest) if kind == "M" else (r_ + body + s_ + rest)
        if gen.circ_count(wd, s_) == 1 and gen.circ_count(wd, r_) == 1:
            if rng.random() < 0.5:
                wd = gen.rc(wd)
            ctx.guard(check_typing, {"cls": "generic:{}:{}".format(kind, enz), "insite": True, "geom": True,
                                     "word": gen.rot(wd, rng.randrange(len(wd)))})
    for enz in asm.pick_enzymes(rng, ctx.budget(250, 10000)):
        g = asm.gen_wellformed(rng, enz, rng.randint(1, 4))
        if g is None:
            continue
        case, info0 = g
        if rng.random() < 0.25:
            # a module too many, which happens to start on the overhang the chain closes on (the next position of
            # the kit): left over on both strands
            try:
                wd, _ = gen.gen_module(rng, enz, info0["vparts"]["o3"], gen.ovh(rng, enz), tries=100)
                used = [m["o5"] for m in info0["mparts"]] + [info0["vparts"]["o3"]]
                o3 = _["o3"]
                if o3 not in used and gen.rc(o3) not in used and gen.rc(o3) != o3:
                    case["mods"].append(asm.ent_json(70, "generic:M:" + str(enz), wd))
            except RuntimeError:
                pass
        if rng.random() < 0.35:
            # soft-masked records: the two strands must still be treated alike
            for e in [case["vector"]] + case["mods"]:
                if rng.random() < 0.4:
                    e["word"] = gen.recase(rng, e["word"], rng.choice(["lower", "mixed"]))
        ctx.guard(check_assembly, case)
    # junction overhangs that clash only through the vector's upstream overhang (palindromic, or the reverse
    # complement of an inner junction): the documented asymmetry of the duplicate screen
    for enz in asm.pick_enzymes(rng, ctx.budget(30, 600)):
        site, off, k = gen.geom(enz)
        if k < 2:
            continue
        fb = (site, gen.rc(site))
        ovs = gen.distinct_overhangs(rng, k, 3, fb)
        if len(ovs) < 3:
            continue
        if k % 2 == 0 and rng.random() < 0.6:
            half = gen.rnd_avoid(rng, k // 2, fb)
            up = half + gen.rc(half)                 # palindromic upstream overhang of the vector
        else:
            up = gen.rc(ovs[1])                      # reverse complement of the inner junction
        if up in ovs[:2] or gen.rc(up) == ovs[0] or any(x in up for x in fb):
            continue
        try:
            vw, vd = gen.gen_vector(rng, enz, o5=ovs[0], o3=up, tries=200)
            m1, _ = gen.gen_module(rng, enz, ovs[0], ovs[1], tries=200)
            m2, _ = gen.gen_module(rng, enz, ovs[1], up, tries=200)
        except RuntimeError:
            continue
        name = str(enz)
        case = {"enz": name, "vector": asm.ent_json(0, "generic:V:" + name, vw),
                "mods": [asm.ent_json(1, "generic:M:" + name, m1), asm.ent_json(2, "generic:M:" + name, m2)],
                "pid": 1, "pname": 2, "clash": "vector-upstream"}
        ctx.guard(check_assembly, case)
    # an undetermined base (N) in the junction on which the chain closes — the vector's upstream overhang, the one
    # junction that is a module's start on one strand only
    for enz in asm.pick_enzymes(rng, ctx.budget(30, 600)):
        site, off, k = gen.geom(enz)
        if k < 3:
            continue
        fb = (site, gen.rc(site))
        ovs = gen.distinct_overhangs(rng, k, 3, fb)
        if len(ovs) < 3:
            continue
        j_ = rng.randrange(k)
        up = ovs[2][:j_] + "N" + ovs[2][j_ + 1:]
        if gen.rc(up) in (up, ovs[0], ovs[1]) or up in (ovs[0], ovs[1]):
            continue        # a closing overhang that pairs with itself or with a module start is the recorded finding F11
        try:
            vw, vd = gen.gen_vector(rng, enz, o5=ovs[0], o3=up, tries=200)
            m1, _ = gen.gen_module(rng, enz, ovs[0], ovs[1], tries=200)
            m2, _ = gen.gen_module(rng, enz, ovs[1], up, tries=200)
        except RuntimeError:
            continue
        name = str(enz)
        ctx.guard(check_assembly, {"enz": name, "vector": asm.ent_json(0, "generic:V:" + name, vw),
                                   "mods": [asm.ent_json(1, "generic:M:" + name, m1), asm.ent_json(2, "generic:M:" + name, m2)],
                                   "pid": 1, "pname": 2})
        ctx.note("N-in-closing-junction")
    # two junctions that are letter-by-letter complements of each other (AATG / TTAC): not a hairpin, a legal pair of
    # fusion sites on both strands
    comp = {"A": "T", "C": "G", "G": "C", "T": "A"}
    for enz in asm.pick_enzymes(rng, ctx.budget(30, 600)):
        site, off, k = gen.geom(enz)
        if k < 2:
            continue
        fb = (site, gen.rc(site))
        a = gen.rnd_avoid(rng, k, fb)
        b = "".join(comp[c_] for c_ in a)
        ovs = gen.distinct_overhangs(rng, k, 2, fb)
        if len(ovs) < 2 or b == gen.rc(a) or a == gen.rc(a) or b == gen.rc(b) or len({a, b, ovs[0], ovs[1]}) < 4 \
                or any(gen.rc(x) in (a, b, ovs[0], ovs[1]) for x in (a, b, ovs[0], ovs[1])) or any(x in y for x in fb for y in (a, b)):
            continue
        try:
            vw, vd = gen.gen_vector(rng, enz, o5=a, o3=ovs[1], tries=200)
            m1, _ = gen.gen_module(rng, enz, a, b, tries=200)
            m2, _ = gen.gen_module(rng, enz, b, ovs[0], tries=200)
            m3, _ = gen.gen_module(rng, enz, ovs[0], ovs[1], tries=200)
        except RuntimeError:
            continue
        name = str(enz)
        ms = [asm.ent_json(1, "generic:M:" + name, m1), asm.ent_json(2, "generic:M:" + name, m2),
              asm.ent_json(3, "generic:M:" + name, m3)]
        rng.shuffle(ms)
        ctx.guard(check_assembly, {"enz": name, "vector": asm.ent_json(0, "generic:V:" + name, vw), "mods": ms,
                                   "pid": 1, "pname": 2})
        ctx.note("complementary-junctions")
    if True:
        # the plasmids of the bundled registries that are typed by a signature-free class (the generic structures and
        # the kits' hand-written vectors, which are their own mirror image): a sample in the quick tier, all in thorough
        import boot
        import extract
        n = 0
        todo = []
        for name, reg in extract.registries():
            for k in reg:
                ent = reg[k].entity
                cls = type(ent)
                if issubclass(cls, boot.AbstractPart):
                    continue
                todo.append((name, k, ent, cls))
        if not (ctx.tier == "thorough" and ctx.scale == 1):
            todo = rng.sample(todo, min(len(todo), 24))
        for name, k, ent, cls in todo:
                wd = str(ent.record.seq)
                site = cls.cutter.site
                if gen.circ_count(wd.upper(), site) != 1 or gen.circ_count(wd.upper(), gen.rc(site)) != 1:
                    continue
                a = T.evaluate(cls, wd)
                b = T.evaluate(cls, gen.rc(wd))
                if (a[0] == "valid") != (b[0] == "valid") or (a[0] == "valid" and (
                        b[1].upper() != gen.rc(a[2]).upper() or b[2].upper() != gen.rc(a[1]).upper())):
                    ctx.fail("registry plasmid {} typed {}: it is {} but its reverse complement is {} (overhangs {}/{} vs "
                             "{}/{})".format(k, cls.__name__, a[0], b[0], a[1:2], a[2:3], b[1:2], b[2:3]),
                             {"registry": name, "key": k})
                n += 1
                ctx.case({"registry": name, "key": k}, nontrivial=a[0] == "valid")
        ctx.note("registry-generic-plasmids", n)


def check_case(ctx, case):
    if case.get("user"):
        ctx.guard(check_user_enzyme, case)
    elif "vector" in case:
        ctx.guard(check_assembly, case)
    elif "cls" in case:
        ctx.guard(check_typing, case)
    elif "registry" in case:
        ctx.guard(check_registry_plasmid, case)


def check_registry_plasmid(ctx, case):
    import extract
    reg = dict(extract.registries())[case["registry"]]
    ent = reg[case["key"]].entity
    cls = type(ent)
    wd = str(ent.record.seq)
    a = T.evaluate(cls, wd)
    b = T.evaluate(cls, gen.rc(wd))
    if (a[0] == "valid") != (b[0] == "valid") or (a[0] == "valid" and (
            b[1].upper() != gen.rc(a[2]).upper() or b[2].upper() != gen.rc(a[1]).upper())):
        ctx.fail("registry plasmid {} typed {}: it is {} but its reverse complement is {} (overhangs {}/{} vs "
                 "{}/{})".format(case["key"], cls.__name__, a[0], b[0], a[1:2], a[2:3], b[1:2], b[2:3]), case)
    ctx.case(case, nontrivial=a[0] == "valid")
