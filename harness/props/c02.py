"""C02 — a plasmid has no origin: typing and assembly are rotation-invariant"""
import asm
import boot
import gen
import impl
import typing_h as T

TABLES = ["Kits"]
LAKE_TARGETS = ["Moclo.Props.C02", "Moclo.Tables.Kits"]
THEOREMS = ["Moclo.C02." + t for t in ["report_of_view", "report_rotr", "report_rotrI", "invalid_rotr", "isValid_rotr", "fragment_and_keys_rotr", "kit_classes_three_groups", "generic_three_groups", "part_three_groups", "derefRec_rotr_isSome", "sameRole_of_rotated", "assembly_rotation_invariant", "assembly_rotation_invariant_outcome"]]
# reductions under which a failing case stays a case of this property (see shrink.py)
SHRINK = {"lists": ["rots"], "strings": True}
RULE = ("records with exactly one occurrence of a class structure (checked independently): generated generic "
        "modules/vectors over every enzyme geometry, instances of every kit class, and (thorough) the plasmids of "
        "the bundled registries with their own class; each compared at rotation 0 and at every rotation of short "
        "records / every rotation whose origin falls inside the flanking structure of long ones: verdict, both "
        "overhangs, target, placeholder; plus assemblies with rotated inputs (product literally equal). "
        "non-trivial = the record is accepted and some rotation places the origin inside the match; distinct by "
        "(class, word)")
ASSUMPTIONS = ["the record contains exactly one occurrence of the class structure (UniqueStart)"]


def check_typing(ctx, case):
    cls = asm.cls_by_name(case["cls"])
    wd = case["word"]
    n = len(wd)
    starts = T.match_starts(cls.structure(), wd)
    if len(starts) != 1:
        ctx.note("skipped-not-unique")
        return
    base = T.evaluate(cls, wd)
    rots = case.get("rots") or T.critical_rotations(n, cls)
    wrapped = False
    for r in rots:
        w2 = gen.rot(wd, r)
        got = T.evaluate(cls, w2)
        if got[:5] != base[:5]:
            what = ["verdict", "upstream overhang", "downstream overhang", "target", "placeholder"]
            i = next((j for j in range(min(len(got), len(base), 5)) if got[j] != base[j]), 0)
            ctx.fail("{} on {!r}: rotating by {} changes the {} from {!r} to {!r}".format(
                cls.__name__, wd, r, what[i], base[i] if i < len(base) else None, got[i] if i < len(got) else None),
                dict(case, rots=[r]))
            break
        if (starts[0] + r) % n + 1 > n - 3:
            wrapped = True
    # an annotated plasmid: a feature inside the target keeps its identifier (SeqFeature.id) in the target, wherever the
    # file starts — also when the cut happens to sit on the origin and nothing has to be rotated
    if base[0] == "valid" and len(base[3]) >= 3 and n >= 4:
        from wire import Feat, CRec
        p_ = (wd.upper() + wd.upper()).find(base[3].upper())
        if 0 <= p_ < n and gen.circ_count(wd.upper(), base[3].upper()) == 1 and len(base[3]) < n:
            f0 = [Feat(1, "u1", (), (((p_ + 1) % n, (p_ + 1) % n + 1, 1),))]
            seen_ids = {}
            for r in rots:
                rec_ = impl.mk_record(CRec(0, gen.rot(wd, r), gen.rotate_feats(f0, n, r), []))
                rec_.features[0].id = "F1"
                try:
                    tf = cls(rec_).target_sequence().features
                except Exception:  # noqa   (reported by the evaluations above)
                    continue
                seen_ids[r] = sorted(str(f_.id) for f_ in tf if f_.type != "source")
            odd = [r for r, ids_ in seen_ids.items() if ids_ != ["F1"]]
            if odd and len(odd) < len(seen_ids):
                ctx.fail("{} on {!r}: the feature 'F1' inside the target keeps its identifier at rotations {} but comes out as "
                         "{} at rotation {}".format(cls.__name__, wd, [r for r in seen_ids if r not in odd][:4],
                                                    seen_ids[odd[0]], odd[0]), dict(case, rots=[odd[0]]))
            elif odd:
                ctx.fail("{} on {!r}: the feature 'F1' inside the target comes out of target_sequence() as {}".format(
                    cls.__name__, wd, seen_ids[odd[0]]), dict(case, rots=[odd[0]]))
    # a circular record may say so, in any letter case: nothing changes, at any rotation
    for topo in ("circular", "Circular", "CIRCULAR"):
        r = rots[len(rots) // 2] if rots else 0
        got = T.evaluate(cls, gen.rot(wd, r), topology=topo)
        if got[:5] != base[:5]:
            ctx.fail("{} on {!r} rotated by {}: a record annotated topology={!r} is typed {} instead of {}".format(
                cls.__name__, wd, r, topo, got[:3], base[:3]), dict(case, rots=[r]))
            break
    # the matcher asked directly, with the range spelt out (`pos=0, endpos=len`, what the defaults mean): the same
    # match at every rotation — `endpos` bounds where a match may start, not how far it may run
    rx_ = boot.DNARegex(cls.structure())
    for r in (rots[:3] + rots[-3:]) if rots else []:
        rec_ = impl.CircularRecord(impl.Seq(gen.rot(wd, r)), id="m")
        m0, m1 = rx_.search(rec_), rx_.search(rec_, pos=0, endpos=len(rec_))
        if (m0 is None) != (m1 is None) or (m0 is not None and m0.span() != m1.span()):
            ctx.fail("{!r} rotated by {}: search(record) gives {} but search(record, pos=0, endpos=len(record)) gives {}".format(
                wd, r, m0 and m0.span(), m1 and m1.span()), dict(case, rots=[r]))
            break
    # a plasmid read from a FASTA file is a plain SeqRecord that says nothing about its topology: the library takes
    # it for circular, so its verdict is the circular record's, wherever the file happens to start
    for r in (rots[:2] + rots[-2:]) if rots else []:
        plain = impl.SeqRecord(impl.Seq(gen.rot(wd, r)), id="fasta")
        try:
            pe_ = cls(plain)
            v = pe_.is_valid()
            if v is True and base[0] == "valid" and (str(pe_.overhang_start()), str(pe_.overhang_end())) != (base[1], base[2]):
                ctx.fail("{} on {!r} rotated by {}: through a plain SeqRecord the overhangs are {}/{}, through the circular "
                         "record {}/{}".format(cls.__name__, wd, r, pe_.overhang_start(), pe_.overhang_end(), base[1], base[2]),
                         dict(case, rots=[r]))
                break
        except Exception as e:  # noqa
            v = "exc:" + type(e).__name__
        if v != (base[0] == "valid"):
            ctx.fail("{} on {!r} rotated by {}: a plain SeqRecord without topology annotation is {} but the circular "
                     "record is {}".format(cls.__name__, wd, r, "accepted" if v is True else "rejected" if v is False else v,
                                           base[0]), dict(case, rots=[r]))
            break
    ctx.note("verdict:" + base[0])
    ctx.note("rotations", len(rots))
    ctx.case(case, nontrivial=base[0] == "valid", key=[case["cls"], wd])
    for r in rots[:6] + rots[-3:]:
        ctx.op(("EVAL", cls, gen.rot(wd, r), []), dict(case, rots=[r]))
    # the hypothesis of the rotation theorems, measured: does the structure fit in exactly one way?
    if n <= 64 and ctx.evaluations % 4 == 0:
        c = impl.count_fits(cls.structure(), wd)
        ctx.note("fits:" + ("1" if c == 1 else ">1"))
        ctx.op(("FITS", cls.structure(), wd), case, reply=str(c))


def check_assembly(ctx, case):
    op0 = asm.asm_op(case)
    r0, p0, _ = impl.run_asm(op0)
    f0 = r0.split("\t")
    rot_case = dict(case)
    rot_case["vector"] = dict(case["vector"], word=gen.rot(case["vector"]["word"], case["rv"]))
    rot_case["mods"] = [dict(m, word=gen.rot(m["word"], r)) for m, r in zip(case["mods"], case["rm"])]
    r1, p1, _ = impl.run_asm(asm.asm_op(rot_case))
    f1 = r1.split("\t")
    a = (f0[0], str(p0.seq) if p0 is not None else f0[1])
    b = (f1[0], str(p1.seq) if p1 is not None else f1[1])
    if a != b:
        ctx.fail("rotating the inputs (vector by {}, modules by {}) changes the assembly from {} to {}".format(
            case["rv"], case["rm"], a, b), case)
    ctx.case({k: v for k, v in case.items() if k != "info"}, nontrivial=f0[0] == "ok")
    ctx.op(asm.asm_op(rot_case), case, reply=r1)


def check_long(ctx, case):
    """a module kept in a large plasmid (a 140 kb BAC): typed alike wherever the file starts — in particular with the
    origin inside a site, the spacer or an overhang (oracle only: the driver is not fed such lines)"""
    enz = asm.enzyme(case["enz"])
    M, _ = impl.generic_classes(enz)
    unit = "ACGTTGCATGCAAGCT"
    wd = case["module"] + (unit * (case["fill"] // len(unit) + 1))[:case["fill"]]
    site = enz.site
    if gen.circ_count(wd, site) != 1 or gen.circ_count(wd, gen.rc(site)) != 1:
        ctx.note("long-skipped")
        return
    n = len(wd)
    seen = []
    for r in case["rots"]:
        w2 = wd[r % n:] + wd[:r % n]
        ent = M(impl.CircularRecord(impl.Seq(w2), id="bac"))
        try:
            if ent.is_valid():
                seen.append((r, "valid", str(ent.overhang_start()), str(ent.overhang_end()), len(ent.target_sequence())))
            else:
                seen.append((r, "invalid"))
        except Exception as e:  # noqa
            seen.append((r, "exc:" + type(e).__name__))
    if len({x[1:] for x in seen}) != 1:
        ctx.fail("a {} module in a {} bp plasmid is typed differently depending on where the file starts: {}".format(
            case["enz"], n, seen), case)
    elif seen and seen[0][1] != "valid":
        ctx.fail("a {} module in a {} bp plasmid with exactly the two sites is not accepted: {}".format(case["enz"], n, seen[0]), case)
    ctx.note("module-in-a-140kb-plasmid")
    ctx.case({"enz": case["enz"], "fill": case["fill"], "rots": case["rots"], "long": True}, nontrivial=True)


def run(ctx):
    rng = ctx.rng
    kits = boot.kit_classes()
    for _ in range(1 if ctx.tier == "quick" else 4):
        enz = rng.choice([e for e in boot.supported_enzymes() if abs(e.ovhg) >= 3 and len(e.site) >= 6])
        try:
            mw, _d = gen.gen_module(rng, enz, gen.ovh(rng, enz), gen.ovh(rng, enz), blen=6)
        except RuntimeError:
            continue
        ls = len(enz.site)
        ctx.guard(check_long, {"enz": str(enz), "module": mw, "fill": 140000 + rng.randrange(16),
                               "rots": [0, rng.randint(1, ls - 1), ls + 1, len(mw) + 70000, len(mw) + 139990]})
    # generic classes over every geometry
    for enz in asm.pick_enzymes(rng, ctx.budget(120, 3000)):
        M, V = impl.generic_classes(enz)
        name = str(enz)
        if rng.random() < 0.5:
            wd, _ = gen.gen_module(rng, enz, gen.ovh(rng, enz), gen.ovh(rng, enz))
            cname = "generic:M:" + name
        else:
            wd, _ = gen.gen_vector(rng, enz, gen.ovh(rng, enz), gen.ovh(rng, enz))
            cname = "generic:V:" + name
        if rng.random() < 0.15:
            wd = gen.recase(rng, wd)
        ctx.guard(check_typing, {"cls": cname, "word": gen.rot(wd, rng.randrange(len(wd)))})
    # every kit class
    per = ctx.budget(2, 40)
    for cls in kits:
        for _ in range(per):
            wd, _ = T.kit_instance(rng, cls, runlen=rng.choice([0, 2, 5, 20]))
            ctx.guard(check_typing, {"cls": asm.cls_name(cls), "word": gen.rot(wd, rng.randrange(len(wd)))})
    # records a class must refuse (a third site of its cutter inside the one occurrence of its structure): refused
    # wherever the origin is — in particular when the match wraps and some of the sites lie past the origin
    for cls in kits:
        if ctx.tier == "quick" and rng.random() < 0.6:
            continue
        wd = T.inner_site_instance(rng, cls, lower="upper")
        ctx.guard(check_typing, {"cls": asm.cls_name(cls), "word": gen.rot(wd, rng.randrange(len(wd))), "refused": True})
    # assemblies with rotated inputs
    for enz in asm.pick_enzymes(rng, ctx.budget(80, 3000)):
        g = asm.gen_wellformed(rng, enz)
        if g is None:
            continue
        case, info = g
        case["rv"] = rng.randrange(len(case["vector"]["word"]))
        case["rm"] = [rng.randrange(len(m["word"])) for m in case["mods"]]
        ctx.guard(check_assembly, case)
    # registry plasmids with their own class at the critical rotations
    import extract
    nreg = ctx.budget(12, 400)
    items = []
    for name, reg in extract.registries():
        for k in reg:
            items.append((name, reg, k))
    rng.shuffle(items)
    for name, reg, k in items[:nreg]:
        ent = reg[k].entity
        cls = type(ent)
        wd = str(ent.record.seq)
        if len(T.match_starts(cls.structure(), wd)) != 1:
            ctx.note("registry-not-unique")
            continue
        base = T.evaluate(cls, wd)
        rots = T.critical_rotations(len(wd), cls, every=0)
        rots = rng.sample(rots, min(len(rots), ctx.budget(6, 60)))
        for r in rots:
            got = T.evaluate(cls, gen.rot(wd, r))
            if got[:5] != base[:5]:
                ctx.fail("registry plasmid {} ({}): rotating by {} changes what {} reports".format(
                    k, name, r, cls.__name__), {"registry": name, "key": k, "rot": r})
                break
        ctx.note("registry-plasmids")
        ctx.case({"registry": name, "key": k}, nontrivial=base[0] == "valid")


def check_case(ctx, case):
    if "fill" in case and "module" in case:
        return ctx.guard(check_long, case)
    if "registry" in case:
        import extract
        reg = dict(extract.registries())[case["registry"]]
        ent = reg[case["key"]].entity
        wd = str(ent.record.seq)
        a, b = T.evaluate(type(ent), wd), T.evaluate(type(ent), gen.rot(wd, case["rot"]))
        if a[:5] != b[:5]:
            ctx.fail("registry plasmid {}: rotation by {} changes the report".format(case["key"], case["rot"]), case)
    elif "vector" in case:
        ctx.guard(check_assembly, case)
    else:
        ctx.guard(check_typing, case)
