"""C01 — assembly yields exactly the Golden Gate ligation product"""
import asm
import core
import gen
import impl

TABLES = ["Enzymes"]
LAKE_TARGETS = ["Moclo.Props.C01", "Moclo.Tables.Enzymes"]
THEOREMS = ["Moclo.C01.product_is_concatenation", "Moclo.C01.structures_are_closed_forms", "Moclo.C01.module_canonical", "Moclo.C01.vector_canonical", "Moclo.C01.wellformed_assembly_succeeds", "Moclo.C01.product_independent_of_record_names",
            "Moclo.C01.outcome_independent_of_record_names", "Moclo.C01.palindromic_module_never_assembled"]
RULE = ("well-formed assemblies over every supported enzyme geometry (all geometries visited each run): chain "
        "length 1-5, every plasmid carrying exactly the two sites, rotated so that the origin falls inside the "
        "flanking structure in half of the cases, modules in random argument order, a quarter with some plasmids spelt in lower case; product compared (up to "
        "rotation and letter case) with the documented formula computed by string concatenation, and its length with the sum of "
        "the retained fragments. non-trivial = a product was returned; distinct by content")
ASSUMPTIONS = ["targets of at least 2 nt and vector backbones of at least 2 nt (what the generic structures demand)",
               "5'-overhang single-cut enzymes with an unambiguous site (the 58 of Bio.Restriction 1.88)"]


def check_case(ctx, case):
    info = case["info"]
    op = asm.asm_op(case)
    shadows = []
    if case.get("shadow"):
        # the same plasmids, opened elsewhere (another rotation of each file), were typed earlier and their wrappers
        # are still referenced: what a wrapper reports is about its own record
        import random
        r_ = random.Random(case["shadow"])
        sv = dict(case["vector"], word=gen.rot(case["vector"]["word"], r_.randrange(1, len(case["vector"]["word"]))))
        sm = [dict(m, word=gen.rot(m["word"], r_.randrange(1, len(m["word"])))) for m in case["mods"]]
        sop = asm.asm_op(dict(case, vector=sv, mods=sm))
        ents = impl.build_entities(sop[3], sop[4])
        for e_ in [ents[0]] + list(ents[1]):
            try:
                e_.is_valid() and e_.target_sequence()
            except Exception:  # noqa
                pass
            shadows.append(e_)
        ctx.note("shadow-wrappers-alive")
    reply, prod, _ = impl.run_asm(op)
    del shadows
    f = reply.split("\t")
    if f[0] != "ok":
        ctx.fail("a well-formed {} assembly of {} modules fails with {}".format(case["enz"], len(case["mods"]), f[1]), case)
    else:
        seq = str(prod.seq)
        exp = info["expected"]
        if len(seq) != len(exp):
            ctx.fail("product length {} is not the sum of the retained fragments {}".format(len(seq), len(exp)), case)
        elif asm.canon_rot(seq) != asm.canon_rot(exp):
            ctx.fail("product {} is not the documented ligation product {}".format(seq, exp), case)
        if seq.upper() != exp.upper():
            # literal equality with the formula started at the first module's overhang is the model's claim;
            # the property only asks equality up to rotation, so this is a note, not a failure
            ctx.note("product-starts-elsewhere")
        if not isinstance(prod, impl.CircularRecord):
            ctx.fail("the product is not a circular record", case)
    if len(case["mods"]) == 1 and f[0] == "ok":
        # the one-module call spelt with the parameter's name
        v1, m1, _o = impl.build_entities(op[3], op[4])
        try:
            p1 = v1.assemble(module=m1[0], id="k1", name="k1")
            if str(p1.seq) != str(prod.seq):
                ctx.fail("assemble(module=m) gives another product than assemble(m)", case)
        except Exception as e:  # noqa
            ctx.fail("assemble(module=m) raises {} where assemble(m) returns the product".format(type(e).__name__), case)
    ctx.note("geom:{}".format(gen.geom(asm.enzyme(case["enz"]))[1:]))
    ctx.note("chain={}".format(len(case["mods"])))
    ctx.case({k: v for k, v in case.items() if k != "info"}, nontrivial=f[0] == "ok")
    ctx.op(op, case, reply=reply)
    if core.pick(case, 4):
        # the same objects over time: looked at before assembling, assembled twice
        asm.lifecycle(ctx, case, pretouch=True)
    # the structures the classes were matched with are the model's closed forms
    e = asm.enzyme(case["enz"])
    ctx.op(("STRUCT", "M", e, None, None), None)
    ctx.op(("STRUCT", "V", e, None, None), None)


def run(ctx):
    rng = ctx.rng
    n = ctx.budget(500, 30000)
    long_done = 0
    for enz in asm.pick_enzymes(rng, n):
        # one case in three closes on an overhang that is the reverse complement of an inner junction, or its own
        closing = rng.choice([None, None, None, None, "rc", "pal"])
        g = asm.gen_wellformed(rng, enz, closing=closing)
        if long_done < (1 if ctx.tier == "quick" else 5) and abs(enz.ovhg) >= 4:
            # a long chain now and then (a 30-part pathway): nothing in the procedure counts the parts
            g2 = asm.gen_wellformed(rng, enz, nmods=rng.randint(28, 34))
            if g2 is not None:
                g, long_done = g2, long_done + 1
                ctx.note("chain-of-thirty")
        if g is None:
            continue
        case, info = g
        case["info"] = info
        if rng.random() < 0.25:
            # soft-masked / lower-case exports of some of the plasmids: the same molecules, hence the same product
            for e in [case["vector"]] + case["mods"]:
                if rng.random() < 0.5:
                    e["word"] = e["word"].lower()
            ctx.note("mixed-case-inputs")
        if rng.random() < 0.2:
            case["shadow"] = rng.randrange(1, 1 << 30)
        if rng.random() < 0.15:
            # records built in code or exported without a name all carry one identifier: what is ligated is decided by
            # overhangs, not by names
            for e in [case["vector"]] + case["mods"]:
                e["rid"] = 77
            ctx.note("one-identifier-for-all")
        ctx.guard(check_case, case)
