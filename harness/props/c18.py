"""C18 — letter case of the input sequences never changes the outcome"""
import copy

import asm
import boot
import gen
import impl
import typing_h as T

TABLES = []
LAKE_TARGETS = ["Moclo.Props.C18"]
THEOREMS = ["Moclo.C18." + t for t in ["letter_case", "typing_case", "overhangs_case", "upper_is_respelling", "assembly_case", "product_upper_eq"]]
# reductions under which a failing case stays a case of this property (see shrink.py)
SHRINK = {"lists": ["spellings"], "keep_one": ["spellings", "mods"]}
RULE = ("typing queries (generic classes over every geometry and every kit class) and assemblies (well-formed and "
        "failing: missing module, duplicates, unused) re-spelt all-lower, all-upper, per-record and per-letter "
        "random case; verdict, overhangs and target compared case-insensitively with the all-upper-case run, "
        "assembly outcome (product or error class and stall overhang) likewise. non-trivial = the upper-case "
        "record is accepted / the assembly has at least one module; distinct by content")
ASSUMPTIONS = []

MODES = ["lower", "upper", "mixed", "mixed", "regional", "regional", "regional"]


def up(x):
    return x.upper() if isinstance(x, str) else x


def check_typing(ctx, case):
    cls = asm.cls_by_name(case["cls"])
    wd = case["word"].upper()
    base = T.evaluate(cls, wd)
    for sp in case["spellings"]:
        got = T.evaluate(cls, sp)
        if tuple(up(x) for x in got[:5]) != tuple(up(x) for x in base[:5]):
            ctx.fail("{}: spelling {!r} gives {} but the upper-case spelling gives {}".format(
                cls.__name__, sp, got[:4], base[:4]), dict(case, spellings=[sp]))
            break
        ctx.op(("EVAL", cls, sp, []), dict(case, spellings=[sp]))
    ctx.note("verdict:" + base[0])
    ctx.case(case, nontrivial=base[0] == "valid", key=[case["cls"], wd])


def norm(reply, prod):
    f = reply.split("\t")
    if f[0] == "ok":
        return ("ok", str(prod.seq).upper())
    return ("err", f[1].upper())


def check_assembly(ctx, case):
    upper = copy.deepcopy(case)
    for e in [upper["vector"]] + upper["mods"]:
        e["word"] = e["word"].upper()
    r0, p0, _ = impl.run_asm(asm.asm_op(upper))
    base = norm(r0, p0)
    r1, p1, _ = impl.run_asm(asm.asm_op(case))
    got = norm(r1, p1)
    if got != base:
        ctx.fail("mixed spellings give {} but the all-upper-case inputs give {}".format(got, base), case)
    ctx.note("outcome:" + (base[0] if base[0] == "ok" else base[1].split(":")[0]))
    ctx.case({k: v for k, v in case.items() if k != "info"}, nontrivial=True)
    ctx.op(asm.asm_op(case), None, reply=r1)


def check_long(ctx, case):
    """a module kept in a 140 kb plasmid: accepted whether its recognition sites are written in upper or in lower case
    (oracle only)"""
    enz = asm.enzyme(case["enz"])
    M, _ = impl.generic_classes(enz)
    unit = "ACGTTGCATGCAAGCT"
    fill = (unit * (case["fill"] // len(unit) + 1))[:case["fill"]]
    mw = case["module"]
    if gen.circ_count(mw + fill, enz.site) != 1 or gen.circ_count(mw + fill, gen.rc(enz.site)) != 1:
        return
    seen = []
    for spelt in (mw.upper(), mw.lower(), mw[:3].lower() + mw[3:].upper()):
        wd = spelt + fill
        wd = wd[case["rot"]:] + wd[:case["rot"]]
        try:
            seen.append(bool(M(impl.CircularRecord(impl.Seq(wd), id="bac")).is_valid()))
        except Exception as e:  # noqa
            seen.append("exc:" + type(e).__name__)
    if seen != [True, True, True]:
        ctx.fail("a {} module in a {} bp plasmid, spelt upper / lower / mixed: is_valid() answers {}".format(
            case["enz"], len(mw) + len(fill), seen), case)
    ctx.note("module-in-a-140kb-plasmid")
    ctx.case({"enz": case["enz"], "fill": case["fill"], "long": True}, nontrivial=True)


def run(ctx):
    rng = ctx.rng
    for _ in range(1 if ctx.tier == "quick" else 3):
        enz = rng.choice([e for e in boot.supported_enzymes() if abs(e.ovhg) >= 3 and len(e.site) >= 6])
        try:
            mw, _d = gen.gen_module(rng, enz, gen.ovh(rng, enz), gen.ovh(rng, enz), blen=6)
        except RuntimeError:
            continue
        ctx.guard(check_long, {"enz": str(enz), "module": mw, "fill": 140000 + rng.randrange(16), "rot": rng.choice([0, 2])})
    for enz in asm.pick_enzymes(rng, ctx.budget(150, 5000)):
        kind = rng.choice("MV")
        if kind == "M":
            wd, _ = gen.gen_module(rng, enz, gen.ovh(rng, enz), gen.ovh(rng, enz))
        else:
            wd, _ = gen.gen_vector(rng, enz, gen.ovh(rng, enz), gen.ovh(rng, enz))
        if rng.random() < 0.2:
            wd = T.mutate(rng, wd)
        wd = gen.rot(wd, rng.randrange(len(wd)))
        ctx.guard(check_typing, {"cls": "generic:{}:{}".format(kind, enz), "word": wd,
                           "spellings": [gen.recase(rng, wd, m) for m in MODES]})
    # records the classes refuse in upper case (a third site inside the structure): refused in every spelling, in
    # particular when only part of the record is soft-masked
    for cls in boot.kit_classes():
        if ctx.tier == "quick" and rng.random() < 0.5:
            continue
        wd = T.inner_site_instance(rng, cls, lower="upper")
        wd = gen.rot(wd, rng.randrange(len(wd)))
        ctx.guard(check_typing, {"cls": asm.cls_name(cls), "word": wd,
                           "spellings": [gen.recase(rng, wd, "regional") for _ in range(8)] + [wd.lower()]})
    per = ctx.budget(2, 40)
    for cls in boot.kit_classes():
        for _ in range(per):
            wd, _ = T.kit_instance(rng, cls, runlen=rng.choice([0, 3, 9]))
            wd = gen.rot(wd, rng.randrange(len(wd)))
            ctx.guard(check_typing, {"cls": asm.cls_name(cls), "word": wd,
                               "spellings": [gen.recase(rng, wd, m) for m in MODES]})
    for enz in asm.pick_enzymes(rng, ctx.budget(250, 10000)):
        g = asm.gen_wellformed(rng, enz, rng.randint(1, 4))
        if g is None:
            continue
        case, info = g
        r = rng.random()
        if r < 0.1 and len(case["mods"]) > 1:
            case["mods"].pop()
        elif r < 0.2:
            case["mods"].append(dict(copy.deepcopy(rng.choice(case["mods"])), oid=77, rid=77))
        elif r < 0.3:
            wd, _ = gen.gen_module(rng, enz, gen.ovh(rng, enz), gen.ovh(rng, enz))
            case["mods"].append(asm.ent_json(78, "generic:M:" + str(enz), wd))
        elif r < 0.65:
            # every way an assembly is refused (equal / reverse-complementary / palindromic start overhangs, a
            # missing link, an unsuitable vector …): refused alike in every spelling
            from props.c07 import perturb
            case = perturb(rng, case, info, modes=["unused", "invalid-vector", "duplicate", "rc-duplicate", "rc-duplicate",
                                                    "palindrome", "palindrome", "missing", "invalid-module", "same-object"])
            ctx.note("refusal:" + case["mode"])
        if rng.random() < 0.2 and "mparts" in info:
            # an undetermined base (N) inside a junction overhang: whatever the library makes of it, it makes the same of
            # its lower-case spelling
            m = rng.choice(case["mods"])
            md = info["mparts"][m["oid"] - 1] if 1 <= m["oid"] <= len(info["mparts"]) else None
            if md is not None:
                o = md[rng.choice(["o5", "o5", "o3"])]
                wdu = m["word"].upper()
                p_ = (wdu + wdu).find(o)
                if 0 <= p_ and len(o) >= 1:
                    q_ = (p_ + rng.randrange(len(o))) % len(wdu)
                    m["word"] = m["word"][:q_] + "N" + m["word"][q_ + 1:]
                    ctx.note("N-in-overhang")
        mode = rng.choice(["lower", "per-record", "per-letter", "vector-lower", "modules-lower"])
        for i, e in enumerate([case["vector"]] + case["mods"]):
            if mode == "lower":
                e["word"] = e["word"].lower()
            elif mode == "per-record":
                e["word"] = gen.recase(rng, e["word"], rng.choice(["lower", "upper"]))
            elif mode == "per-letter":
                e["word"] = gen.recase(rng, e["word"], "mixed")
            elif mode == "vector-lower" and i == 0:
                e["word"] = e["word"].lower()
            elif mode == "modules-lower" and i > 0:
                e["word"] = e["word"].lower()
        case["case_mode"] = mode
        ctx.guard(check_assembly, case)


def check_case(ctx, case):
    if "fill" in case and "module" in case:
        return ctx.guard(check_long, case)
    if "vector" in case:
        ctx.guard(check_assembly, case)
    else:
        ctx.guard(check_typing, case)
