"""C19 — parts of the same type are interchangeable"""
import copy
import re

import asm
import gen
import impl

TABLES = []
LAKE_TARGETS = ["Moclo.Props.C19"]
THEOREMS = ["Moclo.C19." + t for t in ["evalPrefix_interchangeable", "substitute_modules", "substitute_any", "substitute_any_outcome"]]
RULE = ("successful generated assemblies over every enzyme geometry: at every chain position the module is "
        "replaced by a fresh valid module with the same two overhangs and a target of another length (and another "
        "backbone, rotation, case); the new product must differ from the old one only in that module's segment. "
        "thorough adds canonical assemblies of registry parts (same-type pairs). non-trivial = the replacement "
        "target differs from the original; distinct by content")
ASSUMPTIONS = ["the replacement is valid for the module class and has the same upstream and downstream overhangs"]


def segments(prod, case):
    """product split by its generated source features: {record id: segment text}, in order"""
    out = []
    for f in prod.features:
        if f.type == "source" and str(f.qualifiers.get("label", "")).startswith("source: "):
            out.append((f.qualifiers["plasmid"], str(prod.seq)[int(f.location.start):int(f.location.end)]))
    return out


def segment_start(prod, rid):
    for f in prod.features:
        if f.type == "source" and str(f.qualifiers.get("label", "")).startswith("source: ") \
                and f.qualifiers["plasmid"] == rid:
            return int(f.location.start)
    return None


def cited(prod, rid):
    """what the features inside the segment of plasmid `rid` cite: (start, end relative to the segment, papers)"""
    k0 = segment_start(prod, rid)
    seg = dict(segments(prod, None)).get(rid)
    if k0 is None or seg is None:
        return None
    refs = prod.annotations.get("references", []) or []
    out = []
    for f in prod.features:
        cs = f.qualifiers.get("citation")
        if f.type == "source" or not cs or f.location is None:
            continue
        a, b = int(f.location.start), int(f.location.end)
        if k0 <= a and b <= k0 + len(seg):
            papers = []
            for c in cs:
                m = re.fullmatch(r"\[(\d+)\]", c) if isinstance(c, str) else None
                papers.append(impl.ref_id(refs[int(m.group(1)) - 1]) if m and 1 <= int(m.group(1)) <= len(refs) else "?")
            out.append((a - k0, b - k0, tuple(papers)))
    return sorted(out)


def check_case(ctx, case):
    r0, p0, _ = impl.run_asm(asm.asm_op(case))
    if r0.split("\t")[0] != "ok":
        ctx.note("skipped-base-fails")
        return
    i = case["position"]
    new = copy.deepcopy(case)
    new["mods"][i] = dict(new["mods"][i], word=case["replacement"], feats=case.get("replacement_feats", []),
                          refs=case.get("replacement_refs", []))
    if "replacement_rid" in case:
        new["mods"][i]["rid"] = case["replacement_rid"]
    r1, p1, _ = impl.run_asm(asm.asm_op(new))
    if r1.split("\t")[0] != "ok":
        ctx.fail("replacing module {} by a valid module with the same overhangs makes the assembly fail: {}".format(
            case["mods"][i]["oid"], r1.split("\t")[1]), case)
    else:
        s0, s1 = segments(p0, case), segments(p1, new)
        rid = "r{}".format(case["mods"][i]["rid"])
        if "replacement_rid" in case:
            # the replacement carries another input's record name: segments cannot be told apart by name, so
            # compare the sequences — old product with the module's stretch exchanged for the expected one
            a0, a1 = str(p0.seq), str(p1.seq)
            k0 = segment_start(p0, rid)
            seg0 = dict(s0).get(rid)
            if k0 is None or seg0 is None:
                ctx.fail("the product carries no segment attributed to the module {}".format(rid), case)
            elif (a0[:k0] + case["expected_segment"] + a0[k0 + len(seg0):]).upper() != a1.upper():
                ctx.fail("with the replacement named like another input, the new product is not the old one with only "
                         "that module's segment replaced", case)
        elif [n for n, _ in s0] != [n for n, _ in s1]:
            ctx.fail("the chain order changes after the replacement", case)
        else:
            for (n0, t0), (n1, t1) in zip(s0, s1):
                if n0 != rid and t0 != t1:
                    ctx.fail("replacing {} changes the segment of {} from {!r} to {!r}".format(rid, n0, t0, t1), case)
                    break
            if "".join(t for _, t in s1) != str(p1.seq):
                ctx.fail("segments do not tile the new product", case)
            a0 = str(p0.seq)
            a1 = str(p1.seq)
            if rid not in dict(s0) or rid not in dict(s1):
                ctx.fail("the product carries no segment attributed to the module {} (segments: {})".format(
                    rid, [n for n, _ in s1]), case)
            else:
                seg0 = dict(s0)[rid]
                seg1 = dict(s1)[rid]
                k0 = segment_start(p0, rid)      # where the generated source feature places the segment
                if k0 is None or a0[k0:k0 + len(seg0)] != seg0 or a0[:k0] + seg1 + a0[k0 + len(seg0):] != a1:
                    ctx.fail("the new product is not the old one with only that module's segment replaced", case)
                if seg1.upper() != case["expected_segment"].upper():
                    ctx.fail("the replaced segment is {!r}, expected {!r}".format(seg1, case["expected_segment"]), case)
    if r1.split("\t")[0] == "ok" and case.get("same_paper") is not None and "replacement_rid" not in case:
        # the papers cited inside the other inputs' segments are the same before and after (one paper cited by the
        # replacement and by another input with different base ranges stays two bibliography entries)
        for e_ in [case["vector"]] + [m_ for j_, m_ in enumerate(case["mods"]) if j_ != i]:
            rid_ = "r{}".format(e_["rid"])
            c0, c1 = cited(p0, rid_), cited(p1, rid_)
            if c0 is not None and c0 != c1:
                ctx.fail("replacing module {} changes what the features inside the segment of {} cite: {} -> {}".format(
                    case["mods"][i]["oid"], rid_, c0[:3], (c1 or [])[:3]), case)
                break
        ctx.note("same-paper-other-base-range")
    if case.get("backbone_site"):
        ctx.note("replacement-with-site-in-backbone")
    ctx.note("chain={}".format(len(case["mods"])))
    if case.get("long"):
        ctx.note("replacement-in-a-60kb-plasmid")
        ctx.case({"long": True, "enz": case["enz"], "position": case["position"], "replacement_length": len(case["replacement"])},
                 nontrivial=True)
        return          # oracle only: the driver is not fed 60 kb lines
    ctx.case({k: v for k, v in case.items() if k != "info"}, nontrivial=True)
    ctx.op(asm.asm_op(new), None, reply=r1)


def run(ctx):
    rng = ctx.rng
    made_long = 0
    for enz in asm.pick_enzymes(rng, ctx.budget(300, 12000)):
        g = asm.gen_wellformed(rng, enz, rng.randint(1, 5))
        if g is None:
            continue
        case, info = g
        i = rng.randrange(len(case["mods"]))
        md = info["mparts"][case["mods"][i]["oid"] - 1]
        try:
            wd, d2 = gen.gen_module(rng, enz, md["o5"], md["o3"], tlen=rng.randint(2, 20), blen=rng.randint(0, 12))
        except RuntimeError:
            continue
        site, _, _ = gen.geom(enz)
        if len(d2["b"]) >= 6 and rng.random() < 0.3:
            # a replacement kept in a backbone that still carries a site of the enzyme (same orientation, outside
            # the part): a valid module as long as the part's own site comes first — only overhangs and target count
            j = rng.randint(2, len(d2["b"]) - 2)
            cut = len(wd) - len(d2["b"]) + j
            w2 = wd[:cut] + site + wd[cut:]
            if gen.circ_count(w2, site) == 2 and gen.circ_count(w2, gen.rc(site)) == 1:
                wd = gen.rot(w2, rng.randint(0, len(d2["b"]) - j))      # origin stays after the extra site
                case["backbone_site"] = True
            else:
                wd = gen.rot(wd, rng.randrange(len(wd)))
        else:
            wd = gen.rot(wd, rng.randrange(len(wd)))
        if rng.random() < 0.1:
            wd = wd.lower()
        if made_long < (1 if ctx.tier == "quick" else 4) and not case.get("backbone_site"):
            # a replacement kept in a large plasmid (a 60 kb BAC), linearised inside its own upstream site
            unit = "ACGTTGCATGCAAGCT"
            filler = (unit * (60000 // len(unit) + 1))[:60000 + rng.randrange(16)]
            base_ = gen.gen_module(rng, enz, md["o5"], md["o3"], tlen=rng.randint(2, 12), blen=8)
            long_ = base_[0] + filler
            if gen.circ_count(long_, site) == 1 and gen.circ_count(long_, gen.rc(site)) == 1:
                wd, d2 = gen.rot(long_, -rng.randint(1, len(site) - 1)), base_[1]     # the word starts with the site
                case["long"] = True
                made_long += 1
        if rng.random() < 0.25:
            # a well-documented replacement: a long reference list, features citing its last entries
            L = rng.randint(10, 13)
            case["replacement_refs"] = rng.sample(range(200, 240), L)
            n2 = len(wd)
            case["replacement_feats"] = [[1, "u5%d" % j, ["i%d" % rng.randint(max(1, L - 2), L)],
                                          [[a, min(n2, a + rng.randint(1, 6)), 1]]]
                                         for j, a in enumerate(rng.sample(range(n2 - 1), min(2, n2 - 1)))]
        if "replacement_refs" not in case and rng.random() < 0.15:
            # the replacement and another input cite the same paper with different base ranges (what every GenBank file
            # does): two entries of the product's bibliography, before and after
            o = rng.choice([e for e in [case["vector"]] + case["mods"] if e is not case["mods"][i]])
            n3 = len(o["word"])
            o["refs"] = [109]
            o["feats"] = [[1, "u63", ["i1"], [[p, p + 1, 1]]] for p in range(0, n3 - 1, 2)]
            case["replacement_refs"] = [108]
            case["replacement_feats"] = [[1, "u64", ["i1"], [[p, p + 1, 1]]] for p in range(0, len(wd) - 1, 2)]
            case["same_paper"] = o["oid"]
        if "same_paper" not in case and rng.random() < 0.2:
            # the replacement comes under the record name of another input (exports without accession, unnamed
            # records), and that other input is a documented one (a reference, a cited feature)
            others = [e for e in [case["vector"]] + case["mods"] if e is not case["mods"][i]]
            o = rng.choice(others)
            o["refs"] = [250 + rng.randrange(5)]
            n3 = len(o["word"])
            o["feats"] = list(o["feats"]) + [[2, "u61", ["i1"], [[p, p + 1, 1]]] for p in range(0, n3 - 1, 4)]
            case["replacement_rid"] = o["rid"]
        case["position"] = i
        case["replacement"] = wd
        case["expected_segment"] = d2["o5"] + d2["t"]
        ctx.guard(check_case, case)
    if ctx.tier == "thorough" and ctx.scale == 1:
        registry_pairs(ctx)


def registry_pairs(ctx):
    """canonical YTK cassette assemblies with every same-type replacement available in the registry"""
    import extract
    from moclo.kits import ytk
    rng = ctx.rng
    reg = dict(extract.registries())["ytk.YTKRegistry"]
    by_type = {}
    for k in reg:
        ent = reg[k].entity
        by_type.setdefault(type(ent).__name__, []).append(ent)
    order = ["YTKPart1", "YTKPart2", "YTKPart3", "YTKPart4", "YTKPart5", "YTKPart6", "YTKPart7", "YTKPart8"]
    if not all(t in by_type for t in order):
        ctx.note("registry-types-missing")
        return
    import warnings
    n = 0
    for _ in range(60):
        parts = [rng.choice(by_type[t]) for t in order]
        vec, mods = parts[-1], parts[:-1]
        try:
            with warnings.catch_warnings():
                warnings.simplefilter("ignore")
                p0 = vec.assemble(*mods)
        except Exception:
            ctx.note("registry-base-fails")
            continue
        i = rng.randrange(len(mods))
        alts = [e for e in by_type[order[i]] if e is not mods[i]]
        for alt in alts[:6]:
            mods2 = list(mods)
            mods2[i] = alt
            try:
                with warnings.catch_warnings():
                    warnings.simplefilter("ignore")
                    p1 = vec.assemble(*mods2)
            except Exception as e:  # noqa
                if str(alt.overhang_start()).upper() == str(mods[i].overhang_start()).upper() and \
                        str(alt.overhang_end()).upper() == str(mods[i].overhang_end()).upper():
                    ctx.fail("registry: replacing {} by {} fails with {}".format(
                        mods[i].record.id, alt.record.id, type(e).__name__),
                        {"registry_ids": [m.record.id for m in mods], "alt": alt.record.id})
                continue
            t0, t1 = str(mods[i].target_sequence().seq), str(alt.target_sequence().seq)
            a0, a1 = str(p0.seq), str(p1.seq)
            k0 = a0.find(t0)
            if a0.count(t0) == 1 and a0[:k0] + t1 + a0[k0 + len(t0):] != a1:
                ctx.fail("registry: replacing {} by {} changes more than that module's segment".format(
                    mods[i].record.id, alt.record.id), {"registry_ids": [m.record.id for m in mods], "alt": alt.record.id})
            n += 1
            ctx.case({"registry_ids": [m.record.id for m in mods], "alt": alt.record.id}, nontrivial=True)
    ctx.note("registry-replacements", n)
