"""C20 — registries are coherent read-only mappings of uniquely identified plasmids"""
import io

import boot
import extract
import gen
import impl

TABLES = ["Registries"]
LAKE_TARGETS = ["Moclo.Props.C20", "Moclo.Tables.Registries"]
THEOREMS = ["Moclo.C20." + t for t in ["lookup_absent", "setdefault_keys", "setdefault_lookup", "add_spec",
                                       "combine_spec", "len_eq_keys", "iterated_key_found", "embedded_coherent", "resistance_from_table", "resistance_known",
                                       "dir_lookup_iff_iterated", "dir_item_carries_key", "dir_keys_case_independent",
                                       "dir_subdirectories_ignored", "dir_plasmid_files_listed", "dir_keys_nodup"]]
# reductions under which a failing case stays a case of this property (see shrink.py)
SHRINK = {"lists": ["members", "real_members", "files", "dirs", "junk", "labels"], "keep_one": []}
RULE = ("the five embedded registries, every item (exhaustive); in-memory directories of typed GenBank plasmids "
        "under supported (.gb, .gbk) and unsupported extensions, dotted stems, sub-directories and non-GenBank "
        "files; combinations of embedded, directory and synthetic registries with overlapping and repeated "
        "members. non-trivial = a registry/combination with at least two keys; distinct by content")
ASSUMPTIONS = ["PARTIAL: tarfile / fs / GenBank parsing are I/O outside the Lean model (oracle only)",
               "directory keys contain no path separator; file stems are distinct"]
KNOWN_RES = {"Kanamycin", "Chloramphenicol", "Ampicillin", "Spectinomycin"}
_state = {}


def check_mapping(ctx, name, reg, case, expect_keys=None, absent_keys=()):
    """the mapping laws on a real registry object"""
    keys = list(reg)
    if len(set(keys)) != len(keys):
        ctx.fail("{}: iteration yields a key twice".format(name), case)
    if len(reg) != len(keys):
        ctx.fail("{}: len() is {} but iteration yields {} keys".format(name, len(reg), len(keys)), case)
    if expect_keys is not None and sorted(keys) != sorted(expect_keys):
        ctx.fail("{}: iteration yields {} instead of {}".format(name, sorted(keys)[:8], sorted(expect_keys)[:8]), case)
    for k in keys:
        try:
            it = reg[k]
        except KeyError:
            ctx.fail("{}: yielded key {!r} cannot be looked up".format(name, k), case)
            continue
        rec = it.entity.record
        if it.id != k or rec.id != k:
            ctx.fail("{}: item found under {!r} has id {!r} / record id {!r}".format(name, k, it.id, rec.id), case)
        if not isinstance(rec, boot.CircularRecord):
            ctx.fail("{}: record of {!r} is not circular".format(name, k), case)
        if it.resistance not in KNOWN_RES:
            ctx.fail("{}: item {!r} has resistance {!r}".format(name, k, it.resistance), case)
        if k not in reg:
            ctx.fail("{}: `{!r} in registry` is False for a yielded key".format(name, k), case)
    # every item is its own: looked up all together (a parts list built in one go), each still holds the record with its
    # own key afterwards — also when two files have the same content
    held = {}
    for k in keys:
        try:
            held[k] = reg[k]
        except Exception:  # noqa   (reported above)
            pass
    for k, it in held.items():
        if it.id != k or it.entity.record.id != k:
            ctx.fail("{}: after looking up all of {} keys, the item obtained for {!r} has id {!r} / record id {!r}".format(
                name, len(keys), k, it.id, it.entity.record.id), case)
            break
    for absent in ["__absent__", "", "pYTK999x"] + list(absent_keys):
        if absent in keys:
            continue
        try:
            reg[absent]
            ctx.fail("{}: looking up the absent key {!r} does not raise KeyError".format(name, absent), case)
        except KeyError:
            pass
        except Exception as e:  # noqa
            ctx.fail("{}: absent key raises {} instead of KeyError".format(name, type(e).__name__), case)
    return keys


def embedded(ctx):
    if "emb" not in _state:
        _state["emb"] = extract.registries()
    return _state["emb"]


def check_embedded(ctx):
    for name, reg in embedded(ctx):
        case = {"registry": name}
        keys = check_mapping(ctx, name, reg, case)
        ctx.note("embedded-items", len(keys))
        ctx.case(case, nontrivial=len(keys) >= 2)


def source_records(ctx):
    """typed plasmids to populate directories with: (record, base class)"""
    if "src" not in _state:
        from moclo.kits import ytk, cidar
        out = []
        for name, reg in embedded(ctx):
            base = {"ytk.YTKRegistry": ytk.YTKPart, "cidar.CIDARRegistry": cidar.CIDARPart}.get(name)
            if base is None:
                continue
            for k in list(reg)[:60]:
                rec = reg[k].entity.record
                try:
                    base.characterize(boot.CircularRecord(rec))
                except RuntimeError:
                    continue        # not a member of this part family (vectors …): not a typed plasmid for `base`
                out.append((rec, base))
        # a laboratory's own directory: its base type is itself a concrete part type that has a variant (a
        # subclass); plasmids of the base type and of the variant live side by side
        from Bio.SeqFeature import SeqFeature, SimpleLocation
        import random
        r = random.Random(2020)
        enz = boot.Restriction.BsaI
        M, _ = impl.generic_classes(enz)
        Promoter = type("LabPromoter", (boot.AbstractPart, M), {"cutter": enz, "signature": ("GGAG", "TACT")})
        # (kept alive: `__subclasses__()` only holds weak references)
        _state["lab_family"] = [Promoter, type("LabPromoterLong", (Promoter,), {"signature": ("GGAG", "AATG")})]
        for i, (u, d) in enumerate([("GGAG", "TACT"), ("GGAG", "AATG"), ("GGAG", "TACT"), ("GGAG", "AATG")]):
            wd, _ = gen.gen_module(r, enz, u, d, tlen=20, blen=40)
            rec = boot.SeqRecord(boot.Seq(wd), id="lab%d" % i, name="lab%d" % i, description="lab plasmid %d" % i,
                                 annotations={"molecule_type": "DNA", "topology": "circular"})
            rec.features.append(SeqFeature(SimpleLocation(len(wd) - 30, len(wd) - 5, 1), type="CDS",
                                           qualifiers={"label": [r.choice(["KanR", "AmpR", "CmR"])]}))
            out.append((rec, Promoter))
        _state["src"] = out
    return _state["src"]


def genbank_text(rec):
    from Bio import SeqIO
    h = io.StringIO()
    SeqIO.write(rec, h, "genbank")
    return h.getvalue()


def relabelled(rec, mode):
    """the same plasmid as a curator would annotate it: the resistance cassette carries further labels (its tag
    not the first), other features carry several labels"""
    import copy
    _ANTIBIOTICS = impl.antibiotics()
    rec = copy.deepcopy(rec)
    for ft in rec.features:
        labels = list(ft.qualifiers.get("label", []))
        if set(labels) & set(_ANTIBIOTICS):
            if mode in ("tag-second", "both"):
                ft.qualifiers["label"] = ["resistance marker (curated)"] + labels
        elif labels and mode in ("others-multi", "both"):
            ft.qualifiers["label"] = labels + ["alias of " + labels[0]]
    return rec


_writable = {}


def build_dir(ctx, case):
    _writable.clear()
    import fs.memoryfs
    from moclo.registry.base import FilesystemRegistry
    src = source_records(ctx)
    base = src[case["files"][0]["src"]][1] if case["files"] else src[0][1]
    if case.get("backend") == "disk":
        # a real directory, the ordinary use (PyFilesystem's OSFS: its wildcard matching is not the in-memory one's)
        import fs as _fs
        import tempfile
        case["_tmp"] = tempfile.mkdtemp(prefix="moclo-verif-dir-")
        mem = _fs.open_fs(case["_tmp"])
    else:
        mem = fs.memoryfs.MemoryFS()
    for f in case["files"]:
        rec, _ = src[f["src"]]
        if f.get("labels"):
            rec = relabelled(rec, f["labels"])
        mem.writetext(f["stem"] + "." + f["ext"], genbank_text(rec))
    for d in case["dirs"]:
        mem.makedir(d)
        rec, _ = src[0]
        mem.writetext(d + "/inner.gb", genbank_text(rec))
    for n in case["junk"]:
        mem.writetext(n, "not a genbank file\n")
    reg = FilesystemRegistry(mem, base, extensions=tuple(case["extensions"])) if case.get("extensions") \
        else FilesystemRegistry(mem, base)
    _writable[id(reg)] = mem            # the registry sees its directory read-only; the owner of the directory does not
    return reg, base


def check_dir(ctx, case):
    import shutil
    try:
        _check_dir(ctx, case)
    finally:
        tmp = case.pop("_tmp", None)
        if tmp:
            shutil.rmtree(tmp, ignore_errors=True)


def _check_dir(ctx, case):
    reg, base = build_dir(ctx, case)
    exts = case.get("extensions") or ["gb", "gbk"]
    if all(e in ("gb", "gbk", "genbank", "GB") for e in exts):
        # the key of a file is its name without the last suffix, when that suffix is a supported extension
        names = [f["stem"] + "." + f["ext"] for f in case["files"]]
        expect = [nm.rsplit(".", 1)[0] for nm in names if nm.rsplit(".", 1)[1] in exts]
    else:
        # an extension spelt with its dot: which files that selects is not the property's business, but iteration,
        # len(), [] and `in` must still tell one story (every stem is tried as a possibly-absent key below)
        expect = None
        ctx.note("dir-dotted-extension")
    # a sub-directory named like a plasmid file holds no plasmid: its stem is an absent key unless a file has it
    absent = [d.rsplit(".", 1)[0] for d in case["dirs"] if "." in d and d.rsplit(".", 1)[0] not in (expect or ())]
    absent += [f["stem"] for f in case["files"] if f["stem"] not in (expect or ())]
    # what lies in a sub-directory, and other spellings of a path to a plasmid file, are not keys; nor is the empty
    # name of a dot-file
    absent += [d + "/inner" for d in case["dirs"]]
    for f in case["files"][:2]:
        absent += ["/" + f["stem"], "./" + f["stem"], "../" + f["stem"], f["stem"] + "/"]
    ctx.note("dir-backend:" + case.get("backend", "memory"))
    check_mapping(ctx, "directory registry", reg, case, expect_keys=expect, absent_keys=absent)
    ctx.note("dir-files", len(case["files"]))
    ctx.case(case, nontrivial=len(list(reg)) >= 2 if expect is None else len(expect) >= 2)
    # the model of the directory logic (Dir.keys / Dir.lookup) against the real registry on the same listing
    def nm(x):
        return "n" + ",".join(str(ord(ch)) for ch in x)
    fsobj = getattr(reg, "fs", None)
    if fsobj is None:
        ctx.note("dir-model-tie-skipped")       # the filesystem handle is not where it was: oracle only
        return
    listing = [(i.name, not i.is_dir) for i in fsobj.scandir("/")]
    ci = bool(fsobj.getmeta().get("case_insensitive", True))
    keys = list(reg)
    probes = keys + [a for a in absent if isinstance(a, str)] + ["__absent__", "", "pYTK999x"]
    found = ""
    for k in probes:
        try:
            reg[k]
            found += "1"
        except KeyError:
            found += "0"
        except Exception:  # noqa
            found += "x"
    ctx.op(("RAW", "\t".join(["DIR", "1" if ci else "0", ";".join(nm(e) for e in exts) or ".",
                               ";".join(nm(n) + ":" + ("1" if f else "0") for n, f in listing) or ".",
                               ";".join(nm(k) for k in probes)])), case,
           reply="\t".join(["ok", ";".join(nm(k) for k in keys) or ".", found]))
    # the directory is the registry: a plasmid file deleted behind a live registry object (after it was looked up) is
    # gone from iteration, len, `in` and lookup alike
    if keys:
        k0 = keys[len(keys) // 2]
        victims = [n_ for n_, isf in listing if isf and any(n_ == k0 + "." + "".join(map(chr, e_)).lstrip(".")
                                                            if isinstance(e_, (list, tuple)) else n_ == k0 + "." + str(e_).lstrip(".")
                                                            for e_ in exts)]
        if len(victims) == 1 and id(reg) in _writable and "added9" not in keys:
            # … and a file that arrives later is there — also for a combination the registry was already added to, once
            # it is added again
            from moclo.registry.base import CombinedRegistry
            comb = CombinedRegistry()
            try:
                comb << reg
                w_ = _writable[id(reg)]
                w_.writetext("/added9." + victims[0].rsplit(".", 1)[1], w_.readtext("/" + victims[0]))
                comb << reg
                missing = [where for where, ok_ in (("the registry", "added9" in reg and "added9" in list(reg)),
                                                    ("the combination it was added to again", "added9" in comb and "added9" in list(comb)))
                           if not ok_]
                if missing:
                    ctx.fail("directory registry: a plasmid file written into the directory later is not in {}".format(
                        " nor in ".join(missing)), case)
                ctx.note("file-added-behind-registry")
            except Exception as e:  # noqa
                ctx.fail("directory registry: adding a file behind a live registry and combining again raises {}".format(
                    type(e).__name__), case)
        if len(victims) == 1:
            try:
                reg[k0]
                _writable.pop(id(reg)).remove("/" + victims[0])
            except Exception:  # noqa
                victims = []
        if len(victims) == 1:
            still = []
            if k0 in list(reg):
                still.append("iteration")
            if k0 in reg:
                still.append("`in`")
            try:
                reg[k0]
                still.append("lookup")
            except KeyError:
                pass
            except Exception as e:  # noqa
                still.append("lookup raises " + type(e).__name__)
            if len(reg) != len(list(reg)):
                still.append("len")
            if still:
                ctx.fail("directory registry: after {!r} was deleted from the directory, key {!r} is still there for {}".format(
                    victims[0], k0, ", ".join(still)), case)
            ctx.note("file-deleted-behind-registry")


class ListRegistry(object):
    """a synthetic member: items with chosen ids"""
    def __new__(cls, items):
        from moclo.registry.base import AbstractRegistry, Item

        class _L(AbstractRegistry):
            def __init__(self, items):
                self._items = [Item(id=i, name="n", entity=("payload", p), resistance="Kanamycin") for i, p in items]

            def __getitem__(self, k):
                for it in self._items:
                    if it.id == k:
                        return it
                raise KeyError(k)

            def __iter__(self):
                return iter([it.id for it in self._items])

            def __len__(self):
                return len(self._items)
        return _L(items)


def check_combine(ctx, case):
    from moclo.registry.base import CombinedRegistry
    members = [[(int(k), int(v)) for k, v in m] for m in case["members"]]
    comb = CombinedRegistry()
    nest = case.get("nest", [])
    inners = []        # (inner combination, what it held when it was added)
    i = 0
    while i < len(members):
        if i in nest:
            # a combination added as a member of a combination
            inner = CombinedRegistry()
            j = i
            while j < len(members) and (j == i or j in nest):
                inner << ListRegistry([("k%d" % k, v) for k, v in members[j]])
                j += 1
            inners.append((inner, [(k, inner[k].entity[1]) for k in inner]))
            comb << inner
            i = j
        else:
            comb << ListRegistry([("k%d" % k, v) for k, v in members[i]])
            i += 1
    # a member is only read: whatever is added to the outer combination afterwards, it holds what it held
    for inner, held in inners:
        now = [(k, inner[k].entity[1]) for k in inner]
        if now != held or len(inner) != len(held):
            ctx.fail("a combination used as a member of another one changed when further members were added to the "
                     "outer one: it held {} and now holds {}".format(held, now), case)
    keys = list(comb)
    union = []
    for m in members:
        for k, v in m:
            if k not in [u[0] for u in union]:
                union.append((k, v))
    if len(set(keys)) != len(keys) or len(comb) != len(keys):
        ctx.fail("combined registry: keys {} / len {}".format(keys, len(comb)), case)
    if sorted(keys) != sorted("k%d" % k for k, _ in union):
        ctx.fail("combined registry does not contain the union of its members' keys: {}".format(keys), case)
    got = []
    for k in keys:
        it = comb[k]
        if it.id != k:
            ctx.fail("combined item under {!r} has id {!r}".format(k, it.id), case)
        got.append((int(k[1:]), it.entity[1]))
    if dict(got) != dict(union):
        ctx.fail("combined registry: for a shared id the first member added does not win: {} vs {}".format(
            got, union), case)
    for k in ["k999999"]:
        try:
            comb[k]
            ctx.fail("combined registry: absent key does not raise KeyError", case)
        except KeyError:
            pass
        if k in comb:
            ctx.fail("combined registry: absent key reported as contained", case)
    ctx.case(case, nontrivial=len(union) >= 2)
    ctx.op(("RAW", "COMBINE\t" + impl.enc_list("|", [impl.enc_list(",", ["%d:%d" % kv for kv in m]) for m in members])),
           case, reply=impl.enc_list(",", ["%d:%d" % kv for kv in got]))


def check_combine_real(ctx, case):
    """combination of real registries (embedded, directory), overlapping and repeated"""
    from moclo.registry.base import CombinedRegistry
    regs = dict(embedded(ctx))
    members = []
    for m in case["real_members"]:
        if m[0] == "emb":
            members.append(regs[m[1]])
        else:
            members.append(build_dir(ctx, m[1])[0])
    comb = CombinedRegistry()
    for m in members:
        comb << m
    exp = {}
    for m in members:
        for k in m:
            exp.setdefault(k, m)
    check_mapping(ctx, "combined registry", comb, case, expect_keys=list(exp))
    def content(it):
        # a directory registry parses the file anew on every lookup: compare what the item holds
        return (it.id, it.name, type(it.entity).__name__, str(it.entity.record.seq).upper(), it.resistance)
    for k in list(exp)[:50]:
        if comb[k] is not exp[k][k] and content(comb[k]) != content(exp[k][k]):
            ctx.fail("combined registry: {!r} does not come from the first member holding it".format(k), case)
    ctx.case(case, nontrivial=len(exp) >= 2)


def check_resistance(ctx, case):
    """which antibiotic a plasmid is selected on: the first feature carrying a cassette tag among its labels
    decides; two different tags on one feature are refused; nothing tagged is refused"""
    _ANTIBIOTICS = impl.antibiotics()
    feats = case["labels"]
    exp = "notfound"
    for labels in feats:
        tags = sorted(set(labels) & set(_ANTIBIOTICS))
        if len(tags) > 1:
            exp = "multiple"
            break
        if len(tags) == 1:
            exp = "ok:" + impl.str_code(_ANTIBIOTICS[tags[0]])
            break
    got = impl.run(("RESIST", feats))
    if got != exp:
        ctx.fail("find_resistance on features labelled {} answers {} instead of {}".format(feats, got, exp), case)
    if got.startswith("ok:") and got[3:] not in [impl.str_code(x) for x in
                                                 ("Kanamycin", "Chloramphenicol", "Ampicillin", "Spectinomycin")]:
        ctx.fail("find_resistance returns something that is not a known antibiotic", case)
    ctx.note("resistance:" + got.split(":")[0])
    ctx.case(case, nontrivial=len(feats) >= 2, key=["res", feats])
    ctx.op(("RESIST", feats), case, reply=got)


def gen_labels(rng):
    _ANTIBIOTICS = impl.antibiotics()
    tags = sorted(_ANTIBIOTICS)
    other = ["cat", "ori", "CmR ", "cmr", "KanR2", "AmpR promoter", "bla", "rep", "GFP", "resistance marker"]
    feats = []
    for _ in range(rng.randint(0, 5)):
        n = rng.choice([0, 1, 1, 2, 3])
        feats.append([rng.choice(tags if rng.random() < 0.3 else other) for _ in range(n)])
    if feats and rng.random() < 0.2:
        feats[rng.randrange(len(feats))] += [rng.choice(tags)] * 2      # the same tag twice is one cassette
    return {"labels": feats}


def gen_dir(rng, nsrc):
    nfiles = rng.choice([0, 1, 2, 3, 5, 8])
    stems = set()
    files = []
    for _ in range(nfiles):
        stem = rng.choice(["p", "plasmid", "pX.1", "a-b", "Q_7", "v2.final"]) + str(rng.randrange(1000))
        if rng.random() < 0.3:
            # names that end in letters of their own extension, or in a dot
            stem = rng.choice(["pLab", "big", "kgb", "lab.g", "pB", "gbk", "tag.", "bbb"]) + rng.choice(["", str(rng.randrange(10)) + "g", "b"])
        if stem in stems:
            continue
        stems.add(stem)
        files.append({"stem": stem, "ext": rng.choice(["gb", "gb", "gbk", "gbk", "genbank", "txt", "fasta", "GB", "seq.gb", "gb.txt"]),
                      "src": rng.randrange(nsrc),
                      "labels": rng.choice([None, None, "tag-second", "others-multi", "both"])})
    dirs = rng.sample(["sub", "old.gb", "x", "backup.gbk"], rng.randint(0, 2))
    gbfiles = [f for f in files if f["ext"] in ("gb", "gbk")]
    if gbfiles and rng.random() < 0.4:
        # the same plasmid saved twice under different names (a copy, a renamed export): byte-identical files
        f = rng.choice(gbfiles)
        stem = "copy" + str(rng.randrange(100))
        if stem not in stems:
            stems.add(stem)
            files.insert(rng.randrange(len(files) + 1), dict(f, stem=stem, ext=rng.choice(["gb", "gbk"])))
    if gbfiles and rng.random() < 0.3:
        f = rng.choice(gbfiles)
        dirs.append(f["stem"] + "." + ("gbk" if f["ext"] == "gb" else "gb"))      # pX.gb/ next to pX.gbk
    exts = rng.choice([None, None, None, ["gb"], ["gbk", "gb"], ["genbank"], ["gb", "gbk", "genbank"], [".gb"],
                       ["gb", ".gbk"], [".gb", ".gbk"], ["seq.gb", "gb"], ["seq.gb"]])
    return {"files": files, "dirs": dirs, "extensions": exts,
            "backend": rng.choice(["memory", "memory", "disk"]),
            "junk": rng.sample(["README", "notes.txt", "seq.fa", ".hidden", ".gb", ".gbk"], rng.randint(0, 2))}


def check_keys_small(ctx):
    """`FilesystemRegistry._key` against the model's `Dir.key` on *every* file name up to a small length over the
    letters that matter (a stem letter, the dot, the slash, the extension's letters in both cases): the
    small-scope exhaustive part of the tie for `splitext` / `_key`"""
    import itertools
    import fs.memoryfs
    from moclo.registry.base import FilesystemRegistry
    base = source_records(ctx)[0][1]
    alphabet = "a./gbG"
    maxlen = 4 if ctx.tier == "quick" else 6
    names = ["".join(t) for n in range(0, maxlen + 1) for t in itertools.product(alphabet, repeat=n)]
    def nm(x):
        return "n" + ",".join(str(ord(ch)) for ch in x)
    for exts in (("gb", "gbk"), ("g",), ("b.g", "g")):
        reg = FilesystemRegistry(fs.memoryfs.MemoryFS(), base, extensions=exts)
        if not hasattr(reg, "_key"):
            ctx.note("dir-key-helper-absent")       # the helper is private: its absence is not a failure
            return
        for lo in range(0, len(names), 400):
            chunk = names[lo:lo + 400]
            got = []
            for x in chunk:
                try:
                    k = reg._key(x)
                    got.append("-" if k is None else nm(k))
                except Exception as e:  # noqa
                    got.append("exc:" + type(e).__name__)
            # a stem spelt `..` makes fs.path.splitext itself raise (IllegalBackReference): outside the model
            keep = [i for i, x in enumerate(chunk) if not got[i].startswith("exc")]
            ctx.note("dir-key-splitext-raises", len(chunk) - len(keep))
            if not keep:
                continue
            ctx.op(("RAW", "\t".join(["DKEY", ";".join(nm(e) for e in exts), ";".join(nm(chunk[i]) for i in keep)])),
                   None, reply=";".join(got[i] for i in keep))
        ctx.note("dir-key-names", len(names))


def run(ctx):
    rng = ctx.rng
    check_embedded(ctx)
    check_keys_small(ctx)
    for _ in range(ctx.budget(150, 6000)):
        ctx.guard(check_resistance, gen_labels(rng))
    nsrc = len(source_records(ctx))
    for _ in range(ctx.budget(60, 1500)):
        d = gen_dir(rng, nsrc)
        if d["files"]:
            base = source_records(ctx)[d["files"][0]["src"]][1]
            d["files"] = [f for f in d["files"] if source_records(ctx)[f["src"]][1] is base]
        ctx.guard(check_dir, d)
    # directories of the laboratory family whose base type is concrete and has a variant (the last four sources)
    for _ in range(ctx.budget(8, 200)):
        d = gen_dir(rng, nsrc)
        for f in d["files"]:
            f["src"] = nsrc - 1 - rng.randrange(4)         # the four laboratory plasmids are the last four sources
            f["labels"] = None
        # every such directory holds at least one plasmid of the base type itself and one of the variant, as plasmid files
        for stem_, src_ in (("labbase", nsrc - 4), ("labvariant", nsrc - 3)):
            if not any(f["stem"] == stem_ for f in d["files"]):
                d["files"].append({"stem": stem_, "ext": rng.choice(["gb", "gbk"]), "src": src_, "labels": None})
        if d.get("extensions") and not any(e_.lstrip(".") in ("gb", "gbk") for e_ in d["extensions"]):
            d["extensions"] = None
        ctx.guard(check_dir, d)
    for _ in range(ctx.budget(400, 20000)):
        members = [[[rng.randrange(8), rng.randrange(100)] for _ in range(rng.randint(0, 5))]
                   for _ in range(rng.randint(0, 4))]
        members = [[list(kv) for kv in {k: v for k, v in m}.items()] for m in members]   # distinct keys per member
        if members and rng.random() < 0.3:
            members.append(rng.choice(members))
        nest = [i for i in range(len(members)) if rng.random() < 0.3] if rng.random() < 0.5 else []
        ctx.guard(check_combine, {"members": members, "nest": nest})
    names = [n for n, _ in embedded(ctx)]
    for _ in range(ctx.budget(3, 40)):
        ms = [["emb", rng.choice(names)] for _ in range(rng.randint(1, 3))]
        if rng.random() < 0.7:
            d = gen_dir(rng, nsrc)
            if d["files"]:
                base = source_records(ctx)[d["files"][0]["src"]][1]
                d["files"] = [f for f in d["files"] if source_records(ctx)[f["src"]][1] is base]
            ms.insert(rng.randrange(len(ms) + 1), ["dir", d])
        if rng.random() < 0.5:
            ms.append(ms[0])
        ctx.guard(check_combine_real, {"real_members": ms})


def check_case(ctx, case):
    if "labels" in case and "files" not in case:
        return ctx.guard(check_resistance, case)
    if "registry" in case:
        check_embedded(ctx)
    elif "members" in case:
        ctx.guard(check_combine, case)
    elif "real_members" in case:
        ctx.guard(check_combine_real, case)
    else:
        ctx.guard(check_dir, case)
