"""C17 — validation is total and failures are always reported as MoClo errors"""
import asm
import boot
import gen
import impl
import typing_h as T

TABLES = ["Kits"]
LAKE_TARGETS = ["Moclo.Props.C17", "Moclo.Tables.Kits"]
THEOREMS = ["Moclo.C17." + t for t in ["isValid_false_iff", "isValid_true_iff", "accessors_raise_invalid", "assemble_errors_documented",
                                           "internal_only_for_bad_citations", "product_as_input_never_internal"]]
# reductions under which a failing case stays a case of this property (see shrink.py)
SHRINK = {"strings": True}
RULE = ("all 85 concrete kit classes and generic classes over every supported enzyme x a malformed stream (random "
        "letters over the 15-letter IUPAC alphabet in both cases, length >= 1, records shorter than the structure, "
        "single-letter corruptions of structure instances, near-misses of other kits' structures); is_valid() must "
        "answer, overhangs/target must raise the documented invalid-sequence error on rejected records; assemblies "
        "mixing valid and invalid records must end with a product or a documented MoClo exception. non-trivial = a "
        "rejected record or a failing assembly; distinct by (class, word)")
ASSUMPTIONS = ["PARTIAL: 'never an internal exception' is a statement about the Python runtime: decided by this "
               "oracle and the correspondence on the malformed stream; the Lean theorems cover the error taxonomy",
               "circular records of length >= 1 over the 30-letter alphabet; 5'-overhang cutters (3' ones: known finding)"]

DOCUMENTED = ("ok", "invalid", "illegal", "duplicate", "missing")


def check_validate(ctx, case):
    cls = asm.cls_by_name(case["cls"])
    wd = case["word"]
    res = T.evaluate(cls, wd)
    if res[0].startswith("exc") or res[0] == "invalid-but-overhang-returned":
        ctx.fail("{} on {!r}: {}".format(cls.__name__, wd, res[0]), case)
    if res[0] in ("invalid", "illegal"):
        ent = cls(impl.CircularRecord(impl.Seq(wd), id="q"))
        for meth in ("overhang_start", "overhang_end", "target_sequence"):
            try:
                getattr(ent, meth)()
                ctx.fail("{}.{}() returns on a record that is not valid".format(cls.__name__, meth), case)
            except boot.errors.InvalidSequence:
                pass
            except Exception as e:  # noqa
                ctx.fail("{}.{}() raises {} instead of InvalidSequence".format(cls.__name__, meth, type(e).__name__), case)
        # the error can be shown to the user (str / repr), whatever text the record is called
        for rid_ in ("q", "p{GFP}-{0}", "50% {", "a}b"):
            try:
                cls(impl.CircularRecord(impl.Seq(wd), id=rid_, name=rid_)).overhang_start()
            except boot.errors.InvalidSequence as e:
                try:
                    str(e), repr(e)
                except Exception as e2:  # noqa
                    ctx.fail("the InvalidSequence raised for the record called {!r} cannot be rendered: str() raises {}".format(
                        rid_, type(e2).__name__), case)
                    break
            except Exception:  # noqa   (reported above)
                pass
    # the same circular record as Bio.SeqIO hands it over (a plain SeqRecord annotated circular): same answer, no exception
    plain = impl.SeqRecord(impl.Seq(wd), id="q", annotations={"topology": "circular", "molecule_type": "DNA"})
    try:
        v = cls(plain).is_valid()
        if v != (res[0] == "valid") and not res[0].startswith("exc"):
            ctx.fail("{} on {!r}: is_valid() is {} for a SeqRecord annotated circular but the CircularRecord is {}".format(
                cls.__name__, wd, v, res[0]), case)
    except Exception as e:  # noqa
        ctx.fail("{} on {!r} given as a SeqRecord annotated circular: is_valid() raises {}".format(
            cls.__name__, wd, type(e).__name__), case)
    ctx.note("verdict:" + res[0])
    ctx.case(case, nontrivial=res[0] != "valid", key=[case["cls"], wd])
    ctx.op(("EVAL", cls, wd, []), case)


def check_3prime(ctx):
    """generic classes over 3'-overhang cutters: known finding F9"""
    hit = 0
    for e in sorted(boot.Restriction.AllEnzymes, key=str):
        try:
            if not (e.is_3overhang() and e.cut_once()) or e.is_unknown():
                continue
        except Exception:
            continue
        M = type("M3", (boot.AbstractModule,), {"cutter": e})
        try:
            M(impl.CircularRecord(impl.Seq("ACGTACGTACGTACGTACGTACGTACGT"), id="x")).is_valid()
        except Exception as ex:  # noqa
            hit += 1
            ctx.fail("generic class over 3'-overhang cutter {}: is_valid() raises {}".format(e, type(ex).__name__),
                     {"enzyme3": str(e)}, key="3prime-generic-structure")
        if hit >= 3:
            break


def check_assembly(ctx, case):
    reply, prod, _ = impl.run_asm(asm.asm_op(case))
    f = reply.split("\t")
    kind = "ok" if f[0] == "ok" else f[1].split(":")[0]
    if kind not in DOCUMENTED:
        ctx.fail("an assembly mixing valid and invalid records ends with {}".format(f[1]), case)
    if case.get("template"):
        # plasmids derived from one annotated template: different record objects that carry the very same feature
        # objects and reference list (CircularRecord(new_seq, features=tpl.features, annotations=tpl.annotations))
        op = asm.asm_op(case)
        ents = impl.build_entities(op[3], op[4])
        recs = [ents[0].record] + [m.record for m in ents[1]]
        tpl = max(recs, key=lambda r: sum(1 for x in r.features if x.qualifiers.get("citation")))
        if any(x.qualifiers.get("citation") for x in tpl.features):
            for r in recs:
                if r is not tpl:
                    r.features = [x for x in tpl.features if x.location is not None and int(x.location.end) <= len(r.seq)]
                    r.annotations["references"] = tpl.annotations["references"]
            reply2, _, _ = impl.run_asm(op, entities=ents)
            f2 = reply2.split("\t")
            kind2 = "ok" if f2[0] == "ok" else f2[1].split(":")[0]
            if kind2 != kind:
                ctx.fail("the same plasmids, annotated with the feature objects and the reference list of one template, end "
                         "with {} instead of {}".format(f2[1] if f2[0] != "ok" else "a product", kind), case)
            ctx.note("template-shared-annotations")
    ctx.note("assembly:" + kind)
    ctx.case({k: v for k, v in case.items() if k != "info"}, nontrivial=kind != "ok")
    ctx.op(asm.asm_op(case), None, reply=reply)


def malformed_for(rng, cls, kits):
    r = rng.random()
    if r < 0.3:
        return gen.malformed(rng)
    if r < 0.4:
        return gen.malformed(rng, rng.randint(1, 6))
    if r < 0.75:
        wd, _ = T.kit_instance(rng, cls, runlen=rng.choice([0, 2, 6]))
        wd = T.mutate(rng, wd)
        if rng.random() < 0.3:
            i = rng.randrange(len(wd))
            wd = wd[:i] + rng.choice("RYSWKMBDHVNn") + wd[i + 1:]
        return gen.rot(gen.recase(rng, wd) if rng.random() < 0.3 else wd, rng.randrange(len(wd)))
    other = rng.choice(kits)
    wd, _ = T.kit_instance(rng, other, runlen=2)
    return gen.rot(wd, rng.randrange(len(wd)))


def run(ctx):
    rng = ctx.rng
    kits = boot.kit_classes()
    per = ctx.budget(15, 700)
    for cls in kits:
        for _ in range(per):
            ctx.guard(check_validate, {"cls": asm.cls_name(cls), "word": malformed_for(rng, cls, kits)})
    # every kit class, and generic modules and vectors, on a record that has their structure and a third site of
    # their cutter inside it (the refusal that is raised after the structure matched): in every run
    for cls in kits:
        w_ = T.inner_site_instance(rng, cls, lower=rng.choice(["upper", "mixed"]))
        ctx.guard(check_validate, {"cls": asm.cls_name(cls), "word": gen.rot(w_, rng.randrange(len(w_)))})
    for enz in asm.pick_enzymes(rng, ctx.budget(30, 600)):
        for kind in "MV":
            cls = asm.cls_by_name("generic:{}:{}".format(kind, enz))
            w_ = T.inner_site_instance(rng, cls)
            ctx.guard(check_validate, {"cls": "generic:{}:{}".format(kind, enz), "word": gen.rot(w_, rng.randrange(len(w_)))})
    for enz in asm.pick_enzymes(rng, ctx.budget(200, 8000)):
        kind = rng.choice("MV")
        cls = asm.cls_by_name("generic:{}:{}".format(kind, enz))
        ctx.guard(check_validate, {"cls": "generic:{}:{}".format(kind, enz), "word": malformed_for(rng, cls, kits)})
    check_3prime(ctx)
    hundred_done = 0
    # a vector whose two overhangs are the same letters (in any case) cannot receive a chain, but it is a record with the
    # vector structure: what is_valid() says and what the accessors do must agree
    for enz in asm.pick_enzymes(rng, ctx.budget(40, 1000)):
        o = gen.ovh(rng, enz)
        try:
            w_, _ = gen.gen_vector(rng, enz, o, o, tries=200)
        except RuntimeError:
            continue
        if rng.random() < 0.3:
            w_ = w_[:len(w_) // 2].lower() + w_[len(w_) // 2:]
        ctx.guard(check_validate, {"cls": "generic:V:{}".format(enz), "word": gen.rot(w_, rng.randrange(len(w_)))})
        ctx.note("vector-with-equal-overhangs")
    for enz in asm.pick_enzymes(rng, ctx.budget(200, 8000)):
        g = asm.gen_wellformed(rng, enz, rng.randint(1, 4))
        if g is None:
            continue
        case, info = g
        if rng.random() < 0.5:
            # every documented way an assembly can be refused (each error path builds its own exception)
            from props.c07 import perturb
            case = perturb(rng, case, info, modes=["unused", "invalid-vector", "duplicate", "rc-duplicate",
                                                    "palindrome", "missing", "invalid-module", "illegal-module", "cycle", "same-object"])
            ctx.note("refusal:" + case["mode"])
        if rng.random() < 0.25 and "mparts" in info:
            # an ambiguous base call (N) inside an overhang: the generic classes still accept the record
            j = rng.randrange(len(case["mods"]))
            m = case["mods"][j]
            md = info["mparts"][m["oid"] - 1] if 1 <= m["oid"] <= len(info["mparts"]) else None
            if md is not None:
                o = md[rng.choice(["o5", "o3"])]
                wdu = m["word"].upper()
                p = (wdu + wdu).find(o)
                if 0 <= p and len(o) >= 1:
                    q = (p + rng.randrange(len(o))) % len(wdu)
                    m["word"] = m["word"][:q] + "N" + m["word"][q + 1:]
                    ctx.note("N-in-overhang")
        for e in [case["vector"]] + case["mods"]:
            if rng.random() < 0.2:
                e["word"] = malformed_for(rng, asm.cls_by_name(e["cls"]), kits)
        if rng.random() < 0.2:
            case["mods"].append(case["mods"][0])
        if any(e.get("refs") for e in [case["vector"]] + case["mods"]):
            case["template"] = True
        if hundred_done < (1 if ctx.tier == "quick" else 5):
            # a well-documented plasmid: more than a hundred references, a feature citing the last ones
            e0 = rng.choice(case["mods"])
            e0["refs"] = list(range(200, 200 + rng.randint(101, 130)))
            n0 = len(e0["word"])
            e0["feats"] = list(e0.get("feats") or []) + [[1, "u88", ["i%d" % len(e0["refs"]), "i100"], [[0, min(n0, 2), 1]]]]
            hundred_done += 1
            ctx.note("hundred-references")
        ctx.guard(check_assembly, case)


def check_case(ctx, case):
    if "enzyme3" in case:
        check_3prime(ctx)
    elif "vector" in case:
        ctx.guard(check_assembly, case)
    else:
        ctx.guard(check_validate, case)
