"""C10 — literature citations survive assembly with consistent numbering"""
import copy
import re

import asm
import core
import gen
import impl
from wire import feats_to_json

TABLES = []
LAKE_TARGETS = ["Moclo.Props.C10"]
THEOREMS = ["Moclo.C10." + t for t in ["deref_points_to_reference", "cites_carried", "product_references", "inputs_citations_unchanged",
                                           "product_citations_read_back", "product_citations_resolve"]]
RULE = ("well-formed assemblies whose inputs carry reference lists of length 0-4 (references shared between inputs "
        "or unique to one, an input listing equal references twice), features citing none, one or several of them, "
        "inside and outside the retained fragments; two consecutive calls. non-trivial = the product carries at "
        "least one citation; distinct by content")
ASSUMPTIONS = ["citation qualifiers of the inputs are well formed: '[i]' with 1 <= i <= len(references)"]


def annotate(rng, case, info):
    # features inside the retained fragment (so that they are inherited) and some outside
    ents = [(case["vector"], info["vparts"], True)] + [
        (m, info["mparts"][m["oid"] - 1], False) for m in case["mods"]]
    for e, parts, is_vec in ents:
        wd = e["word"]
        n = len(wd)
        nrefs = rng.choice([0, 1, 2, 3, 4, 4, 11, 14])
        refs = [rng.randrange(100, 108 if nrefs < 10 else 140) for _ in range(nrefs)]
        if rng.random() < 0.8:
            refs = list(dict.fromkeys(refs))
        e["refs"] = refs
        nrefs = len(refs)
        feats = gen.gen_features(rng, n, rng.choice([1, 3, 5]), allow_cites=nrefs)
        # locate the retained fragment in the (rotated) word by string search and add features inside it
        frag = (parts["o3"] + parts["b"]) if is_vec else (parts["o5"] + parts["t"])
        pos = (wd * 2).find(frag)
        if 0 <= pos and pos + len(frag) <= n:
            feats += gen.features_inside(rng, pos, pos + len(frag), rng.choice([1, 2, 3]), n, allow_cites=nrefs)
        e["feats"] = feats_to_json(feats)


def check_case(ctx, case):
    op = asm.asm_op(case)
    ents = impl.build_entities(op[3], op[4])
    vec, ms, objs = ents
    before = [impl.canon_record(e.record) for e in [vec] + ms]
    reply, prod, _ = impl.run_asm(op, entities=ents)
    f = reply.split("\t")
    ncited = 0
    if f[0] != "ok":
        ctx.fail("records with citations do not assemble: {}".format(f[1]), case)
    else:
        refs = prod.annotations.get("references", [])
        ids = [impl.ref_id(r) for r in refs]
        if len(set(ids)) != len(ids):
            ctx.fail("the product's reference list holds a reference twice: {}".format(ids), case)
        cited = set()
        # map each inherited product feature back to its source feature by (type, label)
        src = {}
        for e, b in zip([vec] + ms, before):
            for ft in b.feats:
                src.setdefault((ft.ftype, ft.qual), []).append((b, ft))
        for pf in prod.features:
            cf = impl.canon_feature(pf)
            if cf.qual.startswith("s"):
                continue
            for c in pf.qualifiers.get("citation", []):
                if not (isinstance(c, str) and re.fullmatch(r"\[\d+\]", c)):
                    ctx.fail("a citation of the product is {!r}, not in GenBank bracketed-index form".format(c), case)
                    break
            else:
                idx = [int(c[1:-1]) for c in pf.qualifiers.get("citation", [])]
                if any(i < 1 or i > len(refs) for i in idx):
                    ctx.fail("a product citation {} points outside its reference list of length {}".format(idx, len(refs)), case)
                    continue
                got = [ids[i - 1] for i in idx]
                cited.update(got)
                ncited += len(got)
                cands = src.get((cf.ftype, cf.qual), [])
                exps = [[b.refs[int(c[1:]) - 1] for c in ft.cites] for b, ft in cands]
                if cands and got not in exps:
                    ctx.fail("product feature {} cites references {} but its source feature cited {}".format(
                        (cf.ftype, cf.qual), got, exps), case)
        if set(ids) != cited:
            ctx.fail("the product's reference list {} is not exactly the set of cited references {}".format(
                ids, sorted(cited)), case)
        # citations are neutral: same product as without them
        bare = copy.deepcopy(case)
        for e in [bare["vector"]] + bare["mods"]:
            e["refs"] = []
            e["feats"] = [[t, q, [], p] for t, q, c, p in e["feats"]]
        rb, pb, _ = impl.run_asm(asm.asm_op(bare))
        fb = rb.split("\t")
        if fb[0] != "ok" or str(pb.seq) != str(prod.seq) or \
                [(x.ftype, x.qual, x.parts) for x in impl.canon_record(pb).feats] != \
                [(x.ftype, x.qual, x.parts) for x in impl.canon_record(prod).feats]:
            ctx.fail("records with citations do not assemble like the same records without them", case)
    after = [impl.canon_record(e.record) for e in [vec] + ms]
    if after != before:
        ctx.fail("the inputs' citation indices / reference lists changed: {} -> {}".format(
            [x for x, y in zip(before, after) if x != y][:1], [y for x, y in zip(before, after) if x != y][:1]), case)
    reply2, prod2, _ = impl.run_asm(op, entities=ents)
    if reply2 != reply:
        ctx.fail("a second consecutive call gives a different result", case)
    if len(ms) >= 2 and case.get("then_incomplete"):
        # the same objects in an assembly that cannot be completed (one module left out: MissingModule, or a warning
        # when it was the last one listed twice): the citation numbers of the inputs read the same afterwards, and
        # the complete set still assembles to the same product
        j = case["then_incomplete"] % len(ms)
        part = (vec, [m for i_, m in enumerate(ms) if i_ != j], ents[2])
        pop = (op[0], op[1], op[2], op[3], [m for i_, m in enumerate(op[4]) if i_ != j])
        r_part, _, _ = impl.run_asm(pop, entities=part)
        after2 = [impl.canon_record(e.record) for e in [vec] + ms]
        if after2 != before:
            ctx.fail("after an incomplete assembly ({}) the inputs' citation indices / reference lists changed: {} -> {}".format(
                r_part.split("\t")[:2], [x for x, y in zip(before, after2) if x != y][:1],
                [y for x, y in zip(before, after2) if x != y][:1]), case)
        reply3, _, _ = impl.run_asm(op, entities=ents)
        if reply3 != reply:
            ctx.fail("after an incomplete assembly with the same objects, the complete one gives a different result", case)
        ctx.note("then-incomplete:" + r_part.split("\t")[0])
    ctx.note("product-citations", ncited)
    ctx.case({k: v for k, v in case.items() if k != "info"}, nontrivial=ncited > 0)
    if core.pick(case, 3):
        # the public target_sequence() looked at before assembling (citations still in their "[n]" form)
        asm.lifecycle(ctx, case, pretouch=True)
    ctx.op(op, None, reply=reply)


def run(ctx):
    rng = ctx.rng
    for enz in asm.pick_enzymes(rng, ctx.budget(350, 15000)):
        g = asm.gen_wellformed(rng, enz, rng.randint(1, 4))
        if g is None:
            continue
        case, info = g
        annotate(rng, case, info)
        if rng.random() < 0.2 and case["mods"]:
            # two of the inputs carry the same record identifier (unnamed records, a part named like its vector)
            a = rng.choice(case["mods"])
            b = rng.choice([e for e in [case["vector"]] + case["mods"] if e is not a])
            a["rid"] = b["rid"]
            case["shared_id"] = True
        if rng.random() < 0.2 and case["mods"]:
            # a module listed twice (the same object: a pooled parts list that shares a part)
            import copy
            case["mods"].insert(rng.randrange(len(case["mods"]) + 1), copy.deepcopy(rng.choice(case["mods"])))
            case["listed_twice"] = True
        if rng.random() < 0.4:
            case["then_incomplete"] = rng.randrange(1, 1000)
        ctx.guard(check_case, case)
