"""C06 — typing verdicts do not depend on what was typed before"""
import json
import os

import boot
import gen
import impl

TABLES = []
LAKE_TARGETS = ["Moclo.Props.C06"]
THEOREMS = ["Moclo.C06." + t for t in ["characterize_independent", "characterize_after_history", "inv_init", "inv_query", "inv_run", "history_independent",
                                       "verdicts_independent", "verdicts_fresh", "inherited_cache_counterexample"]]
# reductions under which a failing case stays a case of this property (see shrink.py)
SHRINK = {"lists": ["history"]}
RULE = ("ordered pairs 'validate a record with class A, then ask class B' over the 85 concrete kit classes (all "
        "related pairs parent/child always, the other pairs sampled in quick and exhaustive in thorough), longer "
        "random histories, and dynamically created subclasses; every history runs in a forked child of a process "
        "that never validated anything, and is compared with the same query issued first in another fresh child. "
        "non-trivial = the primed class and the queried class differ; distinct by (history, query)")
ASSUMPTIONS = ["a forked child of a never-queried interpreter stands for a fresh interpreter"]


def forked(fn):
    r, w = os.pipe()
    pid = os.fork()
    if pid == 0:
        try:
            os.close(r)
            try:
                out = json.dumps(fn())
            except BaseException as e:  # noqa
                out = json.dumps(["child-exception", type(e).__name__, str(e)[:200]])
            os.write(w, out.encode())
        finally:
            os._exit(0)
    os.close(w)
    chunks = []
    while True:
        b = os.read(r, 65536)
        if not b:
            break
        chunks.append(b)
    os.close(r)
    os.waitpid(pid, 0)
    return json.loads(b"".join(chunks).decode())


def mkrec(word, topo):
    if topo == "L":
        return impl.SeqRecord(impl.Seq(word), id="q", annotations={"topology": "linear"})
    return impl.CircularRecord(impl.Seq(word), id="q")


def answer(cls, word, topo="C", rec=None, keep=None):
    ent = cls(mkrec(word, topo) if rec is None else rec)
    if keep is not None:
        keep.append(ent)
    try:
        first = ent.is_valid()
        again = ent.is_valid()
        if first != again:
            return ["unstable", first, again]       # the same wrapper asked twice
        if not first:
            try:
                ent.overhang_start()
                return ["invalid-but-overhang-returned"]
            except Exception:  # noqa
                pass
            if ent.is_valid():
                return ["unstable", False, True]
            return ["invalid"]
    except Exception as e:  # noqa
        return ["exc", type(e).__name__]
    try:
        return ["valid", str(ent.overhang_start()), str(ent.overhang_end()), str(ent.target_sequence().seq)]
    except Exception as e:  # noqa   (a linear SeqRecord cannot be rotated: the accessors are not part of the verdict)
        return ["valid", "accessor-exc:" + type(e).__name__]


_hooks = {}
_sigparents = {}


def resolve(classes, ref):
    """ref = index, or ['sub', index] for a subclass created on the spot, or ['sig', index, up, down] for a part
    type declared on the spot with its own signature — all of the latter under one and the same class name"""
    if isinstance(ref, list):
        base = classes[ref[1]]
        if ref[0] == "sig":
            return type("Variant", (base,), {"signature": (ref[2], ref[3])})
        if ref[0] == "sigsame":      # a laboratory's variant that keeps the name of the kit type it derives from
            return type(base.__name__, (base,), {"signature": (ref[2], ref[3])})
        if ref[0] == "cut":          # the same type over another enzyme (only the cutter is redefined)
            import asm
            return type("Variant", (base,), {"cutter": asm.enzyme(ref[2])})
        if ref[0] in ("sigparent", "sigchild"):
            # a part type and a type derived from it whose signature is spelt differently (ref[2:4] the parent's,
            # ref[4:6] the child's): two classes, two structures
            key_ = (ref[1], ref[2], ref[3])
            if key_ not in _sigparents:
                _sigparents[key_] = type("Variant", (base,), {"signature": (ref[2], ref[3])})
            if ref[0] == "sigparent":
                return _sigparents[key_]
            return type("VariantKid", (_sigparents[key_],), {"signature": (ref[4], ref[5])})
        if ref[0] in ("hookparent", "hookkid"):
            # a laboratory's catalogue mixin with a class-creation hook that does not chain to super(), placed before the
            # kit type: the classes made under it are classes like any other
            if ref[1] not in _hooks:
                cat = type("Catalogued", (), {"__init_subclass__": classmethod(lambda cls_, **kw: None)})
                _hooks[ref[1]] = type("LabEntry", (cat, base), {})
            if ref[0] == "hookparent":
                return _hooks[ref[1]]
            return type("LabKid", (_hooks[ref[1]],), {"signature": (ref[2], ref[3])})
        if ref[0] == "char":
            # a laboratory's family of part types under one kit type: asked through `Family.characterize(record)`;
            # the candidates are its direct subclasses, in definition order
            fam = type("Family", (base,), {})
            fam._kids = [type("Kid%d" % i, (fam,), {"signature": (u_, d_)}) for i, (u_, d_) in enumerate(ref[2])]
            return fam
        return type("Dyn" + base.__name__, (base,), {})
    return classes[ref]


def char_answer(fam, word, topo):
    try:
        ent = fam.characterize(mkrec(word, topo))
    except RuntimeError as e:
        return ["char", "none", type(e).__name__]
    except Exception as e:  # noqa
        return ["exc", type(e).__name__]
    return ["char", type(ent).__name__, str(ent.overhang_start()), str(ent.overhang_end())]


def run_history(classes, hist, share=False):
    """hist = [(ref, word)]; returns the answers of every call.  With `share`, equal (word, topology) pairs are
    the same record *object* throughout the history and every wrapper built so far stays alive — a plasmid
    loaded once and typed with several classes"""
    made = {}
    out = []
    recs, alive = {}, []
    for h in hist:
        ref, word = h[0], h[1]
        topo = h[2] if len(h) > 2 else "C"
        key = json.dumps(ref)
        if key not in made:
            made[key] = resolve(classes, ref)
        if isinstance(ref, list) and ref[0] == "char":
            out.append(char_answer(made[key], word, topo))
        elif share:
            if (word, topo) not in recs:
                recs[(word, topo)] = mkrec(word, topo)
            out.append(answer(made[key], word, topo, rec=recs[(word, topo)], keep=alive))
        else:
            out.append(answer(made[key], word, topo))
    return out


_state = {}


def setup(rng):
    """The long-lived process never asks the library anything about a class (not even `structure()`): the list of
    kit classes, the instances of their structures and everything else that needs the library is computed in
    forked children, so that every history — and every "fresh interpreter" answer — starts from a process in
    which no class has been used yet."""
    if "classes" in _state:
        return _state
    import asm

    def names():
        return [asm.cls_name(c) for c in boot.kit_classes()]
    classes = [asm.cls_by_name("kit:" + n.split(":", 1)[1]) if n.startswith("kit:") else asm.cls_by_name(n)
               for n in forked(names)]

    def texts():
        import random
        r = random.Random(606)
        words, doubles = [], []
        for c in classes:
            inst, _ = gen.instantiate(r, c.structure(), runlen=r.choice([2, 5, 9]))
            words.append(gen.rot(inst + gen.rnd(r, 7), r.randrange(0, 9)))
        # plasmids carrying two instances of the structure: which one is reported must not depend on the past
        for c in classes:
            i1, _ = gen.instantiate(r, c.structure(), runlen=r.choice([2, 4]))
            i2, _ = gen.instantiate(r, c.structure(), runlen=r.choice([2, 4]))
            doubles.append(i1 + gen.rnd(r, 5) + i2 + gen.rnd(r, 6))
        return [words, doubles]
    words, doubles = forked(texts)
    _state.update(classes=classes, words=words, doubles=doubles, fresh={})
    return _state


def in_child(fn):
    """run `fn` (which may ask the library about classes) in a forked child and return its JSON-able result"""
    out = forked(fn)
    if isinstance(out, list) and out and out[0] == "child-exception":
        raise RuntimeError("child: {} {}".format(out[1], out[2]))
    return out


def fresh_answer(S, ref, word, topo="C"):
    key = json.dumps([ref, word, topo])
    if key not in S["fresh"]:
        S["fresh"][key] = forked(lambda: run_history(S["classes"], [(ref, word, topo)]))[0]
    return S["fresh"][key]


def check_case(ctx, case):
    S = setup(ctx.rng)
    classes = S["classes"]
    hist = [(h[0], h[1], h[2] if len(h) > 2 else "C") for h in case["history"]]
    got = forked(lambda: run_history(classes, hist, share=bool(case.get("share"))))
    if got and got[0] == "child-exception":
        ctx.fail("history raised {}: {}".format(got[1], got[2]), case)
        return
    for i, ((ref, word, topo), g) in enumerate(zip(hist, got)):
        if g and g[0] in ("unstable", "invalid-but-overhang-returned"):
            ctx.fail("a wrapper asked twice about the same record changes its answer ({})".format(g), case)
            break
        exp = fresh_answer(S, ref, word, topo)
        if g != exp:
            def nm(x):
                if isinstance(x, list) and x[0] in ("sig", "sigsame"):
                    return "part type 'Variant' {}/{} derived from {}".format(x[2], x[3], classes[x[1]].__name__)
                if isinstance(x, list) and x[0] in ("sigparent", "sigchild"):
                    return "part type 'Variant' {}/{} derived from {}".format(x[2], x[3], classes[x[1]].__name__) \
                        if x[0] == "sigparent" else "its subclass with signature {}/{}".format(x[4], x[5])
                if isinstance(x, list) and x[0] in ("hookparent", "hookkid"):
                    return ("type under a non-chaining __init_subclass__ mixin derived from " + classes[x[1]].__name__
                            if x[0] == "hookparent" else "subclass {}/{} of that type".format(x[2], x[3]))
                if isinstance(x, list) and x[0] == "char":
                    return "characterize() of a family of {} part types derived from {}".format(len(x[2]), classes[x[1]].__name__)
                if isinstance(x, list) and x[0] == "cut":
                    return "type 'Variant' derived from {} with cutter {}".format(classes[x[1]].__name__, x[2])
                return ("new subclass of " + classes[x[1]].__name__) if isinstance(x, list) else classes[x].__name__
            ctx.fail("after validating with {}, {} answers {} on a {} record for which a fresh interpreter answers {}".format(
                [(nm(h[0]), h[2]) for h in hist[:i]] or "nothing", nm(ref), g[:2],
                "linear" if topo == "L" else "circular", exp[:2]), case)
            break
    refs = [h[0] for h in hist]
    ctx.note("history-len={}".format(min(len(hist), 6)))
    ctx.case(case, nontrivial=len({json.dumps(r) for r in refs}) > 1)
    if any(isinstance(r, list) and r[0] in ("sig", "sigsame", "sigparent", "sigchild")
           and any(isinstance(x_, str) and x_ != x_.upper() for x_ in r[2:]) for r in refs):
        return          # a pattern letter in lower case is a literal: outside the model's pattern alphabet, oracle only
    if any(isinstance(r, list) and r[0] == "char" for r in refs):
        # model (`characterize_after_history`): whatever came before, the answer is the first accepting candidate —
        # the pure `characterize` of the typing model on the candidates' live structures
        def char_fields():
            out = {}
            for ref in refs:
                if isinstance(ref, list) and ref[0] == "char":
                    fam = resolve(classes, ref)
                    cands = list(fam.__subclasses__()) + ([] if impl.isabstract(fam) else [fam])
                    out[json.dumps(ref)] = ["|".join("^".join(impl.cls_fields(c)) for c in cands),
                                            [c.__name__ for c in cands]]
            return out
        cf = in_child(char_fields)
        for (ref, word, topo), g in zip(hist, got):
            if isinstance(ref, list) and ref[0] == "char" and topo == "C" and g and g[0] == "char":
                line, names = cf[json.dumps(ref)]
                ctx.op(("RAW", "\t".join(["CHAR", line, word])), case,
                       reply="none" if g[1] == "none" else (str(names.index(g[1])) if g[1] in names else "x"))
        return
    # model: one class table per history (dynamic subclasses share their base's structure)
    table, idx = [], []

    def fields():
        out = {}
        for ref in refs:
            if isinstance(ref, list) and ref[0] in ("sig", "sigsame", "cut", "hookparent", "hookkid", "sigparent", "sigchild"):
                cls = resolve(classes, ref)
            else:
                cls = classes[ref[1]] if isinstance(ref, list) else classes[ref]
            out[json.dumps(ref)] = "^".join(impl.cls_fields(cls))
        return out
    fld = in_child(fields)
    for ref in refs:
        key = json.dumps(ref)
        if key not in [t[0] for t in table]:
            table.append((key, fld[key]))
        idx.append([t[0] for t in table].index(key))
    line_classes = "|".join(t[1] for t in table)
    line_q = ";".join("{}:{}:{}".format(i, w, t) for i, (_, w, t) in zip(idx, hist))
    ctx.op(("RAW", "\t".join(["HIST", line_classes, line_q])), case,
           reply="".join("1" if g[0] == "valid" else "0" for g in got))


def inst_of(classes, ref, runlen, seed):
    import random
    return in_child(lambda: gen.instantiate(random.Random(seed), resolve(classes, ref).structure(), runlen=runlen)[0])


def run(ctx):
    rng = ctx.rng
    S = setup(rng)
    classes, words = S["classes"], S["words"]
    n = len(classes)
    related = [(a, b) for a in range(n) for b in range(n)
               if a != b and (issubclass(classes[a], classes[b]) or issubclass(classes[b], classes[a]))]
    pairs = set(related)
    allpairs = [(a, b) for a in range(n) for b in range(n)]
    if ctx.tier == "thorough" and ctx.scale == 1:
        pairs.update(allpairs)
        ctx.extra["exhaustive"] = True
    else:
        k = min(len(allpairs), ctx.budget(700, 7225))
        pairs.update(rng.sample(allpairs, k))
    ctx.extra["cov_related_pairs"] = len(related)
    for a, b in sorted(pairs):
        w = words[rng.choice([a, b])] if rng.random() < 0.8 else words[rng.randrange(n)]
        ctx.guard(check_case, {"history": [[a, words[a]], [b, w]]})
    for _ in range(ctx.budget(150, 2500)):
        L = rng.randint(3, 7)
        hist = []
        for _ in range(L):
            c = rng.randrange(n)
            ref = ["sub", c] if rng.random() < 0.2 else c
            hist.append([ref, words[rng.choice([c, rng.randrange(n)])]])
        # make parent-before-child likely
        if related and rng.random() < 0.6:
            a, b = rng.choice(related)
            hist[-2:] = [[a, words[a]], [b, words[rng.choice([a, b])]]]
        ctx.guard(check_case, {"history": hist})
    # two part types declared under the same class name with different signatures (types made in a loop or by a
    # factory): each is matched with its own structure
    sigbases = [i for i, c in enumerate(classes) if getattr(c.structure, "__func__", None) is boot.AbstractPart.structure.__func__]
    for _ in range(ctx.budget(60, 1200)):
        if not sigbases:
            break
        a = rng.choice(sigbases)
        k = len(classes[a].signature[0])
        hist = []
        lowsig = rng.random() < 0.3
        fixed_sig = (gen.rnd(rng, k), rng.choice(["N" * k, gen.rnd(rng, k)]))
        for j_ in range(rng.randint(2, 3)):
            ref = ["sig", a, gen.rnd(rng, k), gen.rnd(rng, k)]
            if lowsig:
                # two types whose signatures differ only in letter case (a pattern letter in lower case is a literal)
                ref = ["sig", a, fixed_sig[0] if j_ % 2 == 0 else fixed_sig[0].lower(),
                       fixed_sig[1] if j_ % 2 == 0 else fixed_sig[1].lower()]
            inst = inst_of(classes, [ref[0], ref[1], ref[2].upper(), ref[3].upper()], rng.choice([2, 5]), rng.getrandbits(32))
            hist.append([ref, gen.rot(inst + gen.rnd(rng, 6), rng.randrange(8))])
        if rng.random() < 0.5:
            hist.append([hist[0][0], hist[-1][1]])      # the first type asked about the last record
        ctx.guard(check_case, {"history": hist})
        # the kit type first, then a variant that keeps its name
        ref = ["sigsame", a, gen.rnd(rng, k), gen.rnd(rng, k)]
        inst = inst_of(classes, ref, 3, rng.getrandbits(32))
        ctx.guard(check_case, {"history": [[a, words[a]], [ref, gen.rot(inst + gen.rnd(rng, 5), rng.randrange(6))],
                                           [ref, words[a]]]})
    # a type and a subclass of it whose signature differs only in the case of an ambiguity letter (`N` any base, `n` the
    # letter n): the parent asked first, then the child about a record with a definite base there
    for _ in range(ctx.budget(20, 500)):
        if not sigbases:
            break
        a = rng.choice(sigbases)
        k = len(classes[a].signature[0])
        up = "N" + gen.rnd(rng, k - 1) if k >= 2 else "N"
        down = gen.rnd(rng, k)
        par = ["sigparent", a, up, down]
        kid = ["sigchild", a, up, down, up.replace("N", "n", 1), down]
        try:
            inst = inst_of(classes, ["sig", a, up, down], rng.choice([2, 5]), rng.getrandbits(32))
        except Exception:  # noqa
            continue
        w_ = gen.rot(inst + gen.rnd(rng, 6), rng.randrange(8))
        ctx.guard(check_case, {"history": [[par, w_], [kid, w_]]})
        ctx.guard(check_case, {"history": [[kid, w_], [par, w_], [kid, w_]]})
    # classes made under a mixin whose __init_subclass__ does not call super(): parent asked first, then its subclass
    for _ in range(ctx.budget(25, 600)):
        if not sigbases:
            break
        a = rng.choice(sigbases)
        k = len(classes[a].signature[0])
        kid = ["hookkid", a, gen.rnd(rng, k), gen.rnd(rng, k)]
        try:
            inst = inst_of(classes, ["sig", a, kid[2], kid[3]], rng.choice([2, 5]), rng.getrandbits(32))
        except Exception:  # noqa
            continue
        w_kid = gen.rot(inst + gen.rnd(rng, 6), rng.randrange(8))
        ctx.guard(check_case, {"history": [[["hookparent", a], words[a]], [kid, w_kid], [kid, words[a]]]})
    # automatic typing within a family whose types overlap (wildcard signatures): the type found for a record is the
    # first candidate that accepts it, whatever was characterised before
    for _ in range(ctx.budget(40, 800)):
        if not sigbases:
            break
        a = rng.choice(sigbases)
        k = len(classes[a].signature[0])
        up0, down1 = gen.rnd(rng, k), gen.rnd(rng, k)
        upx = gen.rnd(rng, k)
        if upx == up0:
            continue
        fam = ["char", a, [[up0, "N" * k], ["N" * k, down1]]]
        try:
            both = inst_of(classes, ["sig", a, up0, down1], rng.choice([2, 5]), rng.getrandbits(32))
            second = inst_of(classes, ["sig", a, upx, down1], rng.choice([2, 5]), rng.getrandbits(32))
        except Exception:  # noqa
            continue
        both = gen.rot(both + gen.rnd(rng, 6), rng.randrange(8))
        second = gen.rot(second + gen.rnd(rng, 6), rng.randrange(8))
        hist = [[fam, second], [fam, both]]
        if rng.random() < 0.5:
            hist.append([fam, gen.rnd(rng, 30)])            # nothing accepts it
            hist.append([fam, both])
        ctx.guard(check_case, {"history": hist})
    # an ancestor is asked, then a brand-new subclass of a descendant that was never asked itself; and a type is
    # asked, then a variant of it that redefines only the cutter, about a record of the variant's own structure
    strict = [(a, b) for a, b in related if classes[b] is not classes[a] and issubclass(classes[b], classes[a])]
    derived_s = [i for i, c in enumerate(classes)
                 if getattr(c.structure, "__func__", None) in (boot.AbstractPart.structure.__func__,
                                                               boot.AbstractModule.structure.__func__,
                                                               boot.AbstractVector.structure.__func__)]
    for _ in range(ctx.budget(60, 1200)):
        if strict:
            a, b = rng.choice(strict)
            ctx.guard(check_case, {"history": [[a, words[a]], [["sub", b], words[rng.choice([a, b])]]]})
        if derived_s:
            a = rng.choice(derived_s)
            others = [e for e in ("BsaI", "BsmBI", "BpiI", "SapI", "AarI") if e != str(classes[a].cutter)]
            ref = ["cut", a, rng.choice(others)]
            try:
                inst = inst_of(classes, ref, rng.choice([2, 5]), rng.getrandbits(32))
            except Exception:  # noqa
                continue
            w = gen.rot(inst + gen.rnd(rng, 6), rng.randrange(8))
            ctx.guard(check_case, {"history": [[a, words[a]], [ref, w], [ref, words[a]]]})
    # records that match the structure but carry a third site of the cutter: refused, and refused again
    import typing_h as T
    for _ in range(ctx.budget(60, 1000)):
        a = rng.randrange(n)
        sd_ = rng.getrandbits(32)
        w = in_child(lambda: T.inner_site_instance(__import__("random").Random(sd_), classes[a]))
        w = gen.rot(w, rng.randrange(len(w)))
        ctx.guard(check_case, {"history": [[a, w], [rng.choice([a, rng.randrange(n)]), w]]})
    # one plasmid object typed with a class and then with a related class while the first wrapper is alive
    for _ in range(ctx.budget(120, 2500)):
        a, b = rng.choice(related) if related else (0, 0)
        w = words[rng.choice([a, b])]
        hist = [[a, w], [b, w]]
        if rng.random() < 0.4:
            c = rng.randrange(n)
            hist.insert(rng.randrange(3), [c, rng.choice([w, words[c]])])
        ctx.guard(check_case, {"history": hist, "share": True})
    # one *linear* fragment object (origin inside the part) typed twice, by the same or related classes: typing
    # must not rewrite the record it looks at (its topology annotation decides how it is searched)
    for _ in range(ctx.budget(80, 1500)):
        a = rng.randrange(n)
        b = rng.choice([a, rng.choice(related)[1] if related else a])
        w = gen.rot(words[a], rng.randrange(1, len(words[a])))
        ctx.guard(check_case, {"history": [[b, w, "L"], [a, w, "L"]], "share": True})
    # a record with one occurrence of the structure, then one with two, typed by the same class: which
    # occurrence is reported (hence verdict, overhangs, target) must be that of a fresh interpreter
    for _ in range(ctx.budget(150, 3000)):
        c = rng.randrange(n)
        w1 = gen.rot(words[c], rng.randrange(len(words[c])))
        w2 = gen.rot(S["doubles"][c], rng.randrange(len(S["doubles"][c])))
        hist = [[c, w1], [c, w2]]
        if rng.random() < 0.5:
            # … the two occurrences on a linear fragment: on a circle a structure with a greedy insert reads from either
            # occurrence round to the other one (a third and fourth site: refused wherever the reading starts), on a
            # fragment only the reading that starts at the first one does
            hist = [[c, w1], [c, gen.rnd(rng, rng.randrange(7)) + S["doubles"][c], "L"]]
        if rng.random() < 0.3:
            hist.insert(1, [c, gen.rot(words[c], rng.randrange(len(words[c])))])
        ctx.guard(check_case, {"history": hist})
    # the same letters as a circular plasmid and as a linear fragment, in both orders, same and related classes
    for _ in range(ctx.budget(120, 2500)):
        a = rng.randrange(n)
        b = rng.choice([a, a, rng.choice(related)[1] if related else a])
        inst = words[a]
        w = gen.rot(inst, rng.randrange(len(inst)))      # origin often inside the structure
        t1, t2 = rng.choice([("C", "L"), ("L", "C")])
        ctx.guard(check_case, {"history": [[a, w, t1], [b, w, t2]]})
