"""C07 — assembly is pure: inputs are left untouched, even when it fails"""
import copy

import asm
import gen
import impl
from impl import EntSpec

TABLES = []
LAKE_TARGETS = ["Moclo.Props.C07"]
THEOREMS = ["Moclo.C07." + t for t in ["inputs_unchanged", "restore_undoes_deref", "withRecs_self", "second_call_same", "retry_sees_original_vector"]]
RULE = ("sequences of 1-3 assemble calls over shared record objects, with and without literature citations: "
        "successful, with unused modules (warning), invalid vector, duplicate at map building, missing module after "
        "j consumed modules, a module that is invalid, an arbitrary exception raised by the j-th fragment extraction "
        "(a harness subclass whose target_sequence raises), the same object supplied twice; deep snapshot of every "
        "input record before and after each call; second and third call compared with a first call on fresh copies; "
        "retry with corrected modules after a failure. non-trivial = (outcome class, chain length, citations "
        "present); distinct by content")
ASSUMPTIONS = ["the injected fault is a RuntimeError subclass raised by target_sequence() of the j-th module of the chain"]


def deep_snapshot(rec):
    """everything the property names: sequence, identifiers, features with qualifiers (citations included),
    annotations, reference list (absent == empty)"""
    ann = {}
    for k, v in rec.annotations.items():
        if k == "references":
            if v:
                ann[k] = [impl.ref_id(r) if impl.ref_id(r) is not None else repr(r) for r in v]
        else:
            ann[k] = repr(v)
    feats = []
    for f in rec.features:
        q = {}
        for k, v in f.qualifiers.items():
            if k == "citation":
                q[k] = [c if isinstance(c, str) else "REF:%s" % impl.ref_id(c) for c in v]
            else:
                q[k] = repr(v)
        feats.append((f.type, repr(f.location), f.id, sorted(q.items())))
    return (str(rec.seq), rec.id, rec.name, rec.description, list(rec.dbxrefs), sorted(ann.items()), feats,
            {k: list(v) for k, v in rec.letter_annotations.items()})


def outcome(reply):
    f = reply.split("\t")
    i = f.index("INPUTS")
    return tuple(f[:i])


ALL_MODES = ["ok", "ok", "unused", "invalid-vector", "duplicate", "rc-duplicate", "palindrome", "missing",
             "invalid-module", "illegal-module", "cycle", "fault", "fault-vector", "same-object", "bad-citation"]


def perturb(rng, case, info, modes=None):
    """turn a well-formed assembly into one of the failing / warning shapes"""
    mode = rng.choice(modes or ALL_MODES)
    mods = case["mods"]
    enz = asm.enzyme(case["enz"])
    name = case["enz"]
    if mode == "unused":
        wd, _ = gen.gen_module(rng, enz, gen.ovh(rng, enz), gen.ovh(rng, enz))
        mods.append(asm.ent_json(90, "generic:M:" + name, wd))
    elif mode == "invalid-vector":
        v = info["vparts"]
        wd, _ = gen.gen_vector(rng, enz, o5=v["o5"], o3=v["o5"])
        case["vector"] = dict(case["vector"], word=wd)
    elif mode == "duplicate":
        m = rng.choice(mods)
        mods.append(dict(copy.deepcopy(m), oid=91, rid=91))
    elif mode == "rc-duplicate":
        md = rng.choice(info["mparts"])
        try:
            wd, _ = gen.gen_module(rng, enz, gen.rc(md["o5"]), gen.ovh(rng, enz), tries=100)
            mods.append(asm.ent_json(92, "generic:M:" + name, wd))
        except RuntimeError:
            mode = "ok"
    elif mode == "palindrome":
        # a module whose upstream overhang is its own reverse complement (refused as a reverse-complementing pair)
        k = len(info["mparts"][0]["o5"])
        if k % 2 == 0 and k >= 2:
            half = gen.rnd_avoid(rng, k // 2, (enz.site, gen.rc(enz.site)))
            try:
                wd, _ = gen.gen_module(rng, enz, half + gen.rc(half), gen.ovh(rng, enz), tries=100)
                mods.append(asm.ent_json(93, "generic:M:" + name, wd))
            except RuntimeError:
                mode = "ok"
        else:
            mode = "ok"
    elif mode == "missing" and len(mods) > 1:
        mods.pop(rng.randrange(len(mods)))
    elif mode == "invalid-module":
        i = rng.randrange(len(mods))
        mods[i] = dict(mods[i], word=gen.rnd(rng, 25))
    elif mode == "illegal-module":
        # a module with a third site of the enzyme inside its target: refused with IllegalSite, at every call
        i = rng.randrange(len(mods))
        m = mods[i]
        md = info["mparts"][m["oid"] - 1] if 1 <= m["oid"] <= len(info["mparts"]) else None
        w_ = m["word"]
        key = (md["o5"] + md["t"]) if md else ""
        p = (w_ + w_).upper().find(key.upper()) if key else -1
        if 0 <= p < len(w_):
            opened = (w_ + w_)[p:p + len(w_)]
            cut = len(md["o5"]) + rng.randint(1, max(1, len(md["t"]) - 1))
            w2 = opened[:cut] + rng.choice([enz.site, gen.rc(enz.site)]) + opened[cut:]
            r_ = rng.randrange(len(w2))
            mods[i] = dict(m, word=w2[r_:] + w2[:r_])
        else:
            mode = "ok"
    elif mode == "cycle":
        # the last module of the chain closes on the first module instead of the vector: the walk comes back to an
        # overhang whose module is already used up — MissingModule, like any other stall
        first, last = info["mparts"][0], info["mparts"][-1]
        try:
            wd, _ = gen.gen_module(rng, enz, last["o5"], first["o5"], tries=100)
            j = next(i_ for i_, m_ in enumerate(mods) if m_["oid"] == len(info["mparts"]))
            mods[j] = dict(mods[j], word=wd, feats=[])
        except (RuntimeError, StopIteration):
            mode = "ok"
    elif mode == "fault":
        i = rng.randrange(len(mods))
        mods[i] = dict(mods[i], faulty=True)
    elif mode == "fault-vector":
        case["vector"] = dict(case["vector"], faulty=True)
    elif mode == "same-object":
        mods.append(rng.choice(mods))
    elif mode == "bad-citation":
        # a citation that does not index the reference list: dereferencing itself fails, after the
        # records listed before it have already been rewritten
        tgt = rng.choice(mods + [case["vector"]])
        n = len(tgt["word"])
        tgt["feats"] = list(tgt["feats"]) + [[1, "u77", ["i{}".format(len(tgt["refs"]) + 1 + rng.randrange(3))],
                                              [[0, max(1, n // 2), 1]]]]
        if tgt is case["vector"]:
            case["vector"] = tgt
    rng.shuffle(mods)
    case["mode"] = mode
    return case


def add_annotations(rng, case, with_cites):
    from wire import feats_to_json
    for e in [case["vector"]] + case["mods"]:
        n = len(e["word"])
        nrefs = rng.choice([1, 2, 3]) if with_cites else 0
        e["refs"] = [rng.randrange(100, 106) for _ in range(nrefs)]
        if len(set(e["refs"])) != len(e["refs"]) and rng.random() < 0.7:
            e["refs"] = sorted(set(e["refs"]))
        nrefs = len(e["refs"])
        e["feats"] = feats_to_json(gen.gen_features(rng, n, rng.choice([0, 2, 4]), allow_cites=nrefs))
    # the same backbone element annotated alike in two of the inputs: equal features (type, location, qualifiers,
    # citation text) that are different objects
    ents = [case["vector"]] + case["mods"]
    if with_cites and len(ents) >= 2 and rng.random() < 0.4:
        a, b = rng.sample(ents, 2)
        if a["refs"] and b["refs"]:
            twin = [3, "u88", ["i1"], [[0, 2, 1]]]
            a["feats"] = list(a["feats"]) + [twin]
            b["feats"] = list(b["feats"]) + [list(twin)]


def check_case(ctx, case):
    impl.FAULT_EXC[0] = KeyboardInterrupt if case.get("interrupt") else None
    try:
        _check_case(ctx, case)
    finally:
        impl.FAULT_EXC[0] = None


def _check_case(ctx, case):
    op = asm.asm_op(case)
    ents = impl.build_entities(op[3], op[4])
    vec, ms, objs = ents
    recs = [vec.record] + [m.record for m in ms]

    def scalar(entities):
        # a /citation qualifier given as one string instead of a list of strings (the GenBank writer takes both)
        if case.get("scalar_citation"):
            for e_ in [entities[0]] + list(entities[1]):
                for f_ in e_.record.features:
                    c_ = f_.qualifiers.get("citation")
                    if isinstance(c_, list) and len(c_) == 1 and isinstance(c_[0], str):
                        f_.qualifiers["citation"] = c_[0]
                        break
        return entities
    scalar(ents)
    before = [deep_snapshot(r) for r in recs]
    replies = []
    for call in range(case.get("calls", 2)):
        reply, prod, _ = impl.run_asm(op, entities=ents)
        replies.append(outcome(reply))
        after = [deep_snapshot(r) for r in recs]
        if after != before:
            i = next(j for j in range(len(recs)) if after[j] != before[j])
            part = next(x for x in range(len(before[i])) if before[i][x] != after[i][x])
            names = ["sequence", "id", "name", "description", "dbxrefs", "annotations/references", "features/qualifiers",
                     "letter annotations"]
            ctx.fail("call {} ({}, outcome {}) changed the {} of input record {}: {} -> {}".format(
                call + 1, case.get("mode"), replies[-1][:2], names[part], recs[i].id,
                str(before[i][part])[:150], str(after[i][part])[:150]), case)
            break
    fresh_reply, _, _ = impl.run_asm(op, entities=scalar(impl.build_entities(op[3], op[4])))
    fresh = outcome(fresh_reply)
    for i, r in enumerate(replies):
        if r != fresh:
            ctx.fail("call {} on shared records gives {} but a first call on fresh copies gives {}".format(
                i + 1, r[:2], fresh[:2]), case)
            break
    # retry with corrected modules after a failure
    if fresh[0] == "err" and case.get("fixed"):
        fop = asm.asm_op(case["fixed"])
        # reuse the record objects that took part in the failed call
        fents = scalar(impl.build_entities(fop[3], fop[4]))
        r1, _, _ = impl.run_asm(fop, entities=fents)
        shared = {}
        for e in [op[3]] + list(op[4]):
            shared[e.oid] = objs[e.oid]
        v2 = shared.get(fop[3].oid) if not fop[3].faulty and fop[3].crec == op[3].crec else None
        ms2 = []
        for e in fop[4]:
            o = shared.get(e.oid)
            same = o is not None and any(x.oid == e.oid and x.crec == e.crec and not x.faulty for x in op[4])
            ms2.append(o if same else fents[2][e.oid])
        ents2 = (v2 if v2 is not None else fents[0], ms2, dict(fents[2]))
        r2, _, _ = impl.run_asm(fop, entities=ents2)
        if outcome(r2) != outcome(r1):
            ctx.fail("retrying with corrected modules after a {} failure gives {} instead of {}".format(
                fresh[1], outcome(r2)[:2], outcome(r1)[:2]), case)
    cites = any(f[2] for e in [case["vector"]] + case["mods"] for f in e["feats"])
    ctx.note("mode:" + str(case.get("mode")))
    ctx.note("outcome:" + (fresh[0] if fresh[0] == "ok" else fresh[1].split(":")[0]))
    ctx.case({k: v for k, v in case.items() if k not in ("info", "fixed")}, nontrivial=True,
             key=[fresh[0] if fresh[0] == "ok" else fresh[1].split(":")[0], len(case["mods"]), cites, case.get("mode")])
    if not case.get("scalar_citation"):
        ctx.op(op, None, reply=fresh_reply)      # (a scalar /citation is outside the model's records: oracle only)


def run(ctx):
    rng = ctx.rng
    for enz in asm.pick_enzymes(rng, ctx.budget(350, 15000)):
        g = asm.gen_wellformed(rng, enz, rng.randint(1, 4))
        if g is None:
            continue
        case, info = g
        fixed = copy.deepcopy(case)
        add_annotations(rng, case, with_cites=rng.random() < 0.6)
        # the corrected set keeps the same records (same annotations) in chain order
        fixed["vector"] = copy.deepcopy(case["vector"])
        fixed["mods"] = copy.deepcopy(case["mods"])
        case = perturb(rng, case, info)
        if rng.random() < 0.2 and len(case["mods"]) >= 1:
            # two inputs carrying one record identifier (unnamed records, one accession exported twice)
            a = rng.choice(case["mods"])
            b = rng.choice([e for e in [case["vector"]] + case["mods"] if e is not a] or [case["vector"]])
            a["rid"] = b["rid"]
            if fixed is not None:
                for e in fixed["mods"]:
                    if e["oid"] == a["oid"]:
                        e["rid"] = b["rid"]
        if case["mode"] in ("invalid-vector", "fault-vector", "bad-citation"):
            fixed = None
        case["fixed"] = fixed
        case["scalar_citation"] = rng.random() < 0.1
        case["interrupt"] = case["mode"] in ("fault", "fault-vector") and rng.random() < 0.5
        case["calls"] = rng.choice([2, 2, 3])
        ctx.guard(check_case, case)
