"""C15 — a circular record behaves as a circle, never as a line"""
import itertools

import gen
import impl
from impl import CircularRecord, Seq, SeqRecord
from wire import CRec, feats_to_json, feats_from_json

TABLES = []
LAKE_TARGETS = ["Moclo.Props.C15"]
THEOREMS = ["Moclo.C15." + t for t in [
    "contains_iff_in_some_rotation", "contains_iff_in_some_rshift", "contains_rotation_invariant",
    "longer_never_contained", "slice_is_linear", "slice_length"]]
# reductions under which a failing case stays a case of this property (see shrink.py)
SHRINK = {"lists": ["feats", "rots"], "strings": True, "ints": ["a", "b"]}
RULE = ("membership: all words and queries over {A,C} up to length 5 (quick) / 7 (thorough) plus random words "
        "with queries cut from a rotation, mutated, or longer than the record, asked at every rotation; "
        "slices with random bounds (negative, open, reversed); '+' with str/Seq/SeqRecord/CircularRecord on "
        "both sides; linear topology; copy isolation.  non-trivial = query non-empty and record length >= 2; "
        "distinct by (word, query)")
ASSUMPTIONS = ["PARTIAL: TypeError on +/radd, ValueError for linear records, slice type/topology and "
               "copy-on-wrap isolation are Python object behaviour outside the Lean model: oracle only"]


def expected_in(wd, q):
    if len(q) > len(wd):
        return False
    if not wd:
        return q == ""
    return any(q in gen.rot(wd, i) for i in range(len(wd)))


def check_membership(ctx, case):
    wd, q = case["word"], case["query"]
    rec = CircularRecord(Seq(wd), id="x")
    got = q in rec
    if got != expected_in(wd, q):
        ctx.fail("{!r} in CircularRecord({!r}) is {} but the query {} in a rotation".format(
            q, wd, got, "occurs" if expected_in(wd, q) else "does not occur"), case)
    if wd:
        for k in case.get("rots", range(len(wd))):
            if (q in (rec >> k)) != got:
                ctx.fail("membership of {!r} changes when {!r} is rotated by {}".format(q, wd, k), case)
    # the sequence is replaced after a first query: the next query must be about the new sequence
    if wd:
        new = gen.rot(wd[::-1], 1) if len(set(wd)) > 1 else ("A" if wd[0] != "A" else "C") * len(wd)
        rec.seq = Seq(new)
        again = q in rec
        if again != expected_in(new, q):
            ctx.fail("after a first query on {!r} the sequence is replaced by {!r}; {!r} in record is then {} but the "
                     "query {} in a rotation of the new sequence".format(
                         wd, new, q, again, "occurs" if expected_in(new, q) else "does not occur"), case)
    # a record whose sequence is edited in place (MutableSeq) between two queries
    if len(wd) >= 2:
        from Bio.Seq import MutableSeq
        mrec = CircularRecord(MutableSeq(wd), id="m")
        first = q in mrec
        if first != expected_in(wd, q):
            ctx.fail("{!r} in a CircularRecord holding MutableSeq({!r}) is {}".format(q, wd, first), case)
        i = len(wd) // 2
        new_letter = "A" if wd[i].upper() != "A" else "C"
        mrec.seq[i] = new_letter
        edited = wd[:i] + new_letter + wd[i + 1:]
        if (q in mrec) != expected_in(edited, q):
            ctx.fail("after editing letter {} of a MutableSeq record in place ({!r} -> {!r}), {!r} in record is {}".format(
                i, wd, edited, q, q in mrec), case)
    ctx.case(case, nontrivial=(len(q) >= 1 and len(wd) >= 2), key=[wd, q])
    if all(ch.isascii() and ch.isalpha() for ch in q):
        ctx.op(("IN", wd, q), case)         # (other text goes to the oracle only: the wire carries letters)


def check_slice(ctx, case):
    wd, a, b = case["word"], case["a"], case["b"]
    feats = feats_from_json(case["feats"])
    how = case.get("how", "declared")
    base = impl.mk_record(CRec(1, wd, feats, []), circular=False)
    # the ways a circular record comes to exist: read from a file that declares its topology (any letter case),
    # built bare, built with annotations that say nothing about topology, wrapped around a hand-made record,
    # and derived from another one by rotation or reverse complement
    if how == "declared":
        base.annotations["topology"] = case.get("topo", "circular")
        rec = CircularRecord(base)
    elif how == "bare":
        rec = CircularRecord(Seq(wd), id="r1", features=base.features)
    elif how == "other-annotations":
        rec = CircularRecord(Seq(wd), id="r1", features=base.features, annotations={"molecule_type": "DNA"})
    elif how == "wrapped":
        base.annotations["molecule_type"] = "DNA"
        rec = CircularRecord(base)
    elif how == "rotated":
        base.annotations["molecule_type"] = "DNA"
        rec = (CircularRecord(base) >> 1) << 1
    else:
        rec = CircularRecord(base).reverse_complement().reverse_complement()
    sl = rec[a:b]
    if type(sl) is not SeqRecord:
        ctx.fail("a slice is a {} instead of a plain SeqRecord".format(type(sl).__name__), case)
    if str(sl.seq) != wd[a:b]:
        ctx.fail("slice [{}:{}] is {!r} instead of the string slice {!r}".format(a, b, str(sl.seq), wd[a:b]), case)
    if str(sl.annotations.get("topology", "")).lower() == "circular":
        ctx.fail("a slice claims circular topology", case)
    # extended slices: any step, as for a string (per-letter values follow)
    for st_ in (case.get("steps") or ()):
        try:
            es = rec[a:b:st_]
        except Exception as e:  # noqa
            ctx.fail("slice [{}:{}:{}] raises {}".format(a, b, st_, type(e).__name__), case)
            continue
        if str(es.seq) != wd[a:b:st_]:
            ctx.fail("slice [{}:{}:{}] is {!r} instead of the string slice {!r}".format(a, b, st_, str(es.seq), wd[a:b:st_]), case)
        if type(es) is not SeqRecord:
            ctx.fail("an extended slice is a {} instead of a plain SeqRecord".format(type(es).__name__), case)
    ctx.note("slice-of:" + how)
    ctx.case(case, nontrivial=len(wd[a:b]) > 0)
    ctx.op(("SLICE", wd, a, b, feats), case)


def check_object_behaviour(ctx, case):
    wd = case["word"]
    rec = impl.mk_record(CRec(1, wd, feats_from_json(case["feats"]), []))
    others = {"str": "ACGT", "Seq": Seq("ACGT"), "SeqRecord": SeqRecord(Seq("ACGT"), id="y"),
              "CircularRecord": CircularRecord(Seq("ACGT"), id="z")}
    for name, o in others.items():
        for side in ("left", "right"):
            try:
                _ = (rec + o) if side == "left" else (o + rec)
                ctx.fail("concatenating a circular record ({} operand, {}) is not refused".format(side, name), case)
            except TypeError:
                pass
            except Exception as e:  # noqa
                ctx.fail("concatenation ({} operand {}) raises {} instead of TypeError".format(
                    side, name, type(e).__name__), case)
    for topo in ("linear", "Linear", "LINEAR"):
        try:
            CircularRecord(Seq(wd), id="l", annotations={"topology": topo})
            ctx.fail("a record declared {} can be wrapped as circular".format(topo), case)
        except ValueError:
            pass
        lin = SeqRecord(Seq(wd), id="l", annotations={"topology": topo})
        try:
            CircularRecord(lin)
            ctx.fail("a SeqRecord declared {} can be wrapped as circular".format(topo), case)
        except ValueError:
            pass
    # extra keyword arguments do not talk a linear record into a circular one
    lin_rec = SeqRecord(Seq(wd), id="lin", annotations={"topology": "linear"})
    for extra in ({"annotations": {}}, {"annotations": {"note": "x"}}, {"features": []}, {"dbxrefs": []}):
        try:
            CircularRecord(lin_rec, **extra)
            ctx.fail("a record declared linear is wrapped as circular when {} is passed along".format(sorted(extra)), case)
        except ValueError:
            pass
        except Exception as e:  # noqa
            ctx.fail("wrapping a linear record with {} raises {} instead of ValueError".format(sorted(extra), type(e).__name__), case)
    # what is wrapped may itself be a circular record whose annotation was changed afterwards: the declaration counts
    relab = CircularRecord(Seq(wd), id="relabelled")
    for spelling in ("linear", "Linear", "LINEAR"):
        relab.annotations["topology"] = spelling
        try:
            CircularRecord(relab)
            ctx.fail("a circular record re-declared {!r} afterwards can be wrapped as circular again".format(spelling), case)
        except ValueError:
            pass
    # copy-on-wrap isolation — whether what is wrapped is a plain record or already a circular one
    for already in (False, True):
        src = impl.mk_record(CRec(1, wd, feats_from_json(case["feats"]), [5]), circular=already)
        src.dbxrefs = ["a"]
        src.letter_annotations["pairs"] = [[i, i + 1] for i in range(len(wd))]      # per-letter values that are mutable
        before = (impl.canon_record(src), list(src.dbxrefs), dict(src.annotations))
        cp = CircularRecord(src)
        what = "a circular record" if already else "a record"
        if len(wd) >= 1:
            cp.letter_annotations["pairs"][0][0] = 999
            if src.letter_annotations["pairs"][0][0] == 999:
                ctx.fail("editing a per-letter value of a wrapped copy of {} reaches the original".format(what), case)
        cp.features.append(impl.mk_feature(impl.Feat(1, "u1", (), ((0, 1, 1),))))
        for f in cp.features:
            f.qualifiers["label"] = ["edited"]
        cp.annotations["references"].append(impl.mk_ref(9))
        cp.annotations["new"] = 1
        cp.dbxrefs.append("b")
        after = (impl.canon_record(src), list(src.dbxrefs), {k: v for k, v in src.annotations.items()})
        if before[0] != after[0] or before[1] != after[1] or set(before[2]) != set(after[2]):
            ctx.fail("editing a wrapped copy of {} reaches the original".format(what), case)
    # the same for a bare record (as read from FASTA): nothing to copy yet, still nothing may be shared
    bare = SeqRecord(Seq(wd), id="bare")
    c1, c2 = CircularRecord(bare), CircularRecord(bare)
    c1.features.append(impl.mk_feature(impl.Feat(1, "u2", (), ((0, 1, 1),))))
    c1.annotations["topology"] = "circular"
    c1.dbxrefs.append("x")
    c1.letter_annotations["track"] = [0] * len(wd)
    shared = [nm for nm, o in (("original", bare), ("second wrap", c2))
              if o.features or o.annotations or o.dbxrefs or o.letter_annotations]
    if shared:
        ctx.fail("editing a wrapped copy of a bare record (no features, annotations, dbxrefs) shows in the {}".format(
            " and the ".join(shared)), case)
    ctx.case(case, nontrivial=True)


def run(ctx):
    rng = ctx.rng
    L = ctx.budget(5, 7) if ctx.scale == 1 else 5
    words = ["".join(t) for n in range(0, L + 1) for t in itertools.product("AC", repeat=n)]
    qs = ["".join(t) for n in range(0, L + 2) for t in itertools.product("AC", repeat=n)]
    cnt = 0
    for wd in words:
        for q in qs:
            if len(q) > len(wd) + 1:
                continue
            if ctx.tier == "quick" and len(wd) == L and rng.random() < 0.5:
                continue
            ctx.guard(check_membership, {"word": wd, "query": q})
            cnt += 1
    ctx.extra["cov_membership_exhaustive_up_to"] = L
    for _ in range(ctx.budget(600, 30000)):
        wd = gen.word(rng)
        n = len(wd)
        r = rng.random()
        if r < 0.5:
            q = gen.rot(wd, rng.randrange(n))[: rng.randint(0, n)]
        elif r < 0.7:
            q = gen.rot(wd, rng.randrange(n))[: rng.randint(0, n)]
            if q:
                i = rng.randrange(len(q))
                q = q[:i] + rng.choice("ACGT") + q[i + 1:]
        elif r < 0.85:
            q = (wd * 2)[: n + rng.randint(1, 3)]
        else:
            q = gen.rnd(rng, rng.randint(0, 4))
        if q and rng.random() < 0.05:
            # … any text: a letter that is no nucleotide at all simply does not occur
            i = rng.randrange(len(q))
            q = q[:i] + rng.choice(["\u00b5", "\u0394", "\u00e9", "-", " "]) + q[i + 1:]
        if q and rng.random() < 0.15:
            # a query is text: an ambiguity letter in it is a letter like any other, not a wildcard
            i = rng.randrange(len(q))
            q = q[:i] + rng.choice("NRYSWKMBDHVn") + q[i + 1:]
        rots = sorted({0, n - 1, rng.randrange(n), rng.randrange(n)}) if n > 12 else list(range(n))
        ctx.guard(check_membership, {"word": wd, "query": q, "rots": rots})
    for _ in range(ctx.budget(300, 20000)):
        wd = gen.word(rng)
        n = len(wd)
        a = rng.choice([None, rng.randint(-n - 2, n + 2)])
        b = rng.choice([None, rng.randint(-n - 2, n + 2)])
        how = rng.choice(["declared", "declared", "bare", "other-annotations", "wrapped", "rotated", "rc"])
        ctx.guard(check_slice, {"word": wd, "a": a, "b": b, "feats": feats_to_json(gen.gen_features(rng, n, 3)),
                                "how": how, "topo": rng.choice(["circular", "Circular", "CIRCULAR"]),
                                "steps": rng.sample([-3, -2, -1, 1, 2, 3], 2) if rng.random() < 0.5 else []})
    for _ in range(ctx.budget(40, 2000)):
        wd = gen.word(rng)
        ctx.guard(check_object_behaviour, {"word": wd, "feats": feats_to_json(gen.gen_features(rng, len(wd), 2))})


def check_case(ctx, case):
    if "query" in case:
        ctx.guard(check_membership, case)
    elif "a" in case:
        ctx.guard(check_slice, case)
    else:
        ctx.guard(check_object_behaviour, case)
