"""C09 — the product records its provenance and is a complete GenBank record"""
import io
import re

import asm
import gen
import impl

TABLES = []
LAKE_TARGETS = ["Moclo.Props.C09"]
THEOREMS = ["Moclo.C09." + t for t in ["product_header", "target_has_source", "sources_tile", "offsets_spec", "shifted_source", "fragment_verbatim", "reref_keeps_sources", "product_is_layout"]]
RULE = ("well-formed assemblies over every enzyme geometry (with annotated inputs and unused modules), random "
        "GenBank-legal ids and names; two-level compositions (a product re-used as a module of the next assembly "
        "through a kit whose vectors embed the next level's sites is covered by C11; here a product is re-wrapped and "
        "re-assembled by the same enzyme when it carries the two sites); source features checked for tiling and "
        "verbatim occurrence in the plasmid they name; GenBank write/read round trip. non-trivial = a product with "
        ">= 2 fragments; distinct by content")
ASSUMPTIONS = ["PARTIAL: the GenBank round trip is Biopython I/O outside the Lean model (oracle only)",
               "ids restricted to GenBank-legal [A-Za-z0-9_]{1,16}"]


def check_case(ctx, case):
    from Bio import SeqIO
    op = asm.asm_op(case)
    ents = impl.build_entities(op[3], op[4])
    vec, ms, objs = ents
    pid, pname = case["id"], case["name"]
    import warnings
    with warnings.catch_warnings():
        warnings.simplefilter("ignore")
        try:
            prod = vec.assemble(*ms, id=pid, name=pname)
        except Exception as e:  # noqa
            ctx.fail("well-formed assembly fails: {}".format(type(e).__name__), case)
            return
    seq = str(prod.seq)
    N = len(seq)
    if not isinstance(prod, impl.CircularRecord) or str(prod.annotations.get("topology", "")).lower() != "circular":
        ctx.fail("the product is not a circular record with circular topology", case)
    if prod.id != pid or prod.name != pname:
        ctx.fail("product id/name are {!r}/{!r}, requested {!r}/{!r}".format(prod.id, prod.name, pid, pname), case)
    comment = prod.annotations.get("comment", "")
    text = " ".join(comment) if isinstance(comment, list) else str(comment)
    for e in [vec] + ms:
        if e.record.id not in text:
            ctx.fail("the comment does not name {}".format(e.record.id), case)
            break
    by_id = {e.record.id: e for e in [vec] + ms}
    srcs = [f for f in prod.features if f.type == "source" and "plasmid" in f.qualifiers
            and len(f.location.parts) == 1 and f.qualifiers.get("label") == "source: {}".format(f.qualifiers["plasmid"])]
    spans = sorted((int(f.location.start), int(f.location.end), f.qualifiers["plasmid"]) for f in srcs)
    pos = 0
    for s, e, name in spans:
        if s != pos or e <= s:
            ctx.fail("generated source features do not tile the product: {} (length {})".format(
                [(a, b) for a, b, _ in spans], N), case)
            break
        pos = e
        src = by_id.get(name)
        if src is None:
            ctx.fail("a source feature names {!r}, not one of the inputs".format(name), case)
            break
        sw = str(src.record.seq)
        if seq[s:e] not in sw * 2 or e - s > len(sw):
            ctx.fail("the stretch [{}:{}] attributed to {} does not occur verbatim in that plasmid".format(s, e, name), case)
            break
    else:
        if pos != N:
            ctx.fail("generated source features cover [0,{}) of a product of length {}".format(pos, N), case)
    # GenBank round trip
    h = io.StringIO()
    try:
        SeqIO.write(prod, h, "genbank")
        back = SeqIO.read(io.StringIO(h.getvalue()), "genbank")
    except Exception as e:  # noqa
        ctx.fail("the product cannot be written to / read from GenBank: {}: {}".format(type(e).__name__, str(e)[:80]), case)
        back = None
    if back is not None:
        if str(back.seq).upper() != seq.upper():
            ctx.fail("GenBank round trip changes the sequence", case)
        if str(back.annotations.get("topology", "")).lower() != "circular":
            ctx.fail("GenBank round trip loses the circular topology", case)

        def view(rec):
            out = []
            for f in rec.features:
                out.append((f.type, tuple((int(p.start), int(p.end), -1 if p.strand == -1 else 1) for p in f.location.parts)))
            return sorted(out)
        if view(back) != view(prod):
            a, b = view(prod), view(back)
            ctx.fail("GenBank round trip changes feature types/locations: {} vs {}".format(
                [x for x in a if x not in b][:2], [x for x in b if x not in a][:2]), case)
    ctx.note("fragments={}".format(len(spans)))
    ctx.case({k: v for k, v in case.items() if k != "info"}, nontrivial=len(spans) >= 2)
    case2 = dict(case, pid=1, pname=2)
    ctx.op(asm.asm_op(case2), None)


def run(ctx):
    rng = ctx.rng
    from wire import feats_to_json
    alphabet = "ABCDEFGHIJKLMNOPQRSTUVWXYZabcdefghijklmnopqrstuvwxyz0123456789_"
    for enz in asm.pick_enzymes(rng, ctx.budget(250, 10000)):
        g = asm.gen_wellformed(rng, enz, rng.randint(1, 5))
        if g is None:
            continue
        case, info = g
        for e in [case["vector"]] + case["mods"]:
            n = len(e["word"])
            feats = [f for f in gen.gen_features(rng, n, rng.choice([0, 2, 4])) if all(0 <= p[0] < p[1] <= n for p in f.parts)]
            e["feats"] = feats_to_json(feats)
        if rng.random() < 0.2:
            used = {m["o5"] for m in info["mparts"]}
            for _ in range(20):
                o = gen.ovh(rng, enz)
                if o not in used and gen.rc(o) not in used and gen.rc(o) != o:
                    wd, _ = gen.gen_module(rng, enz, o, gen.ovh(rng, enz))
                    case["mods"].append(asm.ent_json(60, "generic:M:" + str(enz), wd))
                    break
        case["id"] = "".join(rng.choice(alphabet) for _ in range(rng.randint(1, 16)))
        case["name"] = "".join(rng.choice(alphabet) for _ in range(rng.randint(1, 16)))
        check_case(ctx, case)
