"""C09 — the product records its provenance and is a complete GenBank record"""
import io
import re

import asm
import core
import gen
import impl

TABLES = []
LAKE_TARGETS = ["Moclo.Props.C09"]
THEOREMS = ["Moclo.C09." + t for t in ["product_header", "target_has_source", "sources_tile", "offsets_spec", "shifted_source", "fragment_verbatim", "reref_keeps_sources", "product_is_layout"]]
RULE = ("well-formed assemblies over every enzyme geometry (with annotated inputs and unused modules), random "
        "GenBank-legal ids and names; two-level compositions (a product re-used as a module of the next assembly "
        "through a kit whose vectors embed the next level's sites is covered by C11; here a product is re-wrapped and "
        "re-assembled by the same enzyme when it carries the two sites); source features checked for tiling and "
        "verbatim occurrence in the plasmid they name; GenBank write/read round trip. non-trivial = a product with "
        ">= 2 fragments; distinct by content")
ASSUMPTIONS = ["PARTIAL: the GenBank round trip is Biopython I/O outside the Lean model (oracle only)",
               "ids restricted to GenBank-legal [A-Za-z0-9_]{1,16}"]


def check_case(ctx, case):
    if "modA" in case:
        return check_two_level(ctx, case)
    from Bio import SeqIO
    op = asm.asm_op(case)
    ents = impl.build_entities(op[3], op[4])
    vec, ms, objs = ents
    pid, pname = case["id"], case["name"]
    import warnings
    with warnings.catch_warnings():
        warnings.simplefilter("ignore")
        try:
            prod = vec.assemble(*ms, id=pid, name=pname)
        except Exception as e:  # noqa
            ctx.fail("well-formed assembly fails: {}".format(type(e).__name__), case)
            return
    seq = str(prod.seq)
    N = len(seq)
    if not isinstance(prod, impl.CircularRecord) or str(prod.annotations.get("topology", "")).lower() != "circular":
        ctx.fail("the product is not a circular record with circular topology", case)
    if prod.id != pid or prod.name != pname:
        ctx.fail("product id/name are {!r}/{!r}, requested {!r}/{!r}".format(prod.id, prod.name, pid, pname), case)
    comment = prod.annotations.get("comment", "")
    text = " ".join(comment) if isinstance(comment, list) else str(comment)
    for e in [vec] + ms:
        if e.record.id not in text:
            ctx.fail("the comment does not name {}".format(e.record.id), case)
            break
    by_id = {e.record.id: e for e in [vec] + ms}
    srcs = [f for f in prod.features if f.type == "source" and "plasmid" in f.qualifiers
            and len(f.location.parts) == 1 and f.qualifiers.get("label") == "source: {}".format(f.qualifiers["plasmid"])]
    spans = sorted((int(f.location.start), int(f.location.end), f.qualifiers["plasmid"]) for f in srcs)
    pos = 0
    for s, e, name in spans:
        if s != pos or e <= s:
            ctx.fail("generated source features do not tile the product: {} (length {})".format(
                [(a, b) for a, b, _ in spans], N), case)
            break
        pos = e
        src = by_id.get(name)
        if src is None:
            ctx.fail("a source feature names {!r}, not one of the inputs".format(name), case)
            break
        sw = str(src.record.seq)
        if seq[s:e] not in sw * 2 or e - s > len(sw):
            ctx.fail("the stretch [{}:{}] attributed to {} does not occur verbatim in that plasmid".format(s, e, name), case)
            break
    else:
        if pos != N:
            ctx.fail("generated source features cover [0,{}) of a product of length {}".format(pos, N), case)
    # GenBank round trip (the LOCUS line holds the name: attempted for names of at most 16 characters)
    h = io.StringIO()
    back = None
    if len(pname) <= 16 and not any(ch.isspace() for ch in pname) and pname.isascii():
        try:
            SeqIO.write(prod, h, "genbank")
            back = SeqIO.read(io.StringIO(h.getvalue()), "genbank")
        except Exception as e:  # noqa
            ctx.fail("the product cannot be written to / read from GenBank: {}: {}".format(type(e).__name__, str(e)[:80]), case)
    else:
        ctx.note("long-name-no-roundtrip")
    if back is not None:
        if str(back.seq).upper() != seq.upper():
            ctx.fail("GenBank round trip changes the sequence", case)
        if str(back.annotations.get("topology", "")).lower() != "circular":
            ctx.fail("GenBank round trip loses the circular topology", case)

        def view(rec):
            out = []
            for f in rec.features:
                out.append((f.type, tuple((int(p.start), int(p.end), -1 if p.strand == -1 else 1) for p in f.location.parts)))
            return sorted(out)
        if view(back) != view(prod):
            a, b = view(prod), view(back)
            ctx.fail("GenBank round trip changes feature types/locations: {} vs {}".format(
                [x for x in a if x not in b][:2], [x for x in b if x not in a][:2]), case)
    # a complete record: every /citation of the feature table is the bracketed number of one of its REFERENCE blocks
    nrefs = len(prod.annotations.get("references", []) or [])
    for f in prod.features:
        for c in f.qualifiers.get("citation", []) or []:
            m_ = re.fullmatch(r"\[(\d+)\]", c) if isinstance(c, str) else None
            if m_ is None or not 1 <= int(m_.group(1)) <= nrefs:
                ctx.fail("a feature of the product carries /citation={!r} although the record has {} REFERENCE block(s)".format(
                    c if isinstance(c, str) else type(c).__name__, nrefs), case)
                break
    ctx.note("fragments={}".format(len(spans)))
    ctx.case({k: v for k, v in case.items() if k != "info"}, nontrivial=len(spans) >= 2)
    case2 = dict(case, pid=1, pname=2)
    if core.pick(case, 3):
        # the same module objects built into more than one construct: provenance must not accumulate
        asm.lifecycle(ctx, case)
    ctx.op(asm.asm_op(case2), None)


def tiles(spans, N):
    """is there a subset of the candidate spans that covers [0, N) exactly once?"""
    by_start = {}
    for s, e, name in spans:
        if e > s:
            by_start.setdefault(s, []).append((e, name))
    seen = set()

    def go(pos):
        if pos == N:
            return []
        if pos in seen:
            return None
        seen.add(pos)
        for e, name in sorted(by_start.get(pos, []), reverse=True):
            r = go(e)
            if r is not None:
                return [(pos, e, name)] + r
        return None
    return go(0)


def provenance_ok(ctx, prod, inputs, case, level):
    """generated source features naming this level's inputs tile the product, each stretch verbatim in its plasmid"""
    seq = str(prod.seq)
    by_id = {e.record.id: e for e in inputs}
    cands = []
    for f in prod.features:
        if f.type == "source" and len(f.location.parts) == 1 and f.qualifiers.get("plasmid") in by_id \
                and f.qualifiers.get("label") == "source: {}".format(f.qualifiers["plasmid"]):
            cands.append((int(f.location.start), int(f.location.end), f.qualifiers["plasmid"]))
    t = tiles(cands, len(seq))
    if t is None:
        ctx.fail("level {}: the generated source features naming the inputs {} do not tile the product: {}".format(
            level, sorted(by_id), sorted(cands)), case)
        return
    if len(t) != len(inputs) - sum(1 for e in inputs if e.record.id not in {n for _, _, n in t}) or \
            {n for _, _, n in t} - set(by_id):
        pass
    for s, e, name in t:
        sw = str(by_id[name].record.seq)
        if seq[s:e] not in sw * 2:
            ctx.fail("level {}: the stretch [{}:{}] attributed to {} is not in that plasmid".format(level, s, e, name), case)
            return


def check_two_level(ctx, case):
    """a product re-used as a module of the next level (inner provenance features nested in outer ones)"""
    import warnings
    A, B = asm.enzyme(case["A"]), asm.enzyme(case["B"])
    MA, VA = impl.generic_classes(A)
    MB, VB = impl.generic_classes(B)
    def rec(word, rid):
        return impl.CircularRecord(impl.Seq(word), id=rid, name=rid, annotations={"molecule_type": "DNA"})
    n1, n0, n9 = case.get("names") or ["r1", "r0", "r9"]        # what the input plasmids are called (any text)
    with warnings.catch_warnings():
        warnings.simplefilter("ignore")
        m1 = MA(rec(case["modA"], n1))
        v1 = VA(rec(case["vecA"], n0))
        try:
            p1 = v1.assemble(m1, id=case["id1"], name="lvl1")
        except Exception as e:  # noqa
            ctx.fail("two-level: level 1 fails: {}".format(type(e).__name__), case)
            return
        provenance_ok(ctx, p1, [v1, m1], case, 1)
        m2 = MB(p1)
        v2 = VB(rec(case["vecB"], n9))
        if not m2.is_valid():
            ctx.note("two-level-skipped")
            return
        try:
            p2 = v2.assemble(m2, id=case["id2"], name="lvl2")
        except Exception as e:  # noqa
            ctx.fail("two-level: the level-1 product cannot be assembled at level 2: {}: {}".format(
                type(e).__name__, str(e)[:80]), case)
            return
        provenance_ok(ctx, p2, [v2, m2], case, 2)
        if p2.id != case["id2"]:
            ctx.fail("two-level: product id", case)
        # the inner provenance features are inherited as ordinary features
        inner = [f for f in p2.features if f.type == "source" and f.qualifiers.get("plasmid") == n1]
        if not inner:
            ctx.fail("two-level: the provenance feature of the level-1 module, which lies inside the level-2 fragment, "
                     "is not inherited by the level-2 product", case)
        # … and still cover a stretch that occurs verbatim in the level-1 plasmid they name
        words = {n1: case["modA"], n0: case["vecA"]}
        seq2 = str(p2.seq)
        for f in p2.features:
            nm_ = f.qualifiers.get("plasmid") if f.type == "source" else None
            if nm_ in words and len(f.location.parts) == 1:
                a_, b_ = int(f.location.start), int(f.location.end)
                ok_ = 0 <= a_ < b_ <= len(seq2) and seq2[a_:b_].upper() in (words[nm_] * 2).upper()
                if not ok_ and nm_ == case["id1"]:
                    # the level-1 product was given the name of one of its own inputs: this may be the level-2
                    # provenance feature, which names the product
                    ok_ = 0 <= a_ < b_ <= len(seq2) and seq2[a_:b_].upper() in (str(p1.seq) * 2).upper()
                if not ok_:
                    ctx.fail("two-level: the inherited provenance feature naming {} covers [{}:{}] of the level-2 product, "
                             "a stretch that does not occur in that plasmid".format(nm_, a_, b_), case)
                    break
    ctx.note("two-level")
    ctx.case(case, nontrivial=True)


def gen_two_level(rng):
    import boot
    enzs = [e for e in boot.supported_enzymes() if len(e.site) >= 5]
    A, B = rng.sample(enzs, 2)
    if A.site in (B.site, gen.rc(B.site)):
        return None
    fb = (A.site, gen.rc(A.site), B.site, gen.rc(B.site))
    kb, ka = abs(B.ovhg), abs(A.ovhg)
    ob = gen.distinct_overhangs(rng, kb, 2, fb)
    oa = gen.distinct_overhangs(rng, ka, 2, fb)
    if len(ob) < 2 or len(oa) < 2:
        return None
    offb, offa = B.fst5 - len(B.site), A.fst5 - len(A.site)
    for _ in range(200):
        # the level-1 vector carries the level-2 sites in its backbone, on either side of the insertion point,
        # so that the level-2 fragment contains the whole level-1 module fragment (nested provenance)
        r0 = gen.rnd_avoid(rng, rng.randint(0, 5), fb)
        r1 = gen.rnd_avoid(rng, rng.randint(0, 5), fb)
        back = r1 + ob[1] + gen.rnd_avoid(rng, offb, fb) + gen.rc(B.site) + gen.rnd_avoid(rng, rng.randint(0, 6), fb) + \
            B.site + gen.rnd_avoid(rng, offb, fb) + ob[0] + r0
        vecA = oa[1] + back + oa[0] + gen.rnd_avoid(rng, offa, fb) + gen.rc(A.site) + \
            gen.rnd_avoid(rng, rng.randint(0, 6), fb) + A.site + gen.rnd_avoid(rng, offa, fb)
        modA = A.site + gen.rnd_avoid(rng, offa, fb) + oa[0] + gen.rnd_avoid(rng, rng.randint(2, 10), fb) + oa[1] + \
            gen.rnd_avoid(rng, offa, fb) + gen.rc(A.site) + gen.rnd_avoid(rng, rng.randint(0, 8), fb)
        vecB = ob[1] + gen.rnd_avoid(rng, rng.randint(2, 10), fb) + ob[0] + gen.rnd_avoid(rng, offb, fb) + gen.rc(B.site) + \
            gen.rnd_avoid(rng, rng.randint(0, 6), fb) + B.site + gen.rnd_avoid(rng, offb, fb)
        ok = all(gen.circ_count(w, x.site) + gen.circ_count(w, gen.rc(x.site)) == c for w, x, c in
                 [(modA, A, 2), (modA, B, 0), (vecA, A, 2), (vecA, B, 2), (vecB, B, 2), (vecB, A, 0)])
        if ok:
            return {"A": str(A), "B": str(B), "modA": gen.rot(modA, rng.randrange(len(modA))),
                    "vecA": gen.rot(vecA, rng.randrange(len(vecA))), "vecB": gen.rot(vecB, rng.randrange(len(vecB))),
                    "id1": rng.choice(["assembly", "r1", "r0", "lvl1x", "r1"]),
                    "id2": rng.choice(["assembly", "final", "r9"]),
                    "names": rng.choice([None, None, ["pTDH3-2\u00b5", "pVEC-\u03940", "prom-caf\u00e9"],
                                         ["prom-caf\u00e9", "prom-cafe", "r9"]])}
    return None


def run(ctx):
    rng = ctx.rng
    from wire import feats_to_json
    for _ in range(ctx.budget(120, 4000)):
        c2 = gen_two_level(rng)
        if c2 is not None:
            ctx.guard(check_two_level, c2)
    alphabet = "ABCDEFGHIJKLMNOPQRSTUVWXYZabcdefghijklmnopqrstuvwxyz0123456789_"
    many_done = 0
    for enz in asm.pick_enzymes(rng, ctx.budget(250, 10000)):
        g = asm.gen_wellformed(rng, enz, rng.randint(1, 5))
        if many_done < (1 if ctx.tier == "quick" else 4) and abs(enz.ovhg) >= 4:
            g2 = asm.gen_wellformed(rng, enz, nmods=rng.randint(18, 24))       # a whole parts list in one call
            if g2 is not None:
                g, many_done = g2, many_done + 1
        if g is None:
            continue
        case, info = g
        for e in [case["vector"]] + case["mods"]:
            n = len(e["word"])
            nref = len(e.get("refs") or [])
            feats = [f for f in gen.gen_features(rng, n, rng.choice([0, 2, 4]), allow_cites=nref)
                     if all(0 <= p[0] < p[1] <= n for p in f.parts)]
            if nref:
                # a documented plasmid: small cited features all along it, each paper cited more than once
                from wire import Feat
                feats += [Feat(1, "u7", ("i%d" % (1 + (p // 2) % min(nref, 3)),), ((p, p + 1, 1),)) for p in range(0, n - 1, 2)]
            e["feats"] = feats_to_json(feats)
        if rng.random() < 0.2:
            used = {m["o5"] for m in info["mparts"]}
            for _ in range(20):
                o = gen.ovh(rng, enz)
                if o not in used and gen.rc(o) not in used and gen.rc(o) != o:
                    wd, _ = gen.gen_module(rng, enz, o, gen.ovh(rng, enz))
                    case["mods"].append(asm.ent_json(60, "generic:M:" + str(enz), wd))
                    break
        case["id"] = "".join(rng.choice(alphabet) for _ in range(rng.randint(1, 16)))
        # the name is free text (a construct is often named after its parts); only the id has to be GenBank-legal
        case["name"] = "".join(rng.choice(alphabet) for _ in range(rng.choice([1, 8, 16, 17, 24, 40])
                                                                      if rng.random() < 0.4 else rng.randint(1, 16)))
        if rng.random() < 0.25:
            # free text as people write it: blanks, brackets, punctuation
            words = [rng.choice(["GFP", "reporter", "(URA3)", "pTDH3", "v2.1", "lab's", "2µ", "A+B", "x"]) for _ in range(rng.randint(2, 4))]
            case["name"] = rng.choice([" ", "  ", "\t"]).join(words)
        ctx.guard(check_case, case)
