"""C14 — reverse complement of a circular record stays circular and loses nothing"""
import gen
import impl
from wire import CRec, feats_to_json, feats_from_json, positions, site_positions, reading

TABLES = []
LAKE_TARGETS = ["Moclo.Props.C14"]
THEOREMS = ["Moclo.C14." + t for t in [
    "rc_rc", "rc_getElem", "rc_rotr", "feature_part_mirrored", "feature_part_flip_flip", "feature_flip",
    "feature_flip_flip_perm", "feature_flip_flip", "reading_order_mirrored", "record_rc"]]
# reductions under which a failing case stays a case of this property (see shrink.py)
SHRINK = {"lists": ["feats"], "ints": ["k"]}
RULE = ("random records with feature tables that include locations left past the end by earlier rotations and "
        "negative ones left by reverse complement; non-trivial = length >= 2 and at least one feature; "
        "distinct by content")
ASSUMPTIONS = ["'is again a CircularRecord' is a Python type fact: oracle only",
               "feature parts are well formed (see C13)"]


def denot(feats, n):
    return sorted((f.ftype, f.qual, positions(f.parts, n), site_positions(f.parts, n)) for f in feats)


def readings(feats, n):
    """for every fully stranded feature, the order in which it reads its nucleotides (the order of the parts of a join
    is part of what the feature denotes: it is the order of the exons); the flag says "one whole turn" (read cyclically)"""
    return sorted((f.ftype, f.qual, reading(f.parts, n), len(f.parts) == 1 and f.parts[0][1] - f.parts[0][0] == n)
                  for f in feats if reading(f.parts, n) is not None)


def mirrored_readings(rd, n):
    # the same molecule read by the same feature: same order, every nucleotide at its mirror position, other strand
    out = []
    for (t, q, r, whole) in rd:
        m = [(n - 1 - p, -st) for (p, st) in r]
        if whole and n > 0:
            m = min(m[i:] + m[:i] for i in range(n))
        out.append((t, q, m, whole))
    return sorted(out)


def mirrored(den, n):
    # a nucleotide p goes to n-1-p; a between-bases site p (before nucleotide p) goes to n-p
    return sorted((t, q, sorted((n - 1 - p, -st) for (p, st) in ps), sorted(((n - p) % n, -st) for (p, st) in ss))
                  for (t, q, ps, ss) in den)


def gen_case(rng):
    wd = gen.word(rng)
    n = len(wd)
    return {"word": wd, "feats": feats_to_json(gen.gen_features(rng, n, sites=True)), "k": rng.randint(-2 * n, 2 * n)}


def check_case(ctx, case):
    wd, k = case["word"], case["k"]
    feats = feats_from_json(case["feats"])
    n = len(wd)
    rec = impl.mk_record(CRec(3, wd, feats, []))
    out = rec.reverse_complement()
    if type(out) is not impl.CircularRecord:
        ctx.fail("reverse_complement() returns a {} instead of a CircularRecord".format(type(out).__name__), case)
    cin, cout = impl.canon_record(rec), impl.canon_record(out, rid=3)
    if cout.seq != gen.rc(wd):
        ctx.fail("sequence of the reverse complement is {} instead of {}".format(cout.seq, gen.rc(wd)), case)
    d_in = denot(cin.feats, n)
    if denot(cout.feats, n) != mirrored(d_in, n):
        ctx.fail("a feature of the reverse complement does not denote the mirrored nucleotides on the "
                 "opposite strand", case)
    r_in = readings(cin.feats, n)
    if readings(cout.feats, n) != mirrored_readings(r_in, n):
        ctx.fail("a stranded feature of the reverse complement does not read the mirrored nucleotides in the same order "
                 "(the order of the parts of a join is the order of its exons)", case)
    twice = impl.canon_record(out.reverse_complement(), rid=3)
    if twice.seq != wd or denot(twice.feats, n) != d_in or readings(twice.feats, n) != r_in:
        ctx.fail("reverse complement applied twice does not give back the record", case)
    a = impl.canon_record((rec >> k).reverse_complement(), rid=3)
    b = impl.canon_record(out << k, rid=3)
    if a.seq != b.seq or denot(a.feats, n) != denot(b.feats, n) or readings(a.feats, n) != readings(b.feats, n):
        ctx.fail("rc(r >> {0}) differs from rc(r) << {0}".format(k), case)
    # less common GenBank locations: a part that lies in another entry (`J00194.1:5..12`: not a stretch of this plasmid,
    # left alone by rotation and reverse complement), and positions given as `(3.6)`, `one-of(9,11)`, `8^10`-style
    # ranges: read as the integers they stand for
    if n >= 8 and (ctx.evaluations % 4 == 1 or case.get("exotic")):
        from Bio.SeqFeature import (SeqFeature, SimpleLocation, CompoundLocation, WithinPosition, OneOfPosition,
                                    BetweenPosition, ExactPosition)
        rx = impl.mk_record(CRec(3, wd, [], []))
        a_, b_ = 1, n - 2
        rx.features = [
            SeqFeature(CompoundLocation([SimpleLocation(5, 12, 1, ref="J00194.1"), SimpleLocation(a_, a_ + 3, 1)]),
                       type="misc_feature", qualifiers={"label": ["x1"]}),
            SeqFeature(SimpleLocation(WithinPosition(a_, left=a_, right=a_ + 2), b_, 1), type="misc_feature", qualifiers={"label": ["x2"]}),
            SeqFeature(SimpleLocation(a_ + 1, OneOfPosition(b_, [ExactPosition(b_), ExactPosition(b_ + 1)]), -1),
                       type="misc_feature", qualifiers={"label": ["x3"]}),
            SeqFeature(SimpleLocation(BetweenPosition(n - 4, left=n - 4, right=n - 2), n, 1), type="misc_feature", qualifiers={"label": ["x4"]})]

        def xview(rec_):
            out_ = {}
            for f_ in rec_.features:
                lab_ = f_.qualifiers["label"][0]
                out_[lab_] = ([(int(p_.start), int(p_.end), p_.strand, p_.ref) for p_ in f_.location.parts if p_.ref],
                              sorted((t_ % n, p_.strand) for p_ in f_.location.parts if not p_.ref
                                     for t_ in range(int(p_.start), int(p_.end))))
            return out_
        try:
            xa, xb = xview((rx >> k).reverse_complement()), xview(rx.reverse_complement() << k)
            if xa != xb:
                lab_ = next(l_ for l_ in xa if xa[l_] != xb.get(l_))
                ctx.fail("rc(r >> {0}) differs from rc(r) << {0} for a feature with a less common location ({1}): {2} vs {3}".format(
                    k, lab_, xa[lab_], xb.get(lab_)), dict(case, exotic=True))
            elif xa["x1"][0] != [(5, 12, 1, "J00194.1")]:
                ctx.fail("a location part that lies in another entry (J00194.1:5..12) comes out as {}".format(xa["x1"][0]), dict(case, exotic=True))
        except Exception as e:  # noqa
            ctx.fail("rotation / reverse complement of a record with less common locations raises {}: {}".format(
                type(e).__name__, str(e)[:80]), dict(case, exotic=True))
    # the arguments in the order SeqRecord.reverse_complement declares them (a drop-in replacement is called positionally
    # too): id, name, description, features, annotations, letter_annotations, dbxrefs
    if n >= 1 and ctx.evaluations % 3 == 0:
        rp = impl.mk_record(CRec(3, wd, feats, [5]), track=list(range(n)))
        rp.dbxrefs = ["x:1"]
        pos = rp.reverse_complement(True, True, True, False, True, False, True)
        kw = rp.reverse_complement(id=True, name=True, description=True, features=False, annotations=True,
                                   letter_annotations=False, dbxrefs=True)
        def seen(o):
            return (o.id, o.name, o.description, len(o.features), sorted(o.annotations), sorted(o.letter_annotations), list(o.dbxrefs))
        if seen(pos) != seen(kw) or len(pos.features) != 0 or pos.dbxrefs != ["x:1"] or pos.letter_annotations:
            ctx.fail("reverse_complement called positionally (id, name, description, features, annotations, "
                     "letter_annotations, dbxrefs) keeps {} where the keyword call keeps {}".format(seen(pos), seen(kw)), case)
    # a circular RNA: the reverse complement is an RNA too (what SeqRecord does for molecule_type RNA)
    if n >= 1 and ctx.evaluations % 5 == 0:
        rna = "".join({"T": "U", "t": "u"}.get(ch, ch) for ch in wd)
        rr = impl.CircularRecord(impl.Seq(rna), id="rna", annotations={"molecule_type": "RNA", "topology": "circular"})
        want = str(impl.SeqRecord(impl.Seq(rna), id="rna", annotations={"molecule_type": "RNA"}).reverse_complement().seq)
        if str(rr.reverse_complement().seq) != want:
            ctx.fail("reverse complement of the circular RNA {!r} is {!r} instead of {!r}".format(
                rna, str(rr.reverse_complement().seq), want), case)
    # what is carried over is chosen per kind, as in Biopython: features and per-letter values independently
    if n >= 1:
        track = [ctx.rng.randrange(50) for _ in range(n)]
        rt = impl.mk_record(CRec(3, wd, feats, []), track=track)
        only_f = rt.reverse_complement(letter_annotations=False)
        if denot(impl.canon_record(only_f, rid=3).feats, n) != mirrored(d_in, n) or only_f.letter_annotations:
            ctx.fail("reverse_complement(letter_annotations=False) should keep the (mirrored) features and drop "
                     "the per-letter values: {} features, tracks {}".format(len(only_f.features),
                                                                             sorted(only_f.letter_annotations)), case)
        only_t = rt.reverse_complement(features=False)
        if only_t.features or only_t.letter_annotations.get("track") != track[::-1]:
            ctx.fail("reverse_complement(features=False) should drop the features and keep the per-letter values "
                     "reversed", case)
    # the feature table is curated in place (same number of features), then reverse-complemented again
    if n >= 2 and rec.features:
        from Bio.SeqFeature import SeqFeature, SimpleLocation
        a = ctx.rng.randrange(n)
        b = ctx.rng.randint(a + 1, n)
        rec.features[ctx.rng.randrange(len(rec.features))] = SeqFeature(
            SimpleLocation(a, b, ctx.rng.choice([1, -1])), type="misc_feature", qualifiers={"label": ["u98"]})
        fresh = impl.CircularRecord(rec)
        g = impl.canon_record(rec.reverse_complement(), rid=3)
        w = impl.canon_record(fresh.reverse_complement(), rid=3)
        if g.seq != w.seq or denot(g.feats, n) != denot(w.feats, n):
            ctx.fail("after replacing a feature in place, reverse_complement() still answers for the feature "
                     "table as it was before", case)
        # results handed out earlier are the caller's: emptying one must not show in the next
        r1 = rec.reverse_complement()
        k1 = len(r1.features)
        del r1.features[:]
        if len(rec.reverse_complement().features) != k1:
            ctx.fail("two calls of reverse_complement() share their feature list", case)
        ctx.note("edited-then-rc")
    ctx.note("feats={}".format(min(len(feats), 5)))
    ctx.case(case, nontrivial=(n >= 2 and len(feats) > 0))
    ctx.op(("RC", wd, feats), case)


def run(ctx):
    # small scope, exhaustively: every well-formed one- and two-part location (and the zero-width sites) on
    # records of length 1..3 (thorough: ..4), every strand, under every rotation amount of one turn either way
    from wire import Feat
    top = 3 if ctx.tier == "quick" else 4
    for n in range(1, top + 1):
        wd = "AcGN"[:n]
        locs = [(s_, e_) for s_ in range(-n + 1, n) for e_ in range(max(s_ + 1, 1), s_ + n + 1)] + \
               [(p_, p_) for p_ in range(0, n + 1)]
        plain = [(s_, e_) for (s_, e_) in locs if 0 <= s_ < e_ <= n]
        for (s_, e_) in locs:
            for st in (1, -1, 0):
                for k in range(-n, n + 1):
                    ctx.guard(check_case, {"word": wd, "feats": feats_to_json([Feat(1, "u1", (), ((s_, e_, st),))]), "k": k})
                if 0 <= s_ < e_ <= n:
                    # the same as a `source` feature (whole-plasmid ones included): mirrored and put on the other strand
                    ctx.guard(check_case, {"word": wd, "feats": feats_to_json([Feat(0, "u1", (), ((s_, e_, st),))]),
                                           "k": (s_ + e_) % (n + 1)})
        for a in plain:
            for b in plain:
                for st, st2 in ((1, 1), (-1, -1), (1, -1)):
                    ctx.guard(check_case, {"word": wd, "feats": feats_to_json(
                        [Feat(2, "u2", (), ((a[0], a[1], st), (b[0], b[1], st2)))]), "k": (a[0] + b[1]) % (n + 1)})
    # three-part `source` features that begin at 0 and finish at the end of the record (joined or ordered): only the
    # one-part whole-length `source` is left where it is by a rotation, on either strand
    for n in ((4,) if ctx.tier == "quick" else (3, 4, 5)):
        wd = "AcGNt"[:n]
        for j_, ps in enumerate(gen.source_lookalikes(n)):
            for st in (1, -1):
                ctx.guard(check_case, {"word": wd, "feats": feats_to_json(
                    [Feat(0, "u%d" % (1 + j_ % 2), (), tuple((s_, e_, st) for s_, e_ in ps))]), "k": (1, n - 1)[j_ % 2]})
    ctx.extra["cov_small_scope"] = "all one- and two-part locations on records of length 1..{}, every rotation in [-n, n]".format(top)
    for _ in range(ctx.budget(1500, 60000)):
        ctx.guard(check_case, gen_case(ctx.rng))
