"""C16 — DNA pattern search has exact IUPAC, circular and group-extraction semantics"""
import itertools
import re

import gen
import impl
from impl import DNARegex, Seq

TABLES = ["Lettermap"]
LAKE_TARGETS = ["Moclo.Props.C16", "Moclo.Tables.Lettermap"]
THEOREMS = ["Moclo.C16." + t for t in [
    "lettermap_exact", "lettermap_case", "code_table_is_model", "matcher_sound_complete", "search_leftmost",
    "search_none_iff", "circular_text_is_rotation", "linear_text_is_suffix", "search_one_turn",
    "group_is_matched_text", "search_priority", "matcher_finds_best"]]
# reductions under which a failing case stays a case of this property (see shrink.py)
SHRINK = {"strings": True, "ints": ["pos", "endpos"]}
RULE = ("letter table: all 15 codes x 15 letters x 2 cases (exhaustive); search: random patterns (letters incl. "
        "ambiguity codes, flat groups, greedy/lazy runs of any class, several runs) x random targets as Seq "
        "linear / Seq non-linear / SeqRecord / CircularRecord with random pos/endpos, plus targets built to "
        "contain the pattern across the origin; thorough adds all targets <= 6 over {A,C,G} x a small grammar. "
        "non-trivial = a match is reported; distinct by (pattern, target, mode, range)")
ASSUMPTIONS = ["patterns of the fragment used by moclo: IUPAC letters, non-nested groups, X* / X*? runs",
               "pos >= 0"]


def transcribe(pat):
    """independent transcription from the IUPAC meaning (not from moclo's table)"""
    out = ["(?i)"]
    for t in gen.tokens(pat):
        if t[0] == "open":
            out.append("(")
        elif t[0] == "close":
            out.append(")")
        else:
            cls = gen.IUPAC[t[1]]
            if t[1] == "N":
                cls = "ACGTN"      # the wildcard also accepts the letter N itself
            s = "[" + cls + "]"
            if t[0] == "star":
                s += "*" if t[2] else "*?"
            out.append(s)
    return "".join(out)


def check_lm(ctx):
    n = 0
    for p in "ACGTRYSWKMBDHVN":
        rx = DNARegex(p)
        for x in "ACGT":
            for letter in (x, x.lower()):
                got = rx.search(Seq(letter)) is not None
                exp = x in gen.IUPAC[p]
                n += 1
                case = {"pattern_letter": p, "letter": letter}
                if got != exp:
                    ctx.fail("pattern letter {} {} nucleotide {!r}".format(
                        p, "matches" if got else "does not match", letter), case)
                ctx.case(case, nontrivial=True)
        for x in "ACGTRYSWKMBDHVN":
            for letter in (x, x.lower()):
                ctx.op(("LM", p, letter), {"pattern_letter": p, "letter": letter})
    ctx.note("lettermap-cells", n)


def check_search(ctx, case):
    pat, wd, kind, linear, pos, endpos = (case[k] for k in ("pat", "word", "kind", "linear", "pos", "endpos"))
    n = len(wd)
    circ = (not linear) or kind == "circrec"
    # the same pattern text spelt in lower case may have been compiled earlier in the process (lower-case letters are
    # literals, not codes): one pattern object knows nothing of another
    if ctx.evaluations % 2 == 0:
        try:
            DNARegex(pat.lower())
        except Exception:  # noqa
            pass
    rx = DNARegex(pat)
    kw = {} if endpos is None else {"endpos": endpos}
    m = rx.search(impl.search_target(wd, kind), pos=pos, linear=linear, **kw)
    ref = re.compile(transcribe(pat))
    data = wd * 2 if circ else wd
    hi = min(n, endpos) if endpos is not None else n
    first = None
    for i in range(pos, hi):
        if ref.match(data, i, i + n) is not None:
            first = i
            break
    if (m is None) != (first is None):
        ctx.fail("search({!r}, {!r}, {}, linear={}, pos={}, endpos={}) {} but the leftmost matching start is {}".format(
            pat, wd, kind, linear, pos, endpos, "finds nothing" if m is None else "reports %d" % m.start(), first), case)
    elif m is not None:
        if m.start() != first:
            ctx.fail("search reports start {} but the leftmost start in range is {}".format(m.start(), first), case)
        rm = ref.match(data, first, first + n)
        want = [rm.span(i) for i in range(ref.groups + 1)]
        have = [m.span(i) for i in range(rx.regex.groups + 1)]
        if m.start() == first and have != want:
            ctx.fail("search({!r}, {!r}, {}, linear={}) reports spans {} but the pattern, matched at {} within one "
                     "turn, gives {}".format(pat, wd, kind, linear, have, first, want), case)
        if m.end() - m.start() > n or (not circ and m.end() > n):
            ctx.fail("match [{}, {}) covers more than one turn / runs past a linear end".format(m.start(), m.end()), case)
        for i in range(rx.regex.groups + 1):
            a, b = m.span(i)
            txt = impl.as_str(m.group(i))
            if txt != data[a:b]:
                ctx.fail("group {} of {!r} on {!r} has span ({}, {}) = {!r} but is returned as {!r}".format(
                    i, pat, wd, a, b, data[a:b], txt), case)
                break
    # what group() hands out is the caller's: editing it does not change what the match says next time
    if m is not None and kind in ("rec", "circrec") and n >= 1:
        a0, b0 = m.span(0)
        g0 = m.group(0)
        try:
            g0.seq = impl.Seq("T" * len(g0.seq))
            g0.id = "edited"
        except Exception:  # noqa
            pass
        if impl.as_str(m.group(0)) != data[a0:b0]:
            ctx.fail("after the record returned by group(0) was edited by the caller, group(0) of the same match is {!r} "
                     "instead of {!r}".format(impl.as_str(m.group(0)), data[a0:b0]), case)
    # the same compiled pattern used on another target in between must not change the answer
    if n >= 2:
        def view(mm):
            return None if mm is None else [mm.span(i) for i in range(rx.regex.groups + 1)]
        other = gen.rot(wd, 1 + ctx.rng.randrange(n - 1))
        rx.search(impl.search_target(other, kind), linear=linear)
        rx.search(impl.search_target(wd[::-1], kind), linear=linear)
        again = rx.search(impl.search_target(wd, kind), pos=pos, linear=linear, **kw)
        if view(again) != view(m):
            ctx.fail("the same DNARegex object answers {} for a target it answered {} for before it was used on "
                     "other targets".format(view(again), view(m)), case)
    # one target object searched as linear, as circular, and as linear again (any DNARegex objects in between)
    if n >= 2 and kind != "circrec":
        tgt = impl.search_target(wd, kind)

        def refspan(circular):
            d2 = wd * 2 if circular else wd
            for i2 in range(0, n):
                mm = ref.match(d2, i2, i2 + n)
                if mm is not None:
                    return [mm.span(i3) for i3 in range(ref.groups + 1)]
            return None
        for lin in (True, False, True, False):
            mm = DNARegex(pat).search(tgt, linear=lin)
            got_sp = None if mm is None else [mm.span(i3) for i3 in range(rx.regex.groups + 1)]
            if got_sp != refspan(not lin):
                ctx.fail("the same target object searched with linear={} (after having been searched with the other "
                         "topology) gives {} instead of {}".format(lin, got_sp, refspan(not lin)), case)
                break
    ctx.note("match" if m is not None else "nomatch")
    if m is not None and m.end() > n:
        ctx.note("match-crosses-origin")
    ctx.case(case, nontrivial=m is not None)
    ctx.op(("SEARCH", pat, wd, kind, linear, pos, endpos), case)
    # every fit, not only the reported one (ties the model's enumeration `allFits` to `re`)
    if n <= 10 and pat.count("*") <= 2 and ctx.evaluations % 5 == 0:
        ctx.op(("FITS", pat, wd), case)


def check_extended(ctx, case):
    """patterns using the rest of the regular-expression syntax (`?`, `+`, `{m,n}`), which the transcription hands
    through untouched: outside the Lean model (oracle only) — every IUPAC letter still stands for its set"""
    pat, wd, linear = case["xpat"], case["word"], case["linear"]
    n = len(wd)
    table = dict(gen.IUPAC)
    table["N"] = "ACGTN"
    refrx = re.compile("(?i)" + "".join("[" + table[c] + "]" if c in table else c for c in pat))
    d2 = wd if linear else wd * 2
    want = None
    for i in range(n):
        mm = refrx.match(d2, i, i + n)
        if mm is not None:
            want = [mm.span(j) for j in range(refrx.groups + 1)]
            break
    try:
        m = DNARegex(pat).search(impl.Seq(wd), linear=linear)
    except re.error as e:
        ctx.fail("DNARegex({!r}) cannot be compiled: {}".format(pat, e), case)
        return
    got = None if m is None else [m.span(j) for j in range(refrx.groups + 1)]
    if got != want:
        ctx.fail("DNARegex({!r}).search({!r}, linear={}) gives {} but letter-by-letter transcription gives {}".format(
            pat, wd, linear, got, want), case)
    ctx.note("extended-syntax")
    ctx.case(case, nontrivial=want is not None, key=["x", pat, wd, linear])


def gen_extended(rng):
    items = []
    for _ in range(rng.randint(2, 6)):
        c = rng.choice("ACGTNNNRYSW")
        r = rng.random()
        if r < 0.25:
            c = c * rng.randint(1, 3) + "?"                       # AA?  NN?  W?
        elif r < 0.4:
            c = c + "+"
        elif r < 0.55:
            c = c + "{%d,%d}" % (rng.randint(0, 1), rng.randint(1, 3))
        elif r < 0.65:
            c = "(" + c * rng.randint(1, 2) + ")"
        items.append(c)
    pat = "".join(items)
    table = dict(gen.IUPAC)
    # a target that contains an instance with optional letters sometimes absent
    inst = []
    for it in items:
        core_ = it.strip("()")
        letters = [ch for ch in core_ if ch.isalpha()]
        if core_.endswith("?"):
            letters = letters[:-1] if rng.random() < 0.6 else letters
        elif core_.endswith("+"):
            letters = letters * rng.randint(1, 3)
        elif "{" in core_:
            letters = [core_[0]] * rng.randint(int(core_[2]), int(core_[4]))
        inst += [rng.choice(table[ch]) if ch != "N" else rng.choice("ACGT") for ch in letters]
    wd = "".join(inst) + gen.rnd(rng, rng.randint(0, 5))
    if not wd:
        wd = "A"
    return {"xpat": pat, "word": gen.rot(wd, rng.randrange(len(wd))), "linear": rng.random() < 0.5}


def gen_search(rng):
    pat = gen.random_pattern(rng)
    r = rng.random()
    if r < 0.6:
        # target containing an instance of the pattern at a random rotation
        inst, _ = gen.instantiate(rng, pat, runlen=rng.choice([0, 1, 2, 4]))
        wd = gen.rot(inst + gen.rnd(rng, rng.randint(0, 6)), rng.randint(0, 12))
        if rng.random() < 0.2:
            wd = gen.recase(rng, wd)
    else:
        wd = gen.word(rng, rng.randint(1, 14))
    if not wd:
        wd = "A"
    kind = rng.choice(["seq", "seq", "rec", "circrec"])
    linear = rng.random() < 0.5
    n = len(wd)
    pos = rng.choice([0, 0, 0, rng.randint(0, n)])
    endpos = rng.choice([None, None, None, rng.randint(0, n + 2)])
    return {"pat": pat, "word": wd, "kind": kind, "linear": linear, "pos": pos, "endpos": endpos}


def run(ctx):
    check_lm(ctx)
    for _ in range(ctx.budget(3000, 120000)):
        ctx.guard(check_search, gen_search(ctx.rng))
    for _ in range(ctx.budget(400, 20000)):
        ctx.guard(check_extended, gen_extended(ctx.rng))
    if ctx.tier == "thorough" and ctx.scale == 1:
        pats = ["A", "AC", "A(N)C", "(A)N*C", "(A)N*?C", "N*A", "(N*)(A)", "A*C*?", "(AN)(N*)G", "R(Y*)A"]
        for L in range(1, 7):
            for t in itertools.product("ACG", repeat=L):
                wd = "".join(t)
                for pat in pats:
                    for kind, linear in (("seq", True), ("seq", False), ("circrec", True)):
                        ctx.guard(check_search, {"pat": pat, "word": wd, "kind": kind, "linear": linear, "pos": 0,
                                           "endpos": None})
        ctx.extra["cov_small_grammar_exhaustive"] = "10 patterns x all targets <= 6 over {A,C,G} x 3 modes"


def check_case(ctx, case):
    if "xpat" in case:
        return ctx.guard(check_extended, case)
    if "pat" in case:
        ctx.guard(check_search, case)
    else:
        check_lm(ctx)
